SPECIFICATION MCSpec
CONSTANTS
  Lat = {0, 1, 15, 16, 127, 128, 171, 255}
  Emit = TRUE
INVARIANTS Inv EmitCase
CHECK_DEADLOCK FALSE
