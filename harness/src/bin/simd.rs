//! C17 driver: results do not depend on the component representation.
//!
//! For the 19 colour types ("nodes") of the D65 / sRGB family and the four `wide` component types
//! (f32x4, f32x8, f64x2, f64x4) the existence of every conversion pair and operator is decided at compile
//! time (autoref specialisation, as in ../convlib.rs).  A group of N scalar colours is packed with
//! `From<[Color<T>; N]> for Color<V>`, converted / operated on as ONE SIMD call, unpacked with `Into`, and
//! every lane is compared (by the trace specification, not here) with the scalar call on that lane's input.
//!
//! Commands (NDJSON, `--cmds file`), events (NDJSON, `--out file`):
//!   {"op":"caps"}                                          -> ev "caps"  existence matrices
//!   {"op":"group","fam":F,"from":A,"to":[B..],"lanes":[class..],"pick":k}  inputs built per class (see `make_input`);
//!        "to" absent: every existing target; "pick": k of them chosen by the seeded generator
//!   {"op":"lanes","from":A,"to":[B..],"vt":[..],"in":[[hex f64 x3]..]}   explicit inputs (replay)
//!   {"op":"random","from":A,"to":[B..],"groups":k}         seeded random in-gamut colours
//!        -> ev "lane"  one per lane and (target, vector type)
//!   {"op":"pack","count":k}                                -> ev "pack"
//!   {"op":"mask","count":k}                                -> ev "mask"
//!   {"op":"ops","count":k}                                 -> ev "op"   one per lane
//!   {"op":"prec","from":A,"to":[B..],"count":k}            -> ev "prec" f32 versus f64 scalar
//! Nothing is judged here.  Panics of palette are data.

#![allow(clippy::type_complexity)]
use palette::angle::{AngleEq, RealAngle, SignedAngle, UnsignedAngle};
use palette::blend::{Blend, Compose};
use palette::bool_mask::{BoolMask, HasBoolMask, LazySelect, Select};
use palette::color_difference::{Ciede2000, DeltaE, EuclideanDistance, HyAb, ImprovedCiede2000, ImprovedDeltaE, Wcag21RelativeContrast};
use palette::convert::FromColorUnclamped;
use palette::encoding::{Linear, Srgb as SrgbStd};
use palette::luma::Luma;
use palette::num as pn;
use palette::rgb::Rgb;
use palette::white_point::D65;
use palette::{Alpha, Clamp, ClampAssign, Darken, Desaturate, IsWithinBounds, Lighten, LightenAssign, Mix, MixAssign, Saturate, SaturateAssign, ShiftHue, ShiftHueAssign};
use palette::{Hsl, Hsluv, Hsv, Hwb, Lab, Lch, Lchuv, Luv, Okhsl, Okhsv, Okhwb, Oklab, Oklch, Xyz, Yxy};
use pvh::*;
use serde_json::{json, Value};
use std::marker::PhantomData;
use wide::{f32x4, f32x8, f64x2, f64x4};

// ------------------------------------------------------------------------------------------------ numbers

pub trait Flt: Copy + Default + PartialOrd + 'static {
    const TN: &'static str;
    fn of64(x: f64) -> Self;
    fn to64(self) -> f64;
    fn bits(self) -> String;
    fn of_bits(b: u64) -> Self;
}
impl Flt for f32 {
    const TN: &'static str = "f32";
    fn of64(x: f64) -> f32 { x as f32 }
    fn to64(self) -> f64 { self as f64 }
    fn bits(self) -> String { format!("{:08x}", self.to_bits()) }
    fn of_bits(b: u64) -> f32 { f32::from_bits(b as u32) }
}
impl Flt for f64 {
    const TN: &'static str = "f64";
    fn of64(x: f64) -> f64 { x }
    fn to64(self) -> f64 { self }
    fn bits(self) -> String { format!("{:016x}", self.to_bits()) }
    fn of_bits(b: u64) -> f64 { f64::from_bits(b) }
}

/// a `wide` vector type
pub trait Wd: Copy + 'static {
    type S: Flt;
    const N: usize;
    const VT: &'static str;
    fn from_slice(xs: &[Self::S]) -> Self;
    fn to_vec(self) -> Vec<Self::S>;
}
macro_rules! wd {
    ($($ty:ident, $s:ident, $n:expr);*) => {$(
        impl Wd for $ty {
            type S = $s;
            const N: usize = $n;
            const VT: &'static str = stringify!($ty);
            fn from_slice(xs: &[$s]) -> Self { let a: [$s; $n] = core::array::from_fn(|i| xs[i]); <$ty>::from(a) }
            fn to_vec(self) -> Vec<$s> { self.to_array().to_vec() }
        }
    )*};
}
wd!(f32x4, f32, 4; f32x8, f32, 8; f64x2, f64, 2; f64x4, f64, 4);
type SOf<A> = <<A as SNode>::V as Wd>::S;

// ------------------------------------------------------------------------------------------------ nodes

type NXyz<T> = Xyz<D65, T>;
type NYxy<T> = Yxy<D65, T>;
type NLab<T> = Lab<D65, T>;
type NLch<T> = Lch<D65, T>;
type NLuv<T> = Luv<D65, T>;
type NLchuv<T> = Lchuv<D65, T>;
type NHsluv<T> = Hsluv<D65, T>;
type NOklab<T> = Oklab<T>;
type NOklch<T> = Oklch<T>;
type NOkhsl<T> = Okhsl<T>;
type NOkhsv<T> = Okhsv<T>;
type NOkhwb<T> = Okhwb<T>;
type NLinSrgb<T> = Rgb<Linear<SrgbStd>, T>;
type NSrgb<T> = Rgb<SrgbStd, T>;
type NHsl<T> = Hsl<SrgbStd, T>;
type NHsv<T> = Hsv<SrgbStd, T>;
type NHwb<T> = Hwb<SrgbStd, T>;
type NLinLuma<T> = Luma<Linear<D65>, T>;
type NSrgbLuma<T> = Luma<SrgbStd, T>;

pub const NAMES: [&str; 19] = ["xyz", "yxy", "lab", "lch", "luv", "lchuv", "hsluv", "oklab", "oklch", "okhsl", "okhsv", "okhwb",
    "linsrgb", "srgb", "hsl", "hsv", "hwb", "linluma", "srgbluma"];
fn idx(name: &str) -> usize {
    NAMES.iter().position(|n| *n == name).unwrap_or_else(|| { eprintln!("unknown node {}", name); std::process::exit(3) })
}
fn ncomp(i: usize) -> usize { if i >= 17 { 1 } else { 3 } }

/// scalar colour
pub trait Node: Copy + 'static {
    type T: Flt;
    const NAME: &'static str;
    /// from / to components in declared order, in the component type itself (no cast: bit patterns survive)
    fn of_s(v: &[Self::T; 3]) -> Self;
    fn arr_s(self) -> [Self::T; 3];
    fn of(v: &[f64; 3]) -> Self { Self::of_s(&[<Self::T>::of64(v[0]), <Self::T>::of64(v[1]), <Self::T>::of64(v[2])]) }
    fn arr(self) -> [f64; 3] { let a = self.arr_s(); [a[0].to64(), a[1].to64(), a[2].to64()] }
}
/// SIMD colour
pub trait SNode: Copy + 'static {
    type V: Wd;
    type Sc: Node<T = <Self::V as Wd>::S>;
    fn pack(xs: &[Self::Sc]) -> Self;
    fn unpack(self) -> Vec<Self::Sc>;
    /// component vectors in declared order
    fn comps(self) -> Vec<Self::V>;
    /// pack with transparency, return (component vectors + alpha vector, unpacked again)
    fn alpha_roundtrip(xs: &[Self::Sc], al: &[SOf<Self>]) -> (Vec<Self::V>, Vec<(Self::Sc, SOf<Self>)>);
}

macro_rules! snode_impl {
    ($al:ident, $V:ident, $S:ident, $N:expr, |$c:ident| $comps:expr) => {
        impl SNode for $al<$V> {
            type V = $V;
            type Sc = $al<$S>;
            fn pack(xs: &[$al<$S>]) -> Self { let a: [$al<$S>; $N] = core::array::from_fn(|i| xs[i]); Self::from(a) }
            fn unpack(self) -> Vec<$al<$S>> { let a: [$al<$S>; $N] = self.into(); a.to_vec() }
            fn comps(self) -> Vec<$V> { let $c = self; $comps }
            fn alpha_roundtrip(xs: &[$al<$S>], al: &[$S]) -> (Vec<$V>, Vec<($al<$S>, $S)>) {
                let a: [Alpha<$al<$S>, $S>; $N] = core::array::from_fn(|i| Alpha { color: xs[i], alpha: al[i] });
                let p: Alpha<$al<$V>, $V> = a.into();
                let mut comps = p.color.comps();
                comps.push(p.alpha);
                let back: [Alpha<$al<$S>, $S>; $N] = p.into();
                (comps, back.iter().map(|x| (x.color, x.alpha)).collect())
            }
        }
    };
}
macro_rules! node {
    ($al:ident, $name:expr, |$v:ident| $of:expr, |$c:ident| [$($arr:expr),*]) => {
        node!(@s $al, f32, $name, |$v| $of, |$c| [$($arr),*]);
        node!(@s $al, f64, $name, |$v| $of, |$c| [$($arr),*]);
        snode_impl!($al, f32x4, f32, 4, |$c| vec![$($arr),*]);
        snode_impl!($al, f32x8, f32, 8, |$c| vec![$($arr),*]);
        snode_impl!($al, f64x2, f64, 2, |$c| vec![$($arr),*]);
        snode_impl!($al, f64x4, f64, 4, |$c| vec![$($arr),*]);
    };
    (@s $al:ident, $S:ident, $name:expr, |$v:ident| $of:expr, |$c:ident| [$($arr:expr),*]) => {
        impl Node for $al<$S> {
            type T = $S;
            const NAME: &'static str = $name;
            fn of_s(w: &[$S; 3]) -> Self { let $v: [$S; 3] = *w; $of }
            fn arr_s(self) -> [$S; 3] {
                let $c = self;
                let mut o = [0.0 as $S; 3];
                let mut k = 0;
                $( o[k] = $arr; k += 1; )*
                let _ = k;
                o
            }
        }
    };
}
node!(NXyz, "xyz", |v| Xyz::new(v[0], v[1], v[2]), |c| [c.x, c.y, c.z]);
node!(NYxy, "yxy", |v| Yxy::new(v[0], v[1], v[2]), |c| [c.x, c.y, c.luma]);
node!(NLab, "lab", |v| Lab::new(v[0], v[1], v[2]), |c| [c.l, c.a, c.b]);
node!(NLch, "lch", |v| Lch::new(v[0], v[1], v[2]), |c| [c.l, c.chroma, c.hue.into_inner()]);
node!(NLuv, "luv", |v| Luv::new(v[0], v[1], v[2]), |c| [c.l, c.u, c.v]);
node!(NLchuv, "lchuv", |v| Lchuv::new(v[0], v[1], v[2]), |c| [c.l, c.chroma, c.hue.into_inner()]);
node!(NHsluv, "hsluv", |v| Hsluv::new(v[0], v[1], v[2]), |c| [c.hue.into_inner(), c.saturation, c.l]);
node!(NOklab, "oklab", |v| Oklab::new(v[0], v[1], v[2]), |c| [c.l, c.a, c.b]);
node!(NOklch, "oklch", |v| Oklch::new(v[0], v[1], v[2]), |c| [c.l, c.chroma, c.hue.into_inner()]);
node!(NOkhsl, "okhsl", |v| Okhsl::new(v[0], v[1], v[2]), |c| [c.hue.into_inner(), c.saturation, c.lightness]);
node!(NOkhsv, "okhsv", |v| Okhsv::new(v[0], v[1], v[2]), |c| [c.hue.into_inner(), c.saturation, c.value]);
node!(NOkhwb, "okhwb", |v| Okhwb::new(v[0], v[1], v[2]), |c| [c.hue.into_inner(), c.whiteness, c.blackness]);
node!(NLinSrgb, "linsrgb", |v| Rgb::new(v[0], v[1], v[2]), |c| [c.red, c.green, c.blue]);
node!(NSrgb, "srgb", |v| Rgb::new(v[0], v[1], v[2]), |c| [c.red, c.green, c.blue]);
node!(NHsl, "hsl", |v| Hsl::new(v[0], v[1], v[2]), |c| [c.hue.into_inner(), c.saturation, c.lightness]);
node!(NHsv, "hsv", |v| Hsv::new(v[0], v[1], v[2]), |c| [c.hue.into_inner(), c.saturation, c.value]);
node!(NHwb, "hwb", |v| Hwb::new(v[0], v[1], v[2]), |c| [c.hue.into_inner(), c.whiteness, c.blackness]);
node!(NLinLuma, "linluma", |v| Luma::new(v[0]), |c| [c.luma]);
node!(NSrgbLuma, "srgbluma", |v| Luma::new(v[0]), |c| [c.luma]);

// ------------------------------------------------------------------------------------------------ conversions

pub type Col = [f64; 3];
pub struct LaneRes {
    pub simd: Result<Vec<Col>, String>,
    pub scalar: Vec<Result<Col, String>>,
}
pub type LaneFn = fn(&[Col]) -> LaneRes;
pub type ScFn = fn(&Col) -> Result<Col, String>;

fn lane_conv<A, B>(ins: &[Col]) -> LaneRes
where
    A: SNode,
    B: SNode<V = A::V> + FromColorUnclamped<A>,
    B::Sc: FromColorUnclamped<A::Sc>,
{
    let sc: Vec<A::Sc> = ins.iter().map(<A::Sc as Node>::of).collect();
    let simd = catch(|| {
        let a = A::pack(&sc);
        let b = B::from_color_unclamped(a);
        b.unpack().iter().map(|c| c.arr()).collect::<Vec<Col>>()
    });
    let scalar = sc.iter().map(|&a| catch(|| <B::Sc>::from_color_unclamped(a).arr())).collect();
    LaneRes { simd, scalar }
}
fn sc_conv<A: Node, B: Node + FromColorUnclamped<A>>(v: &Col) -> Result<Col, String> {
    let a = A::of(v);
    catch(|| B::from_color_unclamped(a).arr())
}

// compile-time existence by autoref specialisation
pub struct P<A, B>(PhantomData<(A, B)>);
pub trait Yes { fn get(&self) -> Option<LaneFn>; }
pub trait No { fn get(&self) -> Option<LaneFn> { None } }
impl<A, B> Yes for P<A, B>
where
    A: SNode,
    B: SNode<V = A::V> + FromColorUnclamped<A>,
    B::Sc: FromColorUnclamped<A::Sc>,
{
    fn get(&self) -> Option<LaneFn> { Some(lane_conv::<A, B>) }
}
impl<A, B> No for &P<A, B> {}

pub struct PS<A, B>(PhantomData<(A, B)>);
pub trait SYes { fn get(&self) -> Option<ScFn>; }
pub trait SNo { fn get(&self) -> Option<ScFn> { None } }
impl<A: Node, B: Node + FromColorUnclamped<A>> SYes for PS<A, B> {
    fn get(&self) -> Option<ScFn> { Some(sc_conv::<A, B>) }
}
impl<A, B> SNo for &PS<A, B> {}

macro_rules! row { ($T:ident; $A:ident; [$($B:ident),*]) => { vec![ $( (&P::<$A<$T>, $B<$T>>(PhantomData)).get() ),* ] }; }
macro_rules! srow { ($T:ident; $A:ident; [$($B:ident),*]) => { vec![ $( (&PS::<$A<$T>, $B<$T>>(PhantomData)).get() ),* ] }; }
macro_rules! table { ($T:ident; [$($A:ident),*]; $list:tt) => { vec![ $( row!($T; $A; $list) ),* ] }; }
macro_rules! stable { ($T:ident; [$($A:ident),*]; $list:tt) => { vec![ $( srow!($T; $A; $list) ),* ] }; }
macro_rules! with_nodes {
    ($m:ident, $T:ident) => {
        $m!($T; [NXyz, NYxy, NLab, NLch, NLuv, NLchuv, NHsluv, NOklab, NOklch, NOkhsl, NOkhsv, NOkhwb, NLinSrgb, NSrgb, NHsl, NHsv, NHwb, NLinLuma, NSrgbLuma];
                [NXyz, NYxy, NLab, NLch, NLuv, NLchuv, NHsluv, NOklab, NOklch, NOkhsl, NOkhsv, NOkhwb, NLinSrgb, NSrgb, NHsl, NHsv, NHwb, NLinLuma, NSrgbLuma])
    };
}

pub struct Universe {
    pub vts: Vec<(&'static str, usize, &'static str, Vec<Vec<Option<LaneFn>>>)>, // (vt, lanes, scalar type, table)
    pub s32: Vec<Vec<Option<ScFn>>>,
    pub s64: Vec<Vec<Option<ScFn>>>,
}
#[inline(never)] fn t_f32x4() -> Vec<Vec<Option<LaneFn>>> { with_nodes!(table, f32x4) }
#[inline(never)] fn t_f32x8() -> Vec<Vec<Option<LaneFn>>> { with_nodes!(table, f32x8) }
#[inline(never)] fn t_f64x2() -> Vec<Vec<Option<LaneFn>>> { with_nodes!(table, f64x2) }
#[inline(never)] fn t_f64x4() -> Vec<Vec<Option<LaneFn>>> { with_nodes!(table, f64x4) }
#[inline(never)] fn t_s32() -> Vec<Vec<Option<ScFn>>> { with_nodes!(stable, f32) }
#[inline(never)] fn t_s64() -> Vec<Vec<Option<ScFn>>> { with_nodes!(stable, f64) }
impl Universe {
    pub fn new() -> Universe {
        Universe {
            vts: vec![("f32x4", 4, "f32", t_f32x4()), ("f32x8", 8, "f32", t_f32x8()), ("f64x2", 2, "f64", t_f64x2()), ("f64x4", 4, "f64", t_f64x4())],
            s32: t_s32(),
            s64: t_s64(),
        }
    }
    /// image in Xyz<D65, f64> by the code's direct scalar f64 route
    pub fn hub(&self, node: usize, v: &Col) -> Col {
        if node == 0 { return *v; }
        match self.s64[node][0] { Some(f) => f(v).unwrap_or([f64::NAN; 3]), None => [f64::NAN; 3] }
    }
}

// ------------------------------------------------------------------------------------------------ inputs

fn r32(x: f64) -> f64 { x as f32 as f64 }
fn r32c(c: Col) -> Col { [r32(c[0]), r32(c[1]), r32(c[2])] }
const I_LINSRGB: usize = 12;
const I_SRGB: usize = 13;

pub struct Gen<'a> {
    pub u: &'a Universe,
    pub rng: Sm64,
}
impl<'a> Gen<'a> {
    /// the source-node coordinates (rounded to f32, hence exact in f32 and f64) of an sRGB colour
    fn from_srgb(&self, node: usize, rgb: Col) -> Col {
        if node == I_SRGB { return r32c(rgb); }
        r32c((self.u.s64[I_SRGB][node].expect("srgb -> node"))(&rgb).unwrap_or([0.0; 3]))
    }
    fn from_node(&self, from: usize, node: usize, c: Col) -> Col {
        if node == from { return r32c(c); }
        r32c((self.u.s64[from][node].expect("node -> node"))(&c).unwrap_or([0.0; 3]))
    }
    fn unit(&mut self) -> f64 { self.rng.unit() }
    /// is the colour (coordinates of `node`) inside the sRGB gamut (judged on its linear sRGB image in f64)?
    fn in_gamut(&self, node: usize, c: &Col) -> bool {
        let lin = if node == I_LINSRGB { *c } else { match self.u.s64[node][I_LINSRGB] { Some(f) => f(c).unwrap_or([-1.0; 3]), None => return true } };
        lin.iter().all(|x| *x >= -1e-5 && *x <= 1.0 + 1e-5)
    }
    /// shrink the chroma-like components `ks` until the colour is in gamut
    fn shrink_into_gamut(&self, node: usize, mut c: Col, ks: &[usize]) -> Col {
        let mut n = 0;
        while !self.in_gamut(node, &c) && n < 60 { for &k in ks { c[k] = r32(c[k] * 0.7); } n += 1; }
        c
    }
    /// in-gamut sRGB colour, with a mixture of scales so that dark colours (below the joins of the
    /// piecewise definitions) are as likely as bright ones
    fn srgb_any(&mut self) -> Col {
        let s = *self.rng.pick(&[1.0, 1.0, 1.0, 0.3, 0.1, 0.03]);
        [self.unit() * s, self.unit() * s, self.unit() * s]
    }
    fn srgb_mid(&mut self) -> Col { [self.rng.range(0.15, 0.85), self.rng.range(0.15, 0.85), self.rng.range(0.15, 0.85)] }
    /// random in-gamut colour in the coordinates of `node`
    pub fn random_in(&mut self, node: usize) -> Col {
        let c = self.srgb_any();
        self.from_srgb(node, c)
    }

    /// One input of the abstract class `cls` of family `fam`, in the coordinates of `node`.
    /// Families and classes are those enumerated by spec/mc/MC_Simd.tla (Families).
    pub fn make_input(&mut self, fam: &str, cls: &str, node: usize) -> Col {
        let name = NAMES[node];
        match fam {
            // which channel is the maximum (incl. ties, grey): source srgb / linsrgb
            "rgbmax" => {
                let mut v = [self.rng.range(0.05, 0.95), self.rng.range(0.05, 0.95), self.rng.range(0.05, 0.95)];
                v.sort_by(|a, b| b.partial_cmp(a).unwrap());
                if v[0] == v[1] { v[0] += 0.01 }
                if v[1] == v[2] { v[2] *= 0.5 }
                let (hi, mid, lo) = (r32(v[0]), r32(v[1]), r32(v[2]));
                let flip = self.rng.coin();
                let (p, q) = if flip { (mid, lo) } else { (lo, mid) };
                match cls {
                    "rmax" => [hi, p, q],
                    "gmax" => [p, hi, q],
                    "bmax" => [p, q, hi],
                    "tie_rg" => [hi, hi, lo],
                    "tie_gb" => [lo, hi, hi],
                    "tie_rb" => [hi, lo, hi],
                    "grey" => [mid, mid, mid],
                    "black" => [0.0, 0.0, 0.0],
                    "white" => [1.0, 1.0, 1.0],
                    _ => bad_class(fam, cls),
                }
            }
            // per channel: linear toe (l) or power segment (h) of the transfer function, t = exactly on the threshold
            "rgbtf" => {
                let thr = if name == "srgb" { 0.04045 } else { 0.0031308 };
                let b = cls.as_bytes();
                let mut o = [0.0; 3];
                for k in 0..3 {
                    o[k] = match b[k] {
                        b'l' => r32(self.unit() * thr * 0.98),
                        b'h' => r32(thr * 1.05 + self.unit() * (1.0 - thr * 1.05)),
                        b't' => r32(thr),
                        _ => bad_class(fam, cls),
                    };
                }
                o
            }
            // per channel: X/Xn, Y/Yn, Z/Zn above (a) or below (b) the join (6/29)^3 of f(t); black
            "xyzjoin" | "labjoin" => {
                if cls == "black" { return [0.0; 3]; }
                if cls == "grey0" {
                    // exactly neutral Lab: a = b = 0
                    return [r32(self.rng.range(5.0, 95.0)), 0.0, 0.0];
                }
                let want = cls.as_bytes();
                let eps = (6.0f64 / 29.0).powi(3);
                let wp = [0.95047, 1.0, 1.08883];
                for _ in 0..200000 {
                    let s = *self.rng.pick(&[1.0, 0.1, 0.05, 0.03, 0.015]);
                    let lin = [self.unit() * s, self.unit() * s, self.unit() * s];
                    let xyz = self.from_node(I_LINSRGB, 0, lin);
                    let c = if fam == "xyzjoin" { xyz } else { self.from_node(0, node, xyz) };
                    // classify in the coordinates of the source node itself
                    let t: [f64; 3] = if fam == "xyzjoin" {
                        [c[0] / wp[0], c[1] / wp[1], c[2] / wp[2]]
                    } else {
                        let fy = (c[0] + 16.0) / 116.0;
                        let f = [fy + c[1] / 500.0, fy, fy - c[2] / 200.0];
                        [f[0].powi(3), f[1].powi(3), f[2].powi(3)]
                    };
                    // keep a distance from the join so that f32 and f64 lanes take the same branch
                    let ok = (0..3).all(|k| if want[k] == b'a' { t[k] > eps * 1.02 } else { t[k] < eps * 0.98 });
                    if ok { return c; }
                }
                eprintln!("no in-gamut sample for {} {}", fam, cls);
                std::process::exit(3)
            }
            // polar spaces (lch, oklch, lchuv): zero chroma, tiny chroma, hue quadrants and representations
            "polar" => {
                let rgb = self.srgb_mid();
                let mut c = self.from_srgb(node, rgb);
                let q = |h: f64| -> f64 { let m = h.rem_euclid(360.0); (m / 90.0).floor() };
                match cls {
                    "c0" => [c[0], 0.0, 0.0],
                    "c0h" => [c[0], 0.0, 123.0],
                    "tiny" => [c[0], r32(c[1].max(1e-3) * 1e-6), c[2]],
                    "q1" | "q2" | "q3" | "q4" => {
                        let wantq = (cls.as_bytes()[1] - b'1') as f64;
                        let mut n = 0;
                        while q(c[2]) != wantq && n < 100000 { let rgb = self.srgb_mid(); c = self.from_srgb(node, rgb); n += 1; }
                        [c[0], c[1], r32(c[2].rem_euclid(360.0))]
                    }
                    "hneg" => [c[0], c[1], r32(c[2].rem_euclid(360.0) - 360.0)],
                    "h360" => [c[0], c[1], r32(c[2].rem_euclid(360.0) + 360.0)],
                    "axis" => { let h = *self.rng.pick(&[0.0, 90.0, 180.0, 270.0, 360.0, -90.0, -180.0]); self.shrink_into_gamut(node, [c[0], c[1], h], &[1]) }
                    _ => bad_class(fam, cls),
                }
            }
            // cartesian opponent spaces (lab, luv, oklab): neutral, quadrants, on an axis
            "cart" => {
                let rgb = self.srgb_mid();
                let mut c = self.from_srgb(node, rgb);
                match cls {
                    "grey0" => [c[0], 0.0, 0.0],
                    "black" => [0.0, 0.0, 0.0],
                    "q1" | "q2" | "q3" | "q4" => {
                        let want = match cls { "q1" => (true, true), "q2" => (false, true), "q3" => (false, false), _ => (true, false) };
                        let mut n = 0;
                        while ((c[1] > 0.0, c[2] > 0.0) != want || c[1] == 0.0 || c[2] == 0.0) && n < 100000 {
                            let rgb = self.srgb_mid(); c = self.from_srgb(node, rgb); n += 1;
                        }
                        c
                    }
                    "a0p" | "a0n" => { let m = r32(c[2].abs().max(1e-3)); self.shrink_into_gamut(node, [c[0], 0.0, if cls == "a0p" { m } else { -m }], &[1, 2]) }
                    "b0p" | "b0n" => { let m = r32(c[1].abs().max(1e-3)); self.shrink_into_gamut(node, [c[0], if cls == "b0p" { m } else { -m }, 0.0], &[1, 2]) }
                    "diag" => { let m = r32(c[1].abs().max(1e-3)); self.shrink_into_gamut(node, [c[0], m, m], &[1, 2]) }
                    _ => bad_class(fam, cls),
                }
            }
            "yxy" => {
                let rgb = self.srgb_any();
                let c = self.from_srgb(node, rgb);
                match cls {
                    "norm" => { let rgb = self.srgb_mid(); self.from_srgb(node, rgb) }
                    "dark" => { let rgb = [self.unit() * 0.02, self.unit() * 0.02, self.unit() * 0.02]; self.from_srgb(node, rgb) }
                    "luma0" => [c[0], c[1], 0.0],
                    "y0" => [c[0], 0.0, 0.0],
                    "black" => [0.0, 0.0, 0.0],
                    _ => bad_class(fam, cls),
                }
            }
            // hue sector / representation for the hexcone-like cylinders
            "hexhue" | "hexsv" => {
                let sc = if name == "hsluv" { 100.0 } else { 1.0 };
                let hwb = name == "hwb" || name == "okhwb";
                let mut h = r32(self.rng.range(0.0, 360.0));
                let (mut a, mut b) = (self.rng.range(0.15, 0.85), self.rng.range(0.15, 0.85));
                if hwb && a + b > 0.9 { a *= 0.45; b *= 0.45; }
                if fam == "hexhue" {
                    h = match cls {
                        "s0" | "s1" | "s2" | "s3" | "s4" | "s5" => {
                            let k = (cls.as_bytes()[1] - b'0') as f64;
                            r32(60.0 * k + self.rng.range(1.0, 59.0))
                        }
                        "b0" => 0.0, "b60" => 60.0, "b120" => 120.0, "b180" => 180.0, "b240" => 240.0, "b300" => 300.0,
                        "h360" => 360.0,
                        "hneg" => r32(-self.rng.range(1.0, 359.0)),
                        "hbig" => r32(360.0 + self.rng.range(1.0, 359.0)),
                        _ => bad_class(fam, cls),
                    };
                } else {
                    // (saturation-like, value/lightness-like); for HWB (whiteness, blackness)
                    let (x, y) = match (cls, hwb) {
                        ("grey", false) => (0.0, b), ("grey", true) => (a, 1.0 - r32(a)),
                        ("black", false) => (a, 0.0), ("black", true) => (0.0, 1.0),
                        ("white", false) => (0.0, 1.0), ("white", true) => (1.0, 0.0),
                        ("full", false) => (1.0, if name == "hsl" || name == "okhsl" || name == "hsluv" { 0.5 } else { 1.0 }), ("full", true) => (0.0, 0.0),
                        ("lo", false) => (a, b * 0.5), ("lo", true) => (a * 0.5, 0.5 + b * 0.5),
                        ("hi", false) => (a, 0.5 + b * 0.5), ("hi", true) => (0.5 + a * 0.4, b * 0.1),
                        ("half", false) => (a, 0.5), ("half", true) => (0.25, 0.25),
                        ("norm", _) => (a, b),
                        _ => bad_class(fam, cls),
                    };
                    a = x; b = y;
                }
                [h, r32(a * sc), r32(b * sc)]
            }
            "luma" => {
                let thr = if name == "srgbluma" { 0.04045 } else { 0.0031308 };
                let l = match cls {
                    "black" => 0.0,
                    "white" => 1.0,
                    "low" => r32(self.unit() * thr * 0.98),
                    "high" => r32(thr * 1.05 + self.unit() * (1.0 - thr * 1.05)),
                    "thr" => r32(thr),
                    _ => bad_class(fam, cls),
                };
                [l, 0.0, 0.0]
            }
            _ => bad_class(fam, cls),
        }
    }
}
/// `k` of the targets (all when k = 0), chosen by the seeded generator
fn sample_targets(rng: &mut Sm64, tos: &[usize], k: usize) -> Vec<usize> {
    if k == 0 || k >= tos.len() { return tos.to_vec(); }
    let mut v = tos.to_vec();
    for i in 0..k { let j = i + rng.below((v.len() - i) as u64) as usize; v.swap(i, j); }
    v.truncate(k);
    v
}
fn bad_class<R>(fam: &str, cls: &str) -> R {
    eprintln!("unknown class {} of family {}", cls, fam);
    std::process::exit(3)
}

// ------------------------------------------------------------------------------------------------ events

fn exc(c: &Col, n: usize) -> Value { Value::Array(c[..n].iter().map(|x| ex64(*x)).collect()) }
fn exv(c: &[f64]) -> Value { Value::Array(c.iter().map(|x| ex64(*x)).collect()) }
fn hexf(s: &str) -> f64 { f64::from_bits(u64::from_str_radix(s, 16).expect("hex f64")) }
fn strs(v: &Value) -> Vec<String> { v.as_array().map(|a| a.iter().map(|x| x.as_str().unwrap().to_string()).collect()).unwrap_or_default() }

pub struct Drv<'a> {
    pub u: &'a Universe,
    pub rec: Rec,
    pub gid: u64,
}
impl<'a> Drv<'a> {
    /// one SIMD call + N scalar calls per (target, vector type); one "lane" event per lane
    fn lanes(&mut self, fam: &str, classes: &[String], from: usize, tos: &[usize], vts: &[String], ins: &[Col]) {
        for (vt, n, t, table) in &self.u.vts {
            if *n != ins.len() || (!vts.is_empty() && !vts.iter().any(|v| v == vt)) { continue; }
            for &to in tos {
                let f = match table[from][to] { Some(f) => f, None => continue };
                self.gid += 1;
                let r = f(ins);
                let nf = ncomp(from);
                let nt = ncomp(to);
                for i in 0..*n {
                    let sp = r.simd.is_err() as u8;
                    let cp = r.scalar[i].is_err() as u8;
                    let so = r.simd.as_ref().map(|v| v[i]).unwrap_or([0.0; 3]);
                    let co = *r.scalar[i].as_ref().unwrap_or(&[0.0; 3]);
                    self.rec.ev(json!({"ev": "lane", "gid": self.gid, "fam": fam, "cls": classes.get(i).map(|s| s.as_str()).unwrap_or(""),
                        "from": NAMES[from], "to": NAMES[to], "vt": vt, "t": t, "n": n, "lane": i,
                        "in": exc(&ins[i], nf), "simd": exc(&so, nt), "scalar": exc(&co, nt),
                        "hs": exc(&self.u.hub(to, &so), 3), "hc": exc(&self.u.hub(to, &co), 3), "sp": sp, "cp": cp}));
                }
            }
        }
    }
    fn caps(&mut self) {
        let m = |t: &Vec<Vec<Option<LaneFn>>>| -> Value { json!(t.iter().map(|r| r.iter().map(|f| f.is_some() as u8).collect::<Vec<u8>>()).collect::<Vec<_>>()) };
        let ms = |t: &Vec<Vec<Option<ScFn>>>| -> Value { json!(t.iter().map(|r| r.iter().map(|f| f.is_some() as u8).collect::<Vec<u8>>()).collect::<Vec<_>>()) };
        let mut conv = serde_json::Map::new();
        for (vt, _, _, table) in &self.u.vts { conv.insert(vt.to_string(), m(table)); }
        self.rec.ev(json!({"ev": "caps", "names": NAMES, "conv": conv, "s32": ms(&self.u.s32), "s64": ms(&self.u.s64), "ops": op_caps()}));
    }
}

// ------------------------------------------------------------------------------------------------ packing

fn special_bits<S: Flt>(rng: &mut Sm64) -> S {
    // any bit pattern must survive packing: zeros of both signs, subnormals, infinities, NaNs with payload, ordinary values
    let wide64 = S::TN == "f64";
    let pats32: [u64; 10] = [0, 0x8000_0000, 1, 0x8000_0001, 0x7f80_0000, 0xff80_0000, 0x7fc0_0000, 0xffc1_2345, 0x3f80_0000, 0x7f7f_ffff];
    let pats64: [u64; 10] = [0, 0x8000_0000_0000_0000, 1, 0x8000_0000_0000_0001, 0x7ff0_0000_0000_0000, 0xfff0_0000_0000_0000,
        0x7ff8_0000_0000_0000, 0xfff8_0012_3456_789a, 0x3ff0_0000_0000_0000, 0x7fef_ffff_ffff_ffff];
    match rng.below(3) {
        0 => S::of_bits(if wide64 { *rng.pick(&pats64) } else { *rng.pick(&pats32) }),
        1 => S::of_bits(if wide64 { rng.next() } else { rng.next() & 0xffff_ffff }),
        _ => S::of64(rng.range(-2.0, 400.0)),
    }
}

pub type PackFn = fn(&mut Sm64, bool) -> Value;
fn pack_event<A: SNode>(rng: &mut Sm64, alpha: bool) -> Value {
    let n = <A::V as Wd>::N;
    let nc = if <A::Sc as Node>::NAME.ends_with("luma") { 1 } else { 3 };
    // scalar colours from raw bit patterns: build through `of` (f64 -> S is exact for values that came from S)
    let vals: Vec<Vec<SOf<A>>> = (0..n).map(|_| (0..3).map(|_| special_bits::<SOf<A>>(rng)).collect()).collect();
    let al: Vec<SOf<A>> = (0..n).map(|_| special_bits::<SOf<A>>(rng)).collect();
    // NaN payloads do not survive an f64 round trip in general: components are written in their own type
    let sc: Vec<A::Sc> = vals.iter().map(|v| <A::Sc as Node>::of_s(&[v[0], v[1], v[2]])).collect();
    let bits_of = |c: &A::Sc| -> Vec<String> { let a = c.arr_s(); (0..nc).map(|k| a[k].bits()).collect() };
    let inb: Vec<Vec<String>> = sc.iter().enumerate().map(|(i, c)| { let mut b = bits_of(c); if alpha { b.push(al[i].bits()); } b }).collect();
    let r = catch(|| {
        if alpha {
            let (comps, back) = A::alpha_roundtrip(&sc, &al);
            let cb: Vec<Vec<String>> = comps.iter().map(|v| v.to_vec().iter().map(|x| x.bits()).collect()).collect();
            let bb: Vec<Vec<String>> = back.iter().map(|(c, a)| { let mut b = bits_of(c); b.push(a.bits()); b }).collect();
            (cb, bb)
        } else {
            let p = A::pack(&sc);
            let cb: Vec<Vec<String>> = p.comps().iter().map(|v| v.to_vec().iter().map(|x| x.bits()).collect()).collect();
            let bb: Vec<Vec<String>> = p.unpack().iter().map(bits_of).collect();
            (cb, bb)
        }
    });
    let (cb, bb, panic) = match r { Ok((c, b)) => (c, b, 0), Err(_) => (vec![], vec![], 1) };
    json!({"ev": "pack", "node": <A::Sc as Node>::NAME, "vt": <A::V as Wd>::VT, "t": <SOf<A>>::TN, "n": n, "alpha": alpha as u8,
           "in": inb, "comps": cb, "back": bb, "panic": panic})
}
/// premultiplied colours: [PreAlpha<C<S>>; N] -> PreAlpha<C<V>> -> [PreAlpha<C<S>>; N], recorded like the Alpha form
fn prealpha_pack_events(rng: &mut Sm64, rec: &mut Rec) {
    use palette::blend::PreAlpha;
    macro_rules! one {
        ($name:expr, $C:ident, $V:ident, $S:ident, $N:expr, |$c:ident| [$($f:expr),*], |$w:ident| $mk:expr) => {{
            let vals: Vec<[$S; 4]> = (0..$N).map(|_| [special_bits::<$S>(rng), special_bits::<$S>(rng), special_bits::<$S>(rng), special_bits::<$S>(rng)]).collect();
            let inb: Vec<Vec<String>> = vals.iter().map(|v| v.iter().map(|x| x.bits()).collect()).collect();
            let r = catch(|| {
                let a: [PreAlpha<$C<$S>>; $N] = core::array::from_fn(|i| { let $w = vals[i]; PreAlpha { color: $mk, alpha: $w[3] } });
                let p: PreAlpha<$C<$V>> = a.into();
                let comps: Vec<$V> = { let $c = p.color; vec![$($f),*, p.alpha] };
                let cb: Vec<Vec<String>> = comps.iter().map(|v| v.to_vec().iter().map(|x| x.bits()).collect()).collect();
                let back: [PreAlpha<$C<$S>>; $N] = p.into();
                let bb: Vec<Vec<String>> = back.iter().map(|x| { let $c = x.color; let mut b: Vec<String> = vec![$($f.bits()),*]; b.push(x.alpha.bits()); b }).collect();
                (cb, bb)
            });
            let (cb, bb, panic) = match r { Ok((c, b)) => (c, b, 0), Err(_) => (vec![], vec![], 1) };
            rec.ev(json!({"ev": "pack", "node": $name, "vt": stringify!($V), "t": stringify!($S), "n": $N, "alpha": 1, "wrap": "prealpha",
                          "in": inb, "comps": cb, "back": bb, "panic": panic}));
        }};
    }
    type LinSrgb<T> = Rgb<Linear<SrgbStd>, T>;
    type XyzD<T> = Xyz<D65, T>;
    macro_rules! all_v { ($name:expr, $C:ident, |$c:ident| [$($f:expr),*], |$w:ident| $mk:expr) => {
        one!($name, $C, f32x4, f32, 4, |$c| [$($f),*], |$w| $mk); one!($name, $C, f32x8, f32, 8, |$c| [$($f),*], |$w| $mk);
        one!($name, $C, f64x2, f64, 2, |$c| [$($f),*], |$w| $mk); one!($name, $C, f64x4, f64, 4, |$c| [$($f),*], |$w| $mk);
    }; }
    all_v!("linsrgb", LinSrgb, |c| [c.red, c.green, c.blue], |w| LinSrgb::new(w[0], w[1], w[2]));
    all_v!("xyz", XyzD, |c| [c.x, c.y, c.z], |w| XyzD::new(w[0], w[1], w[2]));
    all_v!("oklab", Oklab, |c| [c.l, c.a, c.b], |w| Oklab::new(w[0], w[1], w[2]));
}

macro_rules! pack_row { ($T:ident; [$($A:ident),*]; $list:tt) => { vec![ $( pack_event::<$A<$T>> as PackFn ),* ] }; }
fn pack_fns() -> Vec<Vec<PackFn>> {
    vec![with_nodes!(pack_row, f32x4), with_nodes!(pack_row, f32x8), with_nodes!(pack_row, f64x2), with_nodes!(pack_row, f64x4)]
}

// ------------------------------------------------------------------------------------------------ masks

pub trait WdMask: Wd + HasBoolMask<Mask = Self> + pn::PartialCmp + BoolMask + Select<Self> + LazySelect<Self>
    + core::ops::BitAnd<Output = Self> + core::ops::BitOr<Output = Self> + core::ops::BitXor<Output = Self> + core::ops::Not<Output = Self>
where Self::S: pn::PartialCmp + HasBoolMask<Mask = bool> {}
impl WdMask for f32x4 {}
impl WdMask for f32x8 {}
impl WdMask for f64x2 {}
impl WdMask for f64x4 {}

fn mask_value<S: Flt>(rng: &mut Sm64) -> S {
    let pool = [0.0, -0.0, 1.0, -1.0, 0.5, 0.25, 1e-30, -1e-30, f64::INFINITY, f64::NEG_INFINITY, f64::NAN, 0.04045, 360.0, 180.0, 2.0, 0.0031308];
    if rng.below(4) == 0 { S::of64(rng.range(-1.0, 2.0)) } else { S::of64(*rng.pick(&pool)) }
}
fn vbits<V: Wd>(v: V) -> Vec<String> { v.to_vec().iter().map(|x| x.bits()).collect() }
fn vex<V: Wd>(v: V) -> Value { Value::Array(v.to_vec().iter().map(|x| ex64(x.to64())).collect()) }

pub type MaskFn = fn(&mut Sm64, &mut Rec);
fn mask_events<V: WdMask>(rng: &mut Sm64, rec: &mut Rec)
where V::S: pn::PartialCmp + HasBoolMask<Mask = bool> {
    use pn::PartialCmp as PC;
    let n = V::N;
    let mk = |rng: &mut Sm64| -> (Vec<V::S>, V) { let a: Vec<V::S> = (0..n).map(|_| mask_value::<V::S>(rng)).collect(); let v = V::from_slice(&a); (a, v) };
    let (sa, a) = mk(rng);
    let (mut sb, _) = mk(rng);
    for k in 0..n { if rng.below(3) == 0 { sb[k] = sa[k]; } }       // many ties
    let b = V::from_slice(&sb);
    let base = |op: &str| json!({"ev": "mask", "op": op, "vt": V::VT, "t": <V::S>::TN, "n": n, "a": vex(a), "b": vex(b), "abits": vbits(a), "bbits": vbits(b),
                                 "m1": [], "m2": [], "out": [], "sm": [], "sv": [], "flag": -1, "panic": 0});
    // comparisons
    let cmps: [(&str, fn(&V, &V) -> V, fn(&V::S, &V::S) -> bool); 6] = [
        ("lt", |x, y| PC::lt(x, y), |x, y| PC::lt(x, y)), ("lt_eq", |x, y| PC::lt_eq(x, y), |x, y| PC::lt_eq(x, y)),
        ("eq", |x, y| PC::eq(x, y), |x, y| PC::eq(x, y)), ("neq", |x, y| PC::neq(x, y), |x, y| PC::neq(x, y)),
        ("gt_eq", |x, y| PC::gt_eq(x, y), |x, y| PC::gt_eq(x, y)), ("gt", |x, y| PC::gt(x, y), |x, y| PC::gt(x, y))];
    for (name, fv, fs) in cmps.iter() {
        let mut e = base(name);
        match catch(|| fv(&a, &b)) {
            Ok(m) => { e["out"] = json!(vbits(m)); }
            Err(_) => { e["panic"] = json!(1); }
        }
        e["sm"] = json!((0..n).map(|k| fs(&sa[k], &sb[k]) as u8).collect::<Vec<u8>>());
        rec.ev(e);
    }
    // masks made by comparisons (well-formed), then select / lazy_select / bit operations / reductions
    let (sx, x) = mk(rng);
    let (sy, y) = mk(rng);
    let m1 = PC::lt(&x, &y);
    let m2 = PC::gt_eq(&a, &b);
    let b1: Vec<u8> = (0..n).map(|k| PC::lt(&sx[k], &sy[k]) as u8).collect();
    let b2: Vec<u8> = (0..n).map(|k| PC::gt_eq(&sa[k], &sb[k]) as u8).collect();
    for name in ["select", "lazy_select"] {
        let mut e = base(name);
        e["m1"] = json!(b1);
        let r = catch(|| if name == "select" { Select::select(m1, a, b) } else { LazySelect::lazy_select(m1, || a, || b) });
        match r { Ok(v) => { e["out"] = json!(vbits(v)); } Err(_) => { e["panic"] = json!(1); } }
        e["sv"] = json!((0..n).map(|k| {
            let mb = b1[k] == 1;
            if name == "select" { Select::select(mb, sa[k], sb[k]).bits() } else { LazySelect::lazy_select(mb, || sa[k], || sb[k]).bits() }
        }).collect::<Vec<String>>());
        rec.ev(e);
    }
    for name in ["and", "or", "xor", "not"] {
        let mut e = base(name);
        e["m1"] = json!(b1); e["m2"] = json!(b2);
        let r = catch(|| match name { "and" => m1 & m2, "or" => m1 | m2, "xor" => m1 ^ m2, _ => !m1 });
        match r { Ok(v) => { e["out"] = json!(vbits(v)); } Err(_) => { e["panic"] = json!(1); } }
        e["sm"] = json!((0..n).map(|k| { let (p, q) = (b1[k] == 1, b2[k] == 1); (match name { "and" => p & q, "or" => p | q, "xor" => p ^ q, _ => !p }) as u8 }).collect::<Vec<u8>>());
        rec.ev(e);
    }
    // reductions on: the comparison mask, all-true, all-false
    for (tag, m, bs) in [("cmp", m1, b1.clone()), ("true", <V as BoolMask>::from_bool(true), vec![1u8; n]), ("false", <V as BoolMask>::from_bool(false), vec![0u8; n])] {
        for name in ["is_true", "is_false"] {
            let mut e = base(name);
            e["m1"] = json!(bs);
            e["out"] = json!(vbits(m));
            e["flag"] = json!(if name == "is_true" { m.is_true() } else { m.is_false() } as u8);
            e["src"] = json!(tag);
            rec.ev(e);
        }
    }
}
fn mask_fns() -> Vec<MaskFn> { vec![mask_events::<f32x4>, mask_events::<f32x8>, mask_events::<f64x2>, mask_events::<f64x4>] }

// ------------------------------------------------------------------------------------------------ operators

pub struct OpIn<'a> { pub which: &'a str, pub a: &'a [Col], pub b: &'a [Col], pub f: &'a [f64], pub g: &'a [f64] }
pub struct OpOut {
    pub kind: &'static str,                       // "colour" (own coordinates, possibly + alpha), "num", "mask"
    pub simd: Result<(Vec<Vec<f64>>, Vec<String>), String>,   // per lane values, and for masks the lane bit patterns
    pub scalar: Vec<Result<Vec<f64>, String>>,
}
pub type OpFn = fn(&OpIn) -> Option<OpOut>;

fn col<N: Node>(c: N) -> Vec<f64> { let n = if N::NAME.ends_with("luma") { 1 } else { 3 }; c.arr()[..n].to_vec() }
fn cola<N: Node>(c: N, a: N::T) -> Vec<f64> { let mut v = col(c); v.push(a.to64()); v }
fn lanes_c<A: SNode>(c: A) -> (Vec<Vec<f64>>, Vec<String>) { (c.unpack().iter().map(|x| col(*x)).collect(), vec![]) }
fn lanes_ca<A: SNode>(c: A, al: A::V) -> (Vec<Vec<f64>>, Vec<String>) {
    let a = al.to_vec();
    (c.unpack().iter().enumerate().map(|(i, x)| cola(*x, a[i])).collect(), vec![])
}
fn lanes_v<V: Wd>(v: V) -> (Vec<Vec<f64>>, Vec<String>) { (v.to_vec().iter().map(|x| vec![x.to64()]).collect(), vec![]) }
fn lanes_m<V: Wd>(m: V) -> (Vec<Vec<f64>>, Vec<String>) {
    let b = vbits(m);
    (b.iter().map(|s| vec![if s.bytes().all(|c| c == b'f') { 1.0 } else { 0.0 }]).collect(), b)
}
fn bnum(b: bool) -> Vec<f64> { vec![b as u8 as f64] }

fn run<A: SNode>(i: &OpIn, kind: &'static str,
                 fs: impl Fn(A, A, A::V, A::V) -> (Vec<Vec<f64>>, Vec<String>),
                 fc: impl Fn(A::Sc, A::Sc, SOf<A>, SOf<A>) -> Vec<f64>) -> OpOut {
    let n = i.a.len();
    let sa: Vec<A::Sc> = i.a.iter().map(<A::Sc as Node>::of).collect();
    let sb: Vec<A::Sc> = if i.b.is_empty() { sa.clone() } else { i.b.iter().map(<A::Sc as Node>::of).collect() };
    let f: Vec<SOf<A>> = (0..n).map(|k| <SOf<A>>::of64(i.f.get(k).copied().unwrap_or(0.0))).collect();
    let g: Vec<SOf<A>> = (0..n).map(|k| <SOf<A>>::of64(i.g.get(k).copied().unwrap_or(0.0))).collect();
    let simd = catch(|| fs(A::pack(&sa), A::pack(&sb), <A::V>::from_slice(&f), <A::V>::from_slice(&g)));
    let scalar = (0..n).map(|k| catch(|| fc(sa[k], sb[k], f[k], g[k]))).collect();
    OpOut { kind, simd, scalar }
}

macro_rules! opcap {
    ($P:ident, $Y:ident, $N:ident, $f:ident, { $($bounds:tt)* }) => {
        pub struct $P<A>(PhantomData<A>);
        pub trait $Y { fn get(&self) -> Option<OpFn>; }
        pub trait $N { fn get(&self) -> Option<OpFn> { None } }
        impl<A> $Y for $P<A> where $($bounds)* { fn get(&self) -> Option<OpFn> { Some($f::<A>) } }
        impl<A> $N for &$P<A> {}
    };
}
// one generic function per trait; `which` selects the method
macro_rules! opfn {
    ($f:ident, { $($bounds:tt)* }, |$i:ident| { $($which:pat => $body:expr),* $(,)? }) => {
        fn $f<A>($i: &OpIn) -> Option<OpOut> where $($bounds)* {
            match $i.which { $($which => Some($body),)* _ => None }
        }
    };
}
type VOf<A> = <A as SNode>::V;
type ScOf<A> = <A as SNode>::Sc;

opfn!(op_mix, { A: SNode + Mix<Scalar = VOf<A>>, ScOf<A>: Mix<Scalar = SOf<A>> }, |i| {
    "mix" => run::<A>(i, "colour", |a, b, f, _| lanes_c(a.mix(b, f)), |a, b, f, _| col(a.mix(b, f))) });
opfn!(op_lighten, { A: SNode + Lighten<Scalar = VOf<A>>, ScOf<A>: Lighten<Scalar = SOf<A>> }, |i| {
    "lighten" => run::<A>(i, "colour", |a, _, f, _| lanes_c(a.lighten(f)), |a, _, f, _| col(a.lighten(f))),
    "lighten_fixed" => run::<A>(i, "colour", |a, _, f, _| lanes_c(a.lighten_fixed(f)), |a, _, f, _| col(a.lighten_fixed(f))) });
opfn!(op_darken, { A: SNode + Darken<Scalar = VOf<A>>, ScOf<A>: Darken<Scalar = SOf<A>> }, |i| {
    "darken" => run::<A>(i, "colour", |a, _, f, _| lanes_c(a.darken(f)), |a, _, f, _| col(a.darken(f))),
    "darken_fixed" => run::<A>(i, "colour", |a, _, f, _| lanes_c(a.darken_fixed(f)), |a, _, f, _| col(a.darken_fixed(f))) });
opfn!(op_saturate, { A: SNode + Saturate<Scalar = VOf<A>>, ScOf<A>: Saturate<Scalar = SOf<A>> }, |i| {
    "saturate" => run::<A>(i, "colour", |a, _, f, _| lanes_c(a.saturate(f)), |a, _, f, _| col(a.saturate(f))),
    "saturate_fixed" => run::<A>(i, "colour", |a, _, f, _| lanes_c(a.saturate_fixed(f)), |a, _, f, _| col(a.saturate_fixed(f))) });
opfn!(op_desaturate, { A: SNode + Desaturate<Scalar = VOf<A>>, ScOf<A>: Desaturate<Scalar = SOf<A>> }, |i| {
    "desaturate" => run::<A>(i, "colour", |a, _, f, _| lanes_c(a.desaturate(f)), |a, _, f, _| col(a.desaturate(f))),
    "desaturate_fixed" => run::<A>(i, "colour", |a, _, f, _| lanes_c(a.desaturate_fixed(f)), |a, _, f, _| col(a.desaturate_fixed(f))) });
opfn!(op_shift_hue, { A: SNode + ShiftHue<Scalar = VOf<A>>, ScOf<A>: ShiftHue<Scalar = SOf<A>> }, |i| {
    "shift_hue" => run::<A>(i, "colour", |a, _, f, _| lanes_c(a.shift_hue(f)), |a, _, f, _| col(a.shift_hue(f))) });
opfn!(op_clamp, { A: SNode + Clamp, ScOf<A>: Clamp }, |i| {
    "clamp" => run::<A>(i, "colour", |a, _, _, _| lanes_c(a.clamp()), |a, _, _, _| col(a.clamp())) });
// the assigning forms (in place on the SIMD colour / on each scalar colour)
opfn!(op_clamp_assign, { A: SNode + ClampAssign, ScOf<A>: ClampAssign }, |i| {
    "clamp_assign" => run::<A>(i, "colour", |a, _, _, _| { let mut x = a; x.clamp_assign(); lanes_c(x) }, |a, _, _, _| { let mut x = a; x.clamp_assign(); col(x) }) });
opfn!(op_mix_assign, { A: SNode + MixAssign<Scalar = VOf<A>>, ScOf<A>: MixAssign<Scalar = SOf<A>> }, |i| {
    "mix_assign" => run::<A>(i, "colour", |a, b, f, _| { let mut x = a; x.mix_assign(b, f); lanes_c(x) }, |a, b, f, _| { let mut x = a; x.mix_assign(b, f); col(x) }) });
opfn!(op_lighten_assign, { A: SNode + LightenAssign<Scalar = VOf<A>>, ScOf<A>: LightenAssign<Scalar = SOf<A>> }, |i| {
    "lighten_assign" => run::<A>(i, "colour", |a, _, f, _| { let mut x = a; x.lighten_assign(f); lanes_c(x) }, |a, _, f, _| { let mut x = a; x.lighten_assign(f); col(x) }),
    "lighten_fixed_assign" => run::<A>(i, "colour", |a, _, f, _| { let mut x = a; x.lighten_fixed_assign(f); lanes_c(x) }, |a, _, f, _| { let mut x = a; x.lighten_fixed_assign(f); col(x) }) });
opfn!(op_saturate_assign, { A: SNode + SaturateAssign<Scalar = VOf<A>>, ScOf<A>: SaturateAssign<Scalar = SOf<A>> }, |i| {
    "saturate_assign" => run::<A>(i, "colour", |a, _, f, _| { let mut x = a; x.saturate_assign(f); lanes_c(x) }, |a, _, f, _| { let mut x = a; x.saturate_assign(f); col(x) }),
    "saturate_fixed_assign" => run::<A>(i, "colour", |a, _, f, _| { let mut x = a; x.saturate_fixed_assign(f); lanes_c(x) }, |a, _, f, _| { let mut x = a; x.saturate_fixed_assign(f); col(x) }) });
opfn!(op_shift_hue_assign, { A: SNode + ShiftHueAssign<Scalar = VOf<A>>, ScOf<A>: ShiftHueAssign<Scalar = SOf<A>> }, |i| {
    "shift_hue_assign" => run::<A>(i, "colour", |a, _, f, _| { let mut x = a; x.shift_hue_assign(f); lanes_c(x) }, |a, _, f, _| { let mut x = a; x.shift_hue_assign(f); col(x) }) });
opfn!(op_within, { A: SNode + IsWithinBounds<Mask = VOf<A>>, ScOf<A>: IsWithinBounds<Mask = bool> }, |i| {
    "is_within_bounds" => run::<A>(i, "mask", |a, _, _, _| lanes_m(a.is_within_bounds()), |a, _, _, _| bnum(a.is_within_bounds())) });
opfn!(op_arith_cc, { A: SNode + core::ops::Add<Output = A> + core::ops::Sub<Output = A>, ScOf<A>: core::ops::Add<Output = ScOf<A>> + core::ops::Sub<Output = ScOf<A>> }, |i| {
    "add" => run::<A>(i, "colour", |a, b, _, _| lanes_c(a + b), |a, b, _, _| col(a + b)),
    "sub" => run::<A>(i, "colour", |a, b, _, _| lanes_c(a - b), |a, b, _, _| col(a - b)) });
opfn!(op_arith_cs, { A: SNode + core::ops::Add<VOf<A>, Output = A> + core::ops::Sub<VOf<A>, Output = A> + core::ops::Mul<VOf<A>, Output = A> + core::ops::Div<VOf<A>, Output = A>,
                     ScOf<A>: core::ops::Add<SOf<A>, Output = ScOf<A>> + core::ops::Sub<SOf<A>, Output = ScOf<A>> + core::ops::Mul<SOf<A>, Output = ScOf<A>> + core::ops::Div<SOf<A>, Output = ScOf<A>> }, |i| {
    "add_s" => run::<A>(i, "colour", |a, _, f, _| lanes_c(a + f), |a, _, f, _| col(a + f)),
    "sub_s" => run::<A>(i, "colour", |a, _, f, _| lanes_c(a - f), |a, _, f, _| col(a - f)),
    "mul_s" => run::<A>(i, "colour", |a, _, f, _| lanes_c(a * f), |a, _, f, _| col(a * f)),
    "div_s" => run::<A>(i, "colour", |a, _, _, g| lanes_c(a / g), |a, _, _, g| col(a / g)) });
opfn!(op_arith_mul, { A: SNode + core::ops::Mul<Output = A> + core::ops::Div<Output = A>, ScOf<A>: core::ops::Mul<Output = ScOf<A>> + core::ops::Div<Output = ScOf<A>> }, |i| {
    "mul" => run::<A>(i, "colour", |a, b, _, _| lanes_c(a * b), |a, b, _, _| col(a * b)),
    "div" => run::<A>(i, "colour", |a, b, _, _| lanes_c(a / b), |a, b, _, _| col(a / b)) });

macro_rules! blend_arms {
    ($i:ident, $A:ident, $($name:expr => $m:ident),*) => {
        match $i.which {
            $( $name => Some(run::<$A>($i, "colour",
                |a, b, f, g| { let r = Alpha { color: a, alpha: f }.$m(Alpha { color: b, alpha: g }); lanes_ca(r.color, r.alpha) },
                |a, b, f, g| { let r = Alpha { color: a, alpha: f }.$m(Alpha { color: b, alpha: g }); cola(r.color, r.alpha) })), )*
            _ => None,
        }
    };
}
fn op_blend<A>(i: &OpIn) -> Option<OpOut>
where A: SNode, Alpha<A, VOf<A>>: Blend, Alpha<ScOf<A>, SOf<A>>: Blend {
    blend_arms!(i, A, "b_multiply" => multiply, "b_screen" => screen, "b_overlay" => overlay, "b_darken" => darken, "b_lighten" => lighten,
                "b_dodge" => dodge, "b_burn" => burn, "b_hard_light" => hard_light, "b_soft_light" => soft_light, "b_difference" => difference,
                "b_exclusion" => exclusion)
}
fn op_compose<A>(i: &OpIn) -> Option<OpOut>
where A: SNode, Alpha<A, VOf<A>>: Compose, Alpha<ScOf<A>, SOf<A>>: Compose {
    blend_arms!(i, A, "c_over" => over, "c_inside" => inside, "c_outside" => outside, "c_atop" => atop, "c_xor" => xor, "c_plus" => plus)
}
opfn!(op_euclid, { A: SNode + EuclideanDistance<Scalar = VOf<A>>, ScOf<A>: EuclideanDistance<Scalar = SOf<A>>, VOf<A>: pn::Sqrt, SOf<A>: pn::Sqrt }, |i| {
    "distance_squared" => run::<A>(i, "num", |a, b, _, _| lanes_v(a.distance_squared(b)), |a, b, _, _| vec![a.distance_squared(b).to64()]),
    "distance" => run::<A>(i, "num", |a, b, _, _| lanes_v(a.distance(b)), |a, b, _, _| vec![a.distance(b).to64()]) });
opfn!(op_hyab, { A: SNode + HyAb<Scalar = VOf<A>>, ScOf<A>: HyAb<Scalar = SOf<A>> }, |i| {
    "hybrid_distance" => run::<A>(i, "num", |a, b, _, _| lanes_v(a.hybrid_distance(b)), |a, b, _, _| vec![a.hybrid_distance(b).to64()]) });
opfn!(op_delta_e, { A: SNode + DeltaE<Scalar = VOf<A>>, ScOf<A>: DeltaE<Scalar = SOf<A>> }, |i| {
    "delta_e" => run::<A>(i, "num", |a, b, _, _| lanes_v(a.delta_e(b)), |a, b, _, _| vec![a.delta_e(b).to64()]) });
opfn!(op_improved_delta_e, { A: SNode + ImprovedDeltaE<Scalar = VOf<A>>, ScOf<A>: ImprovedDeltaE<Scalar = SOf<A>> }, |i| {
    "improved_delta_e" => run::<A>(i, "num", |a, b, _, _| lanes_v(a.improved_delta_e(b)), |a, b, _, _| vec![a.improved_delta_e(b).to64()]) });
opfn!(op_ciede, { A: SNode + Ciede2000<Scalar = VOf<A>>, ScOf<A>: Ciede2000<Scalar = SOf<A>> }, |i| {
    "ciede2000" => run::<A>(i, "num", |a, b, _, _| lanes_v(a.difference(b)), |a, b, _, _| vec![a.difference(b).to64()]) });
opfn!(op_improved_ciede, { A: SNode + ImprovedCiede2000<Scalar = VOf<A>>, ScOf<A>: ImprovedCiede2000<Scalar = SOf<A>> }, |i| {
    "improved_ciede2000" => run::<A>(i, "num", |a, b, _, _| lanes_v(a.improved_difference(b)), |a, b, _, _| vec![a.improved_difference(b).to64()]) });
opfn!(op_wcag, { A: SNode + Wcag21RelativeContrast<Scalar = VOf<A>>, ScOf<A>: Wcag21RelativeContrast<Scalar = SOf<A>> }, |i| {
    "relative_luminance" => run::<A>(i, "num", |a, _, _, _| lanes_v(a.relative_luminance().luma), |a, _, _, _| vec![a.relative_luminance().luma.to64()]),
    "relative_contrast" => run::<A>(i, "num", |a, b, _, _| lanes_v(a.relative_contrast(b)), |a, b, _, _| vec![a.relative_contrast(b).to64()]) });

opcap!(PMix, YMix, NMix, op_mix, { A: SNode + Mix<Scalar = VOf<A>>, ScOf<A>: Mix<Scalar = SOf<A>> });
opcap!(PLighten, YLighten, NLighten, op_lighten, { A: SNode + Lighten<Scalar = VOf<A>>, ScOf<A>: Lighten<Scalar = SOf<A>> });
opcap!(PDarken, YDarken, NDarken, op_darken, { A: SNode + Darken<Scalar = VOf<A>>, ScOf<A>: Darken<Scalar = SOf<A>> });
opcap!(PSaturate, YSaturate, NSaturate, op_saturate, { A: SNode + Saturate<Scalar = VOf<A>>, ScOf<A>: Saturate<Scalar = SOf<A>> });
opcap!(PDesaturate, YDesaturate, NDesaturate, op_desaturate, { A: SNode + Desaturate<Scalar = VOf<A>>, ScOf<A>: Desaturate<Scalar = SOf<A>> });
opcap!(PShiftHue, YShiftHue, NShiftHue, op_shift_hue, { A: SNode + ShiftHue<Scalar = VOf<A>>, ScOf<A>: ShiftHue<Scalar = SOf<A>> });
opcap!(PClamp, YClamp, NClamp, op_clamp, { A: SNode + Clamp, ScOf<A>: Clamp });
opcap!(PClampA, YClampA, NClampA, op_clamp_assign, { A: SNode + ClampAssign, ScOf<A>: ClampAssign });
opcap!(PMixA, YMixA, NMixA, op_mix_assign, { A: SNode + MixAssign<Scalar = VOf<A>>, ScOf<A>: MixAssign<Scalar = SOf<A>> });
opcap!(PLightenA, YLightenA, NLightenA, op_lighten_assign, { A: SNode + LightenAssign<Scalar = VOf<A>>, ScOf<A>: LightenAssign<Scalar = SOf<A>> });
opcap!(PSaturateA, YSaturateA, NSaturateA, op_saturate_assign, { A: SNode + SaturateAssign<Scalar = VOf<A>>, ScOf<A>: SaturateAssign<Scalar = SOf<A>> });
opcap!(PShiftHueA, YShiftHueA, NShiftHueA, op_shift_hue_assign, { A: SNode + ShiftHueAssign<Scalar = VOf<A>>, ScOf<A>: ShiftHueAssign<Scalar = SOf<A>> });
opcap!(PWithin, YWithin, NWithin, op_within, { A: SNode + IsWithinBounds<Mask = VOf<A>>, ScOf<A>: IsWithinBounds<Mask = bool> });
opcap!(PArithCc, YArithCc, NArithCc, op_arith_cc, { A: SNode + core::ops::Add<Output = A> + core::ops::Sub<Output = A>, ScOf<A>: core::ops::Add<Output = ScOf<A>> + core::ops::Sub<Output = ScOf<A>> });
opcap!(PArithCs, YArithCs, NArithCs, op_arith_cs, { A: SNode + core::ops::Add<VOf<A>, Output = A> + core::ops::Sub<VOf<A>, Output = A> + core::ops::Mul<VOf<A>, Output = A> + core::ops::Div<VOf<A>, Output = A>,
                     ScOf<A>: core::ops::Add<SOf<A>, Output = ScOf<A>> + core::ops::Sub<SOf<A>, Output = ScOf<A>> + core::ops::Mul<SOf<A>, Output = ScOf<A>> + core::ops::Div<SOf<A>, Output = ScOf<A>> });
opcap!(PArithMul, YArithMul, NArithMul, op_arith_mul, { A: SNode + core::ops::Mul<Output = A> + core::ops::Div<Output = A>, ScOf<A>: core::ops::Mul<Output = ScOf<A>> + core::ops::Div<Output = ScOf<A>> });
opcap!(PBlend, YBlend, NBlend, op_blend, { A: SNode, Alpha<A, VOf<A>>: Blend, Alpha<ScOf<A>, SOf<A>>: Blend });
opcap!(PCompose, YCompose, NCompose, op_compose, { A: SNode, Alpha<A, VOf<A>>: Compose, Alpha<ScOf<A>, SOf<A>>: Compose });
opcap!(PEuclid, YEuclid, NEuclid, op_euclid, { A: SNode + EuclideanDistance<Scalar = VOf<A>>, ScOf<A>: EuclideanDistance<Scalar = SOf<A>>, VOf<A>: pn::Sqrt, SOf<A>: pn::Sqrt });
opcap!(PHyab, YHyab, NHyab, op_hyab, { A: SNode + HyAb<Scalar = VOf<A>>, ScOf<A>: HyAb<Scalar = SOf<A>> });
opcap!(PDeltaE, YDeltaE, NDeltaE, op_delta_e, { A: SNode + DeltaE<Scalar = VOf<A>>, ScOf<A>: DeltaE<Scalar = SOf<A>> });
opcap!(PImpDeltaE, YImpDeltaE, NImpDeltaE, op_improved_delta_e, { A: SNode + ImprovedDeltaE<Scalar = VOf<A>>, ScOf<A>: ImprovedDeltaE<Scalar = SOf<A>> });
opcap!(PCiede, YCiede, NCiede, op_ciede, { A: SNode + Ciede2000<Scalar = VOf<A>>, ScOf<A>: Ciede2000<Scalar = SOf<A>> });
opcap!(PImpCiede, YImpCiede, NImpCiede, op_improved_ciede, { A: SNode + ImprovedCiede2000<Scalar = VOf<A>>, ScOf<A>: ImprovedCiede2000<Scalar = SOf<A>> });
opcap!(PWcag, YWcag, NWcag, op_wcag, { A: SNode + Wcag21RelativeContrast<Scalar = VOf<A>>, ScOf<A>: Wcag21RelativeContrast<Scalar = SOf<A>> });

/// (capability group, methods, arity: needs a second colour, needs factor f, needs factor g)
pub const OP_GROUPS: [(&str, &[&str]); 25] = [
    ("mix", &["mix"]), ("lighten", &["lighten", "lighten_fixed"]), ("darken", &["darken", "darken_fixed"]),
    ("saturate", &["saturate", "saturate_fixed"]), ("desaturate", &["desaturate", "desaturate_fixed"]), ("shift_hue", &["shift_hue"]),
    ("clamp", &["clamp"]), ("within", &["is_within_bounds"]), ("arith_cc", &["add", "sub"]), ("arith_cs", &["add_s", "sub_s", "mul_s", "div_s"]),
    ("arith_mul", &["mul", "div"]),
    ("blend", &["b_multiply", "b_screen", "b_overlay", "b_darken", "b_lighten", "b_dodge", "b_burn", "b_hard_light", "b_soft_light", "b_difference", "b_exclusion"]),
    ("compose", &["c_over", "c_inside", "c_outside", "c_atop", "c_xor", "c_plus"]),
    ("euclid", &["distance_squared", "distance"]), ("hyab", &["hybrid_distance"]), ("delta_e", &["delta_e"]), ("improved_delta_e", &["improved_delta_e"]),
    ("ciede", &["ciede2000"]), ("improved_ciede", &["improved_ciede2000"]), ("wcag", &["relative_luminance", "relative_contrast"]),
    ("clamp_assign", &["clamp_assign"]), ("mix_assign", &["mix_assign"]), ("lighten_assign", &["lighten_assign", "lighten_fixed_assign"]),
    ("saturate_assign", &["saturate_assign", "saturate_fixed_assign"]), ("shift_hue_assign", &["shift_hue_assign"]),
];
macro_rules! ops_of {
    ($A:ty) => { vec![
        (&PMix::<$A>(PhantomData)).get(), (&PLighten::<$A>(PhantomData)).get(), (&PDarken::<$A>(PhantomData)).get(),
        (&PSaturate::<$A>(PhantomData)).get(), (&PDesaturate::<$A>(PhantomData)).get(), (&PShiftHue::<$A>(PhantomData)).get(),
        (&PClamp::<$A>(PhantomData)).get(), (&PWithin::<$A>(PhantomData)).get(), (&PArithCc::<$A>(PhantomData)).get(), (&PArithCs::<$A>(PhantomData)).get(),
        (&PArithMul::<$A>(PhantomData)).get(), (&PBlend::<$A>(PhantomData)).get(), (&PCompose::<$A>(PhantomData)).get(),
        (&PEuclid::<$A>(PhantomData)).get(), (&PHyab::<$A>(PhantomData)).get(), (&PDeltaE::<$A>(PhantomData)).get(), (&PImpDeltaE::<$A>(PhantomData)).get(),
        (&PCiede::<$A>(PhantomData)).get(), (&PImpCiede::<$A>(PhantomData)).get(), (&PWcag::<$A>(PhantomData)).get(),
        (&PClampA::<$A>(PhantomData)).get(), (&PMixA::<$A>(PhantomData)).get(), (&PLightenA::<$A>(PhantomData)).get(),
        (&PSaturateA::<$A>(PhantomData)).get(), (&PShiftHueA::<$A>(PhantomData)).get(),
    ] };
}
macro_rules! ops_row { ($T:ident; [$($A:ident),*]; $list:tt) => { vec![ $( ops_of!($A<$T>) ),* ] }; }
/// [vector type][node][group] -> Option<OpFn>
#[inline(never)] fn ops_f32x4() -> Vec<Vec<Option<OpFn>>> { with_nodes!(ops_row, f32x4) }
#[inline(never)] fn ops_f32x8() -> Vec<Vec<Option<OpFn>>> { with_nodes!(ops_row, f32x8) }
#[inline(never)] fn ops_f64x2() -> Vec<Vec<Option<OpFn>>> { with_nodes!(ops_row, f64x2) }
#[inline(never)] fn ops_f64x4() -> Vec<Vec<Option<OpFn>>> { with_nodes!(ops_row, f64x4) }
fn op_tables() -> Vec<Vec<Vec<Option<OpFn>>>> { vec![ops_f32x4(), ops_f32x8(), ops_f64x2(), ops_f64x4()] }
fn op_caps() -> Value {
    let t = op_tables();
    let mut m = serde_json::Map::new();
    for (vi, vt) in ["f32x4", "f32x8", "f64x2", "f64x4"].iter().enumerate() {
        let rows: Vec<Vec<u8>> = t[vi].iter().map(|r| r.iter().map(|f| f.is_some() as u8).collect()).collect();
        m.insert(vt.to_string(), json!(rows));
    }
    m.insert("groups".into(), json!(OP_GROUPS.iter().map(|g| g.0).collect::<Vec<_>>()));
    Value::Object(m)
}

impl<'a> Drv<'a> {
    /// every operator available for `node` on every vector type, `reps` groups of inputs each
    fn ops(&mut self, g: &mut Gen, node: usize, reps: u64, only: &[String], vtf: &[String], explicit: Option<(&[Col], &[Col], &[f64], &[f64], &str)>) {
        let tables = op_tables();
        let vts = [("f32x4", 4usize, "f32"), ("f32x8", 8, "f32"), ("f64x2", 2, "f64"), ("f64x4", 4, "f64")];
        let nn = ncomp(node);
        for (vi, (vt, n, t)) in vts.iter().enumerate() {
            if let Some((a, _, _, _, evt)) = explicit { if a.len() != *n || evt != *vt { continue; } }
            if !vtf.is_empty() && !vtf.iter().any(|v| v == vt) { continue; }
            for (gi, (grp, methods)) in OP_GROUPS.iter().enumerate() {
                let f = match tables[vi][node][gi] { Some(f) => f, None => continue };
                for which in methods.iter() {
                    if !only.is_empty() && !only.iter().any(|o| o == which) { continue; }
                    for _ in 0..reps {
                        let (a, b, ff, gg): (Vec<Col>, Vec<Col>, Vec<f64>, Vec<f64>) = match explicit {
                            Some((a, b, f, g, _)) => (a.to_vec(), b.to_vec(), f.to_vec(), g.to_vec()),
                            None => {
                                let a: Vec<Col> = (0..*n).map(|_| g.op_colour(node)).collect();
                                let b: Vec<Col> = (0..*n).map(|k| if g.rng.below(6) == 0 { a[k] } else { g.op_colour(node) }).collect();
                                let amt = *which == "shift_hue";
                                let ff: Vec<f64> = (0..*n).map(|_| g.op_factor(amt)).collect();
                                let gg: Vec<f64> = (0..*n).map(|_| if *which == "div_s" { r32(g.rng.range(0.1, 3.0)) } else { g.op_factor(false) }).collect();
                                (a, b, ff, gg)
                            }
                        };
                        let o = match f(&OpIn { which, a: &a, b: &b, f: &ff, g: &gg }) { Some(o) => o, None => continue };
                        self.gid += 1;
                        for i in 0..*n {
                            let sp = o.simd.is_err() as u8;
                            let cp = o.scalar[i].is_err() as u8;
                            let so: Vec<f64> = o.simd.as_ref().map(|v| v.0[i].clone()).unwrap_or_default();
                            let co: Vec<f64> = o.scalar[i].clone().unwrap_or_default();
                            let mb = o.simd.as_ref().ok().and_then(|v| v.1.get(i).cloned()).unwrap_or_default();
                            let (hs, hc) = if o.kind == "colour" && so.len() >= nn && co.len() >= nn {
                                let mut x = [0.0; 3]; let mut y = [0.0; 3];
                                x[..nn].copy_from_slice(&so[..nn]); y[..nn].copy_from_slice(&co[..nn]);
                                (exc(&self.u.hub(node, &x), 3), exc(&self.u.hub(node, &y), 3))
                            } else { (json!([]), json!([])) };
                            self.rec.ev(json!({"ev": "op", "gid": self.gid, "grp": grp, "op": which, "node": NAMES[node], "vt": vt, "t": t, "n": n, "lane": i,
                                "kind": o.kind, "in": exc(&a[i], nn), "in2": exc(&b[i], nn), "f": [ex64(ff[i]), ex64(gg[i])],
                                "simd": exv(&so), "scalar": exv(&co), "mb": mb, "hs": hs, "hc": hc, "sp": sp, "cp": cp}));
                        }
                    }
                }
            }
        }
    }
}
impl<'a> Gen<'a> {
    /// operand for operators: mostly in-gamut colours, sometimes on or just outside a bound (for clamp / is_within_bounds)
    fn op_colour(&mut self, node: usize) -> Col {
        let mut c = self.random_in(node);
        match self.rng.below(8) {
            0 => { let k = self.rng.below(ncomp(node) as u64) as usize; c[k] = r32(c[k] * 1.5 + 0.3); }
            1 => { let k = self.rng.below(ncomp(node) as u64) as usize; c[k] = r32(-c[k].abs() * 0.2 - 0.01); }
            2 => { let k = self.rng.below(ncomp(node) as u64) as usize; c[k] = *self.rng.pick(&[0.0, 1.0, 100.0, 0.5, 360.0, 180.0]); }
            _ => {}
        }
        c
    }
    fn op_factor(&mut self, amount: bool) -> f64 {
        if amount { return r32(*self.rng.pick(&[0.0, 30.0, -30.0, 180.0, -180.0, 360.0, 400.5, -725.25, 90.0, 12.5])); }
        match self.rng.below(8) {
            0 => 0.0, 1 => 1.0, 2 => 0.5, 3 => r32(-self.rng.range(0.0, 0.5)), 4 => r32(1.0 + self.rng.range(0.0, 0.5)),
            _ => r32(self.rng.unit()),
        }
    }
}

// ------------------------------------------------------------------------------------------------ numeric traits on vectors

pub trait WdNum: WdMask + pn::Real + pn::Trigonometry + pn::Abs + pn::Sqrt + pn::Cbrt + pn::Powf + pn::Powi + pn::Recip + pn::Exp + pn::Ln + pn::Hypot
    + pn::Round + pn::Clamp + pn::MulAdd + pn::MulSub + pn::Signum + pn::MinMax + pn::IsValidDivisor + RealAngle + SignedAngle + UnsignedAngle + AngleEq
where Self::S: pn::PartialCmp + HasBoolMask<Mask = bool> {}
impl WdNum for f32x4 {}
impl WdNum for f32x8 {}
impl WdNum for f64x2 {}
impl WdNum for f64x4 {}
pub trait SNum: Flt + pn::Real + pn::Trigonometry + pn::Abs + pn::Sqrt + pn::Cbrt + pn::Powf + pn::Powi + pn::Recip + pn::Exp + pn::Ln + pn::Hypot
    + pn::Round + pn::Clamp + pn::MulAdd + pn::MulSub + pn::Signum + pn::MinMax + pn::IsValidDivisor + RealAngle + SignedAngle + UnsignedAngle + AngleEq
    + pn::PartialCmp + HasBoolMask<Mask = bool> {}
impl SNum for f32 {}
impl SNum for f64 {}

fn num_events<V: WdNum>(rng: &mut Sm64, rec: &mut Rec, gid: &mut u64)
where V::S: SNum {
    let n = V::N;
    let angles = [0.0, 360.0, -360.0, 180.0, -180.0, 540.0, 720.0, 90.0, 359.5, -0.5, 1e-3, 725.25, -1085.5, 179.99, 400.0];
    let halves = [0.5, 1.5, 2.5, -0.5, -1.5, -2.5, 3.5, 0.49999997, 1e6 + 0.5, 0.0, -0.0, 7.0];
    type Un<V> = (&'static str, u8, fn(V) -> V, fn(<V as Wd>::S) -> <V as Wd>::S);
    // Only the functions that colour conversions / operators on wide types reach (Round::round - ties to even in `wide`, away from
    // zero in std - Ln, Exp, tan, asin, acos, atan are implemented for wide types but used by no colour code of this universe).
    // domain: 0 angle, 1 halves/any, 2 positive, 3 unit interval signed, 4 small, 5 exponents / bases of the transfer functions
    let un: Vec<Un<V>> = vec![
        ("normalize_unsigned_angle", 0, |x| UnsignedAngle::normalize_unsigned_angle(x), |x| UnsignedAngle::normalize_unsigned_angle(x)),
        ("normalize_signed_angle", 0, |x| SignedAngle::normalize_signed_angle(x), |x| SignedAngle::normalize_signed_angle(x)),
        ("degrees_to_radians", 0, |x| RealAngle::degrees_to_radians(x), |x| RealAngle::degrees_to_radians(x)),
        ("radians_to_degrees", 4, |x| RealAngle::radians_to_degrees(x), |x| RealAngle::radians_to_degrees(x)),
        ("floor", 1, |x| pn::Round::floor(x), |x| pn::Round::floor(x)), ("ceil", 1, |x| pn::Round::ceil(x), |x| pn::Round::ceil(x)),
        ("abs", 1, |x| pn::Abs::abs(x), |x| pn::Abs::abs(x)),
        ("signum", 1, |x| pn::Signum::signum(x), |x| pn::Signum::signum(x)),
        ("sqrt", 2, |x| pn::Sqrt::sqrt(x), |x| pn::Sqrt::sqrt(x)), ("cbrt", 1, |x| pn::Cbrt::cbrt(x), |x| pn::Cbrt::cbrt(x)),
        ("recip", 2, |x| pn::Recip::recip(x), |x| pn::Recip::recip(x)),
        ("powi2", 1, |x| pn::Powi::powi(x, 2), |x| pn::Powi::powi(x, 2)), ("powi3", 1, |x| pn::Powi::powi(x, 3), |x| pn::Powi::powi(x, 3)),
        ("sin", 4, |x| pn::Trigonometry::sin(x), |x| pn::Trigonometry::sin(x)), ("cos", 4, |x| pn::Trigonometry::cos(x), |x| pn::Trigonometry::cos(x)),
    ];
    type Bi<V> = (&'static str, u8, fn(V, V) -> V, fn(<V as Wd>::S, <V as Wd>::S) -> <V as Wd>::S);
    let bi: Vec<Bi<V>> = vec![
        ("powf", 5, |x, y| pn::Powf::powf(x, y), |x, y| pn::Powf::powf(x, y)),
        ("atan2", 1, |x, y| pn::Trigonometry::atan2(x, y), |x, y| pn::Trigonometry::atan2(x, y)),
        ("hypot", 1, |x, y| pn::Hypot::hypot(x, y), |x, y| pn::Hypot::hypot(x, y)),
        ("min", 1, |x, y| pn::MinMax::min(x, y), |x, y| pn::MinMax::min(x, y)), ("max", 1, |x, y| pn::MinMax::max(x, y), |x, y| pn::MinMax::max(x, y)),
        ("clamp01", 1, |x, _| pn::Clamp::clamp(x, <V as pn::Real>::from_f64(0.0), <V as pn::Real>::from_f64(1.0)), |x, _| pn::Clamp::clamp(x, <V::S as pn::Real>::from_f64(0.0), <V::S as pn::Real>::from_f64(1.0))),
        ("mul_add", 1, |x, y| pn::MulAdd::mul_add(x, y, <V as pn::Real>::from_f64(0.055)), |x, y| pn::MulAdd::mul_add(x, y, <V::S as pn::Real>::from_f64(0.055))),
        ("mul_sub", 1, |x, y| pn::MulSub::mul_sub(x, y, <V as pn::Real>::from_f64(0.055)), |x, y| pn::MulSub::mul_sub(x, y, <V::S as pn::Real>::from_f64(0.055))),
    ];
    let draw = |rng: &mut Sm64, dom: u8| -> f64 {
        r32(match dom {
            0 => if rng.coin() { *rng.pick(&angles) } else { rng.range(-1100.0, 1100.0) },
            1 => if rng.coin() { *rng.pick(&halves) } else { rng.range(-3.0, 3.0) },
            2 => if rng.below(4) == 0 { *rng.pick(&[1.0, 116.0, 500.0, 200.0, 2.4, 0.5]) } else { rng.range(1e-3, 3.0) },
            3 => if rng.below(4) == 0 { *rng.pick(&[0.0, 1.0, -1.0, 0.5]) } else { rng.range(-1.0, 1.0) },
            5 => if rng.below(4) == 0 { *rng.pick(&[2.4, 1.0 / 2.4, 3.0, 0.5, 1.0]) } else { rng.range(0.3, 3.0) },
            _ => rng.range(-6.3, 6.3),
        })
    };
    let mut emit = |rec: &mut Rec, op: &str, kind: &str, x: &[f64], y: &[f64], simd: Result<(Vec<Vec<f64>>, Vec<String>), String>, sc: Vec<Result<Vec<f64>, String>>| {
        *gid += 1;
        for i in 0..n {
            let so: Vec<f64> = simd.as_ref().map(|v| v.0[i].clone()).unwrap_or_default();
            let mb = simd.as_ref().ok().and_then(|v| v.1.get(i).cloned()).unwrap_or_default();
            rec.ev(json!({"ev": "op", "gid": *gid, "grp": "num", "op": op, "node": "num", "vt": V::VT, "t": <V::S>::TN, "n": n, "lane": i, "kind": kind,
                "in": [ex64(x[i])], "in2": [ex64(y[i])], "f": [], "simd": exv(&so), "scalar": exv(&sc[i].clone().unwrap_or_default()), "mb": mb,
                "hs": [], "hc": [], "sp": simd.is_err() as u8, "cp": sc[i].is_err() as u8}));
        }
    };
    for (name, dom, fv, fs) in un.iter() {
        let x: Vec<f64> = (0..n).map(|_| draw(rng, *dom)).collect();
        let sx: Vec<V::S> = x.iter().map(|v| <V::S>::of64(*v)).collect();
        let simd = catch(|| lanes_v(fv(V::from_slice(&sx))));
        let sc = sx.iter().map(|&v| catch(|| vec![fs(v).to64()])).collect();
        emit(rec, name, "num", &x, &x, simd, sc);
    }
    for (name, dom, fv, fs) in bi.iter() {
        let x: Vec<f64> = (0..n).map(|_| draw(rng, *dom)).collect();
        let y: Vec<f64> = (0..n).map(|_| draw(rng, *dom)).collect();
        let sx: Vec<V::S> = x.iter().map(|v| <V::S>::of64(*v)).collect();
        let sy: Vec<V::S> = y.iter().map(|v| <V::S>::of64(*v)).collect();
        let simd = catch(|| lanes_v(fv(V::from_slice(&sx), V::from_slice(&sy))));
        let sc = (0..n).map(|k| catch(|| vec![fs(sx[k], sy[k]).to64()])).collect();
        emit(rec, name, "num", &x, &y, simd, sc);
    }
    // mask-valued
    {
        let x: Vec<f64> = (0..n).map(|_| if rng.coin() { 0.0 } else { draw(rng, 1) }).collect();
        let sx: Vec<V::S> = x.iter().map(|v| <V::S>::of64(*v)).collect();
        let simd = catch(|| lanes_m(pn::IsValidDivisor::is_valid_divisor(&V::from_slice(&sx))));
        let sc = sx.iter().map(|v| catch(|| bnum(pn::IsValidDivisor::is_valid_divisor(v)))).collect();
        emit(rec, "is_valid_divisor", "mask", &x, &x, simd, sc);
        let x: Vec<f64> = (0..n).map(|_| *rng.pick(&[0.0, 90.0, 180.0, -180.0, 359.0, 12.5])).collect();
        let y: Vec<f64> = (0..n).map(|k| x[k] + *rng.pick(&[0.0, 360.0, -360.0, 720.0, 1.0, 180.0])).collect();
        let sx: Vec<V::S> = x.iter().map(|v| <V::S>::of64(*v)).collect();
        let sy: Vec<V::S> = y.iter().map(|v| <V::S>::of64(*v)).collect();
        let simd = catch(|| lanes_m(AngleEq::angle_eq(&V::from_slice(&sx), &V::from_slice(&sy))));
        let sc = (0..n).map(|k| catch(|| bnum(AngleEq::angle_eq(&sx[k], &sy[k])))).collect();
        emit(rec, "angle_eq", "mask", &x, &y, simd, sc);
    }
}

// ------------------------------------------------------------------------------------------------ f32 versus f64

impl<'a> Drv<'a> {
    fn prec(&mut self, fam: &str, cls: &str, from: usize, tos: &[usize], input: &Col) {
        let nf = ncomp(from);
        // coordinates for mapping known findings (not judged): Oklab hue of the input in millidegrees, smallest of r, g
        let okh = self.u.s64[from][8].and_then(|f| f(input).ok()).map(|c| (c[2].rem_euclid(360.0) * 1000.0) as i64).unwrap_or(-1);
        let rgb = self.u.s64[from][I_SRGB].and_then(|f| f(input).ok()).unwrap_or([1.0; 3]);
        for &to in tos {
            let (f32f, f64f) = match (self.u.s32[from][to], self.u.s64[from][to]) { (Some(a), Some(b)) => (a, b), _ => continue };
            let nt = ncomp(to);
            let (a, b) = (f32f(input), f64f(input));
            let o32 = *a.as_ref().unwrap_or(&[0.0; 3]);
            let o64 = *b.as_ref().unwrap_or(&[0.0; 3]);
            self.rec.ev(json!({"ev": "prec", "fam": fam, "cls": cls, "from": NAMES[from], "to": NAMES[to], "in": exc(input, nf),
                "o32": exc(&o32, nt), "o64": exc(&o64, nt), "h32": exc(&self.u.hub(to, &o32), 3), "h64": exc(&self.u.hub(to, &o64), 3),
                "p32": a.is_err() as u8, "p64": b.is_err() as u8, "okh_mdeg": okh, "rg_max_e6": (rgb[0].max(rgb[1]) * 1e6) as i64}));
        }
    }
}

fn main() {
    let u = Universe::new();
    let input = std::fs::read_to_string(arg("--cmds").expect("--cmds")).expect("command file");
    let mut d = Drv { u: &u, rec: Rec::create(&arg_or("--out", "-")), gid: 0 };
    let mut g = Gen { u: &u, rng: Sm64::new(seed_from_env()) };
    for line in input.lines() {
        if line.trim().is_empty() { continue; }
        let c: Value = serde_json::from_str(line).expect("command json");
        let tos = |c: &Value, from: usize| -> Vec<usize> {
            let l = strs(&c["to"]);
            if l.is_empty() { (0..19).filter(|&b| u.vts[0].3[from][b].is_some()).collect() } else { l.iter().map(|s| idx(s)).collect() }
        };
        match c["op"].as_str().unwrap_or("") {
            "caps" => d.caps(),
            "group" => {
                let from = idx(c["from"].as_str().unwrap());
                let fam = c["fam"].as_str().unwrap();
                let classes = strs(&c["lanes"]);
                let ins: Vec<Col> = classes.iter().map(|cl| g.make_input(fam, cl, from)).collect();
                let t = sample_targets(&mut g.rng, &tos(&c, from), c["pick"].as_u64().unwrap_or(0) as usize);
                d.lanes(fam, &classes, from, &t, &strs(&c["vt"]), &ins);
            }
            "lanes" => {
                let from = idx(c["from"].as_str().unwrap());
                let ins: Vec<Col> = c["in"].as_array().unwrap().iter().map(|l| {
                    let mut o = [0.0; 3];
                    for (k, s) in l.as_array().unwrap().iter().enumerate() { o[k] = hexf(s.as_str().unwrap()); }
                    o
                }).collect();
                d.lanes("explicit", &[], from, &tos(&c, from), &strs(&c["vt"]), &ins);
            }
            "random" => {
                let from = idx(c["from"].as_str().unwrap());
                for _ in 0..c["groups"].as_u64().unwrap_or(1) {
                    for n in [2usize, 4, 8] {
                        let ins: Vec<Col> = (0..n).map(|_| g.random_in(from)).collect();
                        let t = sample_targets(&mut g.rng, &tos(&c, from), c["pick"].as_u64().unwrap_or(0) as usize);
                        d.lanes("random", &[], from, &t, &strs(&c["vt"]), &ins);
                    }
                }
            }
            "pack" => {
                let fns = pack_fns();
                for _ in 0..c["count"].as_u64().unwrap_or(1) {
                    for row in &fns { for f in row { for alpha in [false, true] { let e = f(&mut g.rng, alpha); d.rec.ev(e); } } }
                    prealpha_pack_events(&mut g.rng, &mut d.rec);
                }
            }
            "mask" => {
                for _ in 0..c["count"].as_u64().unwrap_or(1) { for f in mask_fns() { f(&mut g.rng, &mut d.rec); } }
            }
            "ops" => {
                let only = strs(&c["only"]);
                let nodes: Vec<usize> = { let l = strs(&c["nodes"]); if l.is_empty() { (0..19).collect() } else { l.iter().map(|s| idx(s)).collect() } };
                if let Some(a) = c.get("a") {
                    // explicit operands (replay): {"op":"ops","nodes":[node],"only":[method],"vt":"f32x4","a":[[hex..]..],"b":[..],"f":[hex..],"g":[hex..]}
                    let cols = |v: &Value| -> Vec<Col> { v.as_array().unwrap().iter().map(|l| { let mut o = [0.0; 3]; for (k, s) in l.as_array().unwrap().iter().enumerate() { o[k] = hexf(s.as_str().unwrap()); } o }).collect() };
                    let nums = |v: &Value| -> Vec<f64> { v.as_array().unwrap().iter().map(|s| hexf(s.as_str().unwrap())).collect() };
                    let (a, b, f, gg) = (cols(a), cols(&c["b"]), nums(&c["f"]), nums(&c["g"]));
                    d.ops(&mut g, nodes[0], 1, &only, &[], Some((&a, &b, &f, &gg, c["vt"].as_str().unwrap())));
                } else {
                    let vtf = strs(&c["vts"]);
                    for node in nodes { d.ops(&mut g, node, c["count"].as_u64().unwrap_or(1), &only, &vtf, None); }
                }
            }
            "num" => {
                for _ in 0..c["count"].as_u64().unwrap_or(1) {
                    num_events::<f32x4>(&mut g.rng, &mut d.rec, &mut d.gid);
                    num_events::<f32x8>(&mut g.rng, &mut d.rec, &mut d.gid);
                    num_events::<f64x2>(&mut g.rng, &mut d.rec, &mut d.gid);
                    num_events::<f64x4>(&mut g.rng, &mut d.rec, &mut d.gid);
                }
            }
            "prec" => {
                let from = idx(c["from"].as_str().unwrap());
                let fam = c["fam"].as_str().unwrap_or("random");
                let all: Vec<usize> = (0..19).collect();
                let l = strs(&c["to"]);
                let tos: Vec<usize> = if l.is_empty() { all } else { l.iter().map(|s| idx(s)).collect() };
                if let Some(inp) = c.get("in") {
                    // explicit input (replay)
                    let mut o = [0.0; 3];
                    for (k, s) in inp.as_array().unwrap().iter().enumerate() { o[k] = hexf(s.as_str().unwrap()); }
                    d.prec("explicit", "", from, &tos, &o);
                } else if fam == "random" {
                    for _ in 0..c["count"].as_u64().unwrap_or(1) {
                        // stay off the blue edge of the gamut (r = g = 0), where f32 Okhsl/Okhsv/Okhwb are a known finding of C15
                        let mut rgb = g.srgb_any();
                        while rgb[0].max(rgb[1]) < 0.02 * rgb[2] { rgb = g.srgb_any(); }
                        let input = g.from_srgb(from, rgb);
                        let sub = sample_targets(&mut g.rng, &tos, c["pick"].as_u64().unwrap_or(0) as usize);
                        d.prec("random", "", from, &sub, &input);
                    }
                } else {
                    for cl in strs(&c["lanes"]) {
                        let input = g.make_input(fam, &cl, from);
                        let sub = sample_targets(&mut g.rng, &tos, c["pick"].as_u64().unwrap_or(0) as usize);
                        d.prec(fam, &cl, from, &sub, &input);
                    }
                }
            }
            other => { eprintln!("unknown op {}", other); std::process::exit(3) }
        }
    }
    let n = d.rec.finish();
    eprintln!("simd: {} events", n);
}
