"""C12 - hex strings, colour names and packed integers round-trip and parse strictly.
Spec: spec/Hex.tla (documented grammar, Parse/Format over characters), spec/Packed.tla (channel orders as
permutations onto big-endian byte positions), spec/Named.tla (the CSS named colours, written in the spec).
TLC checks the models exhaustively on small configurations (MC_Hex: every string over the abstract alphabet up
to a length, accepting sets counted; MC_Packed: all 4! orders x lattice) and emits the cases the harness replays;
the harness sweeps the real parser over the full space of abstract strings (lossless compression), the long
forms, all 2^24 Rgb<u8> round trips, packed values and names; TraceHex.tla validates every recorded event."""
import json, re
from concurrent.futures import ThreadPoolExecutor
from common import *

FULL_SYM = '{"0", "a", "F", "g", "+", "-", "#", "sp", "e2", "e3"}'
RED_SYM_Q = '{"0", "F", "#", "e2"}'
RED_SYM_T = '{"0", "F", "#", "+", "e2"}'
TOK = {"sp": " ", "e2": "é", "e3": "€"}
RUST_TY = {"rgb_u8": "Srgb<u8>", "rgba_u8": "Srgba<u8>", "rgb_u16": "Srgb<u16>", "rgba_u16": "Srgba<u16>",
           "rgb_u32": "Srgb<u32>", "rgba_u32": "Srgba<u32>", "rgb_f32": "Srgb<f32>", "rgba_f32": "Srgba<f32>",
           "rgb_f64": "Srgb<f64>", "rgba_f64": "Srgba<f64>"}
HEXD = set("0123456789abcdefABCDEF")
DIGIT_COUNTS = {"rgb_u8": {3, 6}, "rgba_u8": {4, 8}, "rgb_u16": {3, 6, 12}, "rgba_u16": {4, 8, 16},
                "rgb_f32": {3, 6, 12}, "rgba_f32": {4, 8, 16}, "rgb_u32": {3, 6, 12, 24}, "rgba_u32": {4, 8, 16, 32},
                "rgb_f64": {3, 6, 12, 24}, "rgba_f64": {4, 8, 16, 32}}      # only used to LABEL a rejected event
EVENT_KINDS = ["parse", "count", "fmt", "rtsweep", "pack", "lpack", "packdef", "packsweep", "lpacksweep",
               "name", "entries", "const", "constset"]


def text_of(sy):
    return "".join(TOK.get(t, t) for t in sy)


def show_val(ty, val):
    """a logged colour value for people: hexadecimal components, floats in decimal"""
    try:
        if ty.endswith(("f32", "f64")):
            return "(" + ", ".join("%.9g" % dy_to_float(v) for v in val) + ")"
        return "(" + ", ".join("0x" + "".join("%x" % d for d in ch) for ch in val) + ")"
    except Exception:
        return str(val)


def named_src():
    """path of the working tree's named/codegen.rs, from the harness' path dependency"""
    m = re.search(r'palette\s*=\s*\{\s*path\s*=\s*"([^"]+)"', (HARNESS / "Cargo.toml").read_text())
    if not m:
        raise ToolError("palette path dependency not found in %s" % (HARNESS / "Cargo.toml"))
    return m.group(1) + "/src/named/codegen.rs"


def models(ctx):
    """the three exhaustive model runs, concurrently (2 TLC workers each); returns the REPLAY cases"""
    if ctx.quick:
        full = {"Sym": FULL_SYM, "MaxLen": 4, "CountLen": 4, "EmitLen": 3, "Lattice": "TRUE"}
        red = {"Sym": RED_SYM_Q, "MaxLen": 7, "CountLen": 7, "EmitLen": 0, "Lattice": "FALSE"}
    else:
        full = {"Sym": FULL_SYM, "MaxLen": 5, "CountLen": 5, "EmitLen": 4, "Lattice": "TRUE"}
        red = {"Sym": RED_SYM_T, "MaxLen": 8, "CountLen": 7, "EmitLen": 0, "Lattice": "FALSE"}
    with ThreadPoolExecutor(3) as ex:
        f1 = ex.submit(tlc_mc, ctx, "MC_Hex", constants=full, tag="hex_full", workers=2)
        f2 = ex.submit(tlc_mc, ctx, "MC_Hex", constants=red, tag="hex_reduced", workers=2)
        f3 = ex.submit(tlc_mc, ctx, "MC_Packed", tag="packed", workers=2)
        r1, r2, r3 = f1.result(), f2.result(), f3.result()
    for r, allowed in ((r1, set()), (r2, {"ExtendFmt", "ExtendWiden"}), (r3, set())):
        zero = set(coverage_zero_actions(r.out_path, {"MC_Hex", "MC_Packed"})) - allowed
        if zero:
            raise ToolError("vacuity: actions never taken in %s: %s" % (r.out_path, sorted(zero)))
    cases, seen = [], set()
    for r in (r1, r2, r3):
        for c in extract_prints(r.out_path, "REPLAY"):
            if c not in seen:
                seen.add(c)
                cases.append(c)
    return cases


def classify(ev, info):
    """coords (for known-findings matching) and a sentence for one rejected event"""
    k = ev.get("ev")
    if k == "parse":
        sy, ty, r = ev["sy"], ev["ty"], ev["r"]
        s = text_of(sy)
        body = sy[1:] if sy[:1] == ["#"] else sy
        q = json.dumps(s, ensure_ascii=False)
        call = '%s.parse::<%s>()' % (q, RUST_TY.get(ty, ty)) if ev.get("api") != "from_hex" else '%s::from_hex(%s)' % (RUST_TY.get(ty, ty), q)
        if r == -1:
            cls = "panics-multibyte" if any(t in ("e2", "e3") or (len(t) == 1 and ord(t) > 127) for t in sy) else "panics-other"
            what = "%s PANICS (%s); the documented grammar requires an error" % (call, ev.get("panic", ""))
        elif r == 1 and "model rejects" in info:
            # a string of the documented length in which some digits are replaced by a sign in front of a digit
            signlike = ("+" in body and len(body) in DIGIT_COUNTS.get(ty, set()) and all(t == "+" or t in HEXD for t in body)
                        and all(body[i] != "+" or (i + 1 < len(body) and body[i + 1] in HEXD) for i in range(len(body))))
            cls = "accepts-sign" if signlike else "accepts-other"
            what = "%s is ACCEPTED as %s; it is not an optional '#' followed by exactly the documented number of hexadecimal digits" % (call, show_val(ty, ev.get("val")))
        elif r == 1:
            cls = "wrong-value"
            what = "%s returned %s = %s but the documented value (hex digits per channel) is %s" % (call, show_val(ty, ev.get("val")), ev.get("val"), info[:200])
        elif r == 0:
            cls = "rejects-valid"
            what = "%s is rejected but the documented grammar accepts it (%s)" % (call, info[:200])
        else:
            cls = "non-finite"
            what = "%s returned a non-finite colour" % call
        return {"kind": "parse", "class": cls, "ty": RUST_TY.get(ty, ty), "model_ty": ty, "len": len(sy)}, what
    if k == "fmt":
        return ({"kind": "fmt", "ty": RUST_TY.get(ev["ty"], ev["ty"])},
                "format!(\"{:x}\"/\"{:X}\") of %s %s gave %s / %s, parsing back gave codes %s values %s; model: %s" % (
                    ev["ty"], ev["val"], text_of(ev["lo"]), text_of(ev["up"]), ev["b"], ev["bv"], info[:200]))
    if k in ("pack", "lpack", "packdef"):
        return ({"kind": k, "order": ev.get("order", "default")},
                "packing/unpacking %s with order %s: observed %s; model (packed, unpacked): %s" % (
                    ev.get("c"), ev.get("order", "From<u32> default"), {x: ev[x] for x in ev if x not in ("ev", "c", "order")}, info[:300]))
    if k == "name":
        return ({"kind": "name", "q": ev["q"]},
                "named::from_str(%r) returned found=%s %s; model: %s" % (ev["q"], ev["found"], ev["val"], info))
    if k in ("entries", "constset"):
        return {"kind": k}, "the set of names in the implementation (%s) differs from the reference list: %s" % (k, info[:400])
    if k == "const":
        return {"kind": "const", "name": ev["name"]}, "named::%s = %s, from_str(%r) found=%s %s; model: %s" % (
            ev["name"], ev["val"], ev["lower"], ev["found"], ev["fval"], info)
    return {"kind": k}, "%s event rejected: %s (%s)" % (k, json.dumps(ev)[:300], info[:200])


def classify_count(ev, info):
    """a count event of the full-space sweep: split the deviation into the classes that explain it"""
    ty, n = ev["ty"], ev["len"]
    m = re.search(r'(\d+)\s*$', info)
    model = int(m.group(1)) if m else -1
    out = []
    base = {"kind": "parse", "ty": RUST_TY.get(ty, ty), "model_ty": ty, "len": n, "via": "count"}
    head = "full-space sweep of %s over all %d strings of %d symbols: " % (RUST_TY.get(ty, ty), ev["acc"] + ev["rej"] + ev["pan"], n)
    if ev["pan"] > 0:
        cls = "panics-multibyte" if ev["pan"] == ev["pan_mb"] else "panics-other"
        out.append((dict(base, **{"class": cls}), head + "%d strings PANIC (%d of them contain a multi-byte character)" % (ev["pan"], ev["pan_mb"])))
    if ev["acc"] != model:
        if ev["acc"] - ev["acc_plus"] == model and ev["acc_plus"] > 0:
            cls = "accepts-sign"
        elif ev["acc"] > model:
            cls = "accepts-other"
        else:
            cls = "rejects-valid"
        out.append((dict(base, **{"class": cls}), head + "%d strings accepted (%d of them contain '+') but the documented grammar accepts exactly %d" % (
            ev["acc"], ev["acc_plus"], model)))
    if not out:
        out.append((dict(base, **{"class": "count-incomplete"}), head + "the sweep did not cover the space: %s" % json.dumps(ev)))
    return out


def replay_case(ev):
    k = ev.get("ev")
    if k == "parse":
        return {"k": "parse", "ty": ev["ty"], "sy": ev["sy"]}
    if k == "count":
        return {"k": "sweep", "ty": ev["ty"], "maxlen": ev["len"]}
    if k == "fmt":
        return {"k": "fmt", "ty": ev["ty"], "val": ev["val"]}
    if k in ("pack", "lpack"):
        return {"k": k, "order": ev["order"], "c": ev["c"]}
    if k == "packdef":
        return {"k": "packdef", "c": ev["c"]}
    if k == "name":
        return {"k": "name", "q": ev["q"]}
    return {"k": "mode", "mode": {"rtsweep": "rt", "packsweep": "pack", "lpacksweep": "pack"}.get(k, "names")}


def validate(ctx, files, tag):
    """concatenate recordings and validate them in parallel chunks"""
    allp = ctx.p(tag + ".ndjson")
    kinds = {}
    with open(allp, "w") as out:
        for f in files:
            with open(f) as src:
                for line in src:
                    out.write(line)
                    m = re.search(r'"ev":"(\w+)"', line)
                    kinds[m.group(1)] = kinds.get(m.group(1), 0) + 1
    # (common._java sets -Dtlc2.value.Values.width so that TLC never wraps a REJECT / REPLAY tuple over several lines)
    res = validate_trace(ctx, "TraceHex", allp, stateless=True, chunk_events=25000, tag=tag)
    return res, kinds, allp


def run(ctx):
    bins = cargo_build(["hex"])
    out = str(ctx.work)
    maxlen = 7 if ctx.quick else 9
    tflag = [] if ctx.quick else ["--thorough"]
    # the model runs and the sweeps that need nothing from the model run side by side
    with ThreadPoolExecutor(2) as ex:
        fm = ex.submit(models, ctx)
        fs = ex.submit(run_bin, bins["hex"], ["--mode", "sweep,long,rt", "--maxlen", maxlen, "--out-dir", out] + tflag)
        cases = fm.result()
        fs.result()
    cp = ctx.p("cases.txt")
    with open(cp, "w") as f:
        f.write("\n".join(cases) + "\n")
    run_bin(bins["hex"], ["--mode", "cases,pack,names", "--cases", cp, "--out-dir", out, "--named-src", named_src()] + tflag)
    files = [ctx.p(m + ".ndjson") for m in ("sweep", "long", "cases", "rt", "pack", "names")]
    res, kinds, allp = validate(ctx, files, "hex_all")
    missing = [k for k in EVENT_KINDS if not kinds.get(k)]
    if missing:
        raise ToolError("vacuity: no %s event was recorded" % missing)
    ctx.cov["traces_validated_against_impl"] += res.events - len(res.rejected)
    # samples for the evidence: the first accepted parse and the first event of a few other kinds, verbatim
    want = ["parse", "count", "fmt", "pack", "packdef", "name", "const", "rtsweep"]
    with open(allp) as f:
        for line in f:
            m = re.search(r'"ev":"(\w+)"', line)
            if m and m.group(1) in want and (m.group(1) != "parse" or '"r":1' in line):
                want.remove(m.group(1))
                ctx.cov["samples"].append(json.loads(line) if len(line) < 1500 else line[:1500])
                if not want:
                    break

    # totals of the compressed sweeps
    swept = {"strings_parsed_in_full_space_sweep": 0, "colours_round_tripped": 0, "packed_values_swept": 0,
             "sweep_accepted": 0, "sweep_panics": 0}
    with open(allp) as f:
        for line in f:
            if '"ev":"count"' in line:
                e = json.loads(line)
                swept["strings_parsed_in_full_space_sweep"] += e["acc"] + e["rej"] + e["pan"]
                swept["sweep_accepted"] += e["acc"]
                swept["sweep_panics"] += e["pan"]
            elif '"ev":"rtsweep"' in line:
                swept["colours_round_tripped"] += json.loads(line)["n"]
            elif '"ev":"packsweep"' in line:
                e = json.loads(line)
                swept["packed_values_swept"] += e["n_hi"] * 65536 + e["n_lo"]
            elif '"ev":"lpacksweep"' in line:
                swept["packed_values_swept"] += json.loads(line)["n"]
    ctx.cov["evaluations"] += (swept["strings_parsed_in_full_space_sweep"] + 3 * swept["colours_round_tripped"]
                               + swept["packed_values_swept"])

    # rejected events -> reports, most informative first: one of each (class, type) before the second of any
    groups = {}
    for (line, ev, info, _scen) in res.rejected:
        if ev.get("ev") == "count":
            items = classify_count(ev, info)
        else:
            items = [classify(ev, info)]
        for coords, what in items:
            key = (coords.get("kind"), coords.get("class"), coords.get("ty"), coords.get("order"), coords.get("via", ""))
            groups.setdefault(key, []).append((len(json.dumps(ev.get("sy", ev.get("q", "")))), line, ev, info, coords, what))
    for g in groups.values():
        g.sort(key=lambda x: (x[0], x[1]))
    if groups:
        log("rejected events by (kind, class, type, order, via): " + "; ".join(
            "%s x%d" % ("/".join(str(x) for x in k if x), len(g)) for k, g in sorted(groups.items(), key=str)))
    ctx.cov["rejected_groups"] = {"/".join(str(x) for x in k if x): len(g) for k, g in groups.items()}
    depth = 0
    tyrank = {v: i for i, v in enumerate(RUST_TY.values())}
    order = sorted(groups, key=lambda k: (k[4] != "", tyrank.get(k[2], 99), str(k)))
    while any(len(groups[k]) > depth for k in order):
        for k in order:
            if len(groups[k]) > depth:
                _, line, ev, info, coords, what = groups[k][depth]
                report(ctx, coords, what, {"bin": "hex", "case": replay_case(ev), "string": text_of(ev["sy"]) if "sy" in ev else None,
                                           "rejected_event": ev, "model": info, "trace_line": line,
                                           "how": "./check C12 --replay <this file>"})
        depth += 1
    ctx.cov["distinct_nontrivial"] = count_distinct(
        allp, lambda e: json.dumps([e.get(k) for k in ("ev", "ty", "sy", "val", "order", "c", "q", "name", "len")]),
        lambda e: (e["ev"] == "parse" and len(e["sy"]) > 0) or (e["ev"] in ("fmt",) and len({json.dumps(v) for v in e["val"]}) > 1)
                  or (e["ev"] in ("pack", "lpack", "packdef") and len(set(e["c"])) > 1) or (e["ev"] == "name" and e["q"] != "")
                  or e["ev"] in ("const", "count"))
    return finish(ctx, "model_checking",
                  rule="a case is one call of the real API on one input: (type, string) for parsing, (type, colour) for formatting and "
                       "the round trip, (order, colour / packed value) for packing, one query for names; the full-space sweep counts "
                       "every (type, string) it parsed. distinct_nontrivial counts the individually recorded events, distinct by "
                       "type + input, that are not the empty string / a grey colour / the empty query",
                  explanation="TLC checks Hex.tla / Packed.tla / Named.tla exhaustively on small constants (parser = grammar for every "
                              "string over the abstract alphabet up to the stated length, accepting sets enumerated and counted against "
                              "the closed form, Parse(Format(c)) = c and Unpack(Pack(c)) = c on lattices, all 4! channel orders) and "
                              "emits cases; the harness sweeps palette's FromStr over EVERY string of the abstract alphabet up to the "
                              "tier's length for all ten parsable types, recording every accepted string, every panic and per-length "
                              "counts, plus structured long forms, all 2^24 Rgb<u8> round trips, packed values and name queries; "
                              "TLC (TraceHex.tla) validates every event: accepted strings are in the model's accepting set with the "
                              "model's value, counts equal the model's (set equality), no panic, strings/bytes/names equal the model's.",
                  trusted=["the sweeper's enumeration of the abstract string space (a depth-first counter; its totals are checked against |alphabet|^len by TLC)",
                           "the harness' comparison `==` on integer components in the 2^24 / sampled round-trip sweeps and the 2^32 packing sweep (mismatches are re-recorded and judged by TLC)",
                           "ASCII lower-casing of constant identifiers by the harness", "TLC, JVM, rustc"],
                  extra=dict(swept, event_kinds=kinds, cases_from_tlc=len(cases)))


def replay(ctx, path):
    rp = json.load(open(path))["replay"]
    case = rp["case"]
    bins = cargo_build(["hex"])
    out = str(ctx.work)
    if case["k"] == "sweep":
        run_bin(bins["hex"], ["--mode", "sweep", "--maxlen", case["maxlen"], "--out-dir", out])
        files = [ctx.p("sweep.ndjson")]
    elif case["k"] == "mode":
        cp = ctx.p("cases.txt")
        open(cp, "w").write("\n".join(models(ctx)) + "\n")
        run_bin(bins["hex"], ["--mode", case["mode"], "--cases", cp, "--out-dir", out, "--named-src", named_src()])
        files = [ctx.p(case["mode"] + ".ndjson")]
    else:
        cp = ctx.p("cases.txt")
        open(cp, "w").write(json.dumps(case) + "\n")
        run_bin(bins["hex"], ["--mode", "cases", "--cases", cp, "--out-dir", out])
        files = [ctx.p("cases.ndjson")]
    res, _, _ = validate(ctx, files, "replay")
    rej = [r for r in res.rejected if case["k"] != "sweep" or r[1].get("ty") == case.get("ty")]
    if rej:
        print("VIOLATION property=C12 replay=%s" % path)
        line, ev, info, _ = rej[0]
        print("  still rejected: %s" % (classify(ev, info)[1] if ev.get("ev") != "count" else classify_count(ev, info)[0][1])[:500])
        return 1
    print("replay accepted: the recorded events now agree with the specification")
    return 0
