------------------------------- MODULE BigNat -------------------------------
(***************************************************************************)
(* Arbitrary-precision natural numbers and integers in pure TLA+.          *)
(*                                                                         *)
(* TLC integers are 32-bit Java ints and overflow is an error, so every    *)
(* exact numeric statement of the palette specification is phrased over    *)
(* this layer.  A BigNat is a sequence of limbs in 0..BASE-1, least        *)
(* significant limb first, without a trailing zero limb; zero is <<>>.     *)
(* BASE = 2^13 so that a column of up to 31 limb products plus a carry     *)
(* stays below 2^31.                                                       *)
(*                                                                         *)
(* A BigInt is <<s, m>> with s \in {-1, 0, 1}, m a BigNat, s = 0 iff       *)
(* m = <<>>.                                                               *)
(***************************************************************************)
EXTENDS Integers, Sequences
LOCAL INSTANCE TLC

BASE == 8192
LIMB_BITS == 13

LOCAL Min2(a, b) == IF a <= b THEN a ELSE b
LOCAL Max2(a, b) == IF a >= b THEN a ELSE b

RECURSIVE TopNZ(_, _)
TopNZ(a, n) == IF n = 0 THEN 0 ELSE IF a[n] # 0 THEN n ELSE TopNZ(a, n - 1)

Norm(a) == LET n == TopNZ(a, Len(a)) IN IF n = Len(a) THEN a ELSE SubSeq(a, 1, n)

IsBigNat(a) == /\ \A i \in DOMAIN a : a[i] \in 0..(BASE - 1)
               /\ (Len(a) > 0 => a[Len(a)] # 0)

Limb(a, i) == IF i <= Len(a) THEN a[i] ELSE 0

(* n is an ordinary TLC natural (< 2^31) *)
FromNat(n) == Norm(<<n % BASE, (n \div BASE) % BASE, n \div (BASE * BASE)>>)

(* only for values that fit (at most two limbs and a small third one) *)
ToNat(a) == Limb(a, 1) + BASE * Limb(a, 2) + BASE * BASE * Limb(a, 3)
FitsNat(a) == Len(a) <= 2 \/ (Len(a) = 3 /\ a[3] < 32)

Zero == <<>>
One  == <<1>>
IsZero(a) == a = <<>>

(* carry propagation over column sums, each below 2^31 - 2^18 *)
RECURSIVE CarryPass(_, _, _)
CarryPass(c, i, k) ==
  IF i > Len(c)
  THEN (IF k = 0 THEN <<>> ELSE IF k < BASE THEN <<k>> ELSE <<k % BASE>> \o CarryPass(c, i, k \div BASE))
  ELSE LET t == c[i] + k IN <<t % BASE>> \o CarryPass(c, i + 1, t \div BASE)

Add(a, b) ==
  IF a = <<>> THEN b ELSE IF b = <<>> THEN a ELSE
  CarryPass([i \in 1..Max2(Len(a), Len(b)) |-> Limb(a, i) + Limb(b, i)], 1, 0)

RECURSIVE CmpFrom(_, _, _)
CmpFrom(a, b, i) == IF i = 0 THEN 0
                    ELSE IF a[i] > b[i] THEN 1
                    ELSE IF a[i] < b[i] THEN -1
                    ELSE CmpFrom(a, b, i - 1)

(* -1, 0, 1 *)
Cmp(a, b) == IF Len(a) > Len(b) THEN 1
             ELSE IF Len(a) < Len(b) THEN -1
             ELSE CmpFrom(a, b, Len(a))

Lt(a, b) == Cmp(a, b) = -1
Le(a, b) == Cmp(a, b) # 1
Eq(a, b) == a = b

(* a - b for a >= b *)
RECURSIVE BorrowPass(_, _, _, _)
BorrowPass(a, b, i, bw) ==
  IF i > Len(a) THEN <<>>
  ELSE LET t == a[i] - Limb(b, i) - bw
       IN IF t < 0 THEN <<t + BASE>> \o BorrowPass(a, b, i + 1, 1)
                   ELSE <<t>> \o BorrowPass(a, b, i + 1, 0)

Sub(a, b) == IF b = <<>> THEN a ELSE Norm(BorrowPass(a, b, 1, 0))

RECURSIVE ColSum(_, _, _, _, _)
ColSum(a, b, i, hi, k) == IF i > hi THEN 0 ELSE a[i] * b[k + 1 - i] + ColSum(a, b, i + 1, hi, k)

(* schoolbook product; the shorter operand must have at most 31 limbs *)
MulRaw(a, b) ==
  LET la == Len(a)  lb == Len(b)
  IN CarryPass([k \in 1..(la + lb - 1) |->
                  ColSum(a, b, Max2(1, k + 1 - lb), Min2(la, k), k)], 1, 0)

ShiftLimbs(a, n) ==
  IF a = <<>> \/ n = 0 THEN a
  ELSE IF n > 0 THEN [i \in 1..n |-> 0] \o a
  ELSE IF -n >= Len(a) THEN <<>>
  ELSE SubSeq(a, 1 - n, Len(a))

RECURSIVE Mul(_, _)
Mul(a, b) ==
  IF a = <<>> \/ b = <<>> THEN <<>>
  ELSE IF Min2(Len(a), Len(b)) <= 31 THEN MulRaw(a, b)
  ELSE (* split the first operand *)
       Add(MulRaw(SubSeq(a, 1, 31), b),
           ShiftLimbs(Mul(SubSeq(a, 32, Len(a)), b), 31))

Sqr(a) == Mul(a, a)
Cube(a) == Mul(a, Mul(a, a))

RECURSIVE Pow(_, _)
Pow(a, k) == IF k = 0 THEN One
             ELSE IF k = 1 THEN a
             ELSE LET h == Pow(a, k \div 2) h2 == Mul(h, h)
                  IN IF k % 2 = 0 THEN h2 ELSE Mul(h2, a)

(* k an ordinary natural below 2^17 *)
MulSmall(a, k) ==
  IF a = <<>> \/ k = 0 THEN <<>>
  ELSE IF k = 1 THEN a
  ELSE CarryPass([i \in 1..Len(a) |-> a[i] * k], 1, 0)

Pow2Small(r) == CASE r = 0 -> 1 [] r = 1 -> 2 [] r = 2 -> 4 [] r = 3 -> 8 [] r = 4 -> 16
                  [] r = 5 -> 32 [] r = 6 -> 64 [] r = 7 -> 128 [] r = 8 -> 256 [] r = 9 -> 512
                  [] r = 10 -> 1024 [] r = 11 -> 2048 [] r = 12 -> 4096 [] r = 13 -> 8192
                  [] r = 14 -> 16384 [] r = 15 -> 32768 [] r = 16 -> 65536

(* a * 2^k, k >= 0 *)
Shl(a, k) == ShiftLimbs(MulSmall(a, Pow2Small(k % LIMB_BITS)), k \div LIMB_BITS)

(* floor(a / 2^k), k >= 0 *)
Shr(a, k) == LET q == k \div LIMB_BITS  r == k % LIMB_BITS
             IN IF r = 0 THEN ShiftLimbs(a, -q)
                ELSE ShiftLimbs(MulSmall(a, Pow2Small(LIMB_BITS - r)), -(q + 1))

Pow2(k) == Shl(One, k)

(* division by an ordinary natural d, 0 < d < 2^17: <<quotient, remainder>> *)
RECURSIVE DivSmallFrom(_, _, _, _)
DivSmallFrom(a, d, i, rem) ==
  IF i = 0 THEN <<<<>>, rem>>
  ELSE LET t == rem * BASE + a[i]
           rest == DivSmallFrom(a, d, i - 1, t % d)
       IN <<Append(rest[1], t \div d), rest[2]>>

(* the recursion builds the quotient most significant limb last, i.e. already little-endian *)
DivModSmall(a, d) == LET r == DivSmallFrom(a, d, Len(a), 0) IN <<Norm(r[1]), r[2]>>
DivSmall(a, d) == DivModSmall(a, d)[1]
ModSmall(a, d) == DivModSmall(a, d)[2]

(* number of significant bits *)
RECURSIVE BitsOfLimb(_)
BitsOfLimb(x) == IF x = 0 THEN 0 ELSE 1 + BitsOfLimb(x \div 2)
BitLen(a) == IF a = <<>> THEN 0 ELSE (Len(a) - 1) * LIMB_BITS + BitsOfLimb(a[Len(a)])

IsOdd(a) == a # <<>> /\ a[1] % 2 = 1

(* bit i (0 = least significant) *)
Bit(a, i) == (Limb(a, i \div LIMB_BITS + 1) \div Pow2Small(i % LIMB_BITS)) % 2

(* floor division by a BigNat b # 0: long division, bit by bit over the quotient;
   slow (BitLen(a) iterations) - use only on model constants *)
RECURSIVE DivBits(_, _, _, _, _)
DivBits(a, b, i, q, r) ==
  IF i < 0 THEN <<q, r>>
  ELSE LET r2 == Add(Shl(r, 1), IF Bit(a, i) = 1 THEN One ELSE Zero)
       IN IF Le(b, r2) THEN DivBits(a, b, i - 1, Add(Shl(q, 1), One), Sub(r2, b))
                       ELSE DivBits(a, b, i - 1, Shl(q, 1), r2)
DivMod(a, b) == DivBits(a, b, BitLen(a) - 1, Zero, Zero)
Div(a, b) == DivMod(a, b)[1]
Mod(a, b) == DivMod(a, b)[2]

-----------------------------------------------------------------------------
(* signed integers *)

IZero == <<0, <<>>>>
IOne  == <<1, <<1>>>>
IFromNat(m) == IF m = <<>> THEN IZero ELSE <<1, m>>
IFromInt(n) == IF n = 0 THEN IZero ELSE IF n > 0 THEN <<1, FromNat(n)>> ELSE <<-1, FromNat(-n)>>
IMk(s, m) == IF m = <<>> \/ s = 0 THEN IZero ELSE <<s, m>>
ISign(x) == x[1]
IMag(x) == x[2]
INeg(x) == <<-x[1], x[2]>>
IAbs(x) == IF x[1] < 0 THEN <<1, x[2]>> ELSE x

IAdd(x, y) ==
  IF x[1] = 0 THEN y ELSE IF y[1] = 0 THEN x
  ELSE IF x[1] = y[1] THEN <<x[1], Add(x[2], y[2])>>
  ELSE LET c == Cmp(x[2], y[2])
       IN IF c = 0 THEN IZero
          ELSE IF c > 0 THEN <<x[1], Sub(x[2], y[2])>>
          ELSE <<y[1], Sub(y[2], x[2])>>

ISub(x, y) == IAdd(x, INeg(y))
IMul(x, y) == IF x[1] = 0 \/ y[1] = 0 THEN IZero ELSE <<x[1] * y[1], Mul(x[2], y[2])>>
IMulSmall(x, k) == IF k = 0 \/ x[1] = 0 THEN IZero
                   ELSE IF k > 0 THEN <<x[1], MulSmall(x[2], k)>>
                   ELSE <<-x[1], MulSmall(x[2], -k)>>
ISqr(x) == IF x[1] = 0 THEN IZero ELSE <<1, Sqr(x[2])>>

ICmp(x, y) ==
  IF x[1] # y[1] THEN (IF x[1] > y[1] THEN 1 ELSE -1)
  ELSE IF x[1] = 0 THEN 0
  ELSE x[1] * Cmp(x[2], y[2])

ILt(x, y) == ICmp(x, y) = -1
ILe(x, y) == ICmp(x, y) # 1
IMax(x, y) == IF ILe(x, y) THEN y ELSE x
IMin(x, y) == IF ILe(x, y) THEN x ELSE y

(* shifts of the magnitude: rounds toward zero *)
IShiftLimbs(x, n) == IMk(x[1], ShiftLimbs(x[2], n))
IShl(x, k) == IMk(x[1], Shl(x[2], k))
IShr(x, k) == IMk(x[1], Shr(x[2], k))
=============================================================================
