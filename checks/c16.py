"""C16 - CAM16 appearance correlates round-trip and are mutually consistent.
Spec: spec/Cam16.tla - relations over recorded events with the viewing conditions as an opaque token: XYZ round trips
through the full Cam16 and the six partial types, black, partial = exact projection of full and expands back to it,
parameter-free consequences of the published links between the attributes (one colour: s^2 Q = 10^4 M; two colours
under the same conditions: M1 C2 = M2 C1, Q1^2 J2 = Q2^2 J1, s1^2 Q1 M2 = s2^2 Q2 M1; adopted white: J = 100), and the
CAM16-UCS transformations of Li et al. 2017 with their published inverses (ln / exp / sin / cos by series,
spec/lib/LnExp.tla). MC_Cam16 enumerates the lattice of viewing conditions x the six partial kinds (emitted as REPLAY
lines: the harness builds palette Parameters from each tuple) and checks the reference against itself (UCS relations
mutually inverse on a grid, series against tabulated values, the published definitions imply the relations, every
verdict accepts exact events and rejects perturbed ones). harness/src/bin/cam16.rs records the conversions for f32 and
f64; TraceCam16.tla judges every event. Nothing in this file decides anything: Python only selects, deals and counts."""
import json, random, struct, threading
from common import *

KINDS = ["jch", "jmh", "jsh", "qch", "qmh", "qsh"]


def lattice(ctx):
    """the lattice of viewing conditions x partial kinds, from TLC"""
    # -coverage is unusable here (TLC runs out of memory instrumenting the 25920-element case set); vacuity is controlled by
    # the number of emitted cases below and by the number of self-check states in self_checks
    r = tlc_mc(ctx, "MC_Cam16", constants={"Mode": '"lat"', "Stride": 1}, tag="cam16_lattice", workers=6, coverage=False)
    cases = extract_prints(r.out_path, "REPLAY")
    if len(cases) != 25920:
        raise ToolError("MC_Cam16 emitted %d lattice cases, expected 5*4*9*4*2*3*6 = 25920" % len(cases))
    return cases


def self_checks(ctx, box):
    """the reference checked against itself; runs beside the trace validation"""
    try:
        stride = 6 if ctx.quick else 1
        r = tlc_mc(ctx, "MC_Cam16", constants={"Mode": '"self"', "Stride": stride}, tag="cam16_self",
                   workers=4 if ctx.quick else 6, coverage=False, timeout=2400)
        # start + groups + one state per self check: none may be missing (vacuity control)
        want = 1 + 29 + sum(len(range(0, n + 1, stride)) for n in (120, 150, 72, 26)) + 16 + 22
        if r.distinct != want:
            raise ToolError("MC_Cam16 self checks: %d states, expected %d" % (r.distinct, want))
        box["res"] = r
    except Exception as e:       # re-raised in the main thread
        box["err"] = e


def select(ctx, cases):
    """quick: every tuple of viewing conditions once, the partial kind rotating with the tuple and the seed (a sixth of
    the lattice); thorough: the whole lattice. Order shuffled by the seed (the harness cycles its colours along it)."""
    rows = sorted((json.loads(c) for c in cases), key=lambda r: r[0])      # TLC's workers emit in no particular order
    if ctx.quick:
        rows = [r for r in rows if KINDS[(r[0] + ctx.seed) % 6] == r[13]]
    random.Random(ctx.seed).shuffle(rows)
    return rows


def deal(ctx, path, chunk):
    """events are independent: deal them round-robin over the validation chunks so that the expensive ones (UCS: series)
    do not all land in one TLC process"""
    lines = open(path).readlines()
    k = max(1, -(-len(lines) // chunk))
    out = ctx.p("c16.dealt.ndjson")
    with open(out, "w") as f:
        for j in range(k):
            f.writelines(lines[j::k])
    return out, len(lines)


def hexf(j):
    return struct.pack(">d", dy_to_float(j)).hex()


def command_of(ev):
    """the command that re-executes a recorded event exactly (harness --cmds)"""
    if ev["ev"] == "conv":
        return {"ev": "conv", "t": ev["t"], "pk": ev["pk"], "id": ev["params"], "pj": ev["pj"], "w": ev["w"], "x": [hexf(v) for v in ev["x"]]}
    if ev["ev"] == "pair":
        return {"ev": "pair", "t": ev["t"], "id": ev["params"], "pj": ev["pj"], "x1": [hexf(v) for v in ev["x1"]], "x2": [hexf(v) for v in ev["x2"]]}
    return {"ev": "ucs", "t": ev["t"], "jmh": [hexf(v) for v in ev["jmh"]]}


def fl(v):
    return [float("%.17g" % dy_to_float(x)) for x in v]


def describe(ev, why):
    if ev["ev"] == "conv":
        return "%s Cam16%s under [%s]: %s: xyz %s -> full %s -> xyz %s; partial %s -> xyz %s, into_full %s%s" % (
            ev["t"], ev["pk"].capitalize(), ev.get("pv"), why, fl(ev["x"]), fl(ev["full"]), fl(ev["fback"]), fl(ev["part"]), fl(ev["pback"]),
            fl(ev["exp"]), " PANIC " + ev.get("msg", "") if ev.get("panic") else "")
    if ev["ev"] == "pair":
        return "%s two colours under [%s]: %s: xyz %s -> %s; xyz %s -> %s%s" % (
            ev["t"], ev.get("pv"), why, fl(ev["x1"]), fl(ev["f1"]), fl(ev["x2"]), fl(ev["f2"]), " PANIC " + ev.get("msg", "") if ev.get("panic") else "")
    return "%s CAM16-UCS: %s: Cam16Jmh %s -> UcsJmh %s -> UcsJab %s -> UcsJmh %s -> Cam16Jmh %s%s" % (
        ev["t"], why, fl(ev["jmh"]), fl(ev["ujmh"]), fl(ev["ujab"]), fl(ev["ujmhb"]), fl(ev["jmhb"]), " PANIC " + ev.get("msg", "") if ev.get("panic") else "")


def coords_of(ev, why):
    if ev["ev"] == "ucs":
        return {"kind": "ucs", "class": why, "t": ev["t"]}
    return {"kind": "cam", "class": why, "partial": ev.get("pk", "-"), "params": ev["params"], "t": ev["t"], "event": ev["ev"]}


RELATION = {"rt": "XYZ round trip (full and partial), relative to the XYZ vector", "rtc": "XYZ round trip, inputs with one negative cone response",
            "pp": "Partial::from_xyz vs projection of full", "ef": "into_full(partial) vs full", "sat": "s^2 Q = 10^4 M",
            "wj": "adopted white has J = 100", "pair": "two-colour attribute ratios", "fj": "J' (1 + 0.007 J) = 1.7 J",
            "fm": "0.0228 M' = ln(1 + 0.0228 M)", "pol": "(a', b') = M' (cos h, sin h)", "ij": "J (1.7 - 0.007 J') = J'",
            "im": "exp(0.0228 M') = 1 + 0.0228 M", "urt": "UCS round trips"}


def margins(notes):
    """smallest number of bits of agreement per component type and relation, and the number of events per kind, over all
    validation chunks (book-keeping printed by TraceCam16; informational)"""
    mn, cnt = {}, {}
    for n in notes:
        p = [x.strip().strip('"') for x in n.split(",")]
        if p[0] != "min":
            continue
        t, k, v = p[1], p[2], int(p[3])
        if k.startswith("n."):
            cnt["%s %s" % (t, k[2:])] = cnt.get("%s %s" % (t, k[2:]), 0) + v
        elif v < 999:
            key = "%s %s" % (t, RELATION.get(k, k))
            mn[key] = min(mn.get(key, 999), v)
    out = {}
    for k, v in sorted(mn.items()):
        out[k] = {"min_bits_of_agreement": v, "largest_deviation": float("%.2g" % 2.0 ** -v)} if v < 200 else "bit-identical in every event"
    return out, dict(sorted(cnt.items()))


def run(ctx):
    bins = cargo_build(["cam16"])
    cases = lattice(ctx)
    box = {}
    th = threading.Thread(target=self_checks, args=(ctx, box))
    th.start()
    try:
        rows = select(ctx, cases)
        lp = ctx.p("c16.lattice.jsonl")
        with open(lp, "w") as f:
            for r in rows:
                f.write(json.dumps(r) + "\n")
        per_case, n_random, n_pairs, n_ucs = (1, 1000, 1000, 1000) if ctx.quick else (3, 30000, 25000, 20000)
        tp = ctx.p("c16.ndjson")
        run_bin(bins["cam16"], ["--cases", lp, "--per-case", per_case, "--random", n_random, "--pairs", n_pairs, "--ucs", n_ucs, "--out", tp])
        n = sum(1 for _ in open(tp))
        chunk = min(12000, max(200, n // 13 + 1))
        dealt, n = deal(ctx, tp, chunk)
        log("C16: %d lattice cases (%d emitted), %d events, chunks of %d" % (len(rows), len(cases), n, chunk))
        res = validate_trace(ctx, "TraceCam16", dealt, stateless=True, chunk_events=chunk, tag="c16", xmx="3g")
        # the forward model against the published equations (Cam16Ref.tla; about a second of TLC per event): a sample of
        # the conv events, spread evenly over the recording (so over viewing conditions, partial kinds and component types)
        conv = [ln for ln in open(tp) if '"ev":"conv"' in ln]
        want = 240 if ctx.quick else 4000
        step = max(1, len(conv) // want)
        rp_path = ctx.p("c16ref.ndjson")
        with open(rp_path, "w") as f:
            f.writelines(conv[i] for i in range(ctx.seed % step, len(conv), step))
        res_ref = validate_trace(ctx, "TraceCam16Ref", rp_path, stateless=True, chunk_events=max(8, want // 32), tag="c16ref", xmx="2g")
    finally:
        th.join()
    if "err" in box:
        raise box["err"]
    ctx.cov["traces_validated_against_impl"] += res_ref.events - len(res_ref.rejected)
    for (line, ev, info, _) in res_ref.rejected:
        why = info.strip().strip('"')
        report(ctx, coords_of(ev, why), describe(ev, why), {"bin": "cam16", "cmd": command_of(ev), "event": ev, "trace_line": line, "spec": "TraceCam16Ref",
                                                         "how": "./check C16 --replay <this file>"})
    ctx.cov["traces_validated_against_impl"] += res.events - len(res.rejected)
    add_samples(ctx, dealt, n=3, every=max(1, n // 3 - 1))
    ctx.cov["distinct_nontrivial"] += count_distinct(
        dealt, lambda e: json.dumps([e["ev"], e["t"], e.get("params"), e.get("pk"), e.get("x"), e.get("x1"), e.get("x2"), e.get("jmh")]),
        lambda e: not e.get("panic"))
    mg, cnt = margins(res.notes)
    for (line, ev, info, _) in res.rejected:
        why = info.strip().strip('"')
        report(ctx, coords_of(ev, why), describe(ev, why), {"bin": "cam16", "cmd": command_of(ev), "event": ev, "trace_line": line,
                                                         "how": "./check C16 --replay <this file>"})
    return finish(ctx, "model_checking",
                  rule="a case is one colour (or pair of colours, or one Cam16Jmh value) converted under one set of viewing conditions "
                       "through one partial type and one component type; distinct by exact input, conditions id, partial kind and type",
                  explanation="MC_Cam16: 25920 lattice cases (5 adapting luminances x 4 backgrounds x 9 surrounds x 4 discountings x "
                              "static/dynamic x 3 whites x 6 partial kinds) enumerated and emitted by TLC, plus self checks of the reference "
                              "(UCS relations and published inverses mutually inverse on a grid, ln/exp/sin/cos series against tabulated "
                              "values at the three precisions used, published attribute definitions imply the parameter-free relations, "
                              "each verdict accepts exact and rejects perturbed events). The harness converts lattice and seeded random "
                              "colours in and around the sRGB gamut (incl. one negative cone response, dark down to 1e-9, 4x white, black, "
                              "the adopted white) under lattice and random conditions, f32 and f64; TLC judges every event with Cam16.tla, "
                              "and a sample of the conversions against the published forward model evaluated in fixed point with real "
                              "powers (Cam16Ref.tla: viewing conditions -> c, F, F_L, n, z, N_bb, D, A_w; XYZ -> J, C, h, Q, M, s).",
                  trusted=["reference constants and formulas of spec/Cam16.tla (Li et al. 2017) and spec/lib/LnExp.tla",
                           "thresholds of spec/Cam16.tla (margins are in coverage.margins of this file)",
                           "the harness' flag w=1 (the colour converted is the adopted white of the conditions)",
                           "domain of spec/Cam16.tla!InDomain: non-negative CAT16 cone responses or one negative response of at most "
                           "1/16 of the smaller of the other two; other inputs are recorded but not judged (CAM16 undefined for A <= 0)"],
                  extra={"margins": mg, "events_judged": cnt, "lattice_cases_emitted": len(cases), "lattice_cases_executed": len(rows)})


def replay(ctx, path):
    rp = json.load(open(path))["replay"]
    bins = cargo_build(["cam16"])
    cp = ctx.p("replay.cmds")
    open(cp, "w").write(json.dumps(rp["cmd"]) + "\n")
    tp = ctx.p("replay.ndjson")
    run_bin(bins["cam16"], ["--cmds", cp, "--out", tp])
    res = validate_trace(ctx, rp.get("spec", "TraceCam16"), tp, stateless=True, tag="replay")
    if res.rejected:
        print("VIOLATION property=C16 replay=%s" % path)
        print("  still rejected: %s" % describe(res.rejected[0][1], res.rejected[0][2].strip().strip('"'))[:600])
        return 1
    print("replay accepted")
    return 0
