"""C01 - colour space conversions invert and commute.
Spec: spec/ConvGraph.tla (conversion graph + the derive macro's routing algorithm, transcribed), spec/ColourEq.tla
(when two coordinate tuples are the same colour), spec/trace/TraceWalk.tla. TLC checks that every ordered pair has a
terminating route of hand-written edges and emits the routes; the harness executes round trips A->B->A, triangles
A->C vs A->B->C and alpha-carrying walks over all ordered pairs for f32 and f64; TLC requires the abstract colour
(hub image) to be invariant under every hop, round trips to return the start coordinates, alpha to change nothing."""
import json, random
from common import *
from colours import *

FAM = {}
for f, ns in {"rgb": ("linsrgb", "srgb", "hsl", "hsv", "hwb"), "ok": ("oklab", "oklch", "okhsl", "okhsv", "okhwb")}.items():
    for n in ns:
        FAM[n] = f
UNB = ["xyz", "yxy", "lab", "lch", "luv", "lchuv", "oklab", "oklch", "linsrgb"]
HUBS = ["xyz", "srgb", "lab", "oklab", "hsv"]
# linear sRGB -> XYZ (IEC 61966-2-1), only to select real colours as starting points
M = [(0.4124564, 0.3575761, 0.1804375), (0.2126729, 0.7151522, 0.0721750), (0.0193339, 0.1191920, 0.9503041)]


def gen(ctx, path):
    rnd = random.Random(ctx.seed)
    c = Cmds(path)
    c.add(op="consts")
    nst = 6 if ctx.quick else 40
    starts = in_gamut_starts(rnd, nst, 1e-3) + [(0.004, 0.006, 0.003), (0.3, 0.3001, 0.3)]
    # round trips over all ordered pairs
    for A in ORDER:
        for B in ORDER:
            if A == B:
                continue
            for s in starts:
                c.add(**{"from": "srgb", "in": s, "path": [A, B, A] if A != "srgb" else [B, A], "mode": "u"})
    # direct versus step by step through a hub
    tri_starts = starts[: (3 if ctx.quick else 12)]
    for A in ORDER:
        for C in ORDER:
            if A == C:
                continue
            for B in HUBS:
                if B in (A, C):
                    continue
                for s in tri_starts:
                    pre = [] if A == "srgb" else [A]
                    c.add(op="tri", **{"from": "srgb", "in": s, "p1": pre + [C], "p2": pre + [B, C]})
    # with transparency attached
    for A in ORDER:
        for B in ORDER:
            if A == B or (ctx.quick and rnd.random() < 0.6):
                continue
            s = rnd.choice(starts)
            for a in (0.0, 0.37, 1.0):
                c.add(**{"from": "srgb", "in": s + (a,), "path": [A, B] if A != "srgb" else [B], "mode": "a"})
    # hues are angles: a stored hue outside [0, 360) (the signed form -120, one or two turns up) is the same colour
    for A in ORDER:
        hi = [i for i, r in enumerate(NODES[A]) if r is None]
        if not hi:
            continue
        for h in (-120.0, -30.0, 360.0, 480.0, 725.5):
            p = [0.5 * (r[0] + r[1]) if r is not None else h for r in NODES[A]]
            if A in HWB:
                p = [p[0], 0.2, 0.3]
            if A in ("lch", "lchuv", "oklch"):
                p[1] = 0.25 * NODES[A][1][1]
            for B in ORDER:
                if B != A and B not in LUMA and (not ctx.quick or rnd.random() < 0.5):
                    c.add(**{"from": A, "in": tuple(p), "path": [B, A], "mode": "u"})
    # a user-defined colour type with an internal alpha field, wired in by the derive macro (harness: UserRgb)
    for A in ORDER:
        lat = lattice_in(A)
        pts = random_in(A, rnd, 3 if ctx.quick else 12) + rnd.sample(lat, min(len(lat), 2 if ctx.quick else 8))
        for i, pnt in enumerate(pts):
            c.add(op="user", node=A, **{"in": tuple(pnt) + ((0.0, 0.25, 0.7311, 1.0, 1.5)[i % 5],)})
    # real colours outside the sRGB gamut, between the spaces that can represent them
    n2 = 10 if ctx.quick else 80
    outs = []
    while len(outs) < n2:
        p = tuple(rnd.uniform(-0.25, 1.3) for _ in range(3))
        xyz = [sum(m * v for m, v in zip(row, p)) for row in M]
        if min(xyz) >= 0.02 and (min(p) < 0 or max(p) > 1):
            outs.append(p)
    for A in UNB:
        for B in UNB:
            if A == B:
                continue
            for s in outs:
                c.add(**{"from": "linsrgb", "in": s, "path": [A, B, A] if A != "linsrgb" else [B, A], "mode": "u"})
    return c.close()


# the universe of the other RGB standards and white points (harness binaries convstd64/convstd32)
STD_GROUPS = {"srgb": ["xyz", "lab", "srgb", "linsrgb", "adobe", "linadobe", "p3", "linp3", "rec2020", "linrec2020", "rec709", "hsv_adobe",
                       "hsl_p3", "hwb_rec2020", "hsv", "hsl", "hwb",      # each hexcone form in two RGB standards ...
                       "hsv_linsrgb", "hsl_linsrgb", "hwb_rec709"],         # ... and in two standards that share their primaries
              "prophoto": ["xyz50", "lab50", "lch50", "luv50", "prophoto", "linprophoto", "hsv_prophoto"],
              "dcip3": ["xyzdci", "labdci", "dcip3", "lindcip3", "dcip3plus", "lindcip3plus"]}


def gen_std(ctx, path):
    rnd = random.Random(ctx.seed + 17)
    c = Cmds(path)
    c.add(op="consts")
    starts = in_gamut_starts(rnd, 5 if ctx.quick else 30, 5e-2) + [(0.02, 0.03, 0.015)]
    for root, group in STD_GROUPS.items():
        for A in group:
            for B in group:
                if A == B:
                    continue
                for s in starts:
                    c.add(**{"from": root, "in": s, "path": ([A] if A != root else []) + [B, A], "mode": "u"})
                # direct versus through the group's Xyz and through the root RGB
                for via in (group[0], root):
                    if via in (A, B):
                        continue
                    for s in starts[:2 if ctx.quick else 8]:
                        pre = [] if A == root else [A]
                        c.add(op="tri", **{"from": root, "in": s, "p1": pre + [B], "p2": pre + [via, B]})
        # colours of the widest gamut of the group that the others can only write with negative components
        wide = {"srgb": "linrec2020", "prophoto": "linprophoto", "dcip3": "lindcip3plus"}[root]
        rgbs = [n for n in group if not any(n.startswith(p) for p in ("xyz", "lab", "lch", "luv", "hs", "hw"))]
        for s in [(0.02, 0.95, 0.05), (0.95, 0.03, 0.04), (0.03, 0.05, 0.9), (0.9, 0.9, 0.02)]:
            for B in rgbs + [group[0], group[1]]:
                if B != wide:
                    c.add(**{"from": wide, "in": s, "path": [B, wide], "mode": "u"})
                    for C in rgbs[: (3 if ctx.quick else len(rgbs))]:
                        if C not in (B, wide):
                            c.add(op="tri", **{"from": wide, "in": s, "p1": [C], "p2": [B, C]})
        # a cross-group attempt must not exist
        other = [g for r, g in STD_GROUPS.items() if r != root][0]
        c.add(**{"from": root, "in": starts[0], "path": [other[0]], "mode": "u"})
    return c.close()


def hub_dev(w):
    dev = 0.0
    hubs = [[dy_to_float(x) for x in h] for h in w["hub"]]
    for i in range(1, len(hubs)):
        if w["nodes"][i] in LUMA:      # lossy hop: only luminance survives
            dev = max(dev, abs(hubs[i][1] - hubs[i - 1][1]))
            continue
        for x, y in zip(hubs[i], hubs[i - 1]):
            dev = max(dev, abs(x - y))
    return dev


def okrgb_adjacent(nodes):
    for a, b in zip(nodes, nodes[1:]):
        if {FAM.get(a, "cie"), FAM.get(b, "cie")} == {"rgb", "ok"}:
            return True
    return False


def coords_of(ev, why):
    d = {"kind": ev["ev"], "class": why, "t": ev.get("t")}
    if ev["ev"] == "walk":
        d["nodes"] = ">".join(ev["nodes"])
        d["okrgb_adjacent"] = okrgb_adjacent(ev["nodes"])
        try:
            d["dev"] = hub_dev(ev)
        except Exception:
            d["dev"] = float("inf")
    elif ev["ev"] == "user":
        d["nodes"] = ev["node"] + ">UserRgb>" + ev["node"]
        d["okrgb_adjacent"] = False
        d["dev"] = 0.0
    elif ev["ev"] == "tri":
        a, b = ev["w1"], ev["w2"]
        d["nodes"] = ">".join(a["nodes"]) + " | " + ">".join(b["nodes"])
        d["okrgb_adjacent"] = okrgb_adjacent(a["nodes"]) != okrgb_adjacent(b["nodes"]) or okrgb_adjacent(a["nodes"])
        try:
            ha = [dy_to_float(x) for x in a["hub"][-1]]
            hb = [dy_to_float(x) for x in b["hub"][-1]]
            d["dev"] = max(abs(x - y) for x, y in zip(ha, hb))
        except Exception:
            d["dev"] = float("inf")
    return d


def run(ctx):
    bins = cargo_build(["conv64", "conv32", "convstd64", "convstd32"])
    follow_tree(ctx)
    r = tlc_mc(ctx, "MC_ConvGraph", tag="convgraph", workers=4)
    routes = extract_prints(r.out_path, "REPLAY")
    ctx.cov["samples"].append({"route_emitted_by_TLC": json.loads(routes[len(routes) // 2])})
    cmds = ctx.p("c01.cmds")
    n = gen(ctx, cmds)
    log("C01: %d commands" % n)
    cmds_std = ctx.p("c01std.cmds")
    log("C01: %d commands on the other standards" % gen_std(ctx, cmds_std))
    for b in ("conv64", "conv32", "convstd64", "convstd32"):
        tp = ctx.p("c01.%s.ndjson" % b)
        run_bin(bins[b], ["--cmds", cmds_std if "std" in b else cmds, "--out", tp])
        res = validate_trace(ctx, "TraceWalk", tp, stateless=True, chunk_events=2500, tag="c01." + b)
        ctx.cov["traces_validated_against_impl"] += res.events - len(res.rejected)
        add_samples(ctx, tp, n=1, every=7001)
        ctx.cov["distinct_nontrivial"] += count_distinct(
            tp, lambda e: json.dumps([e.get("nodes") or [e["w1"]["nodes"], e["w2"]["nodes"]], e.get("vals", [""])[0] if "vals" in e else e["w1"]["vals"][0]]),
            lambda e: e.get("ev") in ("walk", "tri"))
        for (line, ev, info, _) in res.rejected:
            why = info.strip().strip('"')
            d = coords_of(ev, why)
            what = "%s %s: %s (largest step deviation of the XYZ image %.3g)" % (ev.get("t"), d.get("nodes"), why, d.get("dev", 0))
            report(ctx, d, what, {"bin": b, "event": ev, "trace_line": line})
    return finish(ctx, "model_checking",
                  rule="a case is one walk (start colour x sequence of target spaces) or one pair of routes; distinct by nodes and "
                       "exact start colour; every case performs at least one conversion (non-trivial)",
                  explanation="MC_ConvGraph: every ordered pair of the 18 colour types of the XYZ group has a terminating route of "
                              "hand-written edges under the transcribed derive algorithm (324 pairs = states). All ordered pairs of 21 "
                              "typed nodes are then exercised as round trips, triangles through five hubs and alpha-carrying walks; TLC "
                              "judges every event with ColourEq.tla.",
                  trusted=["the code's own direct conversion to Xyz as the abstraction function (a defect common to all routes is C02's)",
                           "tolerance classes of spec/ColourEq.tla"])


SKIP_FILES = {"Xyz": "xyz.rs", "Yxy": "yxy.rs", "Lab": "lab.rs", "Lch": "lch.rs", "Luv": "luv.rs", "Lchuv": "lchuv.rs",
              "Hsluv": "hsluv.rs", "Hsl": "hsl.rs", "Hsv": "hsv.rs", "Hwb": "hwb.rs", "Luma": "luma/luma.rs", "Lms": "lms/lms.rs",
              "Oklab": "oklab.rs", "Oklch": "oklch.rs", "Okhsl": "okhsl.rs", "Okhsv": "okhsv.rs", "Okhwb": "okhwb.rs", "Rgb": "rgb/rgb.rs"}


def tree_tables(root):
    """(preferred-source pairs in declaration order, skip lists) read from the working tree, or None when the sources
    no longer look the way this reader expects (then the pinned transcription stays in force)."""
    import re
    try:
        skips = {}
        for name, f in SKIP_FILES.items():
            src = (root / "palette" / "src" / f).read_text()
            m = re.search(r"pub struct %s\b" % name, src)
            head = src[:m.start()] if m else src
            ms = list(re.finditer(r"skip_derives\(([^)]*)\)", head))
            skips[name] = sorted(set(x.strip() for x in ms[-1].group(1).split(",") if x.strip())) if ms else []
        ct = (root / "palette_derive" / "src" / "color_types.rs").read_text()
        grp = ct[ct.index("static XYZ_COLORS"):ct.index("static CAM16_JCH_COLORS")]
        grp = grp[grp.index("colors: &["):]
        pairs = [list(p) for p in re.findall(r'name: "(\w+)",.*?preferred_source: "(\w+)"', grp, re.S) if p[0] != "Xyz"]
        names = {"Xyz"} | {p[0] for p in pairs}
        if not pairs or names != set(SKIP_FILES) or any(p[1] not in names for p in pairs):
            return None
        if any(not set(v) <= names for v in skips.values()):
            return None
        return pairs, skips
    except Exception:
        return None


def spec_tables(text):
    import re
    pairs = [list(p) for p in re.findall(r'<<"(\w+)", "(\w+)">>', text[text.index("Colors =="):text.index("Root ==")])]
    skips = {}
    for name in SKIP_FILES:
        m = re.search(r"%s \|-> \{([^}]*)\}" % name, text[text.index("Skip =="):])
        skips[name] = sorted(set(x.strip().strip('"') for x in m.group(1).split(",") if x.strip()))
    return pairs, skips


def follow_tree(ctx):
    """The preferred-source table and the skip lists of ConvGraph.tla are a transcription of the pinned tree.  A change
    of route is not a property violation, so when the working tree's tables differ the model is regenerated from the
    tree (a copy of spec/ with the two tables replaced) and TLC checks and validates against that."""
    import re
    root = Path(os.environ.get("VERIF_REPO_ROOT") or harness_repo_root())
    text = (SPEC / "ConvGraph.tla").read_text()
    tree = tree_tables(root)
    if tree is None:
        log("C01: NOTE routing tables of the working tree not readable; the pinned transcription stays in force")
        ctx.cov.setdefault("notes", []).append("routing tables not readable from the working tree; pinned transcription used")
        return
    if tree == spec_tables(text):
        return
    pairs, skips = tree
    log("C01: NOTE routing tables of the working tree differ from the pinned transcription; model regenerated from the tree")
    ctx.cov.setdefault("notes", []).append("ConvGraph.tla tables regenerated from the working tree (routes changed)")
    colors = "Colors == << " + ", ".join('<<"%s", "%s">>' % tuple(p) for p in pairs) + " >>\n"
    skip = "Skip == [ " + ",\n          ".join("%s |-> {%s}" % (n, ", ".join('"%s"' % x for x in skips[n])) for n in SKIP_FILES) + " ]\n"
    a, b = text.index("Colors =="), text.index("Root ==")
    text = text[:a] + colors + text[b:]
    a = text.index("Skip ==")
    b = text.index("]", a) + 1
    text = text[:a] + skip + text[b:].lstrip("\n")
    dst = ctx.work / "spec_tree"
    shutil.copytree(SPEC, dst, ignore=shutil.ignore_patterns("states", "*.out"))
    (dst / "ConvGraph.tla").write_text(text)
    import common
    common.use_spec_dir(dst)


def harness_repo_root():
    import re
    m = re.search(r'palette = \{ path = "([^"]+)/palette"', (HARNESS / "Cargo.toml").read_text())
    return m.group(1)


def replay(ctx, path):
    rp = json.load(open(path))["replay"]
    bins = cargo_build(["conv64", "conv32", "convstd64", "convstd32"])
    ev = rp["event"]
    c = Cmds(ctx.p("replay.cmds"))
    if ev["ev"] == "walk":
        vals = [dy_to_float(x) for x in ev["vals"][0]]
        c.add(**{"from": ev["nodes"][0], "in": vals, "path": ev["nodes"][1:], "mode": ev["mode"]})
    elif ev["ev"] == "tri":
        vals = [dy_to_float(x) for x in ev["w1"]["vals"][0]]
        c.add(op="tri", **{"from": ev["w1"]["nodes"][0], "in": vals, "p1": ev["w1"]["nodes"][1:], "p2": ev["w2"]["nodes"][1:]})
    elif ev["ev"] == "user":
        c.add(op="user", node=ev["node"], **{"in": [dy_to_float(x) for x in ev["in"]]})
    else:
        c.add(op="consts")
    c.close()
    tp = ctx.p("replay.ndjson")
    run_bin(bins[rp["bin"]], ["--cmds", ctx.p("replay.cmds"), "--out", tp])
    res = validate_trace(ctx, "TraceWalk", tp, stateless=True, tag="replay")
    if res.rejected:
        print("VIOLATION property=C01 replay=%s" % path)
        print("  still rejected: %s" % res.rejected[0][2])
        return 1
    print("replay accepted")
    return 0
