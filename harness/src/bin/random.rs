//! C19 driver: draws colours from palette's `Standard` and `Uniform` distributions (every colour type with
//! sampling support x f32/f64, plain and `Alpha`-wrapped) with a deterministic, clonable generator and records
//! one NDJSON event per sample with the exact values of the ends, of the sample and of the raw uniform variates
//! the sampler consumed. Judging is done by TLC (spec/trace/TraceRandom.tla); nothing here decides the property.
//!
//! The variates: before sampling, the generator is cloned twice and the first k numbers (k = number of
//! components) are drawn from the clones the way rand draws scalars - `rng.gen::<T>()` (Standard: 24/53 bits) and
//! `Uniform::new(0.0, 1.0).sample(rng)` (23/52 bits; scale is exactly 1, so this is the raw variate). Every
//! generator used here yields one 64-bit output per scalar draw of either kind, so both lists are aligned with
//! the sampler's own draws.
//!
//! usage: random --tier quick|thorough --out trace.ndjson [--hist cases.ndjson]      (VERIF_SEED)
//!        random --one '<event json>' --out trace.ndjson          (re-execute one recorded event: replay)
//!
//! `--hist`: TLC-generated cases {"r":[k1,k2,k3,k4],"g":G}: the variates k/G (k = G: the largest variate below
//! 1) are fed to the real samplers through a scripted generator.
//!
//! Event: {"ev":"sample","dist":"standard"|"uniform","incl":0|1,"ty":node,"t":"f32"|"f64","alpha":0|1,
//!         "lo":[..],"hi":[..],"vs":[..],"vu":[..],"out":[..],"panic":0|1,"rng":{"sm":hex}|{"script":[hex..]}}
//! A panic inside palette / rand is data: "panic":1, "out":[], "msg".
//! Only ends satisfying rand's precondition are driven (`new`: low < high in every component, `new_inclusive`:
//! low <= high; HWB forms: in their HSV image, whose saturations and values palette orders itself).

use palette::cam16::{Cam16UcsJab, Cam16UcsJmh};
use palette::encoding;
use palette::hues::{Cam16Hue, LabHue, LuvHue, OklabHue, RgbHue};
use palette::lms::VonKriesLms;
use palette::luma::Luma;
use palette::rgb::Rgb;
use palette::white_point::D65;
use palette::{Alpha, Hsl, Hsluv, Hsv, Hwb, Lab, Lch, Lchuv, Luv, Okhsl, Okhsv, Okhwb, Oklab, Oklch, Xyz, Yxy};
use pvh::*;
use rand::distributions::uniform::SampleUniform;
use rand::distributions::{Distribution, Standard, Uniform};
use rand::{Rng, RngCore};
use serde_json::{json, Value};
use std::collections::BTreeMap;
use std::marker::PhantomData;

// ------------------------------------------------------------------------------------------ generator

/// Seeded splitmix64 (pvh::Sm64) or a cyclic script of raw 64-bit outputs. One output per scalar draw.
#[derive(Clone)]
struct Src {
    sm: Sm64,
    script: Vec<u64>,
    i: usize,
}

impl Src {
    fn seeded(state: u64) -> Src { Src { sm: Sm64(state), script: vec![], i: 0 } }
    fn scripted(v: Vec<u64>) -> Src { Src { sm: Sm64(0), script: v, i: 0 } }
    fn describe(&self) -> Value {
        if self.script.is_empty() {
            json!({ "sm": format!("{:016x}", self.sm.0) })
        } else {
            json!({ "script": self.script.iter().map(|x| format!("{:016x}", x)).collect::<Vec<_>>() })
        }
    }
    fn from_value(v: &Value) -> Src {
        let hex = |s: &Value| u64::from_str_radix(s.as_str().expect("hex string"), 16).expect("hex");
        if let Some(s) = v.get("sm") {
            Src::seeded(hex(s))
        } else {
            Src::scripted(v["script"].as_array().expect("script").iter().map(hex).collect())
        }
    }
}

impl RngCore for Src {
    fn next_u32(&mut self) -> u32 { (self.next_u64() >> 32) as u32 }
    fn next_u64(&mut self) -> u64 {
        if self.script.is_empty() {
            self.sm.next()
        } else {
            let v = self.script[self.i % self.script.len()];
            self.i += 1;
            v
        }
    }
    fn fill_bytes(&mut self, dest: &mut [u8]) {
        for chunk in dest.chunks_mut(8) {
            let b = self.next_u64().to_le_bytes();
            chunk.copy_from_slice(&b[..chunk.len()]);
        }
    }
    fn try_fill_bytes(&mut self, dest: &mut [u8]) -> Result<(), rand::Error> {
        self.fill_bytes(dest);
        Ok(())
    }
}

// ------------------------------------------------------------------------------------------ floats

trait Fl: Ex + Copy + PartialOrd + SampleUniform + 'static {
    fn of(x: f64) -> Self;
    /// rand's own scalar draws
    fn draw_standard(src: &mut Src) -> Self;
    fn draw_unit_uniform(src: &mut Src) -> Self;
}
macro_rules! impl_fl {
    ($t:ident) => {
        impl Fl for $t {
            fn of(x: f64) -> Self { x as $t }
            fn draw_standard(src: &mut Src) -> Self { src.gen::<$t>() }
            fn draw_unit_uniform(src: &mut Src) -> Self { Uniform::new(0.0 as $t, 1.0 as $t).sample(src) }
        }
    };
}
impl_fl!(f32);
impl_fl!(f64);

// ------------------------------------------------------------------------------------------ colour types

/// Components in declared order (the order of spec/Types.tla), hues as raw degrees.
trait Col<F>: Clone {
    const N: usize;
    fn make(c: &[F]) -> Self;
    fn comps(&self) -> Vec<F>;
}

macro_rules! col {
    ($ty:ty, $n:expr, |$c:ident| $make:expr, |$s:ident| $comps:expr) => {
        impl<F: Fl> Col<F> for $ty {
            const N: usize = $n;
            fn make($c: &[F]) -> Self { $make }
            fn comps(&self) -> Vec<F> { let $s = self; $comps }
        }
    };
}

type Wp = D65;
type S = encoding::Srgb;
col!(Rgb<S, F>, 3, |c| Rgb { red: c[0], green: c[1], blue: c[2], standard: PhantomData }, |s| vec![s.red, s.green, s.blue]);
col!(Luma<S, F>, 1, |c| Luma { luma: c[0], standard: PhantomData }, |s| vec![s.luma]);
col!(Xyz<Wp, F>, 3, |c| Xyz { x: c[0], y: c[1], z: c[2], white_point: PhantomData }, |s| vec![s.x, s.y, s.z]);
col!(Yxy<Wp, F>, 3, |c| Yxy { x: c[0], y: c[1], luma: c[2], white_point: PhantomData }, |s| vec![s.x, s.y, s.luma]);
col!(Lab<Wp, F>, 3, |c| Lab { l: c[0], a: c[1], b: c[2], white_point: PhantomData }, |s| vec![s.l, s.a, s.b]);
col!(Lch<Wp, F>, 3, |c| Lch { l: c[0], chroma: c[1], hue: LabHue::new(c[2]), white_point: PhantomData },
     |s| vec![s.l, s.chroma, s.hue.into_inner()]);
col!(Luv<Wp, F>, 3, |c| Luv { l: c[0], u: c[1], v: c[2], white_point: PhantomData }, |s| vec![s.l, s.u, s.v]);
col!(Lchuv<Wp, F>, 3, |c| Lchuv { l: c[0], chroma: c[1], hue: LuvHue::new(c[2]), white_point: PhantomData },
     |s| vec![s.l, s.chroma, s.hue.into_inner()]);
col!(Hsluv<Wp, F>, 3, |c| Hsluv { hue: LuvHue::new(c[0]), saturation: c[1], l: c[2], white_point: PhantomData },
     |s| vec![s.hue.into_inner(), s.saturation, s.l]);
col!(Hsl<S, F>, 3, |c| Hsl { hue: RgbHue::new(c[0]), saturation: c[1], lightness: c[2], standard: PhantomData },
     |s| vec![s.hue.into_inner(), s.saturation, s.lightness]);
col!(Hsv<S, F>, 3, |c| Hsv { hue: RgbHue::new(c[0]), saturation: c[1], value: c[2], standard: PhantomData },
     |s| vec![s.hue.into_inner(), s.saturation, s.value]);
col!(Hwb<S, F>, 3, |c| Hwb { hue: RgbHue::new(c[0]), whiteness: c[1], blackness: c[2], standard: PhantomData },
     |s| vec![s.hue.into_inner(), s.whiteness, s.blackness]);
col!(Oklab<F>, 3, |c| Oklab { l: c[0], a: c[1], b: c[2] }, |s| vec![s.l, s.a, s.b]);
col!(Oklch<F>, 3, |c| Oklch { l: c[0], chroma: c[1], hue: OklabHue::new(c[2]) }, |s| vec![s.l, s.chroma, s.hue.into_inner()]);
col!(Okhsl<F>, 3, |c| Okhsl { hue: OklabHue::new(c[0]), saturation: c[1], lightness: c[2] },
     |s| vec![s.hue.into_inner(), s.saturation, s.lightness]);
col!(Okhsv<F>, 3, |c| Okhsv { hue: OklabHue::new(c[0]), saturation: c[1], value: c[2] },
     |s| vec![s.hue.into_inner(), s.saturation, s.value]);
col!(Okhwb<F>, 3, |c| Okhwb { hue: OklabHue::new(c[0]), whiteness: c[1], blackness: c[2] },
     |s| vec![s.hue.into_inner(), s.whiteness, s.blackness]);
col!(VonKriesLms<Wp, F>, 3, |c| palette::lms::Lms { long: c[0], medium: c[1], short: c[2], meta: PhantomData },
     |s| vec![s.long, s.medium, s.short]);
col!(Cam16UcsJab<F>, 3, |c| Cam16UcsJab { lightness: c[0], a: c[1], b: c[2] }, |s| vec![s.lightness, s.a, s.b]);
col!(Cam16UcsJmh<F>, 3, |c| Cam16UcsJmh { lightness: c[0], colorfulness: c[1], hue: Cam16Hue::new(c[2]) },
     |s| vec![s.lightness, s.colorfulness, s.hue.into_inner()]);

const NODES: [&str; 20] = [
    "srgb", "srgbluma", "xyz", "yxy", "lab", "lch", "luv", "lchuv", "hsluv", "hsl", "hsv", "hwb", "oklab", "oklch", "okhsl",
    "okhsv", "okhwb", "lms", "cam16ucsjab", "cam16ucsjmh",
];

// ------------------------------------------------------------------------------------------ one event

#[derive(Clone)]
struct Job {
    node: &'static str,
    uniform: bool,
    incl: bool,
    alpha: bool,
    lo: Vec<f64>, // alpha last when `alpha`
    hi: Vec<f64>,
    src: Src,
}

struct Out {
    rec: Rec,
    per: BTreeMap<String, u64>,
    panics: u64,
}

fn run_job<F, C>(job: &Job, out: &mut Out)
where
    F: Fl,
    C: Col<F> + SampleUniform,
    Standard: Distribution<C> + Distribution<F>,
{
    let k = C::N + job.alpha as usize;
    let mut a = job.src.clone();
    let vs: Vec<F> = (0..k).map(|_| F::draw_standard(&mut a)).collect();
    let mut b = job.src.clone();
    let vu: Vec<F> = (0..k).map(|_| F::draw_unit_uniform(&mut b)).collect();
    let lo: Vec<F> = job.lo.iter().map(|&x| F::of(x)).collect();
    let hi: Vec<F> = job.hi.iter().map(|&x| F::of(x)).collect();
    let mut src = job.src.clone();
    let res: Result<Vec<F>, String> = catch(|| {
        if !job.uniform {
            if job.alpha {
                let c: Alpha<C, F> = src.gen();
                let mut v = c.color.comps();
                v.push(c.alpha);
                v
            } else {
                let c: C = src.gen();
                c.comps()
            }
        } else if job.alpha {
            let l = Alpha { color: C::make(&lo[..C::N]), alpha: lo[C::N] };
            let h = Alpha { color: C::make(&hi[..C::N]), alpha: hi[C::N] };
            let u = if job.incl { Uniform::new_inclusive(l, h) } else { Uniform::new(l, h) };
            let c: Alpha<C, F> = u.sample(&mut src);
            let mut v = c.color.comps();
            v.push(c.alpha);
            v
        } else {
            let (l, h) = (C::make(&lo), C::make(&hi));
            let u = if job.incl { Uniform::new_inclusive(l, h) } else { Uniform::new(l, h) };
            u.sample(&mut src).comps()
        }
    });
    let mut ev = json!({
        "ev": "sample", "dist": if job.uniform { "uniform" } else { "standard" }, "incl": job.incl as u32,
        "ty": job.node, "t": F::NAME, "alpha": job.alpha as u32,
        "lo": ex_arr(&lo), "hi": ex_arr(&hi), "vs": ex_arr(&vs), "vu": ex_arr(&vu),
        "rng": job.src.describe(),
    });
    match res {
        Ok(v) => {
            ev["out"] = ex_arr(&v);
            ev["panic"] = json!(0);
        }
        Err(msg) => {
            ev["out"] = json!([]);
            ev["panic"] = json!(1);
            ev["msg"] = json!(msg);
            out.panics += 1;
        }
    }
    *out.per.entry(format!("{}.{}", if job.uniform { "uniform" } else { "standard" }, job.node)).or_insert(0) += 1;
    out.rec.ev(ev);
}

macro_rules! dispatch {
    ($name:ident, $f:ident) => {
        fn $name(job: &Job, out: &mut Out) {
            match job.node {
                "srgb" => run_job::<$f, Rgb<S, $f>>(job, out),
                "srgbluma" => run_job::<$f, Luma<S, $f>>(job, out),
                "xyz" => run_job::<$f, Xyz<Wp, $f>>(job, out),
                "yxy" => run_job::<$f, Yxy<Wp, $f>>(job, out),
                "lab" => run_job::<$f, Lab<Wp, $f>>(job, out),
                "lch" => run_job::<$f, Lch<Wp, $f>>(job, out),
                "luv" => run_job::<$f, Luv<Wp, $f>>(job, out),
                "lchuv" => run_job::<$f, Lchuv<Wp, $f>>(job, out),
                "hsluv" => run_job::<$f, Hsluv<Wp, $f>>(job, out),
                "hsl" => run_job::<$f, Hsl<S, $f>>(job, out),
                "hsv" => run_job::<$f, Hsv<S, $f>>(job, out),
                "hwb" => run_job::<$f, Hwb<S, $f>>(job, out),
                "oklab" => run_job::<$f, Oklab<$f>>(job, out),
                "oklch" => run_job::<$f, Oklch<$f>>(job, out),
                "okhsl" => run_job::<$f, Okhsl<$f>>(job, out),
                "okhsv" => run_job::<$f, Okhsv<$f>>(job, out),
                "okhwb" => run_job::<$f, Okhwb<$f>>(job, out),
                "lms" => run_job::<$f, VonKriesLms<Wp, $f>>(job, out),
                "cam16ucsjab" => run_job::<$f, Cam16UcsJab<$f>>(job, out),
                "cam16ucsjmh" => run_job::<$f, Cam16UcsJmh<$f>>(job, out),
                other => panic!("unknown node {}", other),
            }
        }
    };
}
dispatch!(dispatch_f32, f32);
dispatch!(dispatch_f64, f64);

fn run(job: &Job, t: &str, out: &mut Out) {
    if t == "f32" { dispatch_f32(job, out) } else { dispatch_f64(job, out) }
}

// ------------------------------------------------------------------------------------------ the lattice of ends

#[derive(Clone, Copy)]
enum Kind {
    Range(f64, f64), // a component sampled between two numbers of this range
    Hue,
    HwbW, // whiteness, blackness: built from HSV saturation / value intervals
    HwbB,
}
use Kind::*;

fn kinds(node: &str) -> Vec<Kind> {
    let u = Range(0.0, 1.0);
    match node {
        "srgb" | "yxy" | "lms" => vec![u, u, u],
        "srgbluma" => vec![u],
        "xyz" => vec![Range(0.0, 0.95047), u, Range(0.0, 1.08883)],
        "lab" => vec![Range(0.0, 100.0), Range(-128.0, 127.0), Range(-128.0, 127.0)],
        "lch" => vec![Range(0.0, 100.0), Range(0.0, 128.0), Hue],
        "luv" => vec![Range(0.0, 100.0), Range(-84.0, 176.0), Range(-135.0, 108.0)],
        "lchuv" => vec![Range(0.0, 100.0), Range(0.0, 180.0), Hue],
        "hsluv" => vec![Hue, Range(0.0, 100.0), Range(0.0, 100.0)],
        "hsl" | "hsv" | "okhsl" | "okhsv" => vec![Hue, u, u],
        "hwb" | "okhwb" => vec![Hue, HwbW, HwbB],
        "oklab" => vec![u, Range(-0.5, 0.5), Range(-0.5, 0.5)],
        "oklch" => vec![u, Range(0.0, 0.5), Hue],
        "cam16ucsjab" => vec![Range(0.0, 100.0), Range(-50.0, 50.0), Range(-50.0, 50.0)],
        "cam16ucsjmh" => vec![Range(0.0, 100.0), Range(0.0, 50.0), Hue],
        other => panic!("unknown node {}", other),
    }
}

/// intervals as fractions of a component's range; equal ends are legal for `new_inclusive` only
const UNIT: [(f64, f64); 11] = [
    (0.0, 1.0), (0.25, 0.5), (0.0, 0.001), (0.75, 1.0), (0.5, 0.5), (0.3, 0.8), (0.999, 1.0), (0.1, 0.100001), (0.0, 0.0),
    (1.0, 1.0), (0.5, 0.75),
];
/// HSV values behind the HWB ends stay at or above 1/4 (the saturation of an HWB colour is 1 - w / v)
const HWB_V: [(f64, f64); 9] = [
    (0.25, 1.0), (0.25, 0.5), (0.75, 1.0), (0.5, 0.5), (0.3, 0.8), (0.999, 1.0), (0.4, 0.400001), (1.0, 1.0), (0.5, 0.75),
];
/// hue arcs low -> high (raw degrees, low <= high, at most one turn); several wrap through 0
const ARCS: [(f64, f64); 16] = [
    (350.0, 370.0), (-20.0, 20.0), (0.0, 360.0), (10.0, 10.5), (10.0, 20.0), (120.0, 240.0), (0.0, 90.0), (10.0, 10.0),
    (-180.0, 180.0), (359.0, 361.0), (-370.0, -350.0), (700.0, 740.0), (0.0, 0.0), (90.0, 450.0), (359.5, 359.5),
    (180.0, 539.0),
];

fn pick<T: Copy>(rng: &mut Sm64, xs: &[T], strict: bool, eq: impl Fn(&T) -> bool) -> T {
    loop {
        let x = *rng.pick(xs);
        if !(strict && eq(&x)) {
            return x;
        }
    }
}

/// One pair of ends for `node`: per component an interval chosen by `choose(component index, kind)`.
/// `cross`: the HWB ends are built so that the low end has the larger value (palette orders the HSV images itself).
fn ends(node: &str, alpha: bool, strict: bool, rng: &mut Sm64, fixed: Option<(f64, f64)>, arc: Option<(f64, f64)>) -> (Vec<f64>, Vec<f64>) {
    let ks = kinds(node);
    let (mut lo, mut hi) = (vec![0.0; ks.len()], vec![0.0; ks.len()]);
    let is_eq = |p: &(f64, f64)| p.0 == p.1;
    let mut hwb_s = (0.0, 0.0);
    let mut hwb_v = (0.0, 0.0);
    for (i, k) in ks.iter().enumerate() {
        match *k {
            Range(a, b) => {
                let (p, q) = fixed.unwrap_or_else(|| pick(rng, &UNIT, strict, is_eq));
                lo[i] = a + (b - a) * p;
                hi[i] = a + (b - a) * q;
            }
            Hue => {
                let (p, q) = arc.unwrap_or_else(|| pick(rng, &ARCS, strict, is_eq));
                lo[i] = p;
                hi[i] = q;
            }
            HwbW => hwb_s = fixed.unwrap_or_else(|| pick(rng, &UNIT, strict, is_eq)),
            HwbB => {
                hwb_v = match fixed {
                    Some((p, q)) => (0.25 + 0.75 * p, 0.25 + 0.75 * q),
                    None => pick(rng, &HWB_V, strict, is_eq),
                }
            }
        }
    }
    if matches!(ks.get(1), Some(HwbW)) {
        // which end gets the smaller saturation / value is free
        let (sa, sb) = if rng.coin() { hwb_s } else { (hwb_s.1, hwb_s.0) };
        let (va, vb) = if rng.coin() { hwb_v } else { (hwb_v.1, hwb_v.0) };
        lo[1] = (1.0 - sa) * va;
        lo[2] = 1.0 - va;
        hi[1] = (1.0 - sb) * vb;
        hi[2] = 1.0 - vb;
    }
    if alpha {
        let (p, q) = fixed.unwrap_or_else(|| pick(rng, &UNIT, strict, is_eq));
        lo.push(p);
        hi.push(q);
    }
    (lo, hi)
}

fn has_hue(node: &str) -> bool { kinds(node).iter().any(|k| matches!(k, Hue)) }

// ------------------------------------------------------------------------------------------ main

fn mix(a: u64, b: u64, c: u64) -> u64 {
    let mut s = Sm64::new(a ^ b.rotate_left(21) ^ c.rotate_left(42));
    s.next();
    s.next()
}

fn grid_value(k: u64, g: u64) -> u64 {
    if k >= g { u64::MAX } else { (((k as u128) << 64) / g as u128) as u64 }
}

/// exact logged number -> f64 (ends of a replayed event; always moderate magnitudes)
fn decode(j: &Value) -> f64 {
    let a = j.as_array().expect("number array");
    let s = a[0].as_i64().unwrap();
    let q = a[1].as_i64().unwrap() as i32;
    if s == 2 { return f64::NAN; }
    if s == 3 { return f64::INFINITY; }
    if s == -3 { return f64::NEG_INFINITY; }
    let mut m: u128 = 0;
    for (i, limb) in a[2..].iter().enumerate() {
        m += (limb.as_u64().unwrap() as u128) << (13 * i as u32);
    }
    s as f64 * m as f64 * 2f64.powi(13 * q)
}

fn main() {
    let out_path = arg_or("--out", "-");
    let mut out = Out { rec: Rec::create(&out_path), per: BTreeMap::new(), panics: 0 };

    if let Some(one) = arg("--one") {
        let e: Value = serde_json::from_str(&one).expect("event json");
        let node = NODES.iter().copied().find(|n| *n == e["ty"].as_str().unwrap()).expect("node");
        let job = Job {
            node,
            uniform: e["dist"] == "uniform",
            incl: e["incl"] == 1,
            alpha: e["alpha"] == 1,
            lo: e["lo"].as_array().unwrap().iter().map(decode).collect(),
            hi: e["hi"].as_array().unwrap().iter().map(decode).collect(),
            src: Src::from_value(&e["rng"]),
        };
        run(&job, e["t"].as_str().unwrap(), &mut out);
        out.rec.finish();
        return;
    }

    let seed = seed_from_env();
    let quick = arg_or("--tier", "quick") != "thorough";
    let seeds: u64 = if quick { 40 } else { 200 };
    let reps: u64 = if quick { 1 } else { 8 }; // samples per constructed sampler beyond the first
    let std_seeds: u64 = if quick { seeds } else { 4 * seeds };
    let mut ctr: u64 = 0;
    let fresh = |ctr: &mut u64| {
        *ctr += 1;
        Src::seeded(mix(seed, *ctr, 0x19))
    };

    for node in NODES {
        for t in ["f32", "f64"] {
            let mut lat = Sm64::new(mix(seed, node.len() as u64 * 131 + node.as_bytes()[0] as u64, if t == "f32" { 32 } else { 64 }));
            // Standard: `seeds` (thorough: 4 x) generators, every fourth also Alpha-wrapped
            for s in 0..std_seeds {
                let job = Job { node, uniform: false, incl: false, alpha: false, lo: vec![], hi: vec![], src: fresh(&mut ctr) };
                run(&job, t, &mut out);
                if s % 4 == 0 {
                    run(&Job { alpha: true, src: fresh(&mut ctr), ..job.clone() }, t, &mut out);
                }
            }
            // Uniform: the whole range, equal ends, narrow and one-sided boxes per component
            for fixed in UNIT {
                for incl in [false, true] {
                    if !incl && fixed.0 == fixed.1 {
                        continue;
                    }
                    for alpha in [false, true] {
                        let arc = if fixed.0 == fixed.1 { (10.0, 10.0) } else { (0.0, 360.0) };
                        let (lo, hi) = ends(node, alpha, !incl, &mut lat, Some(fixed), Some(arc));
                        for _ in 0..(1 + reps) {
                            run(&Job { node, uniform: true, incl, alpha, lo: lo.clone(), hi: hi.clone(), src: fresh(&mut ctr) }, t, &mut out);
                        }
                    }
                }
            }
            // every hue arc, the other components over random intervals
            if has_hue(node) {
                for arc in ARCS {
                    for incl in [false, true] {
                        if !incl && arc.0 == arc.1 {
                            continue;
                        }
                        let (lo, hi) = ends(node, false, !incl, &mut lat, None, Some(arc));
                        for _ in 0..(2 + reps) {
                            run(&Job { node, uniform: true, incl, alpha: false, lo: lo.clone(), hi: hi.clone(), src: fresh(&mut ctr) }, t, &mut out);
                        }
                    }
                }
            }
            // random boxes
            for s in 0..seeds {
                for incl in [false, true] {
                    let alpha = s % 4 == 1;
                    let (lo, hi) = ends(node, alpha, !incl, &mut lat, None, None);
                    for _ in 0..(1 + reps) {
                        run(&Job { node, uniform: true, incl, alpha, lo: lo.clone(), hi: hi.clone(), src: fresh(&mut ctr) }, t, &mut out);
                    }
                }
            }
        }
    }

    // cases chosen by TLC: grid variates through the real samplers
    let mut cases = 0u64;
    if let Some(h) = arg("--hist") {
        let text = std::fs::read_to_string(&h).unwrap_or_else(|e| panic!("cannot read {}: {}", h, e));
        for line in text.lines().filter(|l| !l.trim().is_empty()) {
            let c: Value = serde_json::from_str(line).expect("case json");
            let g = c["g"].as_u64().expect("g");
            let ks: Vec<u64> = c["r"].as_array().expect("r").iter().map(|x| x.as_u64().unwrap()).collect();
            let src = Src::scripted(ks.iter().map(|&k| grid_value(k, g)).collect());
            let alpha = ks.iter().sum::<u64>() % 2 == 1;
            cases += 1;
            for node in NODES {
                for t in ["f32", "f64"] {
                    let mut lat = Sm64::new(7);
                    run(&Job { node, uniform: false, incl: false, alpha, lo: vec![], hi: vec![], src: src.clone() }, t, &mut out);
                    let (lo, hi) = ends(node, alpha, false, &mut lat, Some((0.0, 1.0)), Some((0.0, 360.0)));
                    run(&Job { node, uniform: true, incl: true, alpha, lo, hi, src: src.clone() }, t, &mut out);
                    let (lo, hi) = ends(node, alpha, true, &mut lat, Some((0.25, 0.75)), Some((350.0, 370.0)));
                    run(&Job { node, uniform: true, incl: false, alpha, lo, hi, src: src.clone() }, t, &mut out);
                }
            }
        }
    }

    let per = out.per.clone();
    let panics = out.panics;
    let n = out.rec.finish();
    eprintln!("{}", json!({ "events": n, "per": per, "panics": panics, "tlc_cases": cases, "seeds": seeds }));
}
