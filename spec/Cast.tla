-------------------------------- MODULE Cast --------------------------------
(***************************************************************************)
(* C04 - zero-copy casts are lossless, length-exact and layout-sound.      *)
(*                                                                         *)
(* A buffer is a record                                                    *)
(*   [form, unit, n, len, cap, data, addr]                                 *)
(* form  how the buffer is held: a single element by value / shared        *)
(*       reference / mutable reference / Box; several elements as a        *)
(*       fixed-size array by value, a shared or mutable slice, a boxed     *)
(*       slice or a Vec; "dead" once a panicking cast has consumed it.      *)
(* unit  what one element is: a colour, the colour's array [T; n], a single *)
(*       component T, or the colour's unsigned integer.                     *)
(* n     the number of components of the colour type (uint family: 1).      *)
(* len   number of elements; cap: Vec capacity in elements (= len for every *)
(*       other form).                                                      *)
(* data  the FLAT sequence of component tokens, in memory order.  Tokens    *)
(*       are the positive integers 1, 2, 3, ...: the binding writes token    *)
(*       k*n + j into the j-th DECLARED field (table FieldOrder below,      *)
(*       alpha last) of the k-th colour BY FIELD NAME, so "the components   *)
(*       appear in declared order" is the statement data = <<1, 2, ...>>.   *)
(* addr  0 for by-value forms (there is no memory to share), 1 = the        *)
(*       allocation / referent the scenario started with.                   *)
(*                                                                         *)
(* One action per cast family; the `api` argument selects which of          *)
(* palette's spellings of the same operation is meant (they must all agree): *)
(*   0  the free function           cast::into_component_vec(v)             *)
(*   1  the From*/Into*/TryFrom* trait, or for single elements the std      *)
(*      From / AsRef / AsMut impl   v.into_components(), <[T; 3]>::from(c)   *)
(*   2  the borrowing As* trait on the holder   v.as_components()           *)
(*   3  the mirrored trait          Vec::<T>::components_from(v)            *)
(*   4  the From*/Into* trait on a reference to the holder                  *)
(*                                  (&v).into_components()                  *)
(* Styles 2 and 4 give a slice (m = 0) or a mutable slice (m = 1) viewing    *)
(* the holder's memory.                                                    *)
(***************************************************************************)
EXTENDS Integers, Sequences

VARIABLES fam,    \* "arr": ArrayCast family, "uint": UintCast family (fixed per scenario)
          buf,    \* the buffer
          orig,   \* the buffer the scenario started with (history, for the invariants)
          maps,   \* number of map_*_in_place steps so far (history)
          ret     \* outcome of the last call: [op, api, err, pre]

vars == <<fam, buf, orig, maps, ret>>

Single  == {"value", "ref", "mut", "box"}
Multi   == {"array", "slice", "slice_mut", "boxed_slice", "vec"}
ByValue == {"value", "array"}
Holders == {"array", "boxed_slice", "vec"}      \* a view can be taken from a reference to these
Units   == {"colour", "array", "component", "uint"}

(* error kinds *)
OK       == 0
LENGTH   == 1    \* SliceCastError, BoxedSliceCastError, VecCastErrorKind::LengthMismatch
CAPACITY == 2    \* VecCastErrorKind::CapacityMismatch
EXACT    == 3    \* core::array::TryFromSliceError: a single colour needs exactly n components
PANIC    == 9    \* the panicking From* forms

(* the user's function in map_vec_in_place / map_slice_box_in_place adds this to every token *)
MapDelta == 50

(* elements are n components wide unless they are single components *)
USize(u, n) == IF u = "component" THEN 1 ELSE n
Total(b) == b.len * USize(b.unit, b.n)
CapTotal(b) == b.cap * USize(b.unit, b.n)
Iota(k) == [i \in 1..k |-> i]

Dead == [form |-> "dead", unit |-> buf.unit, n |-> buf.n, len |-> 0, cap |-> 0, data |-> <<>>, addr |-> 0]

InitWith(f, n, form, unit, len, cap) ==
  /\ fam = f
  /\ buf = [form |-> form, unit |-> unit, n |-> n, len |-> len, cap |-> cap,
            data |-> Iota(len * USize(unit, n)), addr |-> IF form \in ByValue THEN 0 ELSE 1]
  /\ orig = buf
  /\ maps = 0
  /\ ret = [op |-> "init", api |-> 0, err |-> OK, pre |-> buf]

-----------------------------------------------------------------------------
(* call styles *)

Borrowing(api) == api \in {2, 4}

Style(api, m) ==
  /\ m \in {0, 1}
  /\ IF buf.form \in Single
     THEN api \in {0, 1} /\ m = 0
     ELSE \/ api \in {0, 1, 3} /\ m = 0
          \/ api = 2 /\ (buf.form = "slice" => m = 0)      \* no mutable view through a shared slice
          \/ api = 4 /\ buf.form \in Holders

FormAfter(api, m) == IF Borrowing(api) THEN (IF m = 1 THEN "slice_mut" ELSE "slice") ELSE buf.form

(* The heart of the property: a cast changes the element type and rescales the counts - nothing else.
   The flat data and the address are those of the input. *)
Reshape(u, len, cap, api, m) ==
  [form |-> FormAfter(api, m), unit |-> u, n |-> buf.n, len |-> len,
   cap  |-> IF FormAfter(api, m) = "vec" THEN cap ELSE len,
   data |-> buf.data,
   addr |-> IF Borrowing(api) THEN 1 ELSE buf.addr]

Done(op, api, err) ==
  /\ ret' = [op |-> op, api |-> api, err |-> err, pre |-> buf]
  /\ UNCHANGED <<fam, orig, maps>>

-----------------------------------------------------------------------------
(* ArrayCast family *)

(* into_array, into_array_ref, into_array_mut, into_array_box, into_array_array, into_array_slice,
   into_array_slice_mut, into_array_slice_box, into_array_vec; IntoArrays / ArraysFrom / AsArrays(Mut);
   From<C> for [T; n], AsRef<[T; n]>, AsMut<[T; n]>, From<Box<C>> for Box<[T; n]> *)
IntoArray(api, m) ==
  /\ fam = "arr" /\ buf.unit = "colour" /\ Style(api, m)
  /\ buf' = Reshape("array", buf.len, buf.cap, api, m)
  /\ Done("into_array", api, OK)

(* from_array*, FromArrays / ArraysInto / ArraysAs(Mut); From<[T; n]> for C, AsRef<C>, AsMut<C>, Box *)
FromArray(api, m) ==
  /\ fam = "arr" /\ buf.unit = "array" /\ Style(api, m)
  /\ buf' = Reshape("colour", buf.len, buf.cap, api, m)
  /\ Done("from_array", api, OK)

(* into_component_array, into_component_slice(_mut), into_component_slice_box, into_component_vec;
   IntoComponents / ComponentsFrom / AsComponents(Mut): lengths and capacities are multiplied by n *)
IntoComponent(api, m) ==
  /\ fam = "arr" /\ buf.unit = "colour" /\ buf.form \in Multi /\ Style(api, m)
  /\ buf' = Reshape("component", buf.len * buf.n, buf.cap * buf.n, api, m)
  /\ Done("into_component", api, OK)

(* A component buffer is rejected exactly when its length is not a multiple of n or - only for an
   owned Vec, whose allocation is reinterpreted - its capacity is not. *)
LenBad == buf.len % buf.n # 0
CapBad(api) == buf.form = "vec" /\ ~Borrowing(api) /\ buf.cap % buf.n # 0

(* try_from_component_slice(_mut), try_from_component_slice_box, try_from_component_vec;
   TryFromComponents / TryComponentsInto / TryComponentsAs(Mut): the error step hands the buffer back
   unchanged.  The statement says WHEN a buffer is rejected, not which of the two reasons is named when both
   apply: the reported kind k must be a true one (LENGTH only if the length is bad, CAPACITY only if the capacity
   is), the precedence between them is the implementation's choice. *)
TryFromComponentK(api, m, k) ==
  /\ fam = "arr" /\ buf.unit = "component" /\ buf.form \in (Multi \ {"array"}) /\ Style(api, m)
  /\ IF LenBad \/ CapBad(api)
     THEN /\ k \in {LENGTH, CAPACITY} /\ (k = LENGTH => LenBad) /\ (k = CAPACITY => CapBad(api))
          /\ buf' = buf /\ Done("try_from_component", api, k)
     ELSE /\ buf' = Reshape("colour", buf.len \div buf.n, buf.cap \div buf.n, api, m)
          /\ Done("try_from_component", api, OK)
TryFromComponent(api, m) == \E k \in {LENGTH, CAPACITY} : TryFromComponentK(api, m, k)

(* from_component_array, from_component_slice(_mut), from_component_slice_box, from_component_vec;
   FromComponents / ComponentsInto / ComponentsAs(Mut): same, but a rejected buffer is a panic, which
   consumes a buffer that was passed by value *)
FromComponent(api, m) ==
  /\ fam = "arr" /\ buf.unit = "component" /\ buf.form \in Multi /\ Style(api, m)
  /\ buf.form = "array" => api \in {0, 1, 3}
  /\ IF LenBad \/ CapBad(api)
     THEN /\ buf' = IF Borrowing(api) \/ buf.form \in {"slice", "slice_mut"} THEN buf ELSE Dead
          /\ Done("from_component", api, PANIC)
     ELSE /\ buf' = Reshape("colour", buf.len \div buf.n, buf.cap \div buf.n, api, m)
          /\ Done("from_component", api, OK)

(* map_vec_in_place, map_slice_box_in_place: the allocation is reused, every colour is replaced by the
   function's result (here: every token + MapDelta), the colour type may change to one with the same array *)
MapInPlace ==
  /\ fam = "arr" /\ buf.unit = "colour" /\ buf.form \in {"vec", "boxed_slice"}
  /\ buf' = [buf EXCEPT !.data = [i \in DOMAIN buf.data |-> buf.data[i] + MapDelta]]
  /\ maps' = maps + 1
  /\ ret' = [op |-> "map", api |-> 0, err |-> OK, pre |-> buf]
  /\ UNCHANGED <<fam, orig>>

(* AsRef<[T]> / AsMut<[T]> / From<&C> for &[T]: one colour viewed as a slice of exactly n components *)
RefAsSlice ==
  /\ fam = "arr" /\ buf.unit = "colour" /\ buf.form \in {"ref", "mut"}
  /\ buf' = [buf EXCEPT !.form = IF buf.form = "mut" THEN "slice_mut" ELSE "slice",
                        !.unit = "component", !.len = buf.n, !.cap = buf.n]
  /\ Done("ref_as_slice", 1, OK)

(* TryFrom<&[T]> for &C / TryFrom<&mut [T]> for &mut C: exactly n components or an error *)
TrySliceAsRef ==
  /\ fam = "arr" /\ buf.unit = "component" /\ buf.form \in {"slice", "slice_mut"}
  /\ IF buf.len = buf.n
     THEN /\ buf' = [buf EXCEPT !.form = IF buf.form = "slice_mut" THEN "mut" ELSE "ref",
                                !.unit = "colour", !.len = 1, !.cap = 1]
          /\ Done("try_slice_as_ref", 1, OK)
     ELSE buf' = buf /\ Done("try_slice_as_ref", 1, EXACT)

-----------------------------------------------------------------------------
(* UintCast family: Packed<O, u8..u128>, Luma<S, u8..u128>.  One unsigned integer per colour. *)

(* into_uint, into_uint_ref, into_uint_mut, into_uint_array, into_uint_slice(_mut), into_uint_slice_box,
   into_uint_vec; IntoUints / UintsFrom / AsUints(Mut); From<C> for uN, AsRef<uN>, AsMut<uN> *)
IntoUint(api, m) ==
  /\ fam = "uint" /\ buf.unit = "colour" /\ buf.form # "box" /\ Style(api, m)
  /\ buf' = Reshape("uint", buf.len, buf.cap, api, m)
  /\ Done("into_uint", api, OK)

FromUint(api, m) ==
  /\ fam = "uint" /\ buf.unit = "uint" /\ buf.form # "box" /\ Style(api, m)
  /\ buf' = Reshape("colour", buf.len, buf.cap, api, m)
  /\ Done("from_uint", api, OK)

-----------------------------------------------------------------------------
(* The declared field order of every castable colour type ("alpha last"): the published struct
   documentation of palette 0.7, NOT read from the tree.  Hue-first: Hsl Hsv Hwb Hsluv Okhsl Okhsv Okhwb;
   hue-last: Lch Lchuv Oklch and the CAM16 types. *)
FieldOrder ==
  [ Luma    |-> <<"luma">>,
    Rgb     |-> <<"red", "green", "blue">>,
    Hsl     |-> <<"hue", "saturation", "lightness">>,
    Hsv     |-> <<"hue", "saturation", "value">>,
    Hwb     |-> <<"hue", "whiteness", "blackness">>,
    Hsluv   |-> <<"hue", "saturation", "l">>,
    Lab     |-> <<"l", "a", "b">>,
    Lch     |-> <<"l", "chroma", "hue">>,
    Luv     |-> <<"l", "u", "v">>,
    Lchuv   |-> <<"l", "chroma", "hue">>,
    Xyz     |-> <<"x", "y", "z">>,
    Yxy     |-> <<"x", "y", "luma">>,
    Lms     |-> <<"long", "medium", "short">>,
    Oklab   |-> <<"l", "a", "b">>,
    Oklch   |-> <<"l", "chroma", "hue">>,
    Okhsl   |-> <<"hue", "saturation", "lightness">>,
    Okhsv   |-> <<"hue", "saturation", "value">>,
    Okhwb   |-> <<"hue", "whiteness", "blackness">>,
    Cam16UcsJab |-> <<"lightness", "a", "b">>,
    Cam16UcsJmh |-> <<"lightness", "colorfulness", "hue">>,
    Cam16Jch |-> <<"lightness", "chroma", "hue">>,
    Cam16Jmh |-> <<"lightness", "colorfulness", "hue">>,
    Cam16Jsh |-> <<"lightness", "saturation", "hue">>,
    Cam16Qch |-> <<"brightness", "chroma", "hue">>,
    Cam16Qmh |-> <<"brightness", "colorfulness", "hue">>,
    Cam16Qsh |-> <<"brightness", "saturation", "hue">>,
    Packed1 |-> <<"color">>,                          \* Packed<O, uN>: the integer itself
    Packed4 |-> <<"color.0", "color.1", "color.2", "color.3">> ]   \* Packed<O, [T; 4]>: the array as stored

(* wrap: "none", "alpha" (Alpha<C, T>) or "prealpha" (PreAlpha<C>): the colour's fields, then alpha *)
Declared(base, wrap) == IF wrap = "none" THEN FieldOrder[base] ELSE FieldOrder[base] \o <<"alpha">>

(* Positional construction and destructuring (outside the casts proper, same table): `new`, `new_const`, `new_srgb`,   *)
(* `from_components`, `From<tuple>` place argument i in declared field i, transparency last; `into_components` and      *)
(* `Into<tuple>` read the fields out in the same order; `with_white_point` / `with_meta` change a phantom parameter only *)
PositionalForms == {"new", "new_hue", "new_const", "new_srgb", "new_srgb_const", "from_components", "from_tuple",
                    "into_components", "into_tuple", "with_white_point", "with_meta"}
PositionalOk(base, wrap, form, names, args, read) ==
  /\ form \in PositionalForms
  /\ names = Declared(base, wrap)
  /\ Len(args) = Len(names)
  /\ read = args
(* every colour struct must have been seen through at least these *)
CtorBases == DOMAIN FieldOrder \ {"Packed1", "Packed4"}
CtorRequired == {<<b, w, f>> : b \in CtorBases, w \in {"none", "alpha"}, f \in {"new", "from_components", "into_components"}}

-----------------------------------------------------------------------------
(* The property, as state invariants over every reachable state *)

Forms == Single \cup Multi \cup {"dead"}
Alive == buf.form # "dead"

TypeOK ==
  /\ fam \in {"arr", "uint"}
  /\ buf.form \in Forms /\ buf.unit \in Units /\ buf.n \in Nat \ {0}
  /\ buf.len \in Nat /\ buf.cap \in Nat /\ buf.addr \in {0, 1}
  /\ fam = "uint" => buf.n = 1 /\ buf.unit \in {"colour", "uint"}
  /\ fam = "arr" => buf.unit # "uint"
  /\ Alive => /\ buf.len <= buf.cap
              /\ (buf.form # "vec" => buf.cap = buf.len)
              /\ (buf.form \in Single => buf.len = 1)

(* the flat data never changes (apart from what the user's own map function did to it) *)
FlatUnchanged == Alive => buf.data = [i \in DOMAIN orig.data |-> orig.data[i] + maps * MapDelta]

(* len * unit size and cap * unit size are conserved: lengths and capacities scale exactly by n *)
SizeConserved == Alive => /\ Len(buf.data) = Total(buf)
                          /\ Total(buf) = Total(orig)
CapConserved == (Alive /\ buf.form = "vec") => CapTotal(buf) = CapTotal(orig)

(* the result views the same memory *)
AddrIdentity == Alive => buf.addr = (IF buf.form \in ByValue THEN 0 ELSE 1)

(* a round trip reproduces the original *)
RoundTrip == (Alive /\ buf.unit = orig.unit /\ buf.form = orig.form /\ maps = 0) => buf = orig

(* rejection exactly for non-multiples, and the rejected buffer is handed back unchanged *)
FromComponentOps == {"try_from_component", "from_component"}
OwnedVec(r) == r.pre.form = "vec" /\ ~Borrowing(r.api)
RejectExact ==
  /\ ret.op \in FromComponentOps =>
       /\ ret.err # OK <=> (ret.pre.len % ret.pre.n # 0 \/ (OwnedVec(ret) /\ ret.pre.cap % ret.pre.n # 0))
       /\ ret.err = CAPACITY => (OwnedVec(ret) /\ ret.pre.cap % ret.pre.n # 0)      \* a named reason is a true one
       /\ ret.err = LENGTH => ret.pre.len % ret.pre.n # 0
       /\ ret.err \in {LENGTH, CAPACITY} => buf = ret.pre
       /\ ret.err \in {OK, PANIC} \/ ret.op = "try_from_component"
  /\ ret.op = "try_slice_as_ref" =>
       /\ ret.err \in {OK, EXACT}
       /\ ret.err = EXACT <=> ret.pre.len # ret.pre.n
       /\ ret.err = EXACT => buf = ret.pre
  /\ ret.op \notin (FromComponentOps \cup {"try_slice_as_ref"}) => ret.err = OK

CastInv == TypeOK /\ FlatUnchanged /\ SizeConserved /\ CapConserved /\ AddrIdentity /\ RoundTrip /\ RejectExact
=============================================================================
