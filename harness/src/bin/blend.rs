//! C08 driver: runs per-channel cases (cs, cb, as, ab) through palette's blending API and records one NDJSON
//! event per call with the exact values of inputs and outputs. Nothing here decides the property: judging is
//! done by TLC (spec/trace/TraceBlend.tla against spec/Blend.tla).
//!
//! usage: blend --tier quick|thorough --out trace.ndjson        (VERIF_SEED)
//!        blend --one '<event json>' --out trace.ndjson         (re-execute one recorded call: replay)
//!
//! The grid is the one MC_Blend enumerates: {0, 1/G, .., 1}^4 with G = 4 (quick) or 8 (thorough); the three
//! channels of an RGB/XYZ colour carry three *different* per-channel cases that share (as, ab), so a channel
//! mix-up is visible. Thorough adds seeded random dyadic cases k/256.
//!
//! Events (numbers exact, `[s, q, m1, ..]`, see spec/lib/Fx.tla; arrays hold the colour channels in declared
//! order, then alpha):
//!   {"ev":"blend"|"compose"|"custom"|"eqn", "mode":<mode/operator, "" otherwise>, "form":"opaque"|"alpha"|"pre",
//!    "ty":<colour type>, "t":"f32"|"f64", "n":<channels>,
//!    "src":[c.., a], "dst":[c.., a]     the colours as handed to palette (premultiplied for form "pre"; a = 1 for "opaque"),
//!    "ss":[c..], "sd":[c..]             the straight colours they were made from (src = ss * a for form "pre"),
//!    "out":[c.., a]                     the result (no alpha for form "opaque"),
//!    "q":{"ceq","cps","cpd","aeq","aps","apd"}   (eqn only) the Equations value,
//!    "panic":0|1}
//!   {"ev":"premul","via":..,"ty","t","n","c":[c..],"a":a,"pre":[c.., a],"back":[c.., a],"panic"}
//!   {"ev":"unpremul","via":..,"ty","t","n","p":[c.., a],"out":[c.., a],"panic"}

use palette::blend::{Blend, BlendFunction, BlendWith, Compose, Equation, Equations, Parameter, Parameters, PreAlpha, Premultiply};
use palette::white_point::D65;
use palette::{Alpha, Lab, LinSrgb, Luv, Oklab, Xyz, Yxy};
use pvh::*;
use serde_json::{json, Value};
use std::collections::{BTreeMap, HashSet};

// ------------------------------------------------------------------------------------------ floats

trait Fl: Ex + Copy + PartialOrd + PartialEq + palette::stimulus::Stimulus + 'static {
    fn of(x: f64) -> Self;
    fn f1() -> Self { Self::of(1.0) }
    fn f0() -> Self { Self::of(0.0) }
    fn mul(self, o: Self) -> Self;
    fn add(self, o: Self) -> Self;
}
impl Fl for f32 {
    fn of(x: f64) -> Self { x as f32 }
    fn mul(self, o: Self) -> Self { self * o }
    fn add(self, o: Self) -> Self { self + o }
}
impl Fl for f64 {
    fn of(x: f64) -> Self { x }
    fn mul(self, o: Self) -> Self { self * o }
    fn add(self, o: Self) -> Self { self + o }
}

// ------------------------------------------------------------------------------------------ colour types

trait Col<F: Fl>: Sized + Clone + Premultiply<Scalar = F> + From<PreAlpha<Self>> {
    const NAME: &'static str;
    const N: usize;
    fn mk(c: &[F]) -> Self;
    fn comps(&self) -> Vec<F>;
}

type LinLuma<F> = palette::luma::Luma<palette::encoding::Linear<D65>, F>;
type Lms<F> = palette::lms::VonKriesLms<D65, F>;
type Jab<F> = palette::cam16::Cam16UcsJab<F>;

macro_rules! impl_col3 {
    ($name:expr, $T:ty, $F:ty, $a:ident, $b:ident, $c:ident) => {
        impl Col<$F> for $T {
            const NAME: &'static str = $name;
            const N: usize = 3;
            fn mk(c: &[$F]) -> Self { <$T>::new(c[0], c[1], c[2]) }
            fn comps(&self) -> Vec<$F> { vec![self.$a, self.$b, self.$c] }
        }
    };
}
macro_rules! impl_cols {
    ($F:ty) => {
        impl_col3!("LinSrgb", LinSrgb<$F>, $F, red, green, blue);
        impl_col3!("Xyz", Xyz<D65, $F>, $F, x, y, z);
        impl_col3!("Lms", Lms<$F>, $F, long, medium, short);
        impl_col3!("Lab", Lab<D65, $F>, $F, l, a, b);
        impl_col3!("Luv", Luv<D65, $F>, $F, l, u, v);
        impl_col3!("Yxy", Yxy<D65, $F>, $F, x, y, luma);
        impl_col3!("Oklab", Oklab<$F>, $F, l, a, b);
        impl_col3!("Cam16UcsJab", Jab<$F>, $F, lightness, a, b);
        impl Col<$F> for LinLuma<$F> {
            const NAME: &'static str = "LinLuma";
            const N: usize = 1;
            fn mk(c: &[$F]) -> Self { <LinLuma<$F>>::new(c[0]) }
            fn comps(&self) -> Vec<$F> { vec![self.luma] }
        }
    };
}
impl_cols!(f32);
impl_cols!(f64);

// ------------------------------------------------------------------------------------------ recording

struct Out {
    rec: Rec,
    counts: BTreeMap<String, u64>,
    panics: u64,
    /// while the grid is enumerated: the distinct per-channel cases (cs, cb, as, ab) actually executed, per mode/operator
    /// (LinSrgb<f64>, Alpha form) - reported so that the check can compare them with the cases MC_Blend enumerates
    counting: bool,
    cases: BTreeMap<String, HashSet<[u64; 4]>>,
}

fn nums<F: Fl>(xs: &[F]) -> Value { Value::Array(xs.iter().map(|x| x.ex()).collect()) }
fn nans(n: usize) -> Value { Value::Array((0..n).map(|_| json!([2, 0])).collect()) }

/// one input colour: the straight colour, the alpha, and what is handed to palette
#[derive(Clone)]
struct In<F> {
    straight: Vec<F>,
    alpha: F,
}
impl<F: Fl> In<F> {
    fn pre(&self) -> Vec<F> { self.straight.iter().map(|c| c.mul(self.alpha)).collect() }
    fn logged(&self, form: &str) -> Vec<F> {
        let mut v = if form == "pre" { self.pre() } else { self.straight.clone() };
        v.push(if form == "opaque" { F::f1() } else { self.alpha });
        v
    }
}

fn with_alpha<F: Fl>(mut c: Vec<F>, a: F) -> Vec<F> { c.push(a); c }

/// run `f` on (src, dst) in the given form; `f` is given as three closures because the three forms are three types
fn in_form<F: Fl, C: Col<F>>(
    form: &str,
    s: &In<F>,
    d: &In<F>,
    on_opaque: impl FnOnce(C, C) -> C,
    on_alpha: impl FnOnce(Alpha<C, F>, Alpha<C, F>) -> Alpha<C, F>,
    on_pre: impl FnOnce(PreAlpha<C>, PreAlpha<C>) -> PreAlpha<C>,
) -> Result<Vec<F>, String> {
    match form {
        "opaque" => catch(|| on_opaque(C::mk(&s.straight), C::mk(&d.straight)).comps()),
        "alpha" => catch(|| {
            let r = on_alpha(Alpha { color: C::mk(&s.straight), alpha: s.alpha }, Alpha { color: C::mk(&d.straight), alpha: d.alpha });
            with_alpha(r.color.comps(), r.alpha)
        }),
        _ => catch(|| {
            let r = on_pre(PreAlpha { color: C::mk(&s.pre()), alpha: s.alpha }, PreAlpha { color: C::mk(&d.pre()), alpha: d.alpha });
            with_alpha(r.color.comps(), r.alpha)
        }),
    }
}

impl Out {
    fn op<F: Fl, C: Col<F>>(&mut self, ev: &str, mode: &str, form: &str, s: &In<F>, d: &In<F>, r: Result<Vec<F>, String>, q: Option<Value>) {
        *self.counts.entry(ev.to_string()).or_insert(0) += 1;
        if self.counting && (ev == "blend" || ev == "compose") && form == "alpha" && C::NAME == "LinSrgb" && F::NAME == "f64" {
            let set = self.cases.entry(mode.to_string()).or_default();
            for i in 0..C::N {
                set.insert([s.straight[i].as_f64().to_bits(), d.straight[i].as_f64().to_bits(), s.alpha.as_f64().to_bits(), d.alpha.as_f64().to_bits()]);
            }
        }
        let n_out = if form == "opaque" { C::N } else { C::N + 1 };
        let mut v = json!({"ev": ev, "mode": mode, "form": form, "ty": C::NAME, "t": F::NAME, "n": C::N,
                           "src": nums(&s.logged(form)), "dst": nums(&d.logged(form)),
                           "ss": nums(&s.straight), "sd": nums(&d.straight)});
        if let Some(q) = q { v["q"] = q; }
        match r {
            Ok(o) => { v["out"] = nums(&o); v["panic"] = json!(0); }
            Err(msg) => { self.panics += 1; v["out"] = nans(n_out); v["panic"] = json!(1); v["msg"] = json!(msg); }
        }
        self.rec.ev(v);
    }
}

// ------------------------------------------------------------------------------------------ the API under test

const BLEND_MODES: [&str; 11] = ["multiply", "screen", "overlay", "darken", "lighten", "dodge", "burn", "hard_light", "soft_light", "difference", "exclusion"];
const COMPOSE_OPS: [&str; 6] = ["over", "inside", "outside", "atop", "xor", "plus"];
const FORMS: [&str; 3] = ["opaque", "alpha", "pre"];

fn apply_blend<B: Blend>(mode: &str, a: B, b: B) -> B {
    match mode {
        "multiply" => a.multiply(b),
        "screen" => a.screen(b),
        "overlay" => a.overlay(b),
        "darken" => a.darken(b),
        "lighten" => a.lighten(b),
        "dodge" => a.dodge(b),
        "burn" => a.burn(b),
        "hard_light" => a.hard_light(b),
        "soft_light" => a.soft_light(b),
        "difference" => a.difference(b),
        "exclusion" => a.exclusion(b),
        other => panic!("unknown blend mode {}", other),
    }
}
fn apply_compose<B: Compose>(op: &str, a: B, b: B) -> B {
    match op {
        "over" => a.over(b),
        "inside" => a.inside(b),
        "outside" => a.outside(b),
        "atop" => a.atop(b),
        "xor" => a.xor(b),
        "plus" => a.plus(b),
        other => panic!("unknown compose operator {}", other),
    }
}

fn do_blend<F: Fl, C: Col<F>>(o: &mut Out, mode: &str, form: &str, s: &In<F>, d: &In<F>)
where
    C: Blend,
    Alpha<C, F>: Blend,
    PreAlpha<C>: Blend,
{
    let r = in_form::<F, C>(form, s, d, |a, b| apply_blend(mode, a, b), |a, b| apply_blend(mode, a, b), |a, b| apply_blend(mode, a, b));
    o.op::<F, C>("blend", mode, form, s, d, r, None);
}

fn do_compose<F: Fl, C: Col<F>>(o: &mut Out, op: &str, form: &str, s: &In<F>, d: &In<F>)
where
    C: Compose,
    Alpha<C, F>: Compose,
    PreAlpha<C>: Compose,
{
    let r = in_form::<F, C>(form, s, d, |a, b| apply_compose(op, a, b), |a, b| apply_compose(op, a, b), |a, b| apply_compose(op, a, b));
    o.op::<F, C>("compose", op, form, s, d, r, None);
}

/// the custom blend function of Blend.tla!CustomPre: colour[i] = S[i]/2 + D[(i+1) mod n]/4, alpha = Sa/2 + Da/4
fn custom<F: Fl, C: Col<F>>(a: PreAlpha<C>, b: PreAlpha<C>) -> PreAlpha<C> {
    let (x, y) = (a.color.comps(), b.color.comps());
    let n = C::N;
    let (h, q) = (F::of(0.5), F::of(0.25));
    let c: Vec<F> = (0..n).map(|i| h.mul(x[i]).add(q.mul(y[(i + 1) % n]))).collect();
    PreAlpha { color: C::mk(&c), alpha: h.mul(a.alpha).add(q.mul(b.alpha)) }
}

fn do_with<F: Fl, C: Col<F>, Fun: BlendFunction<C> + Copy>(o: &mut Out, ev: &str, fun: Fun, q: Option<Value>, form: &str, s: &In<F>, d: &In<F>) {
    let r = in_form::<F, C>(form, s, d, |a, b| a.blend_with(b, fun), |a, b| a.blend_with(b, fun), |a, b| a.blend_with(b, fun));
    o.op::<F, C>(ev, "", form, s, d, r, q);
}

const EQUATIONS: [(&str, Equation); 5] = [("Add", Equation::Add), ("Subtract", Equation::Subtract), ("ReverseSubtract", Equation::ReverseSubtract),
                                          ("Min", Equation::Min), ("Max", Equation::Max)];
const PARAMETERS: [(&str, Parameter); 10] = [
    ("One", Parameter::One), ("Zero", Parameter::Zero), ("SourceColor", Parameter::SourceColor), ("OneMinusSourceColor", Parameter::OneMinusSourceColor),
    ("DestinationColor", Parameter::DestinationColor), ("OneMinusDestinationColor", Parameter::OneMinusDestinationColor),
    ("SourceAlpha", Parameter::SourceAlpha), ("OneMinusSourceAlpha", Parameter::OneMinusSourceAlpha),
    ("DestinationAlpha", Parameter::DestinationAlpha), ("OneMinusDestinationAlpha", Parameter::OneMinusDestinationAlpha)];

/// combination number k in 0..500: (equation, source parameter, destination parameter)
fn combo(k: usize) -> (usize, usize, usize) { (k / 100, (k / 10) % 10, k % 10) }

fn equations(kc: usize, ka: usize) -> (Equations, Value) {
    let (ce, cs, cd) = combo(kc);
    let (ae, as_, ad) = combo(ka);
    let one = |k: usize| PARAMETERS[k].0 == "One";
    // through the two constructors where they can express the combination, else field by field
    let e = if one(cs) && one(cd) && one(as_) && one(ad) {
        Equations::from_equations(EQUATIONS[ce].1, EQUATIONS[ae].1)
    } else if EQUATIONS[ce].0 == "Add" && EQUATIONS[ae].0 == "Add" && cs == as_ && cd == ad {
        Equations::from_parameters(PARAMETERS[cs].1, PARAMETERS[cd].1)
    } else {
        Equations {
            color_equation: EQUATIONS[ce].1,
            alpha_equation: EQUATIONS[ae].1,
            color_parameters: Parameters { source: PARAMETERS[cs].1, destination: PARAMETERS[cd].1 },
            alpha_parameters: Parameters { source: PARAMETERS[as_].1, destination: PARAMETERS[ad].1 },
        }
    };
    let q = json!({"ceq": EQUATIONS[ce].0, "cps": PARAMETERS[cs].0, "cpd": PARAMETERS[cd].0,
                   "aeq": EQUATIONS[ae].0, "aps": PARAMETERS[as_].0, "apd": PARAMETERS[ad].0});
    (e, q)
}

fn do_eqn<F: Fl, C: Col<F>>(o: &mut Out, kc: usize, ka: usize, form: &str, s: &In<F>, d: &In<F>)
where
    Equations: BlendFunction<C>,
{
    let (e, q) = equations(kc, ka);
    do_with::<F, C, Equations>(o, "eqn", e, Some(q), form, s, d);
}

fn do_custom<F: Fl, C: Col<F>>(o: &mut Out, form: &str, s: &In<F>, d: &In<F>) {
    do_with::<F, C, fn(PreAlpha<C>, PreAlpha<C>) -> PreAlpha<C>>(o, "custom", custom::<F, C>, None, form, s, d);
}

const PREMUL_VIAS: [&str; 5] = ["trait", "new", "from", "alpha", "opaque"];

fn do_premul<F: Fl, C: Col<F>>(o: &mut Out, via: &str, c: &[F], a: F) {
    *o.counts.entry("premul".to_string()).or_insert(0) += 1;
    let a = if via == "opaque" { F::f1() } else { a };
    let r = catch(|| {
        let col = C::mk(c);
        let (pre, back): (PreAlpha<C>, (Vec<F>, F)) = match via {
            "trait" => {
                let p = col.premultiply(a);
                let (b, ba) = C::unpremultiply(p.clone());
                (p, (b.comps(), ba))
            }
            "new" => {
                let p = PreAlpha::new(col, a);
                let b = p.clone().unpremultiply();
                (p, (b.color.comps(), b.alpha))
            }
            "from" => {
                let p = PreAlpha::from(Alpha { color: col, alpha: a });
                let b: Alpha<C, F> = Alpha::from(p.clone());
                (p, (b.color.comps(), b.alpha))
            }
            "alpha" => {
                let p = Alpha { color: col, alpha: a }.premultiply();
                let (b, ba) = C::unpremultiply(p.clone());
                (p, (b.comps(), ba))
            }
            _ => {
                // opaque: alpha is the maximum intensity, the colour is unchanged
                let p = PreAlpha::new_opaque(col);
                let b = p.clone().unpremultiply();
                (p, (b.color.comps(), b.alpha))
            }
        };
        (with_alpha(pre.color.comps(), pre.alpha), with_alpha(back.0, back.1))
    });
    let mut v = json!({"ev": "premul", "via": via, "ty": C::NAME, "t": F::NAME, "n": C::N, "c": nums(c), "a": a.ex()});
    match r {
        Ok((p, b)) => { v["pre"] = nums(&p); v["back"] = nums(&b); v["panic"] = json!(0); }
        Err(msg) => { o.panics += 1; v["pre"] = nans(C::N + 1); v["back"] = nans(C::N + 1); v["panic"] = json!(1); v["msg"] = json!(msg); }
    }
    o.rec.ev(v);
}

fn do_unpremul<F: Fl, C: Col<F>>(o: &mut Out, via: &str, p: &[F], a: F) {
    *o.counts.entry("unpremul".to_string()).or_insert(0) += 1;
    let r = catch(|| {
        let pre = PreAlpha { color: C::mk(p), alpha: a };
        match via {
            "trait" => { let (b, ba) = C::unpremultiply(pre); with_alpha(b.comps(), ba) }
            "method" => { let b = pre.unpremultiply(); with_alpha(b.color.comps(), b.alpha) }
            // the bare colour out of a premultiplied one (From<PreAlpha<C>> for C); it has no alpha of its own
            "bare" => { let b: C = pre.into(); with_alpha(b.comps(), a) }
            _ => { let b: Alpha<C, F> = pre.into(); with_alpha(b.color.comps(), b.alpha) }
        }
    });
    let mut v = json!({"ev": "unpremul", "via": via, "ty": C::NAME, "t": F::NAME, "n": C::N, "p": nums(&with_alpha(p.to_vec(), a))});
    match r {
        Ok(b) => { v["out"] = nums(&b); v["panic"] = json!(0); }
        Err(msg) => { o.panics += 1; v["out"] = nans(C::N + 1); v["panic"] = json!(1); v["msg"] = json!(msg); }
    }
    o.rec.ev(v);
}

// ------------------------------------------------------------------------------------------ inputs

/// all (cs, cb) pairs of the grid, in an order whose consecutive entries differ in both coordinates
fn pairs(g: u32) -> Vec<(u32, u32)> {
    let m = g + 1;
    let mut v = vec![];
    for k in 0..m { for i in 0..m { v.push((i, (i + k) % m)); } }
    v
}

/// the colours (lists of n per-channel cases) that together carry every (cs, cb) pair of the grid
fn packed(g: u32, n: usize) -> Vec<Vec<(u32, u32)>> {
    let p = pairs(g);
    let cnt = (p.len() + n - 1) / n;
    (0..cnt).map(|j| (0..n).map(|c| p[(n * j + c) % p.len()]).collect()).collect()
}

fn grid_inputs<F: Fl>(g: u32, n: usize, ias: u32, iab: u32) -> Vec<(In<F>, In<F>)> {
    let v = |k: u32| F::of(k as f64 / g as f64);
    packed(g, n).into_iter().map(|cases| {
        (In { straight: cases.iter().map(|c| v(c.0)).collect(), alpha: v(ias) },
         In { straight: cases.iter().map(|c| v(c.1)).collect(), alpha: v(iab) })
    }).collect()
}

/// a random dyadic value k/256, with the branch points and the ends over-represented
fn rand_dy(rng: &mut Sm64) -> f64 {
    match rng.below(8) {
        0 => *rng.pick(&[0.0, 1.0, 0.5, 0.25]),
        1 => { let b = *rng.pick(&[0.5, 0.25, 1.0, 0.0]); let d = rng.below(3) as f64 / 256.0; if b + d <= 1.0 && rng.coin() { b + d } else if b - d >= 0.0 { b - d } else { b } }
        _ => rng.below(257) as f64 / 256.0,
    }
}

fn rand_pair<F: Fl>(rng: &mut Sm64, n: usize) -> (In<F>, In<F>) {
    let one = |rng: &mut Sm64| In { straight: (0..n).map(|_| F::of(rand_dy(rng))).collect(), alpha: F::of(rand_dy(rng)) };
    let a = one(rng);
    let b = one(rng);
    (a, b)
}

// ------------------------------------------------------------------------------------------ drivers

struct Plan {
    g: u32,
    /// quick tier: the one-channel type (one event per per-channel case) takes only the (as, ab) pairs with an even
    /// index sum; the three-channel types always take the whole grid
    thin_single_channel: bool,
    random_cases: usize,
    eqn_inputs: usize,
    premul_random: usize,
}

/// everything the three `Blend` types get
fn drive_full<F: Fl, C: Col<F>>(o: &mut Out, p: &Plan, seed: u64)
where
    C: Blend + Compose,
    Alpha<C, F>: Blend + Compose,
    PreAlpha<C>: Blend + Compose,
    Equations: BlendFunction<C>,
{
    let g = p.g;
    o.counting = true;
    // the grid: every per-channel case for every mode/operator in the Alpha and PreAlpha forms, the opaque form on as = ab = 1
    for ias in 0..=g {
        for iab in 0..=g {
            if p.thin_single_channel && C::N == 1 && (ias + iab) % 2 == 1 { continue; }
            let ins = grid_inputs::<F>(g, C::N, ias, iab);
            for (s, d) in &ins {
                for form in FORMS {
                    if form == "opaque" && !(ias == g && iab == g) { continue; }
                    for mode in BLEND_MODES { do_blend::<F, C>(o, mode, form, s, d); }
                    for op in COMPOSE_OPS { do_compose::<F, C>(o, op, form, s, d); }
                    do_custom::<F, C>(o, form, s, d);
                }
            }
        }
    }
    o.counting = false;
    // Equations: every (equation, source parameter, destination parameter) for the colour, paired with a permutation of
    // the same 500 combinations for alpha
    let mut rng = Sm64::new(seed ^ 0xE9 ^ ((C::N as u64) << 8) ^ ((F::NAME.len() as u64) << 16));
    let v = |k: u32| F::of(k as f64 / 8.0);
    let fixed: Vec<(In<F>, In<F>)> = vec![
        (In { straight: [2, 5, 7][..C::N].iter().map(|&k| v(k)).collect(), alpha: v(6) }, In { straight: [3, 8, 1][..C::N].iter().map(|&k| v(k)).collect(), alpha: v(4) }),
        (In { straight: [8, 0, 4][..C::N].iter().map(|&k| v(k)).collect(), alpha: v(8) }, In { straight: [1, 6, 8][..C::N].iter().map(|&k| v(k)).collect(), alpha: v(2) }),
        (In { straight: [4, 4, 3][..C::N].iter().map(|&k| v(k)).collect(), alpha: v(0) }, In { straight: [7, 2, 5][..C::N].iter().map(|&k| v(k)).collect(), alpha: v(8) }),
        (In { straight: [6, 1, 8][..C::N].iter().map(|&k| v(k)).collect(), alpha: v(3) }, In { straight: [5, 5, 0][..C::N].iter().map(|&k| v(k)).collect(), alpha: v(0) }),
    ];
    for kc in 0..500usize {
        let ka = (kc * 137 + 71) % 500;
        for j in 0..p.eqn_inputs {
            let (s, d) = if j < 2 { fixed[(kc + 2 * j) % fixed.len()].clone() } else { rand_pair::<F>(&mut rng, C::N) };
            for form in FORMS { do_eqn::<F, C>(o, kc, ka, form, &s, &d); }
        }
    }
    // the combinations the two constructors express: Equations::from_equations (parameters One) and from_parameters (Add)
    for ce in 0..5usize {
        for ae in 0..5usize {
            let (s, d) = fixed[(ce + ae) % fixed.len()].clone();
            do_eqn::<F, C>(o, ce * 100, ae * 100, FORMS[1 + (ce + ae) % 2], &s, &d);
        }
    }
    for sp in 0..10usize {
        for dp in 0..10usize {
            let (s, d) = fixed[(sp + dp) % fixed.len()].clone();
            do_eqn::<F, C>(o, sp * 10 + dp, sp * 10 + dp, FORMS[1 + (sp + dp) % 2], &s, &d);
        }
    }
    // the same alpha combination with every colour equation the other way round (alpha combinations enumerated, colour permuted)
    for ka in (0..500usize).step_by(7) {
        let kc = (ka * 211 + 13) % 500;
        let (s, d) = fixed[ka % fixed.len()].clone();
        do_eqn::<F, C>(o, kc, ka, FORMS[1 + ka % 2], &s, &d);
    }
    // seeded random dyadic cases k/256 (thorough)
    for i in 0..p.random_cases {
        let (s, d) = rand_pair::<F>(&mut rng, C::N);
        let form = FORMS[1 + (i % 2)];
        for mode in BLEND_MODES { do_blend::<F, C>(o, mode, form, &s, &d); }
        for op in COMPOSE_OPS { do_compose::<F, C>(o, op, form, &s, &d); }
        if i % 8 == 0 {
            // opaque form on the same colours
            for mode in BLEND_MODES { do_blend::<F, C>(o, mode, "opaque", &s, &d); }
            for op in COMPOSE_OPS { do_compose::<F, C>(o, op, "opaque", &s, &d); }
            do_custom::<F, C>(o, form, &s, &d);
        }
    }
}

/// what every `Premultiply` type gets: premultiply / unpremultiply through every entry point, and (for the types that are
/// not driven by `drive_full`) the Porter-Duff operators and BlendWith on a share of the grid
fn drive_premul<F: Fl, C: Col<F>>(o: &mut Out, p: &Plan, seed: u64, share: Option<(usize, usize)>)
where
    C: Compose,
    Alpha<C, F>: Compose,
    PreAlpha<C>: Compose,
{
    let g = p.g;
    let v = |k: u32| F::of(k as f64 / g as f64);
    let cols = packed(g, C::N);
    let mut k = 0usize;
    for ia in 0..=g {
        for (j, cases) in cols.iter().enumerate() {
            let c: Vec<F> = cases.iter().map(|x| v(x.0)).collect();
            for (m, via) in PREMUL_VIAS.iter().enumerate() {
                if (j + m) % 2 == 0 || ia == 0 || ia == g { do_premul::<F, C>(o, via, &c, v(ia)); }
            }
            // a premultiplied colour that is not the product of grid values: c/g' <= a
            if ia > 0 {
                let pcol: Vec<F> = cases.iter().map(|x| F::of((x.0 % (ia + 1)) as f64 / g as f64)).collect();
                do_unpremul::<F, C>(o, ["trait", "method", "into", "bare"][k % 4], &pcol, v(ia));
            } else {
                do_unpremul::<F, C>(o, ["trait", "method", "into", "bare"][k % 4], &vec![F::f0(); C::N], F::f0());
            }
            k += 1;
        }
    }
    let mut rng = Sm64::new(seed ^ 0xA1FA ^ ((C::NAME.len() as u64) << 8) ^ ((F::NAME.len() as u64) << 20));
    for i in 0..p.premul_random {
        // arbitrary floats in [2^-20, 1] (not dyadic grid values): the product and the quotient are rounded
        let r = |rng: &mut Sm64| F::of(if rng.below(4) == 0 { 2f64.powf(-20.0 * rng.unit()) } else { rng.range(1e-6, 1.0) });
        let c: Vec<F> = (0..C::N).map(|_| r(&mut rng)).collect();
        let a = r(&mut rng);
        do_premul::<F, C>(o, PREMUL_VIAS[i % 4], &c, a);
        let pc: Vec<F> = c.iter().map(|x| x.mul(a)).collect();
        do_unpremul::<F, C>(o, ["trait", "method", "into", "bare"][i % 4], &pc, a);
    }
    if let Some((idx, of)) = share {
        let mut k = 0usize;
        for ias in 0..=g {
            for iab in 0..=g {
                for (s, d) in grid_inputs::<F>(g, C::N, ias, iab) {
                    for form in FORMS {
                        if form == "opaque" && !(ias == g && iab == g) { continue; }
                        for op in COMPOSE_OPS {
                            if k % of == idx { do_compose::<F, C>(o, op, form, &s, &d); }
                            k += 1;
                        }
                        if k % of == idx { do_custom::<F, C>(o, form, &s, &d); }
                        k += 1;
                    }
                }
            }
        }
    }
}

fn drive_all<F: Fl>(o: &mut Out, p: &Plan, seed: u64)
where
    LinSrgb<F>: Col<F> + Blend + Compose,
    Alpha<LinSrgb<F>, F>: Blend + Compose,
    PreAlpha<LinSrgb<F>>: Blend + Compose,
    Equations: BlendFunction<LinSrgb<F>>,
    Xyz<D65, F>: Col<F> + Blend + Compose,
    Alpha<Xyz<D65, F>, F>: Blend + Compose,
    PreAlpha<Xyz<D65, F>>: Blend + Compose,
    Equations: BlendFunction<Xyz<D65, F>>,
    LinLuma<F>: Col<F> + Blend + Compose,
    Alpha<LinLuma<F>, F>: Blend + Compose,
    PreAlpha<LinLuma<F>>: Blend + Compose,
    Equations: BlendFunction<LinLuma<F>>,
    Lms<F>: Col<F> + Compose, Alpha<Lms<F>, F>: Compose, PreAlpha<Lms<F>>: Compose,
    Lab<D65, F>: Col<F> + Compose, Alpha<Lab<D65, F>, F>: Compose, PreAlpha<Lab<D65, F>>: Compose,
    Luv<D65, F>: Col<F> + Compose, Alpha<Luv<D65, F>, F>: Compose, PreAlpha<Luv<D65, F>>: Compose,
    Yxy<D65, F>: Col<F> + Compose, Alpha<Yxy<D65, F>, F>: Compose, PreAlpha<Yxy<D65, F>>: Compose,
    Oklab<F>: Col<F> + Compose, Alpha<Oklab<F>, F>: Compose, PreAlpha<Oklab<F>>: Compose,
    Jab<F>: Col<F> + Compose, Alpha<Jab<F>, F>: Compose, PreAlpha<Jab<F>>: Compose,
{
    drive_full::<F, LinSrgb<F>>(o, p, seed);
    drive_full::<F, Xyz<D65, F>>(o, p, seed);
    drive_full::<F, LinLuma<F>>(o, p, seed);
    drive_premul::<F, LinSrgb<F>>(o, p, seed, None);
    drive_premul::<F, Xyz<D65, F>>(o, p, seed, None);
    drive_premul::<F, LinLuma<F>>(o, p, seed, None);
    drive_premul::<F, Lms<F>>(o, p, seed, Some((0, 6)));
    drive_premul::<F, Lab<D65, F>>(o, p, seed, Some((1, 6)));
    drive_premul::<F, Luv<D65, F>>(o, p, seed, Some((2, 6)));
    drive_premul::<F, Yxy<D65, F>>(o, p, seed, Some((3, 6)));
    drive_premul::<F, Oklab<F>>(o, p, seed, Some((4, 6)));
    drive_premul::<F, Jab<F>>(o, p, seed, Some((5, 6)));
}

// ------------------------------------------------------------------------------------------ replay

fn val<F: Fl>(j: &Value) -> F {
    let a = j.as_array().expect("exact number");
    let s = a[0].as_i64().unwrap();
    if s == 2 { return F::of(f64::NAN); }
    if s == 3 || s == -3 { return F::of(s as f64 * f64::INFINITY); }
    let q = a[1].as_i64().unwrap() as i32;
    let mut m = 0f64;
    for (i, l) in a[2..].iter().enumerate() { m += l.as_f64().unwrap() * 2f64.powi(13 * i as i32); }
    // all recorded inputs are values of F, so this product is exact
    F::of(s as f64 * m * 2f64.powi(13 * q))
}
fn vals<F: Fl>(j: &Value) -> Vec<F> { j.as_array().unwrap().iter().map(|x| val::<F>(x)).collect() }

fn qidx(e: &Value, eqk: &str, spk: &str, dpk: &str) -> usize {
    let f = |tab: &[&str], name: &str| tab.iter().position(|x| *x == name).expect("name");
    let eqs: Vec<&str> = EQUATIONS.iter().map(|x| x.0).collect();
    let ps: Vec<&str> = PARAMETERS.iter().map(|x| x.0).collect();
    f(&eqs, e["q"][eqk].as_str().unwrap()) * 100 + f(&ps, e["q"][spk].as_str().unwrap()) * 10 + f(&ps, e["q"][dpk].as_str().unwrap())
}

fn run_one_full<F: Fl, C: Col<F>>(o: &mut Out, e: &Value)
where
    C: Blend + Compose,
    Alpha<C, F>: Blend + Compose,
    PreAlpha<C>: Blend + Compose,
    Equations: BlendFunction<C>,
{
    let ev = e["ev"].as_str().unwrap();
    let form = e["form"].as_str().unwrap_or("");
    let mode = e["mode"].as_str().unwrap_or("");
    match ev {
        "blend" | "eqn" => {
            let src = vals::<F>(&e["src"]);
            let dst = vals::<F>(&e["dst"]);
            let s = In { straight: vals::<F>(&e["ss"]), alpha: src[C::N] };
            let d = In { straight: vals::<F>(&e["sd"]), alpha: dst[C::N] };
            if ev == "blend" { do_blend::<F, C>(o, mode, form, &s, &d) } else { do_eqn::<F, C>(o, qidx(e, "ceq", "cps", "cpd"), qidx(e, "aeq", "aps", "apd"), form, &s, &d) }
        }
        _ => run_one_premul::<F, C>(o, e),
    }
}

fn run_one_premul<F: Fl, C: Col<F>>(o: &mut Out, e: &Value)
where
    C: Compose,
    Alpha<C, F>: Compose,
    PreAlpha<C>: Compose,
{
    let ev = e["ev"].as_str().unwrap();
    let form = e["form"].as_str().unwrap_or("");
    let mode = e["mode"].as_str().unwrap_or("");
    match ev {
        "compose" | "custom" => {
            let src = vals::<F>(&e["src"]);
            let dst = vals::<F>(&e["dst"]);
            let s = In { straight: vals::<F>(&e["ss"]), alpha: src[C::N] };
            let d = In { straight: vals::<F>(&e["sd"]), alpha: dst[C::N] };
            if ev == "compose" { do_compose::<F, C>(o, mode, form, &s, &d) } else { do_custom::<F, C>(o, form, &s, &d) }
        }
        "premul" => do_premul::<F, C>(o, e["via"].as_str().unwrap(), &vals::<F>(&e["c"]), val::<F>(&e["a"])),
        "unpremul" => { let p = vals::<F>(&e["p"]); do_unpremul::<F, C>(o, e["via"].as_str().unwrap(), &p[..C::N], p[C::N]) }
        other => panic!("cannot replay event kind {} for this type", other),
    }
}

fn run_one(o: &mut Out, e: &Value) {
    macro_rules! pick { ($F:ty) => { match e["ty"].as_str().unwrap() {
        "LinSrgb" => run_one_full::<$F, LinSrgb<$F>>(o, e), "Xyz" => run_one_full::<$F, Xyz<D65, $F>>(o, e), "LinLuma" => run_one_full::<$F, LinLuma<$F>>(o, e),
        "Lms" => run_one_premul::<$F, Lms<$F>>(o, e), "Lab" => run_one_premul::<$F, Lab<D65, $F>>(o, e), "Luv" => run_one_premul::<$F, Luv<D65, $F>>(o, e),
        "Yxy" => run_one_premul::<$F, Yxy<D65, $F>>(o, e), "Oklab" => run_one_premul::<$F, Oklab<$F>>(o, e), _ => run_one_premul::<$F, Jab<$F>>(o, e) } }; }
    if e["t"].as_str().unwrap() == "f32" { pick!(f32) } else { pick!(f64) }
}

fn main() {
    let out = arg_or("--out", "-");
    let mut o = Out { rec: Rec::create(&out), counts: BTreeMap::new(), panics: 0, counting: false, cases: BTreeMap::new() };
    if let Some(one) = arg("--one") {
        let e: Value = serde_json::from_str(&one).expect("event json");
        run_one(&mut o, &e);
        o.rec.finish();
        return;
    }
    let seed = seed_from_env();
    let thorough = arg_or("--tier", "quick") == "thorough";
    let p = if thorough { Plan { g: 8, thin_single_channel: false, random_cases: 900, eqn_inputs: 4, premul_random: 300 } }
            else { Plan { g: 4, thin_single_channel: true, random_cases: 0, eqn_inputs: 1, premul_random: 30 } };
    drive_all::<f32>(&mut o, &p, seed);
    drive_all::<f64>(&mut o, &p, seed);
    let counts = o.counts.clone();
    let panics = o.panics;
    let operations = o.cases.len();
    let per_op = o.cases.values().map(|s| s.len()).min().unwrap_or(0);
    let n = o.rec.finish();
    eprintln!("{}", json!({"events": n, "per_ev": counts, "panics": panics, "grid": p.g, "operations": operations, "grid_cases_per_operation": per_op}));
}
