SPECIFICATION MCSpec
CONSTANTS
  NCol = 1
  Secs = {"machine", "arith"}
INVARIANTS MachineInv
PROPERTY MachineStep
CHECK_DEADLOCK FALSE
