--------------------------- MODULE TraceStimulus ---------------------------
(* Trace validation for C06.  Every recorded call of palette's number-format  *)
(* conversion must satisfy the relation Stimulus.tla gives for that pair of   *)
(* formats, on the exact values.  Events are independent of each other (the   *)
(* conversion has no state): a rejected line never hides the following ones.  *)
(*                                                                            *)
(* Numbers are logged exactly ([s, q, limbs..]; [2,0] NaN, [3,0] +inf,        *)
(* [-3,0] -inf); a panic inside palette is logged as "panic":1 with NaN.      *)
(*                                                                            *)
(*  stim     from to in out panic          one call  to::from_stimulus(in)    *)
(*  pair     from to in1 out1 in2 out2     two calls, in1 <= in2 (neighbours   *)
(*                                         of the sorted sample): monotone    *)
(*  rt       a b in mid out panic          a -> b -> a                         *)
(*  fmt      ty via from to in[] out[] cw[] panic                              *)
(*                                         Rgb/Rgba/Luma/Lumaa::into_format /  *)
(*                                         from_format; cw = the component-    *)
(*                                         wise conversion of the same input   *)
(*  step     from to code fi li pcode pli  exhaustive sweep: every input at    *)
(*                                         positions fi..li of the ordered     *)
(*                                         line gives `code`; the previous run *)
(*                                         ended at pli with pcode (-1: none)  *)
(*  stepend  from to li runs               the last run of a sweep ended at li *)
(*  stepover from to block dec runs        a block of the sweep is not a step  *)
(*                                         function (dec decreases, or more    *)
(*                                         runs than codes): recording cut     *)
(*  nans     to count bad                  all NaN patterns of f32: how many,  *)
(*                                         and how many did not give MAX       *)
EXTENDS Stimulus, Json, IOUtils, TLC

Rec == ndJsonDeserialize(IOEnv.TRACE)

VARIABLES l, skip
tvars == <<vars, l, skip>>

TInit == Init /\ l = 1 /\ skip = FALSE

Is(kind) == l <= Len(Rec) /\ Rec[l].ev = kind

(* an event is judged; a disagreement is reported and the next line is examined.
   Reasons are short strings (BUILDING.md). *)
Judge(tag, from, to, ok, why) ==
  /\ IF ok THEN TRUE ELSE PrintT(<<"REJECT", l, why>>)
  /\ last' = <<tag, from, to>> /\ l' = l + 1 /\ skip' = FALSE

KindOf(from, to) == IF from \in FloatFormats THEN (IF to \in FloatFormats THEN "f2f" ELSE "f2u")
                    ELSE (IF to \in FloatFormats THEN "u2f" ELSE "u2u")

TrStim ==
  /\ Is("stim") /\ Rec[l].from \in Formats /\ Rec[l].to \in Formats
  /\ LET e == Rec[l]
     IN Judge(KindOf(e.from, e.to), e.from, e.to,
              e.panic = 0 /\ ConvOK(e.from, e.to, e.in, e.out),
              "stim: outside the contract")

TrPair ==
  /\ Is("pair") /\ Rec[l].from \in Formats /\ Rec[l].to \in Formats
  /\ LET e == Rec[l]
     IN Judge("mono", e.from, e.to,
              LeqJ(e.in1, e.in2) /\ MonoOK(e.in1, e.out1, e.in2, e.out2),
              "pair: not monotone")

TrRT ==
  /\ Is("rt") /\ Rec[l].a \in Formats /\ Rec[l].b \in Formats
  /\ LET e == Rec[l]
     IN Judge("rt", e.a, e.b,
              e.panic = 0 /\ RTOK(e.a, e.b, e.in, e.out),
              "rt: round trip is not the identity")

(* a colour type's into_format / from_format is the component-wise conversion, bit for bit, and every component
   obeys the contract *)
TrFmt ==
  /\ Is("fmt") /\ Rec[l].from \in Formats /\ Rec[l].to \in Formats
  /\ LET e == Rec[l]
         same == e.panic = 0 /\ Len(e.out) = Len(e.in) /\ e.out = e.cw
     IN Judge(KindOf(e.from, e.to), e.from, e.to,
              same /\ \A i \in DOMAIN e.in : ConvOK(e.from, e.to, e.in[i], e.out[i]),
              IF same THEN "fmt: outside the contract" ELSE "fmt: differs from component-wise")

TrStep ==
  /\ Is("step") /\ Rec[l].from \in StepFormats /\ Rec[l].to \in IntFormats
  /\ LET e == Rec[l]
         run == RunOK(e.from, e.to, e.code, e.fi, e.li)
     IN Judge("run", e.from, e.to,
              run /\ LinkOK(e.pcode, e.pli, e.code, e.fi),
              IF run THEN "step: gap or decrease" ELSE "step: run outside the contract")

TrStepEnd ==
  /\ Is("stepend") /\ Rec[l].from \in StepFormats /\ Rec[l].to \in IntFormats
  /\ LET e == Rec[l]
     IN Judge("end", e.from, e.to, e.li = IdxLast(e.from), "stepend: sweep did not reach the end")

(* a monotone map onto 0..MAX has no decrease and at most MAX + 1 runs; the harness only logs this event when a
   block of the sweep exceeded either, so it is (almost by construction) rejected - the judgement is still the model's *)
TrStepOver ==
  /\ Is("stepover") /\ Rec[l].from \in StepFormats /\ Rec[l].to \in {"u8", "u16"}
  /\ LET e == Rec[l]
     IN Judge("run", e.from, e.to,
              e.dec = 0 /\ e.runs >= 1 /\ e.runs <= (IF e.to = "u8" THEN 256 ELSE 65536),
              "stepover: not a monotone step function")

TrNaNs ==
  /\ Is("nans") /\ Rec[l].to \in IntFormats
  /\ LET e == Rec[l]
     IN Judge("nans", "f32", e.to, e.count = F32NaNs /\ e.bad = 0, "nans: a NaN did not give MAX")

(* a reset line (not needed by stateless recordings, accepted for uniformity) *)
TReset == /\ Is("reset")
          /\ UNCHANGED last /\ skip' = FALSE /\ l' = l + 1

TNext == TReset \/ TrStim \/ TrPair \/ TrRT \/ TrFmt \/ TrStep \/ TrStepEnd \/ TrStepOver \/ TrNaNs
TSpec == TInit /\ [][TNext]_tvars

Consumed == TLCGet("stats").diameter = Len(Rec) + 1 \/ PrintT(<<"UNCONSUMED", TLCGet("stats").diameter>>)
TInv == TypeOK
=============================================================================
