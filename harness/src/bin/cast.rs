//! C04 driver: executes cast chains (emitted by TLC from spec/mc/MC_Cast.tla) on real palette types
//! and records, after every call, what the returned buffer looks like: form, element unit, length,
//! observed capacity, whether its address is the scenario's original address, its flat contents
//! decoded back to tokens, the error kind, and size_of / align_of of the element type.
//!
//! usage: cast --hist <file, one JSON chain per line> [--types all|name,name] [--rotate R] --out trace.ndjson
//!        cast --list            (prints the type table)
//!        --crashlog <file>      (names each scenario before running it; read by the driver after a crash)
//!
//! Tokens: component token t (1, 2, 3, ...) is the bit pattern `K::enc(t)`; `K::dec` is its exact inverse
//! (anything that is not the image of a token decodes to -9), so the recorded token sequence is a
//! bit-for-bit statement.  Colours are built and read BY FIELD NAME; `names()` lists the fields in the order
//! in which the harness numbers them, and TraceCast.tla compares that list with the specification's table.

#![allow(clippy::type_complexity)]

use core::marker::PhantomData;
use core::mem::{align_of, size_of};
use palette::blend::PreAlpha;
use palette::cast::{
    self, ArrayCast, ArraysAs, ArraysAsMut, ArraysFrom, ArraysInto, AsArrays, AsArraysMut, AsComponents,
    AsComponentsMut, AsUints, AsUintsMut, ComponentsAs, ComponentsAsMut, ComponentsFrom, ComponentsInto, FromArrays,
    FromComponents, FromUints, IntoArrays, IntoComponents, IntoUints, Packed, TryComponentsAs, TryComponentsAsMut,
    TryComponentsInto, TryFromComponents, UintCast, UintsAs, UintsAsMut, UintsFrom, UintsInto, VecCastErrorKind,
};
use palette::encoding::{Linear, Srgb as SrgbStd};
use palette::white_point::D65;
use palette::{
    Alpha, Hsl, Hsluv, Hsv, Hwb, Lab, LabHue, Lch, Lchuv, Luv, LuvHue, Okhsl, Okhsv, Okhwb, Oklab, OklabHue, Oklch,
    RgbHue, Xyz, Yxy,
};
use palette::cam16::{Cam16Jch, Cam16Jmh, Cam16Jsh, Cam16Qch, Cam16Qmh, Cam16Qsh, Cam16UcsJab, Cam16UcsJmh};
use palette::hues::Cam16Hue;
use palette::lms::Lms;
use palette::luma::Luma;
use palette::rgb::Rgb;
use pvh::*;
use serde_json::{json, Value};

const BAD: i64 = -9;
const MAXTOK: i64 = 255;
const MAP_DELTA: i64 = 50;

const OK: i64 = 0;
const LENGTH: i64 = 1;
const CAPACITY: i64 = 2;
const EXACT: i64 = 3;
const PANIC: i64 = 9;

// ------------------------------------------------------------------------------------------- tokens

/// multiplicative inverse of an odd number modulo 2^128 (its low w bits are the inverse modulo 2^w)
const fn inv_odd(a: u128) -> u128 {
    let mut x = a; // correct to 3 bits
    let mut i = 0;
    while i < 7 {
        x = x.wrapping_mul(2u128.wrapping_sub(a.wrapping_mul(x)));
        i += 1;
    }
    x
}

trait Comp: Copy + PartialEq + 'static {
    const NAME: &'static str;
    fn enc(tok: i64) -> Self;
    fn dec(self) -> i64;
}

macro_rules! comp_uint {
    ($t:ty, $a:expr, $b:expr) => {
        impl Comp for $t {
            const NAME: &'static str = stringify!($t);
            fn enc(tok: i64) -> $t { (tok as $t).wrapping_mul($a).wrapping_add($b) }
            fn dec(self) -> i64 {
                const INV: $t = inv_odd($a as u128) as $t;
                let t = self.wrapping_sub($b).wrapping_mul(INV);
                if t >= 1 && (t as u128) <= MAXTOK as u128 { t as i64 } else { BAD }
            }
        }
    };
}
comp_uint!(u8, 167, 13);
comp_uint!(u16, 40503, 12345);
comp_uint!(u32, 0x9E37_79B1, 0x7F4A_7C15);
comp_uint!(u64, 0x9E37_79B9_7F4A_7C15, 0xD1B5_4A32_D192_ED03);
comp_uint!(u128, 0x9E37_79B9_7F4A_7C15_F39C_C060_5CED_C835, 0x0123_4567_89AB_CDEF_FEDC_BA98_7654_3211);

const F32_BASE: u32 = 0x3DCC_CCCD;
const F32_STEP: u32 = 0x0013_579B;
impl Comp for f32 {
    const NAME: &'static str = "f32";
    fn enc(tok: i64) -> f32 { f32::from_bits(F32_BASE + (tok as u32) * F32_STEP) }
    fn dec(self) -> i64 {
        let b = self.to_bits();
        if b > F32_BASE && (b - F32_BASE) % F32_STEP == 0 && ((b - F32_BASE) / F32_STEP) as i64 <= MAXTOK {
            ((b - F32_BASE) / F32_STEP) as i64
        } else {
            BAD
        }
    }
}
const F64_BASE: u64 = 0x3FB9_9999_9999_999A;
const F64_STEP: u64 = 0x0002_4681_3579_BDF1;
impl Comp for f64 {
    const NAME: &'static str = "f64";
    fn enc(tok: i64) -> f64 { f64::from_bits(F64_BASE + (tok as u64) * F64_STEP) }
    fn dec(self) -> i64 {
        let b = self.to_bits();
        if b > F64_BASE && (b - F64_BASE) % F64_STEP == 0 && ((b - F64_BASE) / F64_STEP) as i64 <= MAXTOK {
            ((b - F64_BASE) / F64_STEP) as i64
        } else {
            BAD
        }
    }
}

fn mv<T>(t: T) -> T { t }

// ------------------------------------------------------------------------------------------- chains

#[derive(Clone, Debug)]
struct Init {
    fam: String,
    n: usize,
    form: String,
    unit: String,
    len: usize,
    cap: usize,
}
#[derive(Clone, Debug)]
struct Op {
    name: String,
    api: u8,
    m: u8,
}

fn parse_chain(line: &str) -> (Init, Vec<Op>) {
    let v: Value = serde_json::from_str(line).expect("chain json");
    let a = v.as_array().expect("chain array");
    let i = a[0].as_array().expect("init");
    assert_eq!(i[0].as_str(), Some("init"));
    let s = |x: &Value| x.as_str().unwrap().to_string();
    let u = |x: &Value| x.as_u64().unwrap() as usize;
    let init = Init { fam: s(&i[1]), n: u(&i[2]), form: s(&i[3]), unit: s(&i[4]), len: u(&i[5]), cap: u(&i[6]) };
    let ops = a[1..]
        .iter()
        .map(|o| {
            let o = o.as_array().unwrap();
            Op { name: s(&o[0]), api: u(&o[1]) as u8, m: u(&o[2]) as u8 }
        })
        .collect();
    (init, ops)
}

struct Cx<'r> {
    rec: &'r mut Rec,
    base: usize,
    cur: Option<Op>, // the call in flight (for the scenario-level panic record)
}

/// run the chain; a panic of palette outside the places that expect one ends the scenario and is recorded
/// as the outcome of the call that was in flight (the buffer it had been given is gone)
fn run_chain<'r>(cx: &mut Cx<'r>, f: impl FnOnce(&mut Cx<'r>)) {
    if catch(|| f(cx)).is_err() {
        let op = cx.cur.clone().expect("panic outside a call");
        log_cast(cx, &op, None, PANIC);
    }
}

/// The chain asks for a call that the buffer we actually hold cannot take. That happens after palette's result
/// has already departed from the specification (e.g. a buffer was accepted that should have been rejected): the
/// event is recorded as such - TLC skips it after a rejection and rejects it otherwise - and the chain ends.
fn unsupported(cx: &mut Cx, what: &str, op: &Op) {
    let v = json!({"ev": "cast", "op": op.name, "api": op.api, "m": op.m, "err": -1, "form": "inapplicable", "unit": what,
                   "len": 0, "cap": 0, "addr": 0, "data": [], "elsize": 0, "elalign": 0});
    cx.rec.ev(v);
}

struct Obs {
    form: &'static str,
    unit: &'static str,
    len: usize,
    cap: usize,
    ptr: usize, // 0: by value
    data: Vec<i64>,
    elsize: usize,
    elalign: usize,
}

fn obs_json(o: &Obs, base: usize) -> Value {
    let addr = if o.ptr == 0 { 0 } else if o.ptr == base { 1 } else { 2 };
    json!({"form": o.form, "unit": o.unit, "len": o.len, "cap": o.cap, "addr": addr, "data": o.data,
           "elsize": o.elsize, "elalign": o.elalign})
}

fn log_cast(cx: &mut Cx, op: &Op, o: Option<&Obs>, err: i64) {
    let mut v = match o {
        Some(o) => obs_json(o, cx.base),
        None => json!({"form": "dead", "unit": "none", "len": 0, "cap": 0, "addr": 0, "data": [], "elsize": 0, "elalign": 0}),
    };
    let m = v.as_object_mut().unwrap();
    m.insert("ev".into(), json!("cast"));
    m.insert("op".into(), json!(op.name));
    m.insert("api".into(), json!(op.api));
    m.insert("m".into(), json!(op.m));
    m.insert("err".into(), json!(err));
    cx.rec.ev(v);
}

// ------------------------------------------------------------------------------------------- ArrayCast family

trait Col<K: Comp, const N: usize>: ArrayCast<Array = [K; N]> + Sized + 'static {
    const TY: &'static str;
    const BASE: &'static str;
    const WRAP: &'static str;
    /// a colour type with the same array, used as the target of map_*_in_place
    type Partner: Col<K, N>;
    /// field names in the order in which `make` / `read` number them
    fn names() -> Vec<&'static str>;
    /// BY FIELD NAME
    fn make(v: [K; N]) -> Self;
    /// BY FIELD NAME
    fn read(&self) -> [K; N];
    // the std-trait spellings (From / AsRef / AsMut / TryFrom) generated by impl_array_casts!
    fn s_into_array(self) -> [K; N];
    fn s_from_array(a: [K; N]) -> Self;
    fn s_ref_into(&self) -> &[K; N];
    fn s_ref_from(a: &[K; N]) -> &Self;
    fn s_mut_into(&mut self) -> &mut [K; N];
    fn s_mut_from(a: &mut [K; N]) -> &mut Self;
    fn s_box_into(b: Box<Self>) -> Box<[K; N]>;
    fn s_box_from(b: Box<[K; N]>) -> Box<Self>;
    fn s_ref_slice(&self) -> &[K];
    fn s_mut_slice(&mut self) -> &mut [K];
    fn s_try_ref(s: &[K]) -> Option<&Self>;
    fn s_try_mut(s: &mut [K]) -> Option<&mut Self>;
    // by-value component arrays need concrete lengths (2N and 2N+1)
    fn a_into_components(a: [Self; 2], api: u8) -> Vec<K>;
    fn a_from_components(v: &[K], api: u8) -> [Self; 2];
}

enum Buf<'a, C, K, const N: usize> {
    ValC(C),
    ValA([K; N]),
    RefC(&'a C),
    RefA(&'a [K; N]),
    MutC(&'a mut C),
    MutA(&'a mut [K; N]),
    BoxC(Box<C>),
    BoxA(Box<[K; N]>),
    ArrC([C; 2]),
    ArrA([[K; N]; 2]),
    ArrK(Vec<K>), // a by-value [K; M]: held as a copy, rebuilt as a real array for every call
    SlC(&'a [C]),
    SlA(&'a [[K; N]]),
    SlK(&'a [K]),
    SmC(&'a mut [C]),
    SmA(&'a mut [[K; N]]),
    SmK(&'a mut [K]),
    BsC(Box<[C]>),
    BsA(Box<[[K; N]]>),
    BsK(Box<[K]>),
    VecC(Vec<C>),
    VecA(Vec<[K; N]>),
    VecK(Vec<K>),
}

fn dc<C: Col<K, N>, K: Comp, const N: usize>(s: &[C]) -> Vec<i64> {
    s.iter().flat_map(|c| c.read().into_iter().map(|k| k.dec())).collect()
}
fn da<K: Comp, const N: usize>(s: &[[K; N]]) -> Vec<i64> { s.iter().flat_map(|a| a.iter().map(|k| k.dec())).collect() }
fn dk<K: Comp>(s: &[K]) -> Vec<i64> { s.iter().map(|k| k.dec()).collect() }

#[inline(never)]
fn observe<C: Col<K, N>, K: Comp, const N: usize>(b: &Buf<C, K, N>) -> Obs {
    use Buf::*;
    let (sc, ac) = (size_of::<C>(), align_of::<C>());
    let (sa, aa) = (size_of::<[K; N]>(), align_of::<[K; N]>());
    let (sk, ak) = (size_of::<K>(), align_of::<K>());
    let o = |form, unit, len, cap, ptr, data, (elsize, elalign)| Obs { form, unit, len, cap, ptr, data, elsize, elalign };
    match b {
        ValC(c) => o("value", "colour", 1, 1, 0, dc(core::slice::from_ref(c)), (sc, ac)),
        ValA(a) => o("value", "array", 1, 1, 0, da(core::slice::from_ref(a)), (sa, aa)),
        RefC(c) => o("ref", "colour", 1, 1, *c as *const C as usize, dc(core::slice::from_ref(*c)), (sc, ac)),
        RefA(a) => o("ref", "array", 1, 1, *a as *const [K; N] as usize, da(core::slice::from_ref(*a)), (sa, aa)),
        MutC(c) => o("mut", "colour", 1, 1, &**c as *const C as usize, dc(core::slice::from_ref(&**c)), (sc, ac)),
        MutA(a) => o("mut", "array", 1, 1, &**a as *const [K; N] as usize, da(core::slice::from_ref(&**a)), (sa, aa)),
        BoxC(c) => o("box", "colour", 1, 1, &**c as *const C as usize, dc(core::slice::from_ref(&**c)), (sc, ac)),
        BoxA(a) => o("box", "array", 1, 1, &**a as *const [K; N] as usize, da(core::slice::from_ref(&**a)), (sa, aa)),
        ArrC(x) => o("array", "colour", 2, 2, 0, dc(&x[..]), (sc, ac)),
        ArrA(x) => o("array", "array", 2, 2, 0, da(&x[..]), (sa, aa)),
        ArrK(v) => o("array", "component", v.len(), v.len(), 0, dk(v), (sk, ak)),
        SlC(s) => o("slice", "colour", s.len(), s.len(), s.as_ptr() as usize, dc(s), (sc, ac)),
        SlA(s) => o("slice", "array", s.len(), s.len(), s.as_ptr() as usize, da(s), (sa, aa)),
        SlK(s) => o("slice", "component", s.len(), s.len(), s.as_ptr() as usize, dk(s), (sk, ak)),
        SmC(s) => o("slice_mut", "colour", s.len(), s.len(), s.as_ptr() as usize, dc(s), (sc, ac)),
        SmA(s) => o("slice_mut", "array", s.len(), s.len(), s.as_ptr() as usize, da(s), (sa, aa)),
        SmK(s) => o("slice_mut", "component", s.len(), s.len(), s.as_ptr() as usize, dk(s), (sk, ak)),
        BsC(s) => o("boxed_slice", "colour", s.len(), s.len(), s.as_ptr() as usize, dc(s), (sc, ac)),
        BsA(s) => o("boxed_slice", "array", s.len(), s.len(), s.as_ptr() as usize, da(s), (sa, aa)),
        BsK(s) => o("boxed_slice", "component", s.len(), s.len(), s.as_ptr() as usize, dk(s), (sk, ak)),
        VecC(s) => o("vec", "colour", s.len(), s.capacity(), s.as_ptr() as usize, dc(s), (sc, ac)),
        VecA(s) => o("vec", "array", s.len(), s.capacity(), s.as_ptr() as usize, da(s), (sa, aa)),
        VecK(s) => o("vec", "component", s.len(), s.capacity(), s.as_ptr() as usize, dk(s), (sk, ak)),
    }
}

/// log the outcome of a call and continue the chain on the returned buffer
#[inline(never)]
fn step<C: Col<K, N>, K: Comp, const N: usize>(r: Result<(Buf<C, K, N>, i64), String>, op: &Op, rest: &[Op], cx: &mut Cx) {
    match r {
        Ok((b, err)) => {
            let o = observe(&b);
            log_cast(cx, op, Some(&o), err);
            exec(b, rest, cx)
        }
        Err(_) => log_cast(cx, op, None, PANIC), // the call panicked and consumed the buffer
    }
}

fn vec_err(k: VecCastErrorKind) -> i64 {
    match k {
        VecCastErrorKind::LengthMismatch => LENGTH,
        VecCastErrorKind::CapacityMismatch => CAPACITY,
    }
}

fn map_fn<A: Col<K, N>, K: Comp, const N: usize>(a: A) -> A::Partner {
    <A::Partner as Col<K, N>>::make(a.read().map(|k| K::enc(k.dec() + MAP_DELTA)))
}

#[inline(never)]
fn exec<C: Col<K, N>, K: Comp, const N: usize>(buf: Buf<C, K, N>, ops: &[Op], cx: &mut Cx) {
    use Buf::*;
    let Some((op, rest)) = ops.split_first() else { return };
    let (a, m) = (op.api, op.m);
    cx.cur = Some(op.clone());
    // run a palette call that takes the buffer by value / by the reference we hold
    macro_rules! st {
        ($v:ident, $e:expr) => {
            step(Ok((Buf::<C, K, N>::$v($e), OK)), op, rest, cx)
        };
    }
    // run a palette call that borrows from the local holder, which stays alive below the rest of the chain
    macro_rules! bw {
        ($v:ident, $e:expr) => {
            step(Ok((Buf::<C, K, N>::$v($e), OK)), op, rest, cx)
        };
    }
    match (op.name.as_str(), buf) {
        // ------------------------------------------------------------------ into_array
        ("into_array", ValC(c)) => st!(ValA, if a == 0 { cast::into_array(c) } else { c.s_into_array() }),
        ("into_array", RefC(c)) => st!(RefA, if a == 0 { cast::into_array_ref(c) } else { c.s_ref_into() }),
        ("into_array", MutC(c)) => st!(MutA, if a == 0 { cast::into_array_mut(mv(c)) } else { mv(c).s_mut_into() }),
        ("into_array", BoxC(c)) => st!(BoxA, if a == 0 { cast::into_array_box(c) } else { C::s_box_into(c) }),
        ("into_array", ArrC(mut x)) => match (a, m) {
            (0, _) => st!(ArrA, cast::into_array_array(x)),
            (1, _) => st!(ArrA, IntoArrays::<[[K; N]; 2]>::into_arrays(x)),
            (3, _) => st!(ArrA, <[[K; N]; 2]>::arrays_from(x)),
            (2, 0) => { cx.base = x.as_ptr() as usize; bw!(SlA, AsArrays::<[[K; N]]>::as_arrays(&x)) }
            (2, _) => { cx.base = x.as_ptr() as usize; bw!(SmA, AsArraysMut::<[[K; N]]>::as_arrays_mut(&mut x)) }
            (_, 0) => { cx.base = x.as_ptr() as usize; bw!(SlA, IntoArrays::<&[[K; N]]>::into_arrays(&x)) }
            (_, _) => { cx.base = x.as_ptr() as usize; bw!(SmA, IntoArrays::<&mut [[K; N]]>::into_arrays(&mut x)) }
        },
        ("into_array", SlC(s)) => match a {
            0 => st!(SlA, cast::into_array_slice(s)),
            1 => st!(SlA, IntoArrays::<&[[K; N]]>::into_arrays(s)),
            3 => st!(SlA, <&[[K; N]]>::arrays_from(s)),
            _ => st!(SlA, AsArrays::<[[K; N]]>::as_arrays(s)),
        },
        ("into_array", SmC(s)) => match (a, m) {
            (0, _) => st!(SmA, cast::into_array_slice_mut(mv(s))),
            (1, _) => st!(SmA, IntoArrays::<&mut [[K; N]]>::into_arrays(mv(s))),
            (3, _) => st!(SmA, <&mut [[K; N]]>::arrays_from(mv(s))),
            (_, 0) => st!(SlA, AsArrays::<[[K; N]]>::as_arrays(&*mv(s))),
            (_, _) => st!(SmA, AsArraysMut::<[[K; N]]>::as_arrays_mut(mv(s))),
        },
        ("into_array", BsC(mut b)) => match (a, m) {
            (0, _) => st!(BsA, cast::into_array_slice_box(b)),
            (1, _) => st!(BsA, IntoArrays::<Box<[[K; N]]>>::into_arrays(b)),
            (3, _) => st!(BsA, Box::<[[K; N]]>::arrays_from(b)),
            (2, 0) => bw!(SlA, AsArrays::<[[K; N]]>::as_arrays(&b)),
            (2, _) => bw!(SmA, AsArraysMut::<[[K; N]]>::as_arrays_mut(&mut b)),
            (_, 0) => bw!(SlA, IntoArrays::<&[[K; N]]>::into_arrays(&b)),
            (_, _) => bw!(SmA, IntoArrays::<&mut [[K; N]]>::into_arrays(&mut b)),
        },
        ("into_array", VecC(mut v)) => match (a, m) {
            (0, _) => st!(VecA, cast::into_array_vec(v)),
            (1, _) => st!(VecA, IntoArrays::<Vec<[K; N]>>::into_arrays(v)),
            (3, _) => st!(VecA, Vec::<[K; N]>::arrays_from(v)),
            (2, 0) => bw!(SlA, AsArrays::<[[K; N]]>::as_arrays(&v)),
            (2, _) => bw!(SmA, AsArraysMut::<[[K; N]]>::as_arrays_mut(&mut v)),
            (_, 0) => bw!(SlA, IntoArrays::<&[[K; N]]>::into_arrays(&v)),
            (_, _) => bw!(SmA, IntoArrays::<&mut [[K; N]]>::into_arrays(&mut v)),
        },
        // ------------------------------------------------------------------ from_array
        ("from_array", ValA(x)) => st!(ValC, if a == 0 { cast::from_array::<C>(x) } else { C::s_from_array(x) }),
        ("from_array", RefA(x)) => st!(RefC, if a == 0 { cast::from_array_ref::<C>(x) } else { C::s_ref_from(x) }),
        ("from_array", MutA(x)) => st!(MutC, if a == 0 { cast::from_array_mut::<C>(mv(x)) } else { C::s_mut_from(mv(x)) }),
        ("from_array", BoxA(x)) => st!(BoxC, if a == 0 { cast::from_array_box::<C>(x) } else { C::s_box_from(x) }),
        ("from_array", ArrA(mut x)) => match (a, m) {
            (0, _) => st!(ArrC, cast::from_array_array::<C, 2>(x)),
            (1, _) => st!(ArrC, <[C; 2]>::from_arrays(x)),
            (3, _) => st!(ArrC, ArraysInto::<[C; 2]>::arrays_into(x)),
            (2, 0) => { cx.base = x.as_ptr() as usize; bw!(SlC, ArraysAs::<[C]>::arrays_as(&x)) }
            (2, _) => { cx.base = x.as_ptr() as usize; bw!(SmC, ArraysAsMut::<[C]>::arrays_as_mut(&mut x)) }
            (_, 0) => { cx.base = x.as_ptr() as usize; bw!(SlC, <&[C]>::from_arrays(&x)) }
            (_, _) => { cx.base = x.as_ptr() as usize; bw!(SmC, <&mut [C]>::from_arrays(&mut x)) }
        },
        ("from_array", SlA(s)) => match a {
            0 => st!(SlC, cast::from_array_slice::<C>(s)),
            1 => st!(SlC, <&[C]>::from_arrays(s)),
            3 => st!(SlC, ArraysInto::<&[C]>::arrays_into(s)),
            _ => st!(SlC, ArraysAs::<[C]>::arrays_as(s)),
        },
        ("from_array", SmA(s)) => match (a, m) {
            (0, _) => st!(SmC, cast::from_array_slice_mut::<C>(mv(s))),
            (1, _) => st!(SmC, <&mut [C]>::from_arrays(mv(s))),
            (3, _) => st!(SmC, ArraysInto::<&mut [C]>::arrays_into(mv(s))),
            (_, 0) => st!(SlC, ArraysAs::<[C]>::arrays_as(&*mv(s))),
            (_, _) => st!(SmC, ArraysAsMut::<[C]>::arrays_as_mut(mv(s))),
        },
        ("from_array", BsA(mut b)) => match (a, m) {
            (0, _) => st!(BsC, cast::from_array_slice_box::<C>(b)),
            (1, _) => st!(BsC, Box::<[C]>::from_arrays(b)),
            (3, _) => st!(BsC, ArraysInto::<Box<[C]>>::arrays_into(b)),
            (2, 0) => bw!(SlC, ArraysAs::<[C]>::arrays_as(&b)),
            (2, _) => bw!(SmC, ArraysAsMut::<[C]>::arrays_as_mut(&mut b)),
            (_, 0) => bw!(SlC, <&[C]>::from_arrays(&b)),
            (_, _) => bw!(SmC, <&mut [C]>::from_arrays(&mut b)),
        },
        ("from_array", VecA(mut v)) => match (a, m) {
            (0, _) => st!(VecC, cast::from_array_vec::<C>(v)),
            (1, _) => st!(VecC, Vec::<C>::from_arrays(v)),
            (3, _) => st!(VecC, ArraysInto::<Vec<C>>::arrays_into(v)),
            (2, 0) => bw!(SlC, ArraysAs::<[C]>::arrays_as(&v)),
            (2, _) => bw!(SmC, ArraysAsMut::<[C]>::arrays_as_mut(&mut v)),
            (_, 0) => bw!(SlC, <&[C]>::from_arrays(&v)),
            (_, _) => bw!(SmC, <&mut [C]>::from_arrays(&mut v)),
        },
        // ------------------------------------------------------------------ into_component
        ("into_component", ArrC(mut x)) => match (a, m) {
            (0, _) | (1, _) | (3, _) => st!(ArrK, C::a_into_components(x, a)),
            (2, 0) => { cx.base = x.as_ptr() as usize; bw!(SlK, AsComponents::<[K]>::as_components(&x)) }
            (2, _) => { cx.base = x.as_ptr() as usize; bw!(SmK, AsComponentsMut::<[K]>::as_components_mut(&mut x)) }
            (_, 0) => { cx.base = x.as_ptr() as usize; bw!(SlK, IntoComponents::<&[K]>::into_components(&x)) }
            (_, _) => { cx.base = x.as_ptr() as usize; bw!(SmK, IntoComponents::<&mut [K]>::into_components(&mut x)) }
        },
        ("into_component", SlC(s)) => match a {
            0 => st!(SlK, cast::into_component_slice(s)),
            1 => st!(SlK, IntoComponents::<&[K]>::into_components(s)),
            3 => st!(SlK, <&[K]>::components_from(s)),
            _ => st!(SlK, AsComponents::<[K]>::as_components(s)),
        },
        ("into_component", SmC(s)) => match (a, m) {
            (0, _) => st!(SmK, cast::into_component_slice_mut(mv(s))),
            (1, _) => st!(SmK, IntoComponents::<&mut [K]>::into_components(mv(s))),
            (3, _) => st!(SmK, <&mut [K]>::components_from(mv(s))),
            (_, 0) => st!(SlK, AsComponents::<[K]>::as_components(&*mv(s))),
            (_, _) => st!(SmK, AsComponentsMut::<[K]>::as_components_mut(mv(s))),
        },
        ("into_component", BsC(mut b)) => match (a, m) {
            (0, _) => st!(BsK, cast::into_component_slice_box(b)),
            (1, _) => st!(BsK, IntoComponents::<Box<[K]>>::into_components(b)),
            (3, _) => st!(BsK, Box::<[K]>::components_from(b)),
            (2, 0) => bw!(SlK, AsComponents::<[K]>::as_components(&b)),
            (2, _) => bw!(SmK, AsComponentsMut::<[K]>::as_components_mut(&mut b)),
            (_, 0) => bw!(SlK, IntoComponents::<&[K]>::into_components(&b)),
            (_, _) => bw!(SmK, IntoComponents::<&mut [K]>::into_components(&mut b)),
        },
        ("into_component", VecC(mut v)) => match (a, m) {
            (0, _) => st!(VecK, cast::into_component_vec(v)),
            (1, _) => st!(VecK, IntoComponents::<Vec<K>>::into_components(v)),
            (3, _) => st!(VecK, Vec::<K>::components_from(v)),
            (2, 0) => bw!(SlK, AsComponents::<[K]>::as_components(&v)),
            (2, _) => bw!(SmK, AsComponentsMut::<[K]>::as_components_mut(&mut v)),
            (_, 0) => bw!(SlK, IntoComponents::<&[K]>::into_components(&v)),
            (_, _) => bw!(SmK, IntoComponents::<&mut [K]>::into_components(&mut v)),
        },
        ("try_from_component", b) => exec_try(b, op, rest, cx),
        ("from_component", b) => exec_from(b, op, rest, cx),
        // ------------------------------------------------------------------ map_*_in_place
        ("map", VecC(v)) => {
            let w = cast::map_vec_in_place::<C, C::Partner, _>(v, map_fn::<C, K, N>);
            step(Ok((Buf::<C::Partner, K, N>::VecC(w), OK)), op, rest, cx)
        }
        ("map", BsC(v)) => {
            let w = cast::map_slice_box_in_place::<C, C::Partner, _>(v, map_fn::<C, K, N>);
            step(Ok((Buf::<C::Partner, K, N>::BsC(w), OK)), op, rest, cx)
        }
        // ------------------------------------------------------------------ one colour <-> exactly n components
        ("ref_as_slice", RefC(c)) => st!(SlK, c.s_ref_slice()),
        ("ref_as_slice", MutC(c)) => st!(SmK, mv(c).s_mut_slice()),
        ("try_slice_as_ref", SlK(s)) => match C::s_try_ref(s) {
            Some(c) => step(Ok((RefC::<C, K, N>(c), OK)), op, rest, cx),
            None => step(Ok((SlK::<C, K, N>(s), EXACT)), op, rest, cx),
        },
        ("try_slice_as_ref", SmK(s)) => {
            let p: *mut [K] = s;
            // SAFETY (harness): at most one of the two reborrows of *p is ever used
            match C::s_try_mut(unsafe { &mut *p }) {
                Some(c) => step(Ok((MutC::<C, K, N>(c), OK)), op, rest, cx),
                None => step(Ok((SmK::<C, K, N>(unsafe { &mut *p }), EXACT)), op, rest, cx),
            }
        }
        (_, b) => unsupported(cx, &format!("{}/{}", observe(&b).form, observe(&b).unit), op),
    }
}

/// try_from_component_*: Ok -> colours; Err -> the buffer that came back, with the error kind
#[inline(never)]
fn exec_try<C: Col<K, N>, K: Comp, const N: usize>(buf: Buf<C, K, N>, op: &Op, rest: &[Op], cx: &mut Cx) {
    use Buf::*;
    let (a, m) = (op.api, op.m);
    let out: (Buf<C, K, N>, i64) = match buf {
        SlK(s) => {
            let r = match a {
                0 => cast::try_from_component_slice::<C>(s),
                1 => <&[C]>::try_from_components(s),
                3 => TryComponentsInto::<&[C]>::try_components_into(s),
                _ => TryComponentsAs::<[C]>::try_components_as(s),
            };
            match r { Ok(v) => (SlC(v), OK), Err(_) => (SlK(s), LENGTH) }
        }
        SmK(s) => {
            let p: *mut [K] = s;
            // SAFETY (harness): the error value does not borrow the slice; only one reborrow of *p is used
            let s = unsafe { &mut *p };
            if m == 0 && a == 2 {
                match TryComponentsAs::<[C]>::try_components_as(&*s) { Ok(v) => (SlC(v), OK), Err(_) => (SmK(unsafe { &mut *p }), LENGTH) }
            } else {
                let r = match a {
                    0 => cast::try_from_component_slice_mut::<C>(s),
                    1 => <&mut [C]>::try_from_components(s),
                    3 => TryComponentsInto::<&mut [C]>::try_components_into(s),
                    _ => TryComponentsAsMut::<[C]>::try_components_as_mut(s),
                };
                match r { Ok(v) => (SmC(v), OK), Err(_) => (SmK(unsafe { &mut *p }), LENGTH) }
            }
        }
        BsK(mut b) => match (a, m) {
            (0, _) | (1, _) | (3, _) => {
                let r = match a {
                    0 => cast::try_from_component_slice_box::<C>(b),
                    1 => Box::<[C]>::try_from_components(b),
                    _ => TryComponentsInto::<Box<[C]>>::try_components_into(b),
                };
                match r { Ok(v) => (BsC(v), OK), Err(e) => (BsK(e.values), LENGTH) }
            }
            (_, 0) => {
                let r = if a == 2 { TryComponentsAs::<[C]>::try_components_as(&b).ok() } else { <&[C]>::try_from_components(&b).ok() };
                return match r {
                    Some(v) => step(Ok((SlC::<C, K, N>(v), OK)), op, rest, cx),
                    None => step(Ok((BsK::<C, K, N>(b), LENGTH)), op, rest, cx),
                };
            }
            (_, _) => {
                let p: *mut Box<[K]> = &mut b;
                let bb = unsafe { &mut *p };
                let r = if a == 2 { TryComponentsAsMut::<[C]>::try_components_as_mut(bb).ok() } else { <&mut [C]>::try_from_components(bb).ok() };
                return match r {
                    Some(v) => step(Ok((SmC::<C, K, N>(v), OK)), op, rest, cx),
                    None => step(Ok((BsK::<C, K, N>(b), LENGTH)), op, rest, cx),
                };
            }
        },
        VecK(mut v) => match (a, m) {
            (0, _) | (1, _) | (3, _) => {
                let r = match a {
                    0 => cast::try_from_component_vec::<C>(v),
                    1 => Vec::<C>::try_from_components(v),
                    _ => TryComponentsInto::<Vec<C>>::try_components_into(v),
                };
                match r { Ok(w) => (VecC(w), OK), Err(e) => { let k = vec_err(e.kind); (VecK(e.values), k) } }
            }
            (_, 0) => {
                let r = if a == 2 { TryComponentsAs::<[C]>::try_components_as(&v).ok() } else { <&[C]>::try_from_components(&v).ok() };
                return match r {
                    Some(w) => step(Ok((SlC::<C, K, N>(w), OK)), op, rest, cx),
                    None => step(Ok((VecK::<C, K, N>(v), LENGTH)), op, rest, cx),
                };
            }
            (_, _) => {
                let p: *mut Vec<K> = &mut v;
                let vv = unsafe { &mut *p };
                let r = if a == 2 { TryComponentsAsMut::<[C]>::try_components_as_mut(vv).ok() } else { <&mut [C]>::try_from_components(vv).ok() };
                return match r {
                    Some(w) => step(Ok((SmC::<C, K, N>(w), OK)), op, rest, cx),
                    None => step(Ok((VecK::<C, K, N>(v), LENGTH)), op, rest, cx),
                };
            }
        },
        b => return unsupported(cx, &format!("{}/{}", observe(&b).form, observe(&b).unit), op),
    };
    step(Ok(out), op, rest, cx)
}

/// from_component_* (panicking): Ok -> colours; a panic consumes a buffer passed by value and leaves a borrowed one alone
#[inline(never)]
fn exec_from<C: Col<K, N>, K: Comp, const N: usize>(buf: Buf<C, K, N>, op: &Op, rest: &[Op], cx: &mut Cx) {
    use Buf::*;
    let (a, m) = (op.api, op.m);
    macro_rules! st {
        ($v:ident, $e:expr) => {
            step(Ok((Buf::<C, K, N>::$v($e), OK)), op, rest, cx)
        };
    }
    match buf {
        ArrK(v) => {
            if v.len() != 2 * N && v.len() != 2 * N + 1 {
                return unsupported(cx, "component array of this length", op);
            }
            st!(ArrC, C::a_from_components(&v, a))
        }
        SlK(s) => {
            let r = catch(|| match a {
                0 => cast::from_component_slice::<C>(s),
                1 => <&[C]>::from_components(s),
                3 => ComponentsInto::<&[C]>::components_into(s),
                _ => ComponentsAs::<[C]>::components_as(s),
            });
            match r {
                Ok(v) => step(Ok((SlC::<C, K, N>(v), OK)), op, rest, cx),
                Err(_) => step(Ok((SlK::<C, K, N>(s), PANIC)), op, rest, cx),
            }
        }
        SmK(s) => {
            let p: *mut [K] = s;
            // SAFETY (harness): a panic returns nothing that borrows the slice; only one reborrow of *p is used
            if m == 0 && a == 2 {
                match catch(|| ComponentsAs::<[C]>::components_as(unsafe { &*p })) {
                    Ok(v) => step(Ok((SlC::<C, K, N>(v), OK)), op, rest, cx),
                    Err(_) => step(Ok((SmK::<C, K, N>(unsafe { &mut *p }), PANIC)), op, rest, cx),
                }
            } else {
                let r = catch(|| {
                    let s = unsafe { &mut *p };
                    match a {
                        0 => cast::from_component_slice_mut::<C>(s),
                        1 => <&mut [C]>::from_components(s),
                        3 => ComponentsInto::<&mut [C]>::components_into(s),
                        _ => ComponentsAsMut::<[C]>::components_as_mut(s),
                    }
                });
                match r {
                    Ok(v) => step(Ok((SmC::<C, K, N>(v), OK)), op, rest, cx),
                    Err(_) => step(Ok((SmK::<C, K, N>(unsafe { &mut *p }), PANIC)), op, rest, cx),
                }
            }
        }
        BsK(mut b) => match (a, m) {
            (0, _) => st!(BsC, cast::from_component_slice_box::<C>(b)),
            (1, _) => st!(BsC, Box::<[C]>::from_components(b)),
            (3, _) => st!(BsC, ComponentsInto::<Box<[C]>>::components_into(b)),
            (_, 0) => match catch(|| if a == 2 { ComponentsAs::<[C]>::components_as(&b) } else { <&[C]>::from_components(&b) }) {
                Ok(v) => step(Ok((SlC::<C, K, N>(v), OK)), op, rest, cx),
                Err(_) => step(Ok((BsK::<C, K, N>(b), PANIC)), op, rest, cx),
            },
            (_, _) => {
                let p: *mut Box<[K]> = &mut b;
                let r = catch(|| {
                    let bb = unsafe { &mut *p };
                    if a == 2 { ComponentsAsMut::<[C]>::components_as_mut(bb) } else { <&mut [C]>::from_components(bb) }
                });
                match r {
                    Ok(v) => step(Ok((SmC::<C, K, N>(v), OK)), op, rest, cx),
                    Err(_) => step(Ok((BsK::<C, K, N>(b), PANIC)), op, rest, cx),
                }
            }
        },
        VecK(mut v) => match (a, m) {
            (0, _) => st!(VecC, cast::from_component_vec::<C>(v)),
            (1, _) => st!(VecC, Vec::<C>::from_components(v)),
            (3, _) => st!(VecC, ComponentsInto::<Vec<C>>::components_into(v)),
            (_, 0) => match catch(|| if a == 2 { ComponentsAs::<[C]>::components_as(&v) } else { <&[C]>::from_components(&v) }) {
                Ok(w) => step(Ok((SlC::<C, K, N>(w), OK)), op, rest, cx),
                Err(_) => step(Ok((VecK::<C, K, N>(v), PANIC)), op, rest, cx),
            },
            (_, _) => {
                let p: *mut Vec<K> = &mut v;
                let r = catch(|| {
                    let vv = unsafe { &mut *p };
                    if a == 2 { ComponentsAsMut::<[C]>::components_as_mut(vv) } else { <&mut [C]>::from_components(vv) }
                });
                match r {
                    Ok(w) => step(Ok((SmC::<C, K, N>(w), OK)), op, rest, cx),
                    Err(_) => step(Ok((VecK::<C, K, N>(v), PANIC)), op, rest, cx),
                }
            }
        },
        b => unsupported(cx, &format!("{}/{}", observe(&b).form, observe(&b).unit), op),
    }
}

fn reset_event<C: Col<K, N>, K: Comp, const N: usize>(o: &Obs, cx: &mut Cx) {
    let mut v = obs_json(o, cx.base);
    let m = v.as_object_mut().unwrap();
    m.insert("ev".into(), json!("reset"));
    m.insert("ty".into(), json!(C::TY));
    m.insert("base".into(), json!(C::BASE));
    m.insert("wrap".into(), json!(C::WRAP));
    m.insert("comp".into(), json!(K::NAME));
    m.insert("fam".into(), json!("arr"));
    m.insert("n".into(), json!(N));
    m.insert("names".into(), json!(C::names()));
    m.insert("csize".into(), json!(size_of::<K>()));
    m.insert("calign".into(), json!(align_of::<K>()));
    cx.rec.ev(v);
}

/// Vec with exactly the requested capacity, or None when the allocator gave something else
fn vec_cap<T>(cap: usize, items: impl Iterator<Item = T>) -> Option<Vec<T>> {
    let mut v = Vec::with_capacity(cap);
    v.extend(items);
    if v.capacity() == cap { Some(v) } else { None }
}

#[inline(never)]
fn start_arr<C: Col<K, N>, K: Comp, const N: usize>(b: Buf<C, K, N>, ops: &[Op], cx: &mut Cx) -> bool {
    let o = observe(&b);
    cx.base = o.ptr;
    reset_event::<C, K, N>(&o, cx);
    run_chain(cx, |cx| exec(b, ops, cx));
    true
}

/// build the initial buffer of a scenario on the real type, record it, run the chain; false = skipped
fn run_arr<C: Col<K, N>, K: Comp, const N: usize>(ini: &Init, ops: &[Op], rec: &mut Rec) -> bool {
    use Buf::*;
    let tok = |i: usize| K::enc(i as i64 + 1);
    let mk_a = |k: usize| -> [K; N] { core::array::from_fn(|j| tok(k * N + j)) };
    let mk_c = |k: usize| C::make(mk_a(k));
    let (len, cap) = (ini.len, ini.cap);
    let mut cx = Cx { rec, base: 0, cur: None };
    macro_rules! start {
        ($b:expr) => {
            start_arr::<C, K, N>($b, ops, &mut cx)
        };
    }
    match (ini.form.as_str(), ini.unit.as_str()) {
        ("value", "colour") => start!(ValC(mk_c(0))),
        ("value", "array") => start!(ValA(mk_a(0))),
        ("ref", "colour") => { let c = mk_c(0); start!(RefC(&c)) }
        ("ref", "array") => { let x = mk_a(0); start!(RefA(&x)) }
        ("mut", "colour") => { let mut c = mk_c(0); start!(MutC(&mut c)) }
        ("mut", "array") => { let mut x = mk_a(0); start!(MutA(&mut x)) }
        ("box", "colour") => start!(BoxC(Box::new(mk_c(0)))),
        ("box", "array") => start!(BoxA(Box::new(mk_a(0)))),
        ("array", "colour") => start!(ArrC([mk_c(0), mk_c(1)])),
        ("array", "array") => start!(ArrA([mk_a(0), mk_a(1)])),
        ("array", "component") => start!(ArrK((0..len).map(tok).collect())),
        ("slice", "colour") => { let v: Vec<C> = (0..len).map(mk_c).collect(); start!(SlC(&v)) }
        ("slice", "array") => { let v: Vec<[K; N]> = (0..len).map(mk_a).collect(); start!(SlA(&v)) }
        ("slice", "component") => { let v: Vec<K> = (0..len).map(tok).collect(); start!(SlK(&v)) }
        ("slice_mut", "colour") => { let mut v: Vec<C> = (0..len).map(mk_c).collect(); start!(SmC(&mut v)) }
        ("slice_mut", "array") => { let mut v: Vec<[K; N]> = (0..len).map(mk_a).collect(); start!(SmA(&mut v)) }
        ("slice_mut", "component") => { let mut v: Vec<K> = (0..len).map(tok).collect(); start!(SmK(&mut v)) }
        ("boxed_slice", "colour") => start!(BsC((0..len).map(mk_c).collect::<Vec<C>>().into_boxed_slice())),
        ("boxed_slice", "array") => start!(BsA((0..len).map(mk_a).collect::<Vec<[K; N]>>().into_boxed_slice())),
        ("boxed_slice", "component") => start!(BsK((0..len).map(tok).collect::<Vec<K>>().into_boxed_slice())),
        ("vec", "colour") => match vec_cap(cap, (0..len).map(mk_c)) { Some(v) => start!(VecC(v)), None => false },
        ("vec", "array") => match vec_cap(cap, (0..len).map(mk_a)) { Some(v) => start!(VecA(v)), None => false },
        ("vec", "component") => match vec_cap(cap, (0..len).map(tok)) { Some(v) => start!(VecK(v)), None => false },
        (f, u) => { eprintln!("cast harness: no initial buffer {}/{}", f, u); std::process::exit(3) }
    }
}

// ------------------------------------------------------------------------------------------- UintCast family

trait UCol<U: Comp>: UintCast<Uint = U> + Sized + 'static {
    const TY: &'static str;
    const BASE: &'static str;
    fn names() -> Vec<&'static str>;
    fn make(u: U) -> Self; // BY FIELD NAME
    fn read(&self) -> U; // BY FIELD NAME
    fn s_into(self) -> U;
    fn s_from(u: U) -> Self;
    fn s_ref_into(&self) -> &U;
    fn s_ref_from(u: &U) -> &Self;
    fn s_mut_into(&mut self) -> &mut U;
    fn s_mut_from(u: &mut U) -> &mut Self;
}

enum UBuf<'a, C, U> {
    ValC(C),
    ValU(U),
    RefC(&'a C),
    RefU(&'a U),
    MutC(&'a mut C),
    MutU(&'a mut U),
    ArrC([C; 2]),
    ArrU([U; 2]),
    SlC(&'a [C]),
    SlU(&'a [U]),
    SmC(&'a mut [C]),
    SmU(&'a mut [U]),
    BsC(Box<[C]>),
    BsU(Box<[U]>),
    VecC(Vec<C>),
    VecU(Vec<U>),
}

#[inline(never)]
fn uobserve<C: UCol<U>, U: Comp>(b: &UBuf<C, U>) -> Obs {
    use UBuf::*;
    let (sc, ac) = (size_of::<C>(), align_of::<C>());
    let (su, au) = (size_of::<U>(), align_of::<U>());
    let rc = |s: &[C]| -> Vec<i64> { s.iter().map(|c| c.read().dec()).collect() };
    let o = |form, unit, len, cap, ptr, data, (elsize, elalign)| Obs { form, unit, len, cap, ptr, data, elsize, elalign };
    let one_c = core::slice::from_ref::<C>;
    let one_u = core::slice::from_ref::<U>;
    match b {
        ValC(c) => o("value", "colour", 1, 1, 0, rc(one_c(c)), (sc, ac)),
        ValU(u) => o("value", "uint", 1, 1, 0, dk(one_u(u)), (su, au)),
        RefC(c) => o("ref", "colour", 1, 1, *c as *const C as usize, rc(one_c(*c)), (sc, ac)),
        RefU(u) => o("ref", "uint", 1, 1, *u as *const U as usize, dk(one_u(*u)), (su, au)),
        MutC(c) => o("mut", "colour", 1, 1, &**c as *const C as usize, rc(one_c(&**c)), (sc, ac)),
        MutU(u) => o("mut", "uint", 1, 1, &**u as *const U as usize, dk(one_u(&**u)), (su, au)),
        ArrC(x) => o("array", "colour", 2, 2, 0, rc(&x[..]), (sc, ac)),
        ArrU(x) => o("array", "uint", 2, 2, 0, dk(&x[..]), (su, au)),
        SlC(s) => o("slice", "colour", s.len(), s.len(), s.as_ptr() as usize, rc(s), (sc, ac)),
        SlU(s) => o("slice", "uint", s.len(), s.len(), s.as_ptr() as usize, dk(s), (su, au)),
        SmC(s) => o("slice_mut", "colour", s.len(), s.len(), s.as_ptr() as usize, rc(s), (sc, ac)),
        SmU(s) => o("slice_mut", "uint", s.len(), s.len(), s.as_ptr() as usize, dk(s), (su, au)),
        BsC(s) => o("boxed_slice", "colour", s.len(), s.len(), s.as_ptr() as usize, rc(s), (sc, ac)),
        BsU(s) => o("boxed_slice", "uint", s.len(), s.len(), s.as_ptr() as usize, dk(s), (su, au)),
        VecC(s) => o("vec", "colour", s.len(), s.capacity(), s.as_ptr() as usize, rc(s), (sc, ac)),
        VecU(s) => o("vec", "uint", s.len(), s.capacity(), s.as_ptr() as usize, dk(s), (su, au)),
    }
}

#[inline(never)]
fn ustep<C: UCol<U>, U: Comp>(r: Result<UBuf<C, U>, String>, op: &Op, rest: &[Op], cx: &mut Cx) {
    match r {
        Ok(b) => {
            let o = uobserve(&b);
            log_cast(cx, op, Some(&o), OK);
            uexec(b, rest, cx)
        }
        Err(_) => log_cast(cx, op, None, PANIC),
    }
}

#[inline(never)]
fn uexec<C: UCol<U>, U: Comp>(buf: UBuf<C, U>, ops: &[Op], cx: &mut Cx) {
    use UBuf::*;
    let Some((op, rest)) = ops.split_first() else { return };
    let (a, m) = (op.api, op.m);
    cx.cur = Some(op.clone());
    macro_rules! st {
        ($v:ident, $e:expr) => {
            ustep(Ok(UBuf::<C, U>::$v($e)), op, rest, cx)
        };
    }
    macro_rules! bw {
        ($v:ident, $e:expr) => {
            ustep(Ok(UBuf::<C, U>::$v($e)), op, rest, cx)
        };
    }
    match (op.name.as_str(), buf) {
        ("into_uint", ValC(c)) => st!(ValU, if a == 0 { cast::into_uint(c) } else { c.s_into() }),
        ("into_uint", RefC(c)) => st!(RefU, if a == 0 { cast::into_uint_ref(c) } else { c.s_ref_into() }),
        ("into_uint", MutC(c)) => st!(MutU, if a == 0 { cast::into_uint_mut(mv(c)) } else { mv(c).s_mut_into() }),
        ("into_uint", ArrC(mut x)) => match (a, m) {
            (0, _) => st!(ArrU, cast::into_uint_array(x)),
            (1, _) => st!(ArrU, IntoUints::<[U; 2]>::into_uints(x)),
            (3, _) => st!(ArrU, <[U; 2]>::uints_from(x)),
            (2, 0) => { cx.base = x.as_ptr() as usize; bw!(SlU, AsUints::<[U]>::as_uints(&x)) }
            (2, _) => { cx.base = x.as_ptr() as usize; bw!(SmU, AsUintsMut::<[U]>::as_uints_mut(&mut x)) }
            (_, 0) => { cx.base = x.as_ptr() as usize; bw!(SlU, IntoUints::<&[U]>::into_uints(&x)) }
            (_, _) => { cx.base = x.as_ptr() as usize; bw!(SmU, IntoUints::<&mut [U]>::into_uints(&mut x)) }
        },
        ("into_uint", SlC(s)) => match a {
            0 => st!(SlU, cast::into_uint_slice(s)),
            1 => st!(SlU, IntoUints::<&[U]>::into_uints(s)),
            3 => st!(SlU, <&[U]>::uints_from(s)),
            _ => st!(SlU, AsUints::<[U]>::as_uints(s)),
        },
        ("into_uint", SmC(s)) => match (a, m) {
            (0, _) => st!(SmU, cast::into_uint_slice_mut(mv(s))),
            (1, _) => st!(SmU, IntoUints::<&mut [U]>::into_uints(mv(s))),
            (3, _) => st!(SmU, <&mut [U]>::uints_from(mv(s))),
            (_, 0) => st!(SlU, AsUints::<[U]>::as_uints(&*mv(s))),
            (_, _) => st!(SmU, AsUintsMut::<[U]>::as_uints_mut(mv(s))),
        },
        ("into_uint", BsC(mut b)) => match (a, m) {
            (0, _) => st!(BsU, cast::into_uint_slice_box(b)),
            (1, _) => st!(BsU, IntoUints::<Box<[U]>>::into_uints(b)),
            (3, _) => st!(BsU, Box::<[U]>::uints_from(b)),
            (2, 0) => bw!(SlU, AsUints::<[U]>::as_uints(&b)),
            (2, _) => bw!(SmU, AsUintsMut::<[U]>::as_uints_mut(&mut b)),
            (_, 0) => bw!(SlU, IntoUints::<&[U]>::into_uints(&b)),
            (_, _) => bw!(SmU, IntoUints::<&mut [U]>::into_uints(&mut b)),
        },
        ("into_uint", VecC(mut v)) => match (a, m) {
            (0, _) => st!(VecU, cast::into_uint_vec(v)),
            (1, _) => st!(VecU, IntoUints::<Vec<U>>::into_uints(v)),
            (3, _) => st!(VecU, Vec::<U>::uints_from(v)),
            (2, 0) => bw!(SlU, AsUints::<[U]>::as_uints(&v)),
            (2, _) => bw!(SmU, AsUintsMut::<[U]>::as_uints_mut(&mut v)),
            (_, 0) => bw!(SlU, IntoUints::<&[U]>::into_uints(&v)),
            (_, _) => bw!(SmU, IntoUints::<&mut [U]>::into_uints(&mut v)),
        },
        ("from_uint", ValU(u)) => st!(ValC, if a == 0 { cast::from_uint::<C>(u) } else { C::s_from(u) }),
        ("from_uint", RefU(u)) => st!(RefC, if a == 0 { cast::from_uint_ref::<C>(u) } else { C::s_ref_from(u) }),
        ("from_uint", MutU(u)) => st!(MutC, if a == 0 { cast::from_uint_mut::<C>(mv(u)) } else { C::s_mut_from(mv(u)) }),
        ("from_uint", ArrU(mut x)) => match (a, m) {
            (0, _) => st!(ArrC, cast::from_uint_array::<C, 2>(x)),
            (1, _) => st!(ArrC, <[C; 2]>::from_uints(x)),
            (3, _) => st!(ArrC, UintsInto::<[C; 2]>::uints_into(x)),
            (2, 0) => { cx.base = x.as_ptr() as usize; bw!(SlC, UintsAs::<[C]>::uints_as(&x)) }
            (2, _) => { cx.base = x.as_ptr() as usize; bw!(SmC, UintsAsMut::<[C]>::uints_as_mut(&mut x)) }
            (_, 0) => { cx.base = x.as_ptr() as usize; bw!(SlC, <&[C]>::from_uints(&x)) }
            (_, _) => { cx.base = x.as_ptr() as usize; bw!(SmC, <&mut [C]>::from_uints(&mut x)) }
        },
        ("from_uint", SlU(s)) => match a {
            0 => st!(SlC, cast::from_uint_slice::<C>(s)),
            1 => st!(SlC, <&[C]>::from_uints(s)),
            3 => st!(SlC, UintsInto::<&[C]>::uints_into(s)),
            _ => st!(SlC, UintsAs::<[C]>::uints_as(s)),
        },
        ("from_uint", SmU(s)) => match (a, m) {
            (0, _) => st!(SmC, cast::from_uint_slice_mut::<C>(mv(s))),
            (1, _) => st!(SmC, <&mut [C]>::from_uints(mv(s))),
            (3, _) => st!(SmC, UintsInto::<&mut [C]>::uints_into(mv(s))),
            (_, 0) => st!(SlC, UintsAs::<[C]>::uints_as(&*mv(s))),
            (_, _) => st!(SmC, UintsAsMut::<[C]>::uints_as_mut(mv(s))),
        },
        ("from_uint", BsU(mut b)) => match (a, m) {
            (0, _) => st!(BsC, cast::from_uint_slice_box::<C>(b)),
            (1, _) => st!(BsC, Box::<[C]>::from_uints(b)),
            (3, _) => st!(BsC, UintsInto::<Box<[C]>>::uints_into(b)),
            (2, 0) => bw!(SlC, UintsAs::<[C]>::uints_as(&b)),
            (2, _) => bw!(SmC, UintsAsMut::<[C]>::uints_as_mut(&mut b)),
            (_, 0) => bw!(SlC, <&[C]>::from_uints(&b)),
            (_, _) => bw!(SmC, <&mut [C]>::from_uints(&mut b)),
        },
        ("from_uint", VecU(mut v)) => match (a, m) {
            (0, _) => st!(VecC, cast::from_uint_vec::<C>(v)),
            (1, _) => st!(VecC, Vec::<C>::from_uints(v)),
            (3, _) => st!(VecC, UintsInto::<Vec<C>>::uints_into(v)),
            (2, 0) => bw!(SlC, UintsAs::<[C]>::uints_as(&v)),
            (2, _) => bw!(SmC, UintsAsMut::<[C]>::uints_as_mut(&mut v)),
            (_, 0) => bw!(SlC, <&[C]>::from_uints(&v)),
            (_, _) => bw!(SmC, <&mut [C]>::from_uints(&mut v)),
        },
        (_, b) => unsupported(cx, &format!("{}/{}", uobserve(&b).form, uobserve(&b).unit), op),
    }
}

#[inline(never)]
fn start_uint<C: UCol<U>, U: Comp>(b: UBuf<C, U>, ops: &[Op], cx: &mut Cx) -> bool {
    let o = uobserve(&b);
    cx.base = o.ptr;
    let mut v = obs_json(&o, cx.base);
    let mm = v.as_object_mut().unwrap();
    mm.insert("ev".into(), json!("reset"));
    mm.insert("ty".into(), json!(C::TY));
    mm.insert("base".into(), json!(C::BASE));
    mm.insert("wrap".into(), json!("none"));
    mm.insert("comp".into(), json!(U::NAME));
    mm.insert("fam".into(), json!("uint"));
    mm.insert("n".into(), json!(1));
    mm.insert("names".into(), json!(C::names()));
    mm.insert("csize".into(), json!(size_of::<U>()));
    mm.insert("calign".into(), json!(align_of::<U>()));
    cx.rec.ev(v);
    run_chain(cx, |cx| uexec(b, ops, cx));
    true
}

fn run_uint<C: UCol<U>, U: Comp>(ini: &Init, ops: &[Op], rec: &mut Rec) -> bool {
    use UBuf::*;
    let tok = |i: usize| U::enc(i as i64 + 1);
    let mk_c = |i: usize| C::make(tok(i));
    let (len, cap) = (ini.len, ini.cap);
    let mut cx = Cx { rec, base: 0, cur: None };
    macro_rules! start {
        ($b:expr) => {
            start_uint::<C, U>($b, ops, &mut cx)
        };
    }
    match (ini.form.as_str(), ini.unit.as_str()) {
        ("value", "colour") => start!(ValC(mk_c(0))),
        ("value", "uint") => start!(ValU(tok(0))),
        ("ref", "colour") => { let c = mk_c(0); start!(RefC(&c)) }
        ("ref", "uint") => { let u = tok(0); start!(RefU(&u)) }
        ("mut", "colour") => { let mut c = mk_c(0); start!(MutC(&mut c)) }
        ("mut", "uint") => { let mut u = tok(0); start!(MutU(&mut u)) }
        ("array", "colour") => start!(ArrC([mk_c(0), mk_c(1)])),
        ("array", "uint") => start!(ArrU([tok(0), tok(1)])),
        ("slice", "colour") => { let v: Vec<C> = (0..len).map(mk_c).collect(); start!(SlC(&v)) }
        ("slice", "uint") => { let v: Vec<U> = (0..len).map(tok).collect(); start!(SlU(&v)) }
        ("slice_mut", "colour") => { let mut v: Vec<C> = (0..len).map(mk_c).collect(); start!(SmC(&mut v)) }
        ("slice_mut", "uint") => { let mut v: Vec<U> = (0..len).map(tok).collect(); start!(SmU(&mut v)) }
        ("boxed_slice", "colour") => start!(BsC((0..len).map(mk_c).collect::<Vec<C>>().into_boxed_slice())),
        ("boxed_slice", "uint") => start!(BsU((0..len).map(tok).collect::<Vec<U>>().into_boxed_slice())),
        ("vec", "colour") => match vec_cap(cap, (0..len).map(mk_c)) { Some(v) => start!(VecC(v)), None => false },
        ("vec", "uint") => match vec_cap(cap, (0..len).map(tok)) { Some(v) => start!(VecU(v)), None => false },
        (f, u) => { eprintln!("cast harness: no initial uint buffer {}/{}", f, u); std::process::exit(3) }
    }
}

// ------------------------------------------------------------------------------------------- the type table

/// make/read of a colour struct, generic in the component type, written BY FIELD NAME
macro_rules! base {
    ($mk:ident, $rd:ident, $nm:ident, $n:literal, $ty:ty, [$($name:literal),*], |$v:ident| $make:expr, |$c:ident| $read:expr) => {
        fn $mk<T: Copy>($v: [T; $n]) -> $ty { $make }
        fn $rd<T: Copy>($c: &$ty) -> [T; $n] { $read }
        fn $nm() -> Vec<&'static str> { vec![$($name),*] }
    };
}
const PH: PhantomData<()> = PhantomData;

base!(mk_luma, rd_luma, nm_luma, 1, Luma<SrgbStd, T>, ["luma"], |v| Luma { luma: v[0], standard: PhantomData }, |c| [c.luma]);
base!(mk_rgb, rd_rgb, nm_rgb, 3, Rgb<SrgbStd, T>, ["red", "green", "blue"],
    |v| Rgb { red: v[0], green: v[1], blue: v[2], standard: PhantomData }, |c| [c.red, c.green, c.blue]);
base!(mk_linrgb, rd_linrgb, nm_linrgb, 3, Rgb<Linear<SrgbStd>, T>, ["red", "green", "blue"],
    |v| Rgb { blue: v[2], red: v[0], green: v[1], standard: PhantomData }, |c| [c.red, c.green, c.blue]);
base!(mk_hsl, rd_hsl, nm_hsl, 3, Hsl<SrgbStd, T>, ["hue", "saturation", "lightness"],
    |v| Hsl { hue: RgbHue::new(v[0]), saturation: v[1], lightness: v[2], standard: PhantomData },
    |c| [c.hue.into_inner(), c.saturation, c.lightness]);
base!(mk_hsv, rd_hsv, nm_hsv, 3, Hsv<SrgbStd, T>, ["hue", "saturation", "value"],
    |v| Hsv { hue: RgbHue::new(v[0]), saturation: v[1], value: v[2], standard: PhantomData },
    |c| [c.hue.into_inner(), c.saturation, c.value]);
base!(mk_hwb, rd_hwb, nm_hwb, 3, Hwb<SrgbStd, T>, ["hue", "whiteness", "blackness"],
    |v| Hwb { hue: RgbHue::new(v[0]), whiteness: v[1], blackness: v[2], standard: PhantomData },
    |c| [c.hue.into_inner(), c.whiteness, c.blackness]);
base!(mk_hsluv, rd_hsluv, nm_hsluv, 3, Hsluv<D65, T>, ["hue", "saturation", "l"],
    |v| Hsluv { hue: LuvHue::new(v[0]), saturation: v[1], l: v[2], white_point: PhantomData },
    |c| [c.hue.into_inner(), c.saturation, c.l]);
base!(mk_lab, rd_lab, nm_lab, 3, Lab<D65, T>, ["l", "a", "b"],
    |v| Lab { l: v[0], a: v[1], b: v[2], white_point: PhantomData }, |c| [c.l, c.a, c.b]);
base!(mk_lch, rd_lch, nm_lch, 3, Lch<D65, T>, ["l", "chroma", "hue"],
    |v| Lch { l: v[0], chroma: v[1], hue: LabHue::new(v[2]), white_point: PhantomData },
    |c| [c.l, c.chroma, c.hue.into_inner()]);
base!(mk_luv, rd_luv, nm_luv, 3, Luv<D65, T>, ["l", "u", "v"],
    |v| Luv { l: v[0], u: v[1], v: v[2], white_point: PhantomData }, |c| [c.l, c.u, c.v]);
base!(mk_lchuv, rd_lchuv, nm_lchuv, 3, Lchuv<D65, T>, ["l", "chroma", "hue"],
    |v| Lchuv { l: v[0], chroma: v[1], hue: LuvHue::new(v[2]), white_point: PhantomData },
    |c| [c.l, c.chroma, c.hue.into_inner()]);
base!(mk_xyz, rd_xyz, nm_xyz, 3, Xyz<D65, T>, ["x", "y", "z"],
    |v| Xyz { x: v[0], y: v[1], z: v[2], white_point: PhantomData }, |c| [c.x, c.y, c.z]);
base!(mk_yxy, rd_yxy, nm_yxy, 3, Yxy<D65, T>, ["x", "y", "luma"],
    |v| Yxy { x: v[0], y: v[1], luma: v[2], white_point: PhantomData }, |c| [c.x, c.y, c.luma]);
base!(mk_lms, rd_lms, nm_lms, 3, Lms<(), T>, ["long", "medium", "short"],
    |v| Lms { long: v[0], medium: v[1], short: v[2], meta: PH }, |c| [c.long, c.medium, c.short]);
base!(mk_oklab, rd_oklab, nm_oklab, 3, Oklab<T>, ["l", "a", "b"], |v| Oklab { l: v[0], a: v[1], b: v[2] }, |c| [c.l, c.a, c.b]);
base!(mk_oklch, rd_oklch, nm_oklch, 3, Oklch<T>, ["l", "chroma", "hue"],
    |v| Oklch { l: v[0], chroma: v[1], hue: OklabHue::new(v[2]) }, |c| [c.l, c.chroma, c.hue.into_inner()]);
base!(mk_okhsl, rd_okhsl, nm_okhsl, 3, Okhsl<T>, ["hue", "saturation", "lightness"],
    |v| Okhsl { hue: OklabHue::new(v[0]), saturation: v[1], lightness: v[2] }, |c| [c.hue.into_inner(), c.saturation, c.lightness]);
base!(mk_okhsv, rd_okhsv, nm_okhsv, 3, Okhsv<T>, ["hue", "saturation", "value"],
    |v| Okhsv { hue: OklabHue::new(v[0]), saturation: v[1], value: v[2] }, |c| [c.hue.into_inner(), c.saturation, c.value]);
base!(mk_okhwb, rd_okhwb, nm_okhwb, 3, Okhwb<T>, ["hue", "whiteness", "blackness"],
    |v| Okhwb { hue: OklabHue::new(v[0]), whiteness: v[1], blackness: v[2] }, |c| [c.hue.into_inner(), c.whiteness, c.blackness]);
base!(mk_ucsjab, rd_ucsjab, nm_ucsjab, 3, Cam16UcsJab<T>, ["lightness", "a", "b"],
    |v| Cam16UcsJab { lightness: v[0], a: v[1], b: v[2] }, |c| [c.lightness, c.a, c.b]);
base!(mk_ucsjmh, rd_ucsjmh, nm_ucsjmh, 3, Cam16UcsJmh<T>, ["lightness", "colorfulness", "hue"],
    |v| Cam16UcsJmh { lightness: v[0], colorfulness: v[1], hue: Cam16Hue::new(v[2]) }, |c| [c.lightness, c.colorfulness, c.hue.into_inner()]);
base!(mk_jch, rd_jch, nm_jch, 3, Cam16Jch<T>, ["lightness", "chroma", "hue"],
    |v| Cam16Jch { lightness: v[0], chroma: v[1], hue: Cam16Hue::new(v[2]) }, |c| [c.lightness, c.chroma, c.hue.into_inner()]);
base!(mk_jmh, rd_jmh, nm_jmh, 3, Cam16Jmh<T>, ["lightness", "colorfulness", "hue"],
    |v| Cam16Jmh { lightness: v[0], colorfulness: v[1], hue: Cam16Hue::new(v[2]) }, |c| [c.lightness, c.colorfulness, c.hue.into_inner()]);
base!(mk_jsh, rd_jsh, nm_jsh, 3, Cam16Jsh<T>, ["lightness", "saturation", "hue"],
    |v| Cam16Jsh { lightness: v[0], saturation: v[1], hue: Cam16Hue::new(v[2]) }, |c| [c.lightness, c.saturation, c.hue.into_inner()]);
base!(mk_qch, rd_qch, nm_qch, 3, Cam16Qch<T>, ["brightness", "chroma", "hue"],
    |v| Cam16Qch { brightness: v[0], chroma: v[1], hue: Cam16Hue::new(v[2]) }, |c| [c.brightness, c.chroma, c.hue.into_inner()]);
base!(mk_qmh, rd_qmh, nm_qmh, 3, Cam16Qmh<T>, ["brightness", "colorfulness", "hue"],
    |v| Cam16Qmh { brightness: v[0], colorfulness: v[1], hue: Cam16Hue::new(v[2]) }, |c| [c.brightness, c.colorfulness, c.hue.into_inner()]);
base!(mk_qsh, rd_qsh, nm_qsh, 3, Cam16Qsh<T>, ["brightness", "saturation", "hue"],
    |v| Cam16Qsh { brightness: v[0], saturation: v[1], hue: Cam16Hue::new(v[2]) }, |c| [c.brightness, c.saturation, c.hue.into_inner()]);

/// the std-trait spellings and the concrete-length array calls, identical text for every concrete type
macro_rules! col_std {
    ($k:ty, $n:literal) => {
        fn s_into_array(self) -> [$k; $n] { self.into() }
        fn s_from_array(a: [$k; $n]) -> Self { a.into() }
        fn s_ref_into(&self) -> &[$k; $n] { self.as_ref() }
        fn s_ref_from(a: &[$k; $n]) -> &Self { a.as_ref() }
        fn s_mut_into(&mut self) -> &mut [$k; $n] { self.as_mut() }
        fn s_mut_from(a: &mut [$k; $n]) -> &mut Self { a.as_mut() }
        fn s_box_into(b: Box<Self>) -> Box<[$k; $n]> { b.into() }
        fn s_box_from(b: Box<[$k; $n]>) -> Box<Self> { b.into() }
        fn s_ref_slice(&self) -> &[$k] { self.as_ref() }
        fn s_mut_slice(&mut self) -> &mut [$k] { self.as_mut() }
        fn s_try_ref(s: &[$k]) -> Option<&Self> { <&Self>::try_from(s).ok() }
        fn s_try_mut(s: &mut [$k]) -> Option<&mut Self> { <&mut Self>::try_from(s).ok() }
        fn a_into_components(a: [Self; 2], api: u8) -> Vec<$k> {
            let r: [$k; 2 * $n] = match api {
                0 => cast::into_component_array(a),
                1 => a.into_components(),
                _ => <[$k; 2 * $n]>::components_from(a),
            };
            r.to_vec()
        }
        fn a_from_components(v: &[$k], api: u8) -> [Self; 2] {
            if v.len() == 2 * $n {
                let a: [$k; 2 * $n] = v.try_into().unwrap();
                match api { 0 => cast::from_component_array(a), 1 => <[Self; 2]>::from_components(a), _ => a.components_into() }
            } else {
                let a: [$k; 2 * $n + 1] = v.try_into().unwrap();
                match api { 0 => cast::from_component_array(a), 1 => <[Self; 2]>::from_components(a), _ => a.components_into() }
            }
        }
    };
}

/// a plain colour struct
macro_rules! col {
    ($ty:ty, $k:ty, $n:literal, $tyname:literal, $base:literal, $partner:ty, $mk:ident, $rd:ident, $nm:ident) => {
        impl Col<$k, $n> for $ty {
            const TY: &'static str = concat!($tyname, "<", stringify!($k), ">");
            const BASE: &'static str = $base;
            const WRAP: &'static str = "none";
            type Partner = $partner;
            fn names() -> Vec<&'static str> { $nm() }
            fn make(v: [$k; $n]) -> Self { $mk(v) }
            fn read(&self) -> [$k; $n] { $rd(self) }
            col_std!($k, $n);
        }
    };
}
/// Alpha<C, T> / PreAlpha<C>: the colour's fields by name, then `alpha`, by name
macro_rules! col_alpha {
    ($w:ident, $wrap:literal, $inner:ty, $k:ty, $n:literal, $ni:literal, $base:literal, $mk:ident, $rd:ident, $nm:ident, $($targ:ty),+) => {
        impl Col<$k, $n> for $w<$($targ),+> {
            const TY: &'static str = concat!($wrap, ":", $base, "<", stringify!($k), ">");
            const BASE: &'static str = $base;
            const WRAP: &'static str = $wrap;
            type Partner = Self;
            fn names() -> Vec<&'static str> { let mut v = $nm(); v.push("alpha"); v }
            fn make(v: [$k; $n]) -> Self {
                let inner: $inner = $mk(core::array::from_fn::<$k, $ni, _>(|j| v[j]));
                $w { color: inner, alpha: v[$ni] }
            }
            fn read(&self) -> [$k; $n] {
                let i: [$k; $ni] = $rd(&self.color);
                core::array::from_fn(|j| if j < $ni { i[j] } else { self.alpha })
            }
            col_std!($k, $n);
        }
    };
}
macro_rules! alpha { ($inner:ty, $k:ty, $n:literal, $ni:literal, $base:literal, $mk:ident, $rd:ident, $nm:ident) => {
    col_alpha!(Alpha, "alpha", $inner, $k, $n, $ni, $base, $mk, $rd, $nm, $inner, $k);
}; }
macro_rules! prealpha { ($inner:ty, $k:ty, $n:literal, $ni:literal, $base:literal, $mk:ident, $rd:ident, $nm:ident) => {
    col_alpha!(PreAlpha, "prealpha", $inner, $k, $n, $ni, $base, $mk, $rd, $nm, $inner);
}; }

// n = 1
col!(Luma<SrgbStd, u8>, u8, 1, "Luma", "Luma", Self, mk_luma, rd_luma, nm_luma);
col!(Luma<SrgbStd, u16>, u16, 1, "Luma", "Luma", Self, mk_luma, rd_luma, nm_luma);
col!(Luma<SrgbStd, u32>, u32, 1, "Luma", "Luma", Self, mk_luma, rd_luma, nm_luma);
col!(Luma<SrgbStd, f32>, f32, 1, "Luma", "Luma", Self, mk_luma, rd_luma, nm_luma);
col!(Luma<SrgbStd, f64>, f64, 1, "Luma", "Luma", Self, mk_luma, rd_luma, nm_luma);
// n = 2
alpha!(Luma<SrgbStd, u8>, u8, 2, 1, "Luma", mk_luma, rd_luma, nm_luma);
alpha!(Luma<SrgbStd, u16>, u16, 2, 1, "Luma", mk_luma, rd_luma, nm_luma);
alpha!(Luma<SrgbStd, u32>, u32, 2, 1, "Luma", mk_luma, rd_luma, nm_luma);
alpha!(Luma<SrgbStd, f32>, f32, 2, 1, "Luma", mk_luma, rd_luma, nm_luma);
alpha!(Luma<SrgbStd, f64>, f64, 2, 1, "Luma", mk_luma, rd_luma, nm_luma);
prealpha!(Luma<SrgbStd, f32>, f32, 2, 1, "Luma", mk_luma, rd_luma, nm_luma);
// n = 3
col!(Rgb<SrgbStd, u8>, u8, 3, "Rgb", "Rgb", Rgb<Linear<SrgbStd>, u8>, mk_rgb, rd_rgb, nm_rgb);
col!(Rgb<Linear<SrgbStd>, u8>, u8, 3, "LinRgb", "Rgb", Rgb<SrgbStd, u8>, mk_linrgb, rd_linrgb, nm_linrgb);
col!(Rgb<SrgbStd, u16>, u16, 3, "Rgb", "Rgb", Self, mk_rgb, rd_rgb, nm_rgb);
col!(Rgb<SrgbStd, u32>, u32, 3, "Rgb", "Rgb", Self, mk_rgb, rd_rgb, nm_rgb);
col!(Rgb<SrgbStd, f32>, f32, 3, "Rgb", "Rgb", Rgb<Linear<SrgbStd>, f32>, mk_rgb, rd_rgb, nm_rgb);
col!(Rgb<Linear<SrgbStd>, f32>, f32, 3, "LinRgb", "Rgb", Rgb<SrgbStd, f32>, mk_linrgb, rd_linrgb, nm_linrgb);
col!(Rgb<SrgbStd, f64>, f64, 3, "Rgb", "Rgb", Self, mk_rgb, rd_rgb, nm_rgb);
col!(Hsl<SrgbStd, f32>, f32, 3, "Hsl", "Hsl", Hsv<SrgbStd, f32>, mk_hsl, rd_hsl, nm_hsl);
col!(Hsv<SrgbStd, f32>, f32, 3, "Hsv", "Hsv", Hsl<SrgbStd, f32>, mk_hsv, rd_hsv, nm_hsv);
col!(Hsv<SrgbStd, u8>, u8, 3, "Hsv", "Hsv", Self, mk_hsv, rd_hsv, nm_hsv);
col!(Hsl<SrgbStd, f64>, f64, 3, "Hsl", "Hsl", Self, mk_hsl, rd_hsl, nm_hsl);
col!(Hwb<SrgbStd, f32>, f32, 3, "Hwb", "Hwb", Self, mk_hwb, rd_hwb, nm_hwb);
col!(Hwb<SrgbStd, f64>, f64, 3, "Hwb", "Hwb", Self, mk_hwb, rd_hwb, nm_hwb);
col!(Hsluv<D65, f32>, f32, 3, "Hsluv", "Hsluv", Self, mk_hsluv, rd_hsluv, nm_hsluv);
col!(Hsluv<D65, f64>, f64, 3, "Hsluv", "Hsluv", Self, mk_hsluv, rd_hsluv, nm_hsluv);
col!(Lab<D65, f32>, f32, 3, "Lab", "Lab", Luv<D65, f32>, mk_lab, rd_lab, nm_lab);
col!(Luv<D65, f32>, f32, 3, "Luv", "Luv", Lab<D65, f32>, mk_luv, rd_luv, nm_luv);
col!(Lab<D65, f64>, f64, 3, "Lab", "Lab", Self, mk_lab, rd_lab, nm_lab);
col!(Luv<D65, f64>, f64, 3, "Luv", "Luv", Self, mk_luv, rd_luv, nm_luv);
col!(Lch<D65, f32>, f32, 3, "Lch", "Lch", Lchuv<D65, f32>, mk_lch, rd_lch, nm_lch);
col!(Lchuv<D65, f32>, f32, 3, "Lchuv", "Lchuv", Lch<D65, f32>, mk_lchuv, rd_lchuv, nm_lchuv);
col!(Lch<D65, f64>, f64, 3, "Lch", "Lch", Self, mk_lch, rd_lch, nm_lch);
col!(Lchuv<D65, f64>, f64, 3, "Lchuv", "Lchuv", Self, mk_lchuv, rd_lchuv, nm_lchuv);
col!(Xyz<D65, f32>, f32, 3, "Xyz", "Xyz", Yxy<D65, f32>, mk_xyz, rd_xyz, nm_xyz);
col!(Yxy<D65, f32>, f32, 3, "Yxy", "Yxy", Xyz<D65, f32>, mk_yxy, rd_yxy, nm_yxy);
col!(Xyz<D65, f64>, f64, 3, "Xyz", "Xyz", Self, mk_xyz, rd_xyz, nm_xyz);
col!(Yxy<D65, f64>, f64, 3, "Yxy", "Yxy", Self, mk_yxy, rd_yxy, nm_yxy);
col!(Lms<(), f32>, f32, 3, "Lms", "Lms", Self, mk_lms, rd_lms, nm_lms);
col!(Lms<(), f64>, f64, 3, "Lms", "Lms", Self, mk_lms, rd_lms, nm_lms);
col!(Oklab<f32>, f32, 3, "Oklab", "Oklab", Oklch<f32>, mk_oklab, rd_oklab, nm_oklab);
col!(Oklch<f32>, f32, 3, "Oklch", "Oklch", Oklab<f32>, mk_oklch, rd_oklch, nm_oklch);
col!(Oklab<f64>, f64, 3, "Oklab", "Oklab", Self, mk_oklab, rd_oklab, nm_oklab);
col!(Oklch<f64>, f64, 3, "Oklch", "Oklch", Self, mk_oklch, rd_oklch, nm_oklch);
col!(Okhsl<f32>, f32, 3, "Okhsl", "Okhsl", Self, mk_okhsl, rd_okhsl, nm_okhsl);
col!(Okhsl<f64>, f64, 3, "Okhsl", "Okhsl", Self, mk_okhsl, rd_okhsl, nm_okhsl);
col!(Okhsv<f32>, f32, 3, "Okhsv", "Okhsv", Self, mk_okhsv, rd_okhsv, nm_okhsv);
col!(Okhsv<f64>, f64, 3, "Okhsv", "Okhsv", Self, mk_okhsv, rd_okhsv, nm_okhsv);
col!(Okhwb<f32>, f32, 3, "Okhwb", "Okhwb", Self, mk_okhwb, rd_okhwb, nm_okhwb);
col!(Okhwb<f64>, f64, 3, "Okhwb", "Okhwb", Self, mk_okhwb, rd_okhwb, nm_okhwb);
col!(Cam16UcsJab<f32>, f32, 3, "Cam16UcsJab", "Cam16UcsJab", Self, mk_ucsjab, rd_ucsjab, nm_ucsjab);
col!(Cam16UcsJab<f64>, f64, 3, "Cam16UcsJab", "Cam16UcsJab", Self, mk_ucsjab, rd_ucsjab, nm_ucsjab);
col!(Cam16UcsJmh<f32>, f32, 3, "Cam16UcsJmh", "Cam16UcsJmh", Self, mk_ucsjmh, rd_ucsjmh, nm_ucsjmh);
col!(Cam16UcsJmh<f64>, f64, 3, "Cam16UcsJmh", "Cam16UcsJmh", Self, mk_ucsjmh, rd_ucsjmh, nm_ucsjmh);
col!(Cam16Jch<f32>, f32, 3, "Cam16Jch", "Cam16Jch", Self, mk_jch, rd_jch, nm_jch);
col!(Cam16Jmh<f64>, f64, 3, "Cam16Jmh", "Cam16Jmh", Self, mk_jmh, rd_jmh, nm_jmh);
col!(Cam16Jsh<f32>, f32, 3, "Cam16Jsh", "Cam16Jsh", Self, mk_jsh, rd_jsh, nm_jsh);
col!(Cam16Qch<f64>, f64, 3, "Cam16Qch", "Cam16Qch", Self, mk_qch, rd_qch, nm_qch);
col!(Cam16Qmh<f32>, f32, 3, "Cam16Qmh", "Cam16Qmh", Self, mk_qmh, rd_qmh, nm_qmh);
col!(Cam16Qsh<f64>, f64, 3, "Cam16Qsh", "Cam16Qsh", Self, mk_qsh, rd_qsh, nm_qsh);
// n = 4
alpha!(Rgb<SrgbStd, u8>, u8, 4, 3, "Rgb", mk_rgb, rd_rgb, nm_rgb);
alpha!(Rgb<SrgbStd, u16>, u16, 4, 3, "Rgb", mk_rgb, rd_rgb, nm_rgb);
alpha!(Rgb<SrgbStd, u32>, u32, 4, 3, "Rgb", mk_rgb, rd_rgb, nm_rgb);
alpha!(Rgb<SrgbStd, f32>, f32, 4, 3, "Rgb", mk_rgb, rd_rgb, nm_rgb);
alpha!(Rgb<SrgbStd, f64>, f64, 4, 3, "Rgb", mk_rgb, rd_rgb, nm_rgb);
alpha!(Hsv<SrgbStd, f32>, f32, 4, 3, "Hsv", mk_hsv, rd_hsv, nm_hsv);
alpha!(Hsl<SrgbStd, f64>, f64, 4, 3, "Hsl", mk_hsl, rd_hsl, nm_hsl);
alpha!(Hwb<SrgbStd, f32>, f32, 4, 3, "Hwb", mk_hwb, rd_hwb, nm_hwb);
alpha!(Lab<D65, f64>, f64, 4, 3, "Lab", mk_lab, rd_lab, nm_lab);
alpha!(Lch<D65, f32>, f32, 4, 3, "Lch", mk_lch, rd_lch, nm_lch);
alpha!(Lchuv<D65, f64>, f64, 4, 3, "Lchuv", mk_lchuv, rd_lchuv, nm_lchuv);
alpha!(Xyz<D65, f32>, f32, 4, 3, "Xyz", mk_xyz, rd_xyz, nm_xyz);
alpha!(Yxy<D65, f64>, f64, 4, 3, "Yxy", mk_yxy, rd_yxy, nm_yxy);
alpha!(Oklab<f32>, f32, 4, 3, "Oklab", mk_oklab, rd_oklab, nm_oklab);
alpha!(Oklch<f64>, f64, 4, 3, "Oklch", mk_oklch, rd_oklch, nm_oklch);
alpha!(Okhsv<f32>, f32, 4, 3, "Okhsv", mk_okhsv, rd_okhsv, nm_okhsv);
alpha!(Cam16UcsJmh<f32>, f32, 4, 3, "Cam16UcsJmh", mk_ucsjmh, rd_ucsjmh, nm_ucsjmh);
alpha!(Cam16Jch<f32>, f32, 4, 3, "Cam16Jch", mk_jch, rd_jch, nm_jch);
prealpha!(Rgb<Linear<SrgbStd>, f32>, f32, 4, 3, "Rgb", mk_linrgb, rd_linrgb, nm_linrgb);
prealpha!(Rgb<SrgbStd, f64>, f64, 4, 3, "Rgb", mk_rgb, rd_rgb, nm_rgb);
prealpha!(Lab<D65, f32>, f32, 4, 3, "Lab", mk_lab, rd_lab, nm_lab);
prealpha!(Oklab<f64>, f64, 4, 3, "Oklab", mk_oklab, rd_oklab, nm_oklab);
prealpha!(Xyz<D65, f64>, f64, 4, 3, "Xyz", mk_xyz, rd_xyz, nm_xyz);

/// Packed<O, [T; 4]>: the stored array, by field name `color`
macro_rules! packed4 {
    ($o:ty, $oname:literal, $k:ty) => {
        impl Col<$k, 4> for Packed<$o, [$k; 4]> {
            const TY: &'static str = concat!("Packed<", $oname, ",[", stringify!($k), ";4]>");
            const BASE: &'static str = "Packed4";
            const WRAP: &'static str = "none";
            type Partner = Self;
            fn names() -> Vec<&'static str> { vec!["color.0", "color.1", "color.2", "color.3"] }
            fn make(v: [$k; 4]) -> Self { Packed { color: v, channel_order: PhantomData } }
            fn read(&self) -> [$k; 4] { self.color }
            col_std!($k, 4);
        }
    };
}
packed4!(palette::rgb::channels::Rgba, "Rgba", u8);
packed4!(palette::rgb::channels::Argb, "Argb", u16);
packed4!(palette::rgb::channels::Bgra, "Bgra", f32);
packed4!(palette::rgb::channels::Abgr, "Abgr", u32);

macro_rules! ucol {
    ($ty:ty, $u:ty, $tyname:expr, $base:literal, [$name:literal], |$v:ident| $make:expr, |$c:ident| $read:expr) => {
        impl UCol<$u> for $ty {
            const TY: &'static str = $tyname;
            const BASE: &'static str = $base;
            fn names() -> Vec<&'static str> { vec![$name] }
            fn make($v: $u) -> Self { $make }
            fn read(&self) -> $u { let $c = self; $read }
            fn s_into(self) -> $u { self.into() }
            fn s_from(u: $u) -> Self { u.into() }
            fn s_ref_into(&self) -> &$u { self.as_ref() }
            fn s_ref_from(u: &$u) -> &Self { u.as_ref() }
            fn s_mut_into(&mut self) -> &mut $u { self.as_mut() }
            fn s_mut_from(u: &mut $u) -> &mut Self { u.as_mut() }
        }
    };
}
macro_rules! ucols {
    ($($u:ident),*) => {$(
        ucol!(Packed<palette::rgb::channels::Rgba, $u>, $u, concat!("Packed<Rgba,", stringify!($u), ">"), "Packed1", ["color"],
            |v| Packed { color: v, channel_order: PhantomData }, |c| c.color);
        ucol!(Luma<SrgbStd, $u>, $u, concat!("Luma<", stringify!($u), ">:uint"), "Luma", ["luma"],
            |v| Luma { luma: v, standard: PhantomData }, |c| c.luma);
    )*};
}
ucols!(u8, u16, u32, u64, u128);

struct Ty {
    name: &'static str,
    fam: &'static str,
    n: usize,
    run: fn(&Init, &[Op], &mut Rec) -> bool,
}

fn table() -> Vec<Ty> {
    let mut t = vec![];
    macro_rules! arr { ($($ty:ty, $k:ty, $n:literal);* $(;)?) => {$(
        t.push(Ty { name: <$ty as Col<$k, $n>>::TY, fam: "arr", n: $n, run: run_arr::<$ty, $k, $n> });
    )*}; }
    macro_rules! uint { ($($ty:ty, $u:ty);* $(;)?) => {$(
        t.push(Ty { name: <$ty as UCol<$u>>::TY, fam: "uint", n: 1, run: run_uint::<$ty, $u> });
    )*}; }
    arr!(Luma<SrgbStd, u8>, u8, 1; Luma<SrgbStd, u16>, u16, 1; Luma<SrgbStd, u32>, u32, 1; Luma<SrgbStd, f32>, f32, 1; Luma<SrgbStd, f64>, f64, 1;
         Alpha<Luma<SrgbStd, u8>, u8>, u8, 2; Alpha<Luma<SrgbStd, u16>, u16>, u16, 2; Alpha<Luma<SrgbStd, u32>, u32>, u32, 2;
         Alpha<Luma<SrgbStd, f32>, f32>, f32, 2; Alpha<Luma<SrgbStd, f64>, f64>, f64, 2; PreAlpha<Luma<SrgbStd, f32>>, f32, 2;
         Rgb<SrgbStd, u8>, u8, 3; Rgb<Linear<SrgbStd>, u8>, u8, 3; Rgb<SrgbStd, u16>, u16, 3; Rgb<SrgbStd, u32>, u32, 3;
         Rgb<SrgbStd, f32>, f32, 3; Rgb<Linear<SrgbStd>, f32>, f32, 3; Rgb<SrgbStd, f64>, f64, 3;
         Hsl<SrgbStd, f32>, f32, 3; Hsv<SrgbStd, f32>, f32, 3; Hsv<SrgbStd, u8>, u8, 3; Hsl<SrgbStd, f64>, f64, 3;
         Hwb<SrgbStd, f32>, f32, 3; Hwb<SrgbStd, f64>, f64, 3; Hsluv<D65, f32>, f32, 3; Hsluv<D65, f64>, f64, 3;
         Lab<D65, f32>, f32, 3; Luv<D65, f32>, f32, 3; Lab<D65, f64>, f64, 3; Luv<D65, f64>, f64, 3;
         Lch<D65, f32>, f32, 3; Lchuv<D65, f32>, f32, 3; Lch<D65, f64>, f64, 3; Lchuv<D65, f64>, f64, 3;
         Xyz<D65, f32>, f32, 3; Yxy<D65, f32>, f32, 3; Xyz<D65, f64>, f64, 3; Yxy<D65, f64>, f64, 3;
         Lms<(), f32>, f32, 3; Lms<(), f64>, f64, 3;
         Oklab<f32>, f32, 3; Oklch<f32>, f32, 3; Oklab<f64>, f64, 3; Oklch<f64>, f64, 3;
         Okhsl<f32>, f32, 3; Okhsl<f64>, f64, 3; Okhsv<f32>, f32, 3; Okhsv<f64>, f64, 3; Okhwb<f32>, f32, 3; Okhwb<f64>, f64, 3;
         Cam16UcsJab<f32>, f32, 3; Cam16UcsJab<f64>, f64, 3; Cam16UcsJmh<f32>, f32, 3; Cam16UcsJmh<f64>, f64, 3;
         Cam16Jch<f32>, f32, 3; Cam16Jmh<f64>, f64, 3; Cam16Jsh<f32>, f32, 3; Cam16Qch<f64>, f64, 3; Cam16Qmh<f32>, f32, 3; Cam16Qsh<f64>, f64, 3;
         Alpha<Rgb<SrgbStd, u8>, u8>, u8, 4; Alpha<Rgb<SrgbStd, u16>, u16>, u16, 4; Alpha<Rgb<SrgbStd, u32>, u32>, u32, 4;
         Alpha<Rgb<SrgbStd, f32>, f32>, f32, 4; Alpha<Rgb<SrgbStd, f64>, f64>, f64, 4;
         Alpha<Hsv<SrgbStd, f32>, f32>, f32, 4; Alpha<Hsl<SrgbStd, f64>, f64>, f64, 4; Alpha<Hwb<SrgbStd, f32>, f32>, f32, 4;
         Alpha<Lab<D65, f64>, f64>, f64, 4; Alpha<Lch<D65, f32>, f32>, f32, 4; Alpha<Lchuv<D65, f64>, f64>, f64, 4;
         Alpha<Xyz<D65, f32>, f32>, f32, 4; Alpha<Yxy<D65, f64>, f64>, f64, 4; Alpha<Oklab<f32>, f32>, f32, 4;
         Alpha<Oklch<f64>, f64>, f64, 4; Alpha<Okhsv<f32>, f32>, f32, 4; Alpha<Cam16UcsJmh<f32>, f32>, f32, 4; Alpha<Cam16Jch<f32>, f32>, f32, 4;
         PreAlpha<Rgb<Linear<SrgbStd>, f32>>, f32, 4; PreAlpha<Rgb<SrgbStd, f64>>, f64, 4; PreAlpha<Lab<D65, f32>>, f32, 4;
         PreAlpha<Oklab<f64>>, f64, 4; PreAlpha<Xyz<D65, f64>>, f64, 4;
         Packed<palette::rgb::channels::Rgba, [u8; 4]>, u8, 4; Packed<palette::rgb::channels::Argb, [u16; 4]>, u16, 4;
         Packed<palette::rgb::channels::Bgra, [f32; 4]>, f32, 4; Packed<palette::rgb::channels::Abgr, [u32; 4]>, u32, 4;);
    uint!(Packed<palette::rgb::channels::Rgba, u8>, u8; Packed<palette::rgb::channels::Rgba, u16>, u16;
          Packed<palette::rgb::channels::Rgba, u32>, u32; Packed<palette::rgb::channels::Rgba, u64>, u64;
          Packed<palette::rgb::channels::Rgba, u128>, u128;
          Luma<SrgbStd, u8>, u8; Luma<SrgbStd, u16>, u16; Luma<SrgbStd, u32>, u32; Luma<SrgbStd, u64>, u64; Luma<SrgbStd, u128>, u128;);
    t
}

include!("cast_ctor.rs");

fn main() {
    if flag("--ctor") {
        let mut rec = Rec::create(&arg_or("--out", "-"));
        run_ctor(&mut rec);
        let n = rec.finish();
        eprintln!("cast --ctor: {} events", n);
        return;
    }
    let tab = table();
    if flag("--list") {
        for t in &tab { println!("{}\t{}\t{}", t.name, t.fam, t.n); }
        return;
    }
    let out = arg_or("--out", "-");
    let types = arg_or("--types", "all");
    let rotate: usize = arg_or("--rotate", "0").parse().expect("--rotate");
    let hist = arg("--hist").expect("--hist <file>");
    let text = std::fs::read_to_string(&hist).expect("chain file");
    let sel: Vec<&Ty> = tab.iter().filter(|t| types == "all" || types.split(',').any(|x| x == t.name)).collect();
    if sel.is_empty() { eprintln!("cast harness: no such type: {}", types); std::process::exit(3) }
    let mut rec = Rec::create(&out);
    // --crashlog: name every scenario (unbuffered) before it runs, so that the driver can tell which one killed the
    // process when a cast trips a non-unwinding check or a signal
    let mut crashlog = arg("--crashlog").map(|p| std::fs::File::create(p).expect("crashlog"));
    let (mut scen, mut skipped, mut chains) = (0u64, 0u64, 0u64);
    let mut per_type = std::collections::BTreeMap::<&str, u64>::new();
    for (i, line) in text.lines().filter(|l| !l.trim().is_empty()).enumerate() {
        let (ini, ops) = parse_chain(line);
        chains += 1;
        let cands: Vec<&&Ty> = sel.iter().filter(|t| t.fam == ini.fam && t.n == ini.n).collect();
        if cands.is_empty() { continue; }
        let picks: Vec<usize> = if rotate == 0 || rotate >= cands.len() {
            (0..cands.len()).collect()
        } else {
            (0..rotate).map(|j| (i * rotate + j) % cands.len()).collect()
        };
        for p in picks {
            let t = cands[p];
            if let Some(f) = crashlog.as_mut() {
                use std::io::Write;
                let _ = f.write_all(format!("{}\t{}\n", t.name, line).as_bytes());
            }
            if (t.run)(&ini, &ops, &mut rec) { scen += 1; *per_type.entry(t.name).or_default() += 1; } else { skipped += 1; }
        }
    }
    let n = rec.finish();
    let least = per_type.values().min().copied().unwrap_or(0);
    eprintln!("cast: {} chains, {} scenarios on {} types (least covered type: {}), {} skipped (allocator capacity), {} events",
              chains, scen, per_type.len(), least, skipped, n);
}
