------------------------------ MODULE Stimulus ------------------------------
(***************************************************************************)
(* C06 - component number-format conversion saturates, rounds to nearest   *)
(* and round-trips.                                                        *)
(*                                                                         *)
(* Seven component formats: u8, u16, u32, u64, u128 (a code n in 0..MAX     *)
(* denotes the intensity n / MAX) and f32, f64 (the stored float denotes   *)
(* itself; 0.0 .. 1.0 is the full range).  Converting maps the full range   *)
(* onto the full range, i.e. it is the scaling  v |-> v * MAX_to / MAX_from *)
(* (MAX = 1 for a float format) followed by rounding to the target format   *)
(* and, for integer targets, saturation.                                    *)
(*                                                                         *)
(* The model speaks about EXACT values: a float is the exact dyadic `Dy`    *)
(* (Fx.tla) the harness decodes from its bit pattern, an integer code is a  *)
(* BigNat (limbs base 2^13 - TLC integers are 32-bit, and u32/u64/u128      *)
(* values and every product below exceed them).  Nothing here is floating   *)
(* point; every clause is decided by integer arithmetic, cross-multiplied   *)
(* so that no division is needed.                                           *)
(*                                                                         *)
(* One relation per kind of conversion ("...OK": the call with this exact   *)
(* input may return this exact output) and one named action per public      *)
(* operation, enabled exactly when the relation holds.  Numbers are passed  *)
(* in the logged form  j = <<s, q, m1, m2, ..>>  (Fx.tla: s * M * 8192^q;   *)
(* <<2,0>> NaN, <<3,0>> +inf, <<-3,0>> -inf), so that the specials are      *)
(* first-class inputs.                                                      *)
(***************************************************************************)
EXTENDS Fx

IntFormats == {"u8", "u16", "u32", "u64", "u128"}
FloatFormats == {"f32", "f64"}
Formats == IntFormats \cup FloatFormats

Width(f) == CASE f = "u8" -> 8 [] f = "u16" -> 16 [] f = "u32" -> 32 [] f = "u64" -> 64 [] f = "u128" -> 128

(* MAX = 2^Width - 1 as limb literals (TLC re-evaluates operator applications at every use; MC_Stimulus
   asserts that each literal equals Sub(Pow2(Width(f)), One)) *)
MaxN(f) == CASE f = "u8" -> <<255>>
             [] f = "u16" -> <<8191, 7>>
             [] f = "u32" -> <<8191, 8191, 63>>
             [] f = "u64" -> <<8191, 8191, 8191, 8191, 4095>>
             [] f = "u128" -> <<8191, 8191, 8191, 8191, 8191, 8191, 8191, 8191, 8191, 2047>>

Prec(t) == IF t = "f32" THEN 24 ELSE 53            \* significand bits
MinExp(t) == IF t = "f32" THEN -149 ELSE -1074     \* log2 of the smallest positive value

DOne == <<1, 0, <<1>>>>
Half == <<1, -1, <<4096>>>>
(* the largest finite f32, (2^24 - 1) * 2^104 *)
F32Max == <<1, 8, <<8191, 2047>>>>

LOCAL MaxI(a, b) == IF a >= b THEN a ELSE b

-----------------------------------------------------------------------------
(* logged numbers *)

(* a natural number in logged form, and back *)
NatJ(n) == IF n = <<>> THEN <<0, 0>> ELSE <<1, 0>> \o n
IsNatJ(j) == /\ Len(j) >= 2 /\ j[1] \in {0, 1} /\ j[2] = 0
             /\ (j[1] = 0) = (Len(j) = 2)
             /\ (Len(j) > 2 => j[Len(j)] # 0)
NOf(j) == IF Len(j) <= 2 THEN <<>> ELSE SubSeq(j, 3, Len(j))
IsCode(f, j) == IsNatJ(j) /\ Le(NOf(j), MaxN(f))
DyOfNat(n) == IF n = <<>> THEN DyZero ELSE <<1, 0, n>>
JOfDy(d) == <<d[1], d[2]>> \o d[3]

(* the order of the extended real line on logged numbers; NaN is not comparable *)
LeqJ(a, b) == /\ ~IsNaN(a) /\ ~IsNaN(b)
              /\ \/ IsNegInf(a) \/ IsPosInf(b)
                 \/ (IsFin(a) /\ IsFin(b) /\ DyLe(Dy(a), Dy(b)))

-----------------------------------------------------------------------------
(* "one rounding"                                                          *)
(*                                                                         *)
(* The working precision of a conversion is that of the narrowest float     *)
(* type, no narrower than a float source, that holds every source value and *)
(* the target's MAX exactly - f32 (24 bits) for f32 -> u8/u16 and for       *)
(* u8/u16 -> u8/u16, f64 (53 bits) for everything else.  For the 64- and    *)
(* 128-bit targets no float type holds MAX and the statement settles the    *)
(* matter itself: "one rounding of that product ... means 53 significant    *)
(* bits".                                                                   *)
WorkPrec(from, to) ==
  IF from # "f64" /\ (from = "f32" \/ Width(from) <= 24) /\ Width(to) <= 24 THEN 24 ELSE 53

(* log2 of the unit in the last place of a P-bit float holding v > 0 (values below 1 count as 1: the
   allowance is only ever added to the half code step, which dominates there) *)
UlpExp(P, v) == MaxI(DyLog2(v), 0) - (P - 1)

(* TOLERANCE RoundUlps (float -> integer, f64 -> f32).  Principled bound: the product x * MAX is rounded
   ONCE to the working type, |p - x*MAX| <= ulp/2, and the nearest integer r to p has |r - p| <= 1/2, so
   |r - x*MAX| <= 1/2 + ulp_P(x*MAX) / 2.  For the 64/128-bit targets this is the statement's "53 significant
   bits": with 2^e <= x*MAX < 2^(e+1) and e >= 52 the rounded product is already an integer, r = p, and
   |r - x*MAX| <= 2^(e-53), half a unit of 2^(e-52) = ulp_53(x*MAX); for u64/u128 MAX itself is rounded to
   2^64 / 2^128 on the way, a relative 2^-64, far below.  Largest deviation observed on the pinned tree
   (evidence: max_deviation_observed): 0.5 ulp beyond the half step.  4 ulp is 8 x that.  Every defect of
   interest is off by half a code or more (truncation, wrong constant) or by 2^(e-40) and more (64/128 bit). *)
RoundUlps == 4
(* TOLERANCE NarrowUlps (integer -> narrower integer).  n / MAX_s * MAX_t computed in the working type is two
   roundings plus, from u64/u128, the rounding of n and of MAX_s themselves: at most 2.5 ulp of the scaled value
   when that lies just below a power of two; the exponent estimate below may be one too large (factor 2).
   Observed on the pinned tree: 0.5 ulp beyond the half step.  16 ulp. *)
NarrowUlps == 16
(* TOLERANCE U2FBits (integer -> float): relative error 2^-(Prec - U2FBits) = 16 u with u = 2^-Prec (half an
   ulp, relatively).  Principled: the reciprocal of MAX or the quotient is rounded (u), the product or the final
   narrowing to f32 is rounded (u), n itself is rounded when it has more than 53 bits (u): 2-3 u.  Observed on the pinned tree: 1.66 u (u8 -> f32 of 12). *)
U2FBits == 4

-----------------------------------------------------------------------------
(* float -> integer: MAX for NaN, +inf and every x >= 1; 0 for every x <= 0 and -inf; otherwise an integer
   within one rounding of the nearest integer to x * MAX.  r is a BigNat. *)
F2UBand(P, v, r) ==
  DyLe(DyAbs(DySub(DyOfNat(r), v)), DyAdd(Half, DyMulInt(DyPow2(UlpExp(P, v)), RoundUlps)))

F2UOK(from, to, j, r) ==
  /\ Le(r, MaxN(to))
  /\ IF IsNaN(j) \/ IsPosInf(j) THEN r = MaxN(to)
     ELSE IF IsNegInf(j) THEN r = Zero
     ELSE LET x == Dy(j)
          IN IF DySign(x) <= 0 THEN r = Zero
             ELSE IF DyLe(DOne, x) THEN r = MaxN(to)
             ELSE F2UBand(WorkPrec(from, to), DyMul(x, DyOfNat(MaxN(to))), r)

(* integer -> float: exactly 0 and exactly 1 at the ends, inside [0, 1], and y * MAX within rounding of n
   (cross-multiplied |y - n/MAX| <= 16 u * n/MAX, plus one unit of the subnormal grid: u128 -> f32 reaches it) *)
U2FOK(from, to, n, j) ==
  /\ IsFin(j)
  /\ LET y == Dy(j)  M == DyOfNat(MaxN(from))  nd == DyOfNat(n)
     IN /\ (n = Zero => DyIsZero(y))
        /\ (n = MaxN(from) => DyEq(y, DOne))
        /\ DySign(y) >= 0 /\ DyLe(y, DOne)
        /\ DyLe(DyAbs(DySub(DyMul(y, M), nd)),
                DyAdd(DyMulPow2(nd, -(Prec(to) - U2FBits)), DyMulPow2(M, MinExp(to))))

(* integer -> integer.  Every width divides every larger one, so MAX_t / MAX_s = 2^(k w) + .. + 2^w + 1 is an
   integer and widening has an exact answer, n * MAX_t / MAX_s - bit replication; cross-multiplied, and the same
   line says r = n for equal widths.  Narrowing: 0 -> 0, MAX -> MAX, and within one rounding (in the working
   precision) of the nearest integer to n * MAX_t / MAX_s:  |r MAX_s - n MAX_t| <= MAX_s (1/2 + 16 ulp). *)
UUOK(from, to, n, r) ==
  LET Ms == MaxN(from)  Mt == MaxN(to)
  IN /\ Le(r, Mt)
     /\ IF Width(to) >= Width(from) THEN Mul(r, Ms) = Mul(n, Mt)
        ELSE /\ (n = Zero => r = Zero)
             /\ (n = Ms => r = Mt)
             /\ LET A == Mul(n, Mt)
                    e == MaxI(BitLen(A) - BitLen(Ms), 0)        \* floor(log2(A / Ms)) or one more
                IN DyLe(DyAbs(DySub(DyOfNat(Mul(r, Ms)), DyOfNat(A))),
                        DyMul(DyOfNat(Ms), DyAdd(Half, DyMulInt(DyPow2(e - (WorkPrec(from, to) - 1)), NarrowUlps))))

(* float -> float: widening is exact; narrowing is one rounding (or an infinity beyond the largest finite f32);
   NaN stays NaN, infinities stay, 0 and 1 map to exactly 0 and 1 *)
F2FOK(from, to, jin, jout) ==
  IF from = to \/ to = "f64" THEN jout = jin
  ELSE IF IsSpecial(jin) THEN jout = jin
  ELSE LET x == Dy(jin)
       IN IF DyIsZero(x) \/ DyEq(x, DOne) THEN jout = jin
          ELSE \/ /\ IsFin(jout)
                  /\ DySign(Dy(jout)) \in {0, DySign(x)}
                  /\ DyLe(DyAbs(DySub(Dy(jout), x)),
                          DyAdd(DyMulInt(DyPow2(DyLog2(x) - 23), RoundUlps), DyPow2(-149)))
               \/ /\ DyLe(F32Max, DyAbs(x))
                  /\ jout = (IF DySign(x) > 0 THEN <<3, 0>> ELSE <<-3, 0>>)

(* any ordered pair of formats, logged input, logged output *)
ConvOK(from, to, jin, jout) ==
  IF from \in FloatFormats
  THEN IF to \in FloatFormats THEN F2FOK(from, to, jin, jout)
       ELSE IsCode(to, jout) /\ F2UOK(from, to, jin, NOf(jout))
  ELSE /\ IsCode(from, jin)
       /\ IF to \in FloatFormats THEN U2FOK(from, to, NOf(jin), jout)
          ELSE IsCode(to, jout) /\ UUOK(from, to, NOf(jin), NOf(jout))

(* every conversion is monotone non-decreasing: two calls of the same conversion *)
MonoOK(j1, o1, j2, o2) == LeqJ(j1, j2) => LeqJ(o1, o2)

(* the round trips the statement demands: a -> b -> a is the identity for
   - a of 8, 16 or 32 bits and b a wider integer format,
   - a -> float -> a when the float type has enough precision: 8/16 bits through f32, up to 32 bits through f64 *)
RTRequired(a, b) ==
  /\ a \in {"u8", "u16", "u32"}
  /\ \/ (b \in IntFormats /\ Width(b) > Width(a))
     \/ (b = "f32" /\ Width(a) <= 16)
     \/ b = "f64"
RTOK(a, b, jin, jout) == RTRequired(a, b) /\ IsCode(a, jin) /\ jout = jin

-----------------------------------------------------------------------------
(* Exhaustive sweeps are recorded as runs of consecutive inputs with equal output (DESIGN 2.4).  Inputs are
   addressed by their position on the ordered line of the source format, written <<hi, lo>> = hi * 65536 + lo:
     f32:  0 = -inf, .., 0x7f800000 = -0.0, 0x7f800001 = +0.0, .., 0xff000001 = +inf   (every non-NaN pattern)
     u32:  the value itself.
   For a fixed output the set of inputs the contract admits is an interval of the line (0: everything up to
   (1/2 + tol)/MAX; MAX: everything from (MAX - 1/2 - tol)/MAX; k: the band around k/MAX - the allowance grows
   with the input), so a run lies inside the contract iff both its ends do; runs that tile the line with
   non-decreasing outputs settle monotonicity and saturation for every input. *)
IdxLe(a, b) == a[1] < b[1] \/ (a[1] = b[1] /\ a[2] <= b[2])
IdxSucc(a) == IF a[2] = 65535 THEN <<a[1] + 1, 0>> ELSE <<a[1], a[2] + 1>>
IdxFirst == <<0, 0>>
IdxLast(from) == IF from = "f32" THEN <<65280, 1>> ELSE <<65535, 65535>>
IdxOK(from, a) == /\ a[1] \in 0..65535 /\ a[2] \in 0..65535 /\ IdxLe(a, IdxLast(from))

(* the logged number at a position of the f32 line *)
F32At(a) ==
  LET neg == a[1] < 32640 \/ (a[1] = 32640 /\ a[2] = 0)                  \* 0x7f80
      mag == IF neg THEN (32640 - a[1]) * 65536 - a[2] ELSE (a[1] - 32640) * 65536 + a[2] - 1
      e == mag \div 8388608
      m == mag % 8388608
  IN IF e = 255 THEN (IF neg THEN <<-3, 0>> ELSE <<3, 0>>)
     ELSE IF mag = 0 THEN <<0, 0>>
     ELSE LET d == IF e = 0 THEN DyMulPow2(DyFromInt(m), -149) ELSE DyMulPow2(DyFromInt(8388608 + m), e - 150)
          IN JOfDy(IF neg THEN DyNeg(d) ELSE d)
U32At(a) == NatJ(Add(MulSmall(FromNat(a[1]), 65536), FromNat(a[2])))
At(from, a) == IF from = "f32" THEN F32At(a) ELSE U32At(a)

StepFormats == {"f32", "u32"}
(* all inputs fi..li give `code` *)
RunOK(from, to, code, fi, li) ==
  /\ IdxOK(from, fi) /\ IdxOK(from, li) /\ IdxLe(fi, li) /\ code >= 0
  /\ ConvOK(from, to, At(from, fi), NatJ(FromNat(code)))
  /\ ConvOK(from, to, At(from, li), NatJ(FromNat(code)))
(* the run follows the previous one without a gap and does not go down (pcode = -1: the first run) *)
LinkOK(pcode, pli, code, fi) ==
  IF pcode < 0 THEN fi = IdxFirst ELSE fi = IdxSucc(pli) /\ pcode <= code
(* number of NaN patterns of f32 *)
F32NaNs == 16777214

-----------------------------------------------------------------------------
(* The machine: number-format conversion has no state; `last` records the last call the model accepted. *)
VARIABLE last
vars == <<last>>

Init == last = <<"none", "u8", "u8">>

FloatToUint(from, to, jin, jout) ==
  /\ from \in FloatFormats /\ to \in IntFormats /\ ConvOK(from, to, jin, jout) /\ last' = <<"f2u", from, to>>
UintToFloat(from, to, jin, jout) ==
  /\ from \in IntFormats /\ to \in FloatFormats /\ ConvOK(from, to, jin, jout) /\ last' = <<"u2f", from, to>>
UintToUint(from, to, jin, jout) ==
  /\ from \in IntFormats /\ to \in IntFormats /\ ConvOK(from, to, jin, jout) /\ last' = <<"u2u", from, to>>
FloatToFloat(from, to, jin, jout) ==
  /\ from \in FloatFormats /\ to \in FloatFormats /\ ConvOK(from, to, jin, jout) /\ last' = <<"f2f", from, to>>
Monotone(from, to, j1, o1, j2, o2) ==
  /\ from \in Formats /\ to \in Formats /\ MonoOK(j1, o1, j2, o2) /\ last' = <<"mono", from, to>>
RoundTrip(a, b, jin, jout) == RTOK(a, b, jin, jout) /\ last' = <<"rt", a, b>>
SweepRun(from, to, code, fi, li, pcode, pli) ==
  /\ from \in StepFormats /\ to \in IntFormats
  /\ RunOK(from, to, code, fi, li) /\ LinkOK(pcode, pli, code, fi) /\ last' = <<"run", from, to>>
SweepEnd(from, to, li) == from \in StepFormats /\ li = IdxLast(from) /\ last' = <<"end", from, to>>
SweepNaNs(to, count, bad) == count = F32NaNs /\ bad = 0 /\ last' = <<"nans", "f32", to>>

TypeOK == /\ last[1] \in {"none", "f2u", "u2f", "u2u", "f2f", "mono", "rt", "run", "end", "nans"}
          /\ last[2] \in Formats /\ last[3] \in Formats
=============================================================================
