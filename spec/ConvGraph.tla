------------------------------ MODULE ConvGraph ------------------------------
(***************************************************************************)
(* C01 - the conversion graph of the XYZ group and the routing algorithm of  *)
(* #[derive(FromColorUnclamped)].                                           *)
(*                                                                         *)
(* Every colour type hand-writes conversions FROM the types in its           *)
(* skip_derives list; every other conversion X <- C is generated as          *)
(* X <- N <- C with N = Nearest(C, X), the nearest member of X's skip list    *)
(* in the tree spanned by the preferred_source relation (root Xyz), found by  *)
(* the stack-based search of palette_derive::convert::util::find_nearest_color,*)
(* which is transcribed below step by step.                                  *)
(* The tables are transcribed from the pinned tree (color_types.rs and the    *)
(* #[palette(skip_derives(..))] attributes); `check` compares them with the    *)
(* working tree, because a route change is not a property violation - a graph  *)
(* in which some pair has no route or an endless one is.                      *)
(***************************************************************************)
EXTENDS Integers, Sequences, FiniteSets

(* XYZ_COLORS.colors in declaration order: <<name, preferred_source>> *)
Colors == << <<"Rgb", "Xyz">>, <<"Luma", "Xyz">>, <<"Hsl", "Rgb">>, <<"Hsluv", "Lchuv">>, <<"Hsv", "Rgb">>,
             <<"Hwb", "Hsv">>, <<"Lab", "Xyz">>, <<"Lch", "Lab">>, <<"Lchuv", "Luv">>, <<"Lms", "Xyz">>,
             <<"Luv", "Xyz">>, <<"Oklab", "Xyz">>, <<"Oklch", "Oklab">>, <<"Okhsl", "Oklab">>,
             <<"Okhsv", "Oklab">>, <<"Okhwb", "Okhsv">>, <<"Yxy", "Xyz">> >>
Root == "Xyz"
Names == {Root} \cup {Colors[i][1] : i \in DOMAIN Colors}

Skip == [ Xyz |-> {"Xyz", "Yxy", "Luv", "Rgb", "Lab", "Oklab", "Luma", "Lms"},
          Yxy |-> {"Xyz", "Yxy", "Luma"},
          Lab |-> {"Xyz", "Lab", "Lch"},
          Lch |-> {"Lab", "Lch"},
          Luv |-> {"Xyz", "Luv", "Lchuv"},
          Lchuv |-> {"Luv", "Lchuv", "Hsluv"},
          Hsluv |-> {"Lchuv", "Hsluv"},
          Hsl |-> {"Rgb", "Hsv", "Hsl"},
          Hsv |-> {"Rgb", "Hsl", "Hwb", "Hsv"},
          Hwb |-> {"Hsv", "Hwb"},
          Luma |-> {"Xyz", "Yxy", "Luma"},
          Lms |-> {"Lms", "Xyz"},
          Oklab |-> {"Oklab", "Oklch", "Okhsv", "Okhsl", "Xyz", "Rgb"},
          Oklch |-> {"Oklab", "Oklch"},
          Okhsl |-> {"Oklab"},
          Okhsv |-> {"Oklab", "Okhwb"},
          Okhwb |-> {"Okhwb", "Okhsv"},
          Rgb |-> {"Xyz", "Hsv", "Hsl", "Luma", "Rgb", "Oklab"} ]

(* skipped by the derive but not written by hand on the pinned tree *)
ManualMissing == { <<"Okhwb", "Okhwb">> }
(* Okhsl lists only Oklab: its identity conversion is generated?  No: a type not in its own skip list gets a
   derived X <- X = X <- N <- X.  *)

NoneFound == <<"", -1>>

(* one expansion step of the search: what is pushed when `c` is expanded at distance d *)
Children(c) == LET idx == {i \in DOMAIN Colors : Colors[i][2] = c}
               IN [k \in 1..Cardinality(idx) |->
                     LET i == CHOOSE i \in idx : Cardinality({j \in idx : j < i}) = k - 1 IN Colors[i][1]]
ParentOf(c) == IF c = Root THEN <<>> ELSE << (CHOOSE i \in DOMAIN Colors : Colors[i][1] = c) >>
Pushes(c, d) == [k \in 1..Len(Children(c)) |-> <<Children(c)[k], d + 1>>]
                \o (IF c = Root THEN <<>> ELSE << <<Colors[ParentOf(c)[1]][2], d + 1>> >>)

RECURSIVE Search(_, _, _, _)
(* skip: the target's skip list; stack: sequence of <<name, distance>>, top at the end;
   found: <<name, distance>> or NoneFound; visited: function name -> distance (-1: unvisited) *)
Search(skip, stack, found, visited) ==
  IF stack = <<>> THEN found
  ELSE LET top == stack[Len(stack)]
           rest == SubSeq(stack, 1, Len(stack) - 1)
           c == top[1]  d == top[2]
           isskip == c \in skip
       IN IF isskip /\ found = NoneFound THEN Search(skip, rest, top, visited)
          ELSE IF isskip /\ d < found[2] THEN Search(skip, rest, top, visited)
          ELSE IF visited[c] # -1 /\ visited[c] <= d THEN Search(skip, rest, found, visited)
          ELSE Search(skip, rest \o Pushes(c, d), found, [visited EXCEPT ![c] = d])

Nearest(c, x) == Search(Skip[x], << <<c, 0>> >>, NoneFound, [n \in Names |-> -1])[1]

(* the route of the conversion x <- c: sequence of hand-written edges <<to, from>>, first hop first *)
RECURSIVE Route(_, _, _)
Route(x, c, fuel) ==
  IF fuel = 0 THEN << <<"LOOP", "LOOP">> >>
  ELSE IF c \in Skip[x] THEN << <<x, c>> >>
  ELSE LET n == Nearest(c, x)
       IN IF n = "" THEN << <<"NONE", "NONE">> >>
          ELSE Route(n, c, fuel - 1) \o << <<x, n>> >>

Fuel == 12
RouteOf(x, c) == Route(x, c, Fuel)
Routable(x, c) == \A h \in DOMAIN RouteOf(x, c) : RouteOf(x, c)[h][1] \notin {"LOOP", "NONE"}

-----------------------------------------------------------------------------
(* the typed nodes the harness drives: name and RGB/luma standard ("" = none) *)
NodeName == [ xyz |-> "Xyz", yxy |-> "Yxy", lab |-> "Lab", lch |-> "Lch", luv |-> "Luv", lchuv |-> "Lchuv",
              hsluv |-> "Hsluv", oklab |-> "Oklab", oklch |-> "Oklch", okhsl |-> "Okhsl", okhsv |-> "Okhsv",
              okhwb |-> "Okhwb", linsrgb |-> "Rgb", srgb |-> "Rgb", hsl |-> "Hsl", hsv |-> "Hsv", hwb |-> "Hwb",
              linluma |-> "Luma", srgbluma |-> "Luma", lmsvk |-> "Lms", lmsbfd |-> "Lms",
              adobe |-> "Rgb", linadobe |-> "Rgb", p3 |-> "Rgb", linp3 |-> "Rgb", rec2020 |-> "Rgb", linrec2020 |-> "Rgb",
              rec709 |-> "Rgb", hsv_linsrgb |-> "Hsv", hsl_linsrgb |-> "Hsl", hwb_rec709 |-> "Hwb", hsv_adobe |-> "Hsv", hsl_p3 |-> "Hsl", hwb_rec2020 |-> "Hwb",
              xyz50 |-> "Xyz", lab50 |-> "Lab", lch50 |-> "Lch", luv50 |-> "Luv", prophoto |-> "Rgb", linprophoto |-> "Rgb",
              hsv_prophoto |-> "Hsv", xyzdci |-> "Xyz", labdci |-> "Lab", dcip3 |-> "Rgb", lindcip3 |-> "Rgb",
              dcip3plus |-> "Rgb", lindcip3plus |-> "Rgb" ]
NodeStd == [ n \in DOMAIN NodeName |-> CASE n \in {"srgb", "hsl", "hsv", "hwb", "srgbluma"} -> "srgb"
                                            [] n \in {"linsrgb", "linluma", "hsv_linsrgb", "hsl_linsrgb"} -> "linear"
                                            [] n = "hwb_rec709" -> "rec709"
                                            [] n \in {"adobe", "hsv_adobe"} -> "adobe"
                                            [] n \in {"p3", "hsl_p3"} -> "p3"
                                            [] n \in {"rec2020", "hwb_rec2020"} -> "rec2020"
                                            [] n \in {"prophoto", "hsv_prophoto"} -> "prophoto"
                                            [] n \in {"linadobe", "linp3", "linrec2020", "rec709", "linprophoto", "dcip3", "lindcip3", "dcip3plus", "lindcip3plus"} -> n
                                            [] OTHER -> "" ]
(* the white point every node is relative to; conversions exist only within one white point *)
NodeWp == [ n \in DOMAIN NodeName |-> CASE n \in {"xyz50", "lab50", "lch50", "luv50", "prophoto", "linprophoto", "hsv_prophoto"} -> "D50"
                                           [] n \in {"xyzdci", "labdci", "dcip3", "lindcip3", "dcip3plus", "lindcip3plus"} -> "DCI"
                                           [] OTHER -> "D65" ]
(* conversions between DIFFERENT types that carry an RGB standard (hand-written or derived) are generic
   over ONE standard - the derive instantiates the source with the target's standard - whereas
   Rgb <- Rgb and Luma <- Luma convert between standards *)
SameStdOnly(x, c) == x # c /\ {x, c} \subseteq {"Rgb", "Hsl", "Hsv", "Hwb"}

(* does the conversion a -> b (b <- a) exist for these typed nodes? *)
PairExists(a, b) ==
  LET x == NodeName[b]  c == NodeName[a]
      r == RouteOf(x, c)
  IN /\ NodeWp[a] = NodeWp[b]
     /\ Routable(x, c)
     /\ \A h \in DOMAIN r : r[h] \notin ManualMissing
     /\ (SameStdOnly(x, c) => NodeStd[a] = NodeStd[b])
     /\ (x = "Lms" /\ c = "Lms" => a = b)      \* Lms <- Lms is written for one matrix meta type only: no change of cone matrix
=============================================================================
