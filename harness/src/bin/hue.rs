//! C11 driver: calls palette's hue API (five hue types x f32/f64) on enumerated, boundary and seeded
//! random angles and records one NDJSON event per call with the exact values of inputs and outputs.
//! Judging is done by TLC (spec/trace/TraceHue.tla); nothing here decides the property. The only
//! arithmetic on results in this file is the *keep* filter of the thorough f32 bit-pattern sweep.
//!
//! usage: hue --tier quick|thorough --out trace.ndjson          (VERIF_SEED)
//!        hue --one '<event json>' --out trace.ndjson           (re-execute one recorded call: replay)
//!
//! Event: {"ev":"hue","op":..,"ty":<hue type>,"t":"f32"|"f64","m":<mode>,"in":[exact..],"out":[exact..],"n":int,"k":int}
//! (layout documented in TraceHue.tla). A panic inside palette is logged as "panic":1 with NaN outputs / n = -9.

use palette::hues::{Cam16Hue, LabHue, LuvHue, OklabHue, RgbHue};
use pvh::*;
use serde_json::{json, Value};
use std::collections::BTreeMap;

// ------------------------------------------------------------------------------------------ floats

trait Fl: Ex + Copy + PartialOrd + PartialEq + 'static {
    const MIN_EXP: i32; // log2 of the smallest positive value
    const PREC: i32;
    fn of(x: f64) -> Self;
    fn up(self) -> Self;
    fn down(self) -> Self;
    fn neg(self) -> Self;
    fn plus(self, o: Self) -> Self;
    fn pow2(e: i32) -> Self { Self::of(2f64.powi(e)) }
    /// x is exactly representable
    fn exact(x: f64) -> bool { Self::of(x).as_f64() == x }
}

macro_rules! impl_fl {
    ($t:ident, $bits:ident, $minexp:expr, $prec:expr) => {
        impl Fl for $t {
            const MIN_EXP: i32 = $minexp;
            const PREC: i32 = $prec;
            fn of(x: f64) -> Self { x as $t }
            fn up(self) -> Self {
                if self.is_nan() || self == $t::INFINITY { return self; }
                if self == 0.0 { return $t::from_bits(1); }
                let b = self.to_bits();
                if self > 0.0 { $t::from_bits(b + 1) } else { $t::from_bits(b - 1) }
            }
            fn down(self) -> Self { -((-self).up()) }
            fn neg(self) -> Self { -self }
            fn plus(self, o: Self) -> Self { self + o }
        }
    };
}
impl_fl!(f32, u32, -149, 24);
impl_fl!(f64, u64, -1074, 53);

// ------------------------------------------------------------------------------------------ the API under test

trait HueApi<F: Fl>: Copy {
    const NAME: &'static str;
    fn new(x: F) -> Self;
    fn from_degrees(x: F) -> Self;
    fn from_radians(r: F) -> Self;
    fn deg(self) -> F;
    fn pos(self) -> F;
    fn rad(self) -> F;
    fn posrad(self) -> F;
    fn raw(self) -> F;
    fn rawrad(self) -> F;
    fn inner(self) -> F;
    fn conv(self) -> F; // From<Hue<F>> for F
    fn convx(self) -> f64; // From<Hue<f32>> for f64 / From<Hue<f64>> for f32 (the other float type), widened exactly
    fn s_add_assign(s: F, h: Self) -> F; // scalar += hue
    fn s_sub_assign(s: F, h: Self) -> F; // scalar -= hue
    fn from_cart(a: F, b: F) -> Self;
    fn cart(self) -> (F, F);
    fn eq_h(self, o: Self) -> bool;
    fn eq_s(self, o: F) -> bool;
    /// the 8-bit hues of two codes compared (AngleEq for u8), and each read back as its code
    fn eq_u8(k1: u8, k2: u8) -> bool;
    fn add_h(self, o: Self) -> Self;
    fn add_s(self, o: F) -> Self;
    fn s_add(s: F, h: Self) -> Self;
    fn sub_h(self, o: Self) -> Self;
    fn sub_s(self, o: F) -> Self;
    fn s_sub(s: F, h: Self) -> Self;
    fn add_assign_h(self, o: Self) -> Self;
    fn sub_assign_s(self, o: F) -> Self;
    fn to_u8(self) -> u8;
    fn of_u8(k: u8) -> Self;
}

macro_rules! impl_api {
    ($H:ident, $F:ty) => {
        impl HueApi<$F> for $H<$F> {
            const NAME: &'static str = stringify!($H);
            fn new(x: $F) -> Self { $H::new(x) }
            fn from_degrees(x: $F) -> Self { $H::from_degrees(x) }
            fn from_radians(r: $F) -> Self { $H::from_radians(r) }
            fn deg(self) -> $F { self.into_degrees() }
            fn pos(self) -> $F { self.into_positive_degrees() }
            fn rad(self) -> $F { self.into_radians() }
            fn posrad(self) -> $F { self.into_positive_radians() }
            fn raw(self) -> $F { self.into_raw_degrees() }
            fn rawrad(self) -> $F { self.into_raw_radians() }
            fn inner(self) -> $F { self.into_inner() }
            fn conv(self) -> $F { <$F>::from(self) }
            fn convx(self) -> f64 { <$H<$F> as CrossConv>::cross(self) }
            fn s_add_assign(s: $F, h: Self) -> $F { let mut a = s; a += h; a }
            fn s_sub_assign(s: $F, h: Self) -> $F { let mut a = s; a -= h; a }
            fn from_cart(a: $F, b: $F) -> Self { $H::from_cartesian(a, b) }
            fn cart(self) -> ($F, $F) { self.into_cartesian() }
            fn eq_h(self, o: Self) -> bool { self == o }
            fn eq_s(self, o: $F) -> bool { self == o }
            fn eq_u8(k1: u8, k2: u8) -> bool {
                let (h1, h2) = ($H::<u8>::new(k1), $H::<u8>::new(k2));
                assert!(u8::from(h1) == k1 && h2.into_inner() == k2, "an 8-bit hue does not give back its code");
                h1 == h2
            }
            fn add_h(self, o: Self) -> Self { self + o }
            fn add_s(self, o: $F) -> Self { self + o }
            fn s_add(s: $F, h: Self) -> Self { s + h }
            fn sub_h(self, o: Self) -> Self { self - o }
            fn sub_s(self, o: $F) -> Self { self - o }
            fn s_sub(s: $F, h: Self) -> Self { s - h }
            fn add_assign_h(self, o: Self) -> Self { let mut a = self; a += o; a }
            fn sub_assign_s(self, o: $F) -> Self { let mut a = self; a -= o; a }
            fn to_u8(self) -> u8 { self.into_format::<u8>().into_inner() }
            fn of_u8(k: u8) -> Self { <$H<$F>>::from_format($H::<u8>::new(k)) }
        }
    };
}
/// the `From` impls between a hue and the OTHER float type
trait CrossConv { fn cross(self) -> f64; }
macro_rules! impl_cross { ($($H:ident),*) => { $(
    impl CrossConv for $H<f32> { fn cross(self) -> f64 { f64::from(self) } }
    impl CrossConv for $H<f64> { fn cross(self) -> f64 { f32::from(self) as f64 } }
)* }; }
impl_cross!(RgbHue, LabHue, LuvHue, OklabHue, Cam16Hue);

macro_rules! impl_api_all { ($($H:ident),*) => { $( impl_api!($H, f32); impl_api!($H, f64); )* }; }
impl_api_all!(RgbHue, LabHue, LuvHue, OklabHue, Cam16Hue);

// ------------------------------------------------------------------------------------------ recording

struct Out {
    rec: Rec,
    counts: BTreeMap<String, u64>,
    panics: u64,
}

impl Out {
    fn ev(&mut self, op: &str, ty: &str, t: &str, m: &str, ins: Vec<Value>, outs: Result<(Vec<Value>, i64), String>, k: i64) {
        *self.counts.entry(op.to_string()).or_insert(0) += 1;
        let mut v = json!({"ev": "hue", "op": op, "ty": ty, "t": t, "m": m, "in": ins, "k": k});
        match outs {
            Ok((o, n)) => {
                v["out"] = Value::Array(o);
                v["n"] = json!(n);
            }
            Err(msg) => {
                self.panics += 1;
                v["out"] = json!([[2, 0]]);
                v["n"] = json!(-9);
                v["panic"] = json!(1);
                v["msg"] = json!(msg);
            }
        }
        self.rec.ev(v);
    }
}

fn nums<F: Fl>(xs: &[F]) -> Vec<Value> { xs.iter().map(|x| x.ex()).collect() }

// one function per event op -----------------------------------------------------------------

fn do_signed<F: Fl, H: HueApi<F>>(o: &mut Out, x: F, m: &str) {
    if m == "fromx" {
        // From<Hue<F>> for the OTHER float type; one side is f32, so TraceHue judges it at f32 precision
        let r = catch(|| H::new(x).convx());
        o.ev("signed", H::NAME, F::NAME, m, nums(&[x]), r.map(|y| (vec![y.ex()], -1)), -1);
        return;
    }
    let r = catch(|| match m {
        "from" => H::new(x).conv(),
        _ => H::new(x).deg(),
    });
    o.ev("signed", H::NAME, F::NAME, m, nums(&[x]), r.map(|y| (nums(&[y]), -1)), -1);
    if m == "from" {
        do_signed::<F, H>(o, x, "fromx");
    }
}
fn do_unsigned<F: Fl, H: HueApi<F>>(o: &mut Out, x: F) {
    let r = catch(|| H::from_degrees(x).pos());
    o.ev("unsigned", H::NAME, F::NAME, "", nums(&[x]), r.map(|y| (nums(&[y]), -1)), -1);
}
fn do_eq<F: Fl, H: HueApi<F>>(o: &mut Out, x1: F, x2: F, m: &str) {
    let r = catch(|| match m {
        "u8" => H::eq_u8((x1.as_f64() / 1.40625).round() as u8, (x2.as_f64() / 1.40625).round() as u8),
        "hs" => H::new(x1).eq_s(x2),
        _ => H::new(x1).eq_h(H::new(x2)),
    });
    o.ev("eq", H::NAME, F::NAME, m, nums(&[x1, x2]), r.map(|b| (vec![], b as i64)), -1);
}
fn do_radians<F: Fl, H: HueApi<F>>(o: &mut Out, x: F, m: &str) {
    let r = catch(|| match m {
        "signed" => (H::new(x).deg(), H::new(x).rad()),
        "positive" => (H::new(x).pos(), H::new(x).posrad()),
        "raw" => (H::new(x).raw(), H::new(x).rawrad()),
        _ => (H::from_radians(x).inner(), x), // "from": x is in radians
    });
    o.ev("radians", H::NAME, F::NAME, m, nums(&[x]), r.map(|(d, r)| (nums(&[d, r]), -1)), -1);
}
fn do_cartesian<F: Fl, H: HueApi<F>>(o: &mut Out, a: F, b: F) {
    let r = catch(|| {
        let h = H::from_cart(a, b);
        let (a2, b2) = h.cart();
        (h.inner(), a2, b2)
    });
    o.ev("cartesian", H::NAME, F::NAME, "", nums(&[a, b]), r.map(|(h, a2, b2)| (nums(&[h, a2, b2]), -1)), -1);
}
fn do_to_u8<F: Fl, H: HueApi<F>>(o: &mut Out, x: F) {
    let r = catch(|| H::new(x).to_u8());
    o.ev("to_u8", H::NAME, F::NAME, "", nums(&[x]), r.map(|n| (vec![], n as i64)), -1);
}
fn do_from_u8<F: Fl, H: HueApi<F>>(o: &mut Out, k: u8) {
    let r = catch(|| {
        let h = H::of_u8(k);
        (h.inner(), h.to_u8())
    });
    o.ev("from_u8", H::NAME, F::NAME, "", vec![], r.map(|(y, n)| (nums(&[y]), n as i64)), k as i64);
}
fn do_addsub<F: Fl, H: HueApi<F>>(o: &mut Out, op: &str, x1: F, x2: F, m: &str) {
    let r = catch(|| match (op, m) {
        ("add", "hh") => H::new(x1).add_h(H::new(x2)).inner(),
        ("add", "hs") => H::new(x1).add_s(x2).inner(),
        ("add", "sh") => H::s_add(x1, H::new(x2)).inner(),
        ("add", "sa") => H::s_add_assign(x1, H::new(x2)),          // scalar += hue
        ("add", _) => H::new(x1).add_assign_h(H::new(x2)).inner(), // "as": +=
        ("sub", "hh") => H::new(x1).sub_h(H::new(x2)).inner(),
        ("sub", "hs") => H::new(x1).sub_s(x2).inner(),
        ("sub", "sh") => H::s_sub(x1, H::new(x2)).inner(),
        ("sub", "sa") => H::s_sub_assign(x1, H::new(x2)),          // scalar -= hue
        _ => H::new(x1).sub_assign_s(x2).inner(), // "as": -=
    });
    o.ev(op, H::NAME, F::NAME, m, nums(&[x1, x2]), r.map(|z| (nums(&[z]), -1)), -1);
}

// ------------------------------------------------------------------------------------------ input families

struct Plan {
    int_n: i64,          // integer angles in +-int_n
    int_norm_stride: i64, // every n-th integer also goes through the normal forms
    int_eq_stride: i64,  // every n-th integer goes through the equality family
    eq_extra_every: usize, // every n-th of those also gets the off-by-a-degree / off-by-an-ulp / reflexive companions
    mult_dense: i64,     // all multiples of 180 up to this index ...
    mult_stride: i64,    // ... then every n-th up to 2^20
    random_n: usize,
    other_scale: usize,  // multiplier for the smaller families
    sweep: bool,
}

fn specials<F: Fl>() -> Vec<F> {
    let base = [0.0, 90.0, 180.0, 270.0, 360.0, 450.0, 540.0, 720.0, 900.0, 1080.0, 3600.0, 36000.0, 999720.0, 999900.0,
                1.0e6, 1048576.0, 1048320.0, 1048500.0, 0.5, 179.5, 180.5, 359.5, 360.5, 1000.0];
    let mut v = vec![F::of(0.0), F::of(-0.0)];
    for &b in base.iter() {
        for s in [1.0, -1.0] {
            let x = F::of(s * b);
            v.push(x);
            v.push(x.up());
            v.push(x.down());
        }
    }
    v
}

fn mult180<F: Fl>(p: &Plan) -> Vec<F> {
    let mut v = vec![];
    let mut m = 1i64;
    while 180 * m <= 1 << 20 {
        for s in [1.0, -1.0] {
            let x = F::of(s * (180 * m) as f64);
            v.push(x.down());
            v.push(x);
            v.push(x.up());
        }
        m += if m < p.mult_dense { 1 } else { p.mult_stride };
    }
    v
}

fn pow2s<F: Fl>() -> Vec<F> {
    let mut v = vec![];
    let mut e = F::MIN_EXP;
    while e <= 20 {
        for s in [1.0, -1.0] {
            let x = F::of(s * 2f64.powi(e));
            v.push(x);
            if e >= -4 {
                v.push(x.up());
                v.push(x.down());
            }
        }
        e += if e < -160 { 61 } else if e < -30 { 3 } else { 1 };
    }
    v
}

fn tiny<F: Fl>() -> Vec<F> {
    let z = F::of(0.0);
    let min_sub = z.up();
    let min_norm = F::pow2(F::MIN_EXP + F::PREC - 1);
    let mut v = vec![min_sub, min_sub.up(), min_norm, min_norm.down(), min_norm.up()];
    for e in [-30, -20, -10, -7, -3] {
        v.push(F::of(10f64.powi(e)));
    }
    let mut w: Vec<F> = v.iter().map(|x| x.neg()).collect();
    v.append(&mut w);
    v
}

fn random_angle<F: Fl>(rng: &mut Sm64) -> F {
    let s = if rng.coin() { 1.0 } else { -1.0 };
    match rng.below(5) {
        0 => F::of(rng.range(-1.0e6, 1.0e6)),
        1 => F::of(rng.range(-720.0, 720.0)),
        2 => {
            // log-uniform magnitude over the whole exponent range up to 2^20
            let e = F::MIN_EXP + rng.below((20 - F::MIN_EXP) as u64 + 1) as i32;
            let x = F::of(s * rng.range(1.0, 2.0) * 2f64.powi(e));
            if x.as_f64().abs() <= 1.0e6 { x } else { F::of(s * 1.0e6) }
        }
        3 => {
            // log-uniform between 1 and 10^6
            F::of(s * 10f64.powf(rng.range(0.0, 6.0)))
        }
        _ => {
            // close to a multiple of 180: a few ulps away
            let m = rng.below(5556) as f64;
            let mut x = F::of(s * 180.0 * m);
            for _ in 0..rng.below(4) { x = if rng.coin() { x.up() } else { x.down() }; }
            x
        }
    }
}

const SHIFTS: [i64; 16] = [1, -1, 2, -2, 3, -3, 7, -7, 10, -13, 50, -50, 99, -99, 100, -100];

// ------------------------------------------------------------------------------------------ drivers

/// everything for one component type; inputs are dealt round-robin to the five hue types
/// (boundary cases go to all five)
fn drive<F: Fl>(o: &mut Out, p: &Plan, seed: u64)
where
    RgbHue<F>: HueApi<F>,
    LabHue<F>: HueApi<F>,
    LuvHue<F>: HueApi<F>,
    OklabHue<F>: HueApi<F>,
    Cam16Hue<F>: HueApi<F>,
{
    macro_rules! on {
        // run $body with H bound to the hue type number $i
        ($i:expr, $H:ident => $body:expr) => {
            match ($i) % 5 {
                0 => { type $H<T> = RgbHue<T>; $body }
                1 => { type $H<T> = LabHue<T>; $body }
                2 => { type $H<T> = LuvHue<T>; $body }
                3 => { type $H<T> = OklabHue<T>; $body }
                _ => { type $H<T> = Cam16Hue<T>; $body }
            }
        };
    }
    let mut rng = Sm64::new(seed ^ (F::PREC as u64) << 32);
    let mut rr: usize = seed as usize; // round-robin counter

    // --- normal forms -----------------------------------------------------------------------
    let edge: Vec<F> = specials::<F>().into_iter().chain(tiny::<F>()).collect();
    for &x in &edge {
        for i in 0..5 {
            on!(i, H => { do_signed::<F, H<F>>(o, x, "deg"); do_unsigned::<F, H<F>>(o, x); });
        }
        on!(rr, H => do_signed::<F, H<F>>(o, x, "from"));
        rr += 1;
    }
    let mut bulk: Vec<F> = mult180::<F>(p);
    bulk.extend(pow2s::<F>());
    for _ in 0..p.random_n { bulk.push(random_angle::<F>(&mut rng)); }
    let mut i = -p.int_n;
    while i <= p.int_n { bulk.push(F::of(i as f64)); i += p.int_norm_stride; }
    for &x in &bulk {
        on!(rr, H => { do_signed::<F, H<F>>(o, x, if rr % 7 == 0 { "from" } else { "deg" }); do_unsigned::<F, H<F>>(o, x); });
        rr += 1;
    }

    // --- equality ---------------------------------------------------------------------------
    // ties, every hue type
    let ties: [(f64, f64); 22] = [(0.0, 360.0), (0.0, -360.0), (360.0, -360.0), (180.0, -180.0), (-0.0, 0.0), (-0.0, 360.0),
        (540.0, 180.0), (-540.0, 180.0), (540.0, -180.0), (-540.0, -540.0), (720.0, 0.0), (-720.0, 360.0), (90.0, -270.0), (270.0, -90.0),
        (0.0, 180.0), (0.0, 1.0), (359.0, -1.0), (360.0, 1.0), (180.0, 181.0), (36000.0, 0.0), (999720.0, 0.0), (-999720.0, 360.0)];
    for &(a, b) in ties.iter() {
        for i in 0..5 {
            on!(i, H => {
                do_eq::<F, H<F>>(o, F::of(a), F::of(b), "hh");
                do_eq::<F, H<F>>(o, F::of(b), F::of(a), "hh");
                do_eq::<F, H<F>>(o, F::of(a), F::of(b), "hs");
            });
        }
    }
    // all integer angles in +-N, each shifted by whole turns (cycling through the shifts up to +-100)
    let mut c = seed as usize;
    for x in (-p.int_n..=p.int_n).step_by(p.int_eq_stride as usize) {
        let k = SHIFTS[c % SHIFTS.len()];
        let x1 = F::of(x as f64);
        let x2 = F::of((x + 360 * k) as f64);
        on!(rr, H => {
            if c % 2 == 0 { do_eq::<F, H<F>>(o, x1, x2, if c % 6 == 0 { "hs" } else { "hh" }); } else { do_eq::<F, H<F>>(o, x2, x1, "hh"); }
            if c % p.eq_extra_every == 3 {
                // one degree off a whole-turn shift: must be unequal; and one ulp off: the specification decides
                do_eq::<F, H<F>>(o, x1, F::of((x + 360 * k + 1) as f64), "hh");
                do_eq::<F, H<F>>(o, x1, x2.up(), "hh");
                do_eq::<F, H<F>>(o, x2.down(), x1, "hh");
                do_eq::<F, H<F>>(o, x1, x1, "hh");
            }
        });
        rr += 1;
        c += 1;
    }
    // non-integer angles on a dyadic grid whose whole-turn shift is exactly representable, and random pairs
    let n_pairs = 400 * p.other_scale;
    let mut made = 0;
    while made < n_pairs {
        let j = rng.below(if F::PREC == 24 { 8 } else { 30 }) as i32;
        let grid = 2f64.powi(-j);
        let x1 = (rng.range(-400.0, 400.0) / grid).round() * grid;
        let k = rng.below(201) as i64 - 100;
        let x2 = x1 + 360.0 * k as f64;
        if !(F::exact(x1) && F::exact(x2)) { continue; }
        on!(rr, H => do_eq::<F, H<F>>(o, F::of(x1), F::of(x2), if made % 5 == 0 { "hs" } else { "hh" }));
        rr += 1;
        made += 1;
    }
    for n in 0..(300 * p.other_scale) {
        // a random angle against itself shifted in floating point (the shifted angle is usually NOT exactly
        // representable: the specification decides which answers are admissible), and against its neighbours
        let x1 = random_angle::<F>(&mut rng);
        let k = rng.below(201) as i64 - 100;
        let x2 = x1.plus(F::of(360.0 * k as f64));
        on!(rr, H => {
            do_eq::<F, H<F>>(o, x1, x2, "hh");
            if n % 3 == 0 { do_eq::<F, H<F>>(o, x1, x1, "hh"); do_eq::<F, H<F>>(o, x1, x1.up(), "hh"); }
            if n % 3 == 1 { do_eq::<F, H<F>>(o, x1, random_angle::<F>(&mut rng), "hh"); }
        });
        rr += 1;
    }

    // --- degrees / radians --------------------------------------------------------------------
    let mut radin: Vec<F> = edge.clone();
    for _ in 0..(220 * p.other_scale) { radin.push(random_angle::<F>(&mut rng)); }
    radin.extend(pow2s::<F>().into_iter().step_by(3));
    for &x in &radin {
        on!(rr, H => {
            do_radians::<F, H<F>>(o, x, "signed");
            do_radians::<F, H<F>>(o, x, "positive");
            do_radians::<F, H<F>>(o, x, "raw");
        });
        // from_radians: an angle given in radians (same magnitudes, scaled)
        let r = F::of(x.as_f64() * (core::f64::consts::PI / 180.0));
        on!(rr, H => do_radians::<F, H<F>>(o, r, "from"));
        rr += 1;
    }
    for &r in &[core::f64::consts::PI, -core::f64::consts::PI, core::f64::consts::FRAC_PI_2, 2.0 * core::f64::consts::PI, 1.0, -1.0, 0.0] {
        for i in 0..5 { on!(i, H => do_radians::<F, H<F>>(o, F::of(r), "from")); }
    }

    // --- cartesian ----------------------------------------------------------------------------
    let big = if F::PREC == 24 { 30 } else { 300 };
    let mags: Vec<f64> = vec![1.0, 1.0e-3, 1.0e3, 10f64.powi(-big / 3), 10f64.powi(big / 3), 0.37, 10f64.powi(-big), 10f64.powi(big), 255.0];
    for d in 0..360 {
        let th = (d as f64).to_radians();
        let m = mags[d % mags.len()];
        let (a, b) = (F::of(m * th.cos()), F::of(m * th.sin()));
        on!(rr, H => do_cartesian::<F, H<F>>(o, a, b));
        rr += 1;
    }
    let unit = [(1.0, 0.0), (-1.0, 0.0), (0.0, 1.0), (0.0, -1.0), (1.0, 1.0), (-1.0, 1.0), (1.0, -1.0), (-1.0, -1.0), (0.0, 0.0), (-0.0, 0.0), (0.0, -0.0), (-0.0, -0.0)];
    for &(a, b) in unit.iter() {
        for &m in mags.iter() {
            on!(rr, H => do_cartesian::<F, H<F>>(o, F::of(m * a), F::of(m * b)));
            rr += 1;
        }
    }
    let z = F::of(0.0);
    let sub = z.up();
    for &(a, b) in [(sub, z), (z, sub), (sub, sub), (sub.neg(), sub), (F::of(1.0), sub), (F::of(-1.0), sub), (F::of(-1.0), sub.neg()),
                    (sub, F::of(1.0)), (F::of(1.0), F::of(1.0).up()), (F::pow2(-F::MIN_EXP.abs() / 2), F::pow2(20))].iter() {
        for i in 0..5 { on!(i, H => do_cartesian::<F, H<F>>(o, a, b)); }
    }
    for _ in 0..(400 * p.other_scale) {
        let th = rng.range(0.0, 2.0 * core::f64::consts::PI);
        let m = 10f64.powf(rng.range(-(big as f64), big as f64));
        // nearly axis-aligned directions now and then
        let th = if rng.below(6) == 0 { (th / core::f64::consts::FRAC_PI_2).round() * core::f64::consts::FRAC_PI_2 + rng.range(-1e-7, 1e-7) } else { th };
        on!(rr, H => do_cartesian::<F, H<F>>(o, F::of(m * th.cos()), F::of(m * th.sin())));
        rr += 1;
    }

    // --- 8-bit hues ---------------------------------------------------------------------------
    for k in 0..=255u8 {
        for i in 0..5 { on!(i, H => do_from_u8::<F, H<F>>(o, k)); }
    }
    if F::PREC == 24 {
        // 8-bit hues compared with each other (AngleEq for u8) and read back as their code: judged by the same equality
        // relation on the exact angles k * 360 / 256 the codes denote
        for k1 in 0..=255u8 {
            for k2 in [k1, k1.wrapping_add(1), k1.wrapping_add(128), 255 - k1, 0] {
                on!(k1 as usize, H => do_eq::<F, H<F>>(o, F::of(k1 as f64 * 1.40625), F::of(k2 as f64 * 1.40625), "u8"));
            }
        }
    }
    let mut u8in: Vec<F> = edge.clone();
    for n in 0..256i64 {
        let centre = F::of(n as f64 * 45.0 / 32.0);
        let bound = F::of((2 * n + 1) as f64 * 45.0 / 64.0); // exactly half way between codes n and n+1
        u8in.extend([centre, centre.up(), centre.down(), bound, bound.up(), bound.down()]);
        // the same points some turns away
        let k = SHIFTS[(n as usize) % SHIFTS.len()] as f64;
        u8in.push(F::of((2 * n + 1) as f64 * 45.0 / 64.0 + 360.0 * k));
        u8in.push(F::of(n as f64 * 45.0 / 32.0 - 360.0 * k));
    }
    let mut x = F::of(360.0);
    for _ in 0..24 { x = x.down(); u8in.push(x); u8in.push(x.neg()); }
    for j in 0..72 { u8in.push(F::of(359.28 + 0.01 * j as f64)); u8in.push(F::of(-0.72 + 0.01 * j as f64)); u8in.push(F::of(719.28 + 0.01 * j as f64)); }
    for d in -360..=720 { u8in.push(F::of(d as f64)); }
    for _ in 0..(400 * p.other_scale) { u8in.push(random_angle::<F>(&mut rng)); }
    for &x in &u8in {
        on!(rr, H => do_to_u8::<F, H<F>>(o, x));
        rr += 1;
    }

    // --- Add / Sub ----------------------------------------------------------------------------
    let modes = ["hh", "hs", "sh", "as", "sa", "hh"];
    let mut n = 0usize;
    let fixed: [(f64, f64); 10] = [(350.0, 20.0), (180.0, 180.0), (-180.0, -180.0), (0.0, 360.0), (1.0e6, 1.0e6), (-1.0e6, 1.0e6), (0.1, 0.2), (359.9, 0.1), (1.0e6, -0.001), (720.0, -1080.0)];
    let mut pairs: Vec<(F, F)> = fixed.iter().map(|&(a, b)| (F::of(a), F::of(b))).collect();
    for _ in 0..(250 * p.other_scale) { pairs.push((random_angle::<F>(&mut rng), random_angle::<F>(&mut rng))); }
    for &(a, b) in &pairs {
        let m = modes[n % 6];
        on!(rr, H => { do_addsub::<F, H<F>>(o, "add", a, b, m); do_addsub::<F, H<F>>(o, "sub", a, b, modes[(n + 1) % 6]); });
        rr += 1;
        n += 1;
    }
}

/// thorough tier: every 2^8-th f32 bit pattern with |x| <= 2^20, both signs, signed and unsigned normal form.
/// Kept: every event whose result fails the cheap check below, plus every 4096th event in full. The cheap check
/// (strict range; an f64 estimate of the residue difference) only selects; TLC judges what is kept.
fn sweep_f32(o: &mut Out, seed: u64) -> (u64, u64) {
    fn ulp32(v: f64) -> f64 { let e = v.abs().max(360.0).log2().floor() as i32; 2f64.powi(e - 23) }
    fn off(x: f32, y: f32) -> bool {
        let d = y as f64 - x as f64;
        let r = d - 360.0 * (d / 360.0).round();
        !(r.abs() <= 0.5 * ulp32(x as f64))
    }
    let top = (1048576.0f32).to_bits();
    let (mut evals, mut kept) = (0u64, 0u64);
    let mut idx = seed % 4096;
    let mut bits = (seed as u32) % 256;
    while bits <= top {
        for sign in [0u32, 0x8000_0000] {
            let x = f32::from_bits(bits | sign);
            macro_rules! one { ($H:ident) => {{
                let ys = $H::new(x).into_degrees();
                let yu = $H::new(x).into_positive_degrees();
                evals += 2;
                let full = idx % 4096 == 0;
                if full || !(ys >= -180.0 && ys <= 180.0) || off(x, ys) { do_signed::<f32, $H<f32>>(o, x, "deg"); kept += 1; }
                if full || !(yu >= 0.0 && yu <= 360.0) || off(x, yu) { do_unsigned::<f32, $H<f32>>(o, x); kept += 1; }
            }}; }
            match idx % 5 { 0 => one!(RgbHue), 1 => one!(LabHue), 2 => one!(LuvHue), 3 => one!(OklabHue), _ => one!(Cam16Hue) }
            idx += 1;
        }
        bits += 256;
    }
    (evals, kept)
}

/// replay: re-execute one recorded call on the current tree
fn run_one(o: &mut Out, e: &Value) {
    fn val<F: Fl>(j: &Value) -> F {
        let a = j.as_array().expect("exact number");
        let s = a[0].as_i64().unwrap();
        if s == 2 { return F::of(f64::NAN); }
        if s == 3 || s == -3 { return F::of(s as f64 * f64::INFINITY); }
        let q = a[1].as_i64().unwrap() as i32;
        let mut m = 0f64;
        for (i, l) in a[2..].iter().enumerate() { m += l.as_f64().unwrap() * 2f64.powi(13 * i as i32); }
        // all recorded inputs are values of F, so this product is exact
        F::of(s as f64 * m * 2f64.powi(13 * q))
    }
    if e["m"].as_str().unwrap_or("").starts_with("get_hue") {
        let mut r = Sm64::new(1);
        if e["t"].as_str().unwrap() == "f32" { get_hue_events32(o, &mut r, 0) } else { get_hue_events64(o, &mut r, 0) }
        return;
    }
    fn go<F: Fl, H: HueApi<F>>(o: &mut Out, e: &Value) {
        let ins: Vec<F> = e["in"].as_array().unwrap().iter().map(|j| val::<F>(j)).collect();
        let m = e["m"].as_str().unwrap_or("");
        match e["op"].as_str().unwrap() {
            "signed" => do_signed::<F, H>(o, ins[0], m),
            "unsigned" => do_unsigned::<F, H>(o, ins[0]),
            "eq" => do_eq::<F, H>(o, ins[0], ins[1], m),
            "radians" => do_radians::<F, H>(o, ins[0], m),
            "cartesian" => do_cartesian::<F, H>(o, ins[0], ins[1]),
            "to_u8" => do_to_u8::<F, H>(o, ins[0]),
            "from_u8" => do_from_u8::<F, H>(o, e["k"].as_i64().unwrap() as u8),
            op @ ("add" | "sub") => do_addsub::<F, H>(o, op, ins[0], ins[1], m),
            other => panic!("unknown op {}", other),
        }
    }
    macro_rules! pick { ($F:ty) => { match e["ty"].as_str().unwrap() {
        "RgbHue" => go::<$F, RgbHue<$F>>(o, e), "LabHue" => go::<$F, LabHue<$F>>(o, e), "LuvHue" => go::<$F, LuvHue<$F>>(o, e),
        "OklabHue" => go::<$F, OklabHue<$F>>(o, e), _ => go::<$F, Cam16Hue<$F>>(o, e) } }; }
    if e["t"].as_str().unwrap() == "f32" { pick!(f32) } else { pick!(f64) }
}

// ------------------------------------------------------------------------------------------ GetHue
// The hue of a colour as the library reports it (GetHue): for the rectangular types it is built from the colour's own
// cartesian pair (a*, b*), (u*, v*), Oklab (a, b), CAM16-UCS (a', b') - recorded as a "cartesian" event, mode "get_hue",
// and judged like from_cartesian; for the polar types it is the stored hue - recorded as an "eq" event with n = 1, mode
// "get_hue" (the reported angle must not differ from the stored one by more than rounding modulo 360).  The same through
// the Alpha wrapper.
macro_rules! get_hue_events {
    ($fname:ident, $F:ty) => {
        fn $fname(o: &mut Out, rng: &mut Sm64, n: usize) {
            use palette::{GetHue, Hsl, Hsv, Lab, Laba, Lch, Lcha, Luv, Oklab, Oklch, Alpha};
            use palette::cam16::Cam16UcsJmh;
            use palette::white_point::D65;
            type F = $F;
            let tn = <F as Ex>::NAME;
            let mut pairs: Vec<(F, F)> = vec![(1.0, 0.0), (0.0, 1.0), (-1.0, 0.0), (0.0, -1.0), (3.0, 4.0), (-5.0, 12.0), (1e-6, -1e-6), (100.0, -0.001)];
            for _ in 0..n { pairs.push((rng.range(-120.0, 120.0) as F, rng.range(-120.0, 120.0) as F)); }
            for (i, &(a, b)) in pairs.iter().enumerate() {
                macro_rules! rect { ($ty:expr, $mk:expr, $mka:expr) => {{
                    let r = catch(|| { let h = $mk.get_hue(); let (a2, b2) = h.into_cartesian(); (h.into_inner(), a2, b2) });
                    o.ev("cartesian", $ty, tn, "get_hue", nums(&[a, b]), r.map(|(h, a2, b2)| (nums(&[h, a2, b2]), -1)), -1);
                    let r = catch(|| { let h = $mka.get_hue(); let (a2, b2) = h.into_cartesian(); (h.into_inner(), a2, b2) });
                    o.ev("cartesian", $ty, tn, "get_hue_alpha", nums(&[a, b]), r.map(|(h, a2, b2)| (nums(&[h, a2, b2]), -1)), -1);
                }}; }
                match i % 4 {
                    0 => rect!("LabHue", Lab::<D65, F>::new(50.0, a, b), Laba::<D65, F>::new(50.0, a, b, 0.5)),
                    1 => rect!("LuvHue", Luv::<D65, F>::new(50.0, a, b), Alpha { color: Luv::<D65, F>::new(50.0, a, b), alpha: 0.5 as F }),
                    2 => rect!("OklabHue", Oklab::<F>::new(0.5, a / 300.0, b / 300.0), Alpha { color: Oklab::<F>::new(0.5, a / 300.0, b / 300.0), alpha: 0.5 as F }),
                    _ => rect!("LabHue", Lab::<D65, F>::new(0.0, a / 3.0, b / 3.0), Laba::<D65, F>::new(100.0, a / 3.0, b / 3.0, 1.0)),
                }
            }
            // the cartesian inputs of the two scaled types are the scaled values: log what was really given
            let hs: [F; 10] = [0.0, 37.5, 180.0, -180.0, 359.5, 360.0, 725.25, -1000.5, 90.0, 270.0];
            for (i, &h) in hs.iter().enumerate() {
                macro_rules! polar { ($ty:expr, $mk:expr, $mka:expr) => {{
                    let r = catch(|| $mk.get_hue().into_inner());
                    o.ev("eq", $ty, tn, "get_hue", match &r { Ok(g) => nums(&[h, *g]), Err(_) => nums(&[h, h]) }, r.map(|_| (vec![], 1)), -1);
                    let r = catch(|| $mka.get_hue().into_inner());
                    o.ev("eq", $ty, tn, "get_hue_alpha", match &r { Ok(g) => nums(&[h, *g]), Err(_) => nums(&[h, h]) }, r.map(|_| (vec![], 1)), -1);
                }}; }
                match i % 5 {
                    0 => polar!("LabHue", Lch::<D65, F>::new(50.0, 20.0, h), Lcha::<D65, F>::new(50.0, 20.0, h, 0.5)),
                    1 => polar!("OklabHue", Oklch::<F>::new(0.5, 0.1, h), Alpha { color: Oklch::<F>::new(0.5, 0.1, h), alpha: 0.5 as F }),
                    2 => polar!("RgbHue", Hsv::<palette::encoding::Srgb, F>::new(h, 0.5, 0.5), Alpha { color: Hsv::<palette::encoding::Srgb, F>::new(h, 0.5, 0.5), alpha: 0.5 as F }),
                    3 => polar!("RgbHue", Hsl::<palette::encoding::Srgb, F>::new(h, 0.5, 0.5), Alpha { color: Hsl::<palette::encoding::Srgb, F>::new(h, 0.5, 0.5), alpha: 0.5 as F }),
                    _ => polar!("Cam16Hue", Cam16UcsJmh::<F>::new(50.0, 20.0, h), Alpha { color: Cam16UcsJmh::<F>::new(50.0, 20.0, h), alpha: 0.5 as F }),
                }
            }
        }
    };
}
get_hue_events!(get_hue_events32, f32);
get_hue_events!(get_hue_events64, f64);

fn main() {
    let out = arg_or("--out", "-");
    let mut o = Out { rec: Rec::create(&out), counts: BTreeMap::new(), panics: 0 };
    if let Some(one) = arg("--one") {
        let e: Value = serde_json::from_str(&one).expect("event json");
        run_one(&mut o, &e);
        o.rec.finish();
        return;
    }
    let seed = seed_from_env();
    let thorough = arg_or("--tier", "quick") == "thorough";
    let (p32, p64) = if thorough {
        (Plan { int_n: 100_000, int_norm_stride: 16, int_eq_stride: 1, eq_extra_every: 32, mult_dense: 1 << 30, mult_stride: 1, random_n: 25_000, other_scale: 4, sweep: true },
         Plan { int_n: 100_000, int_norm_stride: 64, int_eq_stride: 4, eq_extra_every: 32, mult_dense: 60, mult_stride: 5, random_n: 25_000, other_scale: 4, sweep: false })
    } else {
        (Plan { int_n: 2000, int_norm_stride: 5, int_eq_stride: 1, eq_extra_every: 8, mult_dense: 40, mult_stride: 97, random_n: 2200, other_scale: 1, sweep: false },
         Plan { int_n: 2000, int_norm_stride: 5, int_eq_stride: 1, eq_extra_every: 8, mult_dense: 40, mult_stride: 97, random_n: 2200, other_scale: 1, sweep: false })
    };
    drive::<f32>(&mut o, &p32, seed);
    drive::<f64>(&mut o, &p64, seed);
    let mut grng = Sm64::new(seed ^ 0x6e7);
    get_hue_events32(&mut o, &mut grng, 40 * p32.other_scale);
    get_hue_events64(&mut o, &mut grng, 40 * p64.other_scale);
    let mut sweep = (0u64, 0u64);
    if p32.sweep { sweep = sweep_f32(&mut o, seed); }
    let counts = o.counts.clone();
    let panics = o.panics;
    let n = o.rec.finish();
    eprintln!("{}", json!({"events": n, "per_op": counts, "panics": panics, "sweep_evaluations": sweep.0, "sweep_kept": sweep.1}));
}
