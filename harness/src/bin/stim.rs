//! C06 driver: palette's component number-format conversion (`stimulus::{IntoStimulus, FromStimulus}` and the
//! `into_format` / `from_format` of Rgb, Rgba, Luma, Lumaa) for every ordered pair of the seven formats
//! u8, u16, u32, u64, u128, f32, f64, on enumerated, boundary and seeded random inputs, plus (thorough tier)
//! exhaustive sweeps of f32 -> u8/u16 and u32 -> u8/u16 recorded as runs of equal output.
//! One NDJSON event per call with the exact values of input and output; judging is done by TLC
//! (spec/trace/TraceStimulus.tla) - nothing here decides the property.
//!
//! usage: stim --tier quick|thorough --out trace.ndjson [--sweep] [--threads n]     (VERIF_SEED)
//!        stim --cases cases.json --out trace.ndjson       cases handed over by the model (MC_Stimulus REPLAY lines)
//!        stim --one '<event json>' --out trace.ndjson     re-execute one recorded event on the current tree (replay)
//!
//! Event layouts: see TraceStimulus.tla. A panic inside palette is data: "panic":1 and NaN outputs.

use palette::encoding::Srgb;
use palette::luma::Luma;
use palette::rgb::Rgb;
use palette::stimulus::{FromStimulus, IntoStimulus};
use palette::Alpha;
use pvh::*;
use serde_json::{json, Value};
use std::collections::BTreeMap;
use std::sync::atomic::{AtomicUsize, Ordering};
use std::sync::Mutex;

// ------------------------------------------------------------------------------------------ formats

const NAMES: [&str; 7] = ["u8", "u16", "u32", "u64", "u128", "f32", "f64"];

fn width_of(name: &str) -> u32 {
    match name { "u8" => 8, "u16" => 16, "u32" => 32, "u64" => 64, "u128" => 128, _ => 0 }
}
fn max_of(name: &str) -> u128 {
    match width_of(name) { 128 => u128::MAX, w => (1u128 << w) - 1 }
}

fn dec_u128(j: &Value) -> u128 {
    let a = j.as_array().expect("number");
    let s = a[0].as_i64().unwrap();
    assert!(s == 0 || s == 1, "not a natural: {}", j);
    assert!(a[1].as_i64().unwrap() == 0);
    let mut m = 0u128;
    for (i, l) in a[2..].iter().enumerate() {
        m |= (l.as_u64().unwrap() as u128) << (13 * i as u32);
    }
    m
}

fn dec_f64(j: &Value) -> f64 {
    let a = j.as_array().expect("number");
    let s = a[0].as_i64().unwrap();
    match s {
        2 => return f64::NAN,
        3 => return f64::INFINITY,
        -3 => return f64::NEG_INFINITY,
        0 => return 0.0,
        _ => {}
    }
    let q = a[1].as_i64().unwrap() as i32;
    let mut m = 0u128;
    for (i, l) in a[2..].iter().enumerate() {
        m |= (l.as_u64().unwrap() as u128) << (13 * i as u32);
    }
    let e = 13 * q;
    // two exact scalings by powers of two (one could leave the exponent range half way)
    let x = (m as f64) * 2f64.powi(e / 2) * 2f64.powi(e - e / 2);
    let x = if s < 0 { -x } else { x };
    assert!(ex64(x) == canonical(j), "float {} does not decode exactly", j);
    x
}

/// 2^e as f64 for -1074 <= e <= 1023
fn pow2(e: i32) -> f64 {
    if e >= -1022 { f64::from_bits(((e + 1023) as u64) << 52) } else { f64::from_bits(1u64 << (e + 1074)) }
}

/// canonical form of a finite non-zero logged number (the model may print a non-canonical one)
fn canonical(j: &Value) -> Value {
    let a = j.as_array().unwrap();
    let s = a[0].as_i64().unwrap();
    let q = a[1].as_i64().unwrap() as i32;
    let mut m = 0u128;
    for (i, l) in a[2..].iter().enumerate() {
        m |= (l.as_u64().unwrap() as u128) << (13 * i as u32);
    }
    ex_parts(s < 0, m, 13 * q)
}

trait Fmt: Ex + Copy + PartialOrd + Send + Sync + 'static {
    fn dec(j: &Value) -> Self;
    fn isnan(self) -> bool;
    /// a key that sorts like the value (NaN last; -0.0 before +0.0)
    fn key(self) -> (u8, i128, u128);
    fn inputs(g: &mut Gen, to: &str) -> Vec<Self>;
}

macro_rules! fmt_uint {
    ($($t:ident),*) => {$(
        impl Fmt for $t {
            fn dec(j: &Value) -> Self { let v = dec_u128(j); assert!(v <= $t::MAX as u128); v as $t }
            fn isnan(self) -> bool { false }
            fn key(self) -> (u8, i128, u128) { (0, 0, self as u128) }
            fn inputs(g: &mut Gen, _to: &str) -> Vec<Self> { g.uints(stringify!($t)).into_iter().map(|v| v as $t).collect() }
        }
    )*};
}
fmt_uint!(u8, u16, u32, u64, u128);

macro_rules! fmt_float {
    ($t:ident, $b:ident) => {
        impl Fmt for $t {
            fn dec(j: &Value) -> Self {
                let x = dec_f64(j);
                assert!(x.is_nan() || (x as $t) as f64 == x, "{} is not a {}", j, stringify!($t));
                x as $t
            }
            fn isnan(self) -> bool { self.is_nan() }
            fn key(self) -> (u8, i128, u128) {
                if self.is_nan() { return (1, 0, self.to_bits() as u128); }
                let b = self.to_bits();
                let mag = (b & ($b::MAX >> 1)) as i128;
                (0, if b >> ($b::BITS - 1) != 0 { -mag - 1 } else { mag }, 0)
            }
            fn inputs(g: &mut Gen, to: &str) -> Vec<Self> { g.floats::<$t>(to) }
        }
    };
}
fmt_float!(f32, u32);
fmt_float!(f64, u64);

trait Fl: Fmt {
    const PREC: i32;
    const MIN_EXP: i32; // log2 of the smallest positive value
    const MAX_EXP: i32; // log2 of the largest power of two
    fn of(x: f64) -> Self;
    fn up(self) -> Self;
    fn down(self) -> Self;
    fn random_bits(r: &mut Sm64) -> Self;
    fn specials() -> Vec<Self>;
}
macro_rules! impl_fl {
    ($t:ident, $b:ident, $prec:expr, $minexp:expr, $maxexp:expr) => {
        impl Fl for $t {
            const PREC: i32 = $prec;
            const MIN_EXP: i32 = $minexp;
            const MAX_EXP: i32 = $maxexp;
            fn of(x: f64) -> Self { x as $t }
            fn up(self) -> Self {
                if self.is_nan() || self == $t::INFINITY { return self; }
                if self == 0.0 { return $t::from_bits(1); }
                let b = self.to_bits();
                if self > 0.0 { $t::from_bits(b + 1) } else { $t::from_bits(b - 1) }
            }
            fn down(self) -> Self { -((-self).up()) }
            fn random_bits(r: &mut Sm64) -> Self { $t::from_bits(r.next() as $b) }
            fn specials() -> Vec<Self> {
                vec![$t::NAN, -$t::NAN, $t::from_bits(($b::MAX >> 1) - 5), $t::INFINITY, $t::NEG_INFINITY, 0.0, -0.0,
                     $t::from_bits(1), -$t::from_bits(1), $t::MIN_POSITIVE, -$t::MIN_POSITIVE, $t::MIN_POSITIVE.down(),
                     $t::MAX, $t::MIN, $t::MAX.down(), $t::EPSILON, -$t::EPSILON, 1.0, (1.0 as $t).up(), (1.0 as $t).down(),
                     -1.0, 0.5, 2.0]
            }
        }
    };
}
impl_fl!(f32, u32, 24, -149, 127);
impl_fl!(f64, u64, 53, -1074, 1023);

// ------------------------------------------------------------------------------------------ inputs

struct Plan {
    thorough: bool,
    rand_unit: usize,   // random floats in [-0.5, 1.5]
    rand_bits: usize,   // random bit patterns
    k255_other: usize,  // stride of the k/255 lattice for targets other than u8
    k65535: usize,      // number of k/65535 lattice points (0 = all)
    kwide: usize,       // lattice points for the wider targets
    u16_stride: u32,    // u16 sources: every n-th value besides the structured ones (1 = all)
    rand_uint: usize,   // random wide integers
    fmt_n: usize,       // colour-type events per pair and shape
}

struct Gen {
    plan: Plan,
    rng: Sm64,
}

impl Gen {
    fn uints(&mut self, name: &str) -> Vec<u128> {
        let w = width_of(name);
        let max = max_of(name);
        let mut v: Vec<u128> = vec![0, 1, 2, 3, max, max - 1, max - 2, max / 2, max / 2 + 1, max / 3, max / 255, max / 255 * 128];
        if w == 8 {
            return (0..=255).collect();
        }
        if w == 16 && self.plan.u16_stride == 1 {
            return (0..=65535).collect();
        }
        // powers of two and their neighbours
        for b in 0..w {
            if w > 32 && !(b % 4 == 0 || [23, 24, 25, 31, 33, 52, 53, 54, 63, 65, 127].contains(&b)) { continue; }
            let p = 1u128 << b;
            v.extend([p - 1, p, p + 1]);
        }
        // images of the narrower formats under widening (exactly representable codes), and their neighbours
        for nw in [8u32, 16, 32, 64] {
            if nw >= w { break; }
            let unit = max / max_of(match nw { 8 => "u8", 16 => "u16", 32 => "u32", _ => "u64" });
            let ks: Vec<u128> = if nw == 8 {
                if self.plan.thorough { (0..=255).collect() } else { (0..=255).filter(|k| k % 5 == 0 || [1, 2, 127, 128, 254].contains(k)).collect() }
            } else {
                let m = max_of(match nw { 16 => "u16", 32 => "u32", _ => "u64" });
                let mut ks = vec![0, 1, 2, m / 2, m / 2 + 1, m - 1, m];
                for _ in 0..(if self.plan.thorough { 400 } else { 6 }) { ks.push(self.rng.next() as u128 & m); }
                ks
            };
            for k in ks {
                let x = k * unit;
                v.push(x);
                if x > 0 { v.push(x - 1); }
                if x < max { v.push(x + 1); }
                // half way between two images: the rounding tie of the narrowing conversion
                if k < max_of(match nw { 8 => "u8", 16 => "u16", 32 => "u32", _ => "u64" }) {
                    let h = x + unit / 2;
                    v.extend([h, h + 1]);
                }
            }
        }
        if w == 16 {
            let mut x = 0u32;
            while x <= 65535 { v.push(x as u128); x += self.plan.u16_stride; }
        }
        for i in 0..self.plan.rand_uint {
            let r = ((self.rng.next() as u128) << 64) | self.rng.next() as u128;
            // uniform bits, or a random bit length
            v.push(if i % 2 == 0 { r & max } else { (r & max) >> self.rng.below(w as u64) as u32 });
        }
        v
    }

    fn floats<F: Fl>(&mut self, to: &str) -> Vec<F> {
        let p = &self.plan;
        let mut v: Vec<F> = F::specials();
        // huge magnitudes, the thresholds of the magic-number trick, both signs
        let mut huge: Vec<f64> = vec![8388608.0, 16777216.0, 4503599627370496.0, 9007199254740992.0, 1.0e10, 4.0e4, 1.0e20, 800.0,
                                      255.0, 256.0, 65535.0, 65536.0, 4294967295.0, 4294967296.0, 18446744073709551616.0,
                                      3.4028236692093846e38, 1.0e30, 0.26, 0.3, 1.4, 1.5, 128.0, 129.0, 32896.0, 32897.0];
        if F::PREC == 53 { huge.extend([1.0e300, 1.0e-300, 1.0e100, 3.5e38]); }
        for name in ["u8", "u16", "u32", "u64", "u128"] {
            let m = max_of(name) as f64;
            for c in [8388608.0, 4503599627370496.0] {
                huge.extend([c / m, 2.0 * c / m, 1000.0 * c / m, 0.999 * c / m]);
            }
        }
        for h in huge {
            for s in [1.0, -1.0] {
                let x = F::of(s * h);
                v.extend([x, x.up(), x.down()]);
            }
        }
        // powers of two
        let mut e = F::MIN_EXP;
        while e <= F::MAX_EXP {
            let x = F::of(pow2(e));
            v.extend([x, F::of(-pow2(e))]);
            if e >= -70 && e <= 70 && e % 4 == 0 { v.extend([x.down(), x.up()]); }
            e += if e >= -70 && e < 70 || p.thorough { 1 } else if F::PREC == 24 { 7 } else { 31 };
        }
        // the target's own lattice k / MAX and the rounding ties (k + 1/2) / MAX, each with both neighbours
        if width_of(to) > 0 {
            let max = max_of(to);
            let mf = max as f64;
            let ks: Vec<u128> = match to {
                "u8" => (0..=255).collect(),
                "u16" => {
                    if p.k65535 == 0 { (0..=65535).collect() } else {
                        let mut ks: Vec<u128> = vec![0, 1, 2, 127, 128, 255, 256, 257, 32767, 32768, 65533, 65534, 65535];
                        for _ in 0..p.k65535 { ks.push(self.rng.below(65536) as u128); }
                        ks
                    }
                }
                _ => {
                    let mut ks: Vec<u128> = vec![0, 1, 2, 3, max / 2, max / 2 + 1, max - 2, max - 1, max];
                    for b in [8u32, 16, 23, 24, 31, 32, 52, 53, 54, 63, 64, 100, 127] {
                        if b < width_of(to) { ks.extend([(1u128 << b) - 1, 1u128 << b, (1u128 << b) + 1]); }
                    }
                    for _ in 0..self.plan.kwide {
                        let r = ((self.rng.next() as u128) << 64) | self.rng.next() as u128;
                        ks.push((r & max) >> self.rng.below(width_of(to) as u64) as u32);
                    }
                    ks
                }
            };
            for k in ks {
                let kf = k as f64;
                for x in [F::of(kf / mf), F::of((kf + 0.5) / mf), F::of((kf - 0.5) / mf)] {
                    v.extend([x, x.up(), x.down()]);
                }
            }
            if to != "u8" {
                for k in (0..=255usize).step_by(self.plan.k255_other) {
                    for x in [F::of(k as f64 / 255.0), F::of((k as f64 + 0.5) / 255.0)] {
                        v.extend([x, x.up(), x.down()]);
                    }
                }
            }
        }
        for _ in 0..self.plan.rand_unit { v.push(F::of(self.rng.range(-0.5, 1.5))); }
        for _ in 0..self.plan.rand_unit / 4 { v.push(F::of(self.rng.range(0.0, 1.0) * pow2(-(self.rng.below(70) as i32)))); }
        for _ in 0..self.plan.rand_bits { v.push(F::random_bits(&mut self.rng)); }
        v
    }
}

fn sort_dedup<A: Fmt>(v: &mut Vec<A>) {
    v.sort_by(|a, b| a.key().cmp(&b.key()));
    v.dedup_by(|a, b| a.key() == b.key());
}

// ------------------------------------------------------------------------------------------ recording

struct Out {
    rec: Rec,
    counts: BTreeMap<String, u64>,
    per_pair: BTreeMap<String, u64>,
    panics: u64,
}

impl Out {
    fn ev(&mut self, kind: &str, pair: Option<(&str, &str)>, v: Value) {
        *self.counts.entry(kind.to_string()).or_insert(0) += 1;
        if let Some((a, b)) = pair { *self.per_pair.entry(format!("{}->{}", a, b)).or_insert(0) += 1; }
        if v.get("panic").and_then(|p| p.as_i64()) == Some(1) { self.panics += 1; }
        self.rec.ev(v);
    }
}

fn nan() -> Value { json!([2, 0]) }

fn conv<A: Fmt + IntoStimulus<B>, B: Fmt>(x: A) -> Result<B, String> { catch(|| IntoStimulus::<B>::into_stimulus(x)) }
fn conv_from<A: Fmt, B: Fmt + FromStimulus<A>>(x: A) -> Result<B, String> { catch(|| B::from_stimulus(x)) }

fn ev_stim<A: Fmt + IntoStimulus<B>, B: Fmt>(o: &mut Out, x: A) -> Option<B> {
    let r = conv::<A, B>(x);
    let mut v = json!({"ev": "stim", "from": A::NAME, "to": B::NAME, "in": x.ex(), "panic": 0});
    match &r {
        Ok(y) => v["out"] = y.ex(),
        Err(m) => { v["out"] = nan(); v["panic"] = json!(1); v["msg"] = json!(m); }
    }
    o.ev("stim", Some((A::NAME, B::NAME)), v);
    r.ok()
}

fn ev_pair<A: Fmt, B: Fmt>(o: &mut Out, x1: A, y1: B, x2: A, y2: B) {
    o.ev("pair", None, json!({"ev": "pair", "from": A::NAME, "to": B::NAME, "in1": x1.ex(), "out1": y1.ex(), "in2": x2.ex(), "out2": y2.ex()}));
}

/// a -> b -> a through FromStimulus
fn ev_rt<A: Fmt + FromStimulus<B>, B: Fmt + FromStimulus<A>>(o: &mut Out, x: A) {
    let r = catch(|| { let m = B::from_stimulus(x); (m, A::from_stimulus(m)) });
    let mut v = json!({"ev": "rt", "a": A::NAME, "b": B::NAME, "in": x.ex(), "panic": 0});
    match r {
        Ok((m, y)) => { v["mid"] = m.ex(); v["out"] = y.ex(); }
        Err(m) => { v["mid"] = nan(); v["out"] = nan(); v["panic"] = json!(1); v["msg"] = json!(m); }
    }
    o.ev("rt", None, v);
}

fn rt_required(a: &str, b: &str) -> bool {
    // which round trips the harness records; whether they are demanded is the specification's business (RTRequired),
    // recording a pair the statement does not demand would be rejected there
    let (wa, wb) = (width_of(a), width_of(b));
    (wa == 8 || wa == 16 || wa == 32) && ((wb > wa) || (b == "f32" && wa <= 16) || b == "f64")
}

/// colour types: `shape` 0 Rgb, 1 Rgba, 2 Luma, 3 Lumaa; via "into" (into_format) or "from" (from_format)
fn ev_fmt<A: Fmt, B: Fmt + FromStimulus<A>>(o: &mut Out, shape: usize, via: &str, xs: &[A]) {
    let into = via == "into";
    let cw: Result<Vec<B>, String> = xs.iter().map(|&x| conv_from::<A, B>(x)).collect();
    let r: Result<Vec<B>, String> = catch(|| match shape {
        0 => {
            let c = Rgb::<Srgb, A>::new(xs[0], xs[1], xs[2]);
            let d: Rgb<Srgb, B> = if into { c.into_format() } else { Rgb::from_format(c) };
            vec![d.red, d.green, d.blue]
        }
        1 => {
            let c = Alpha { color: Rgb::<Srgb, A>::new(xs[0], xs[1], xs[2]), alpha: xs[3] };
            let d: Alpha<Rgb<Srgb, B>, B> = if into { c.into_format() } else { Alpha::<Rgb<Srgb, B>, B>::from_format(c) };
            vec![d.color.red, d.color.green, d.color.blue, d.alpha]
        }
        2 => {
            let c = Luma::<Srgb, A>::new(xs[0]);
            let d: Luma<Srgb, B> = if into { c.into_format() } else { Luma::from_format(c) };
            vec![d.luma]
        }
        _ => {
            let c = Alpha { color: Luma::<Srgb, A>::new(xs[0]), alpha: xs[1] };
            let d: Alpha<Luma<Srgb, B>, B> = if into { c.into_format() } else { Alpha::<Luma<Srgb, B>, B>::from_format(c) };
            vec![d.color.luma, d.alpha]
        }
    });
    let ty = ["Rgb", "Rgba", "Luma", "Lumaa"][shape];
    let mut v = json!({"ev": "fmt", "ty": ty, "via": via, "from": A::NAME, "to": B::NAME, "in": ex_arr(xs), "panic": 0});
    match (r, cw) {
        (Ok(out), Ok(cw)) => { v["out"] = ex_arr(&out); v["cw"] = ex_arr(&cw); }
        (r, cw) => {
            v["out"] = json!([]); v["cw"] = json!([]); v["panic"] = json!(1);
            v["msg"] = json!(r.err().or(cw.err()).unwrap_or_default());
        }
    }
    o.ev("fmt", None, v);
}
const SHAPE_LEN: [usize; 4] = [3, 4, 1, 2];

// ------------------------------------------------------------------------------------------ one ordered pair

struct PairOps {
    from: &'static str,
    to: &'static str,
    bulk: fn(&mut Out, &mut Gen),
    one_stim: fn(&mut Out, &Value),
    one_pair: fn(&mut Out, &Value, &Value),
    one_rt: fn(&mut Out, &Value),
    one_fmt: fn(&mut Out, usize, &str, &Value),
}

fn bulk<A: Fmt + IntoStimulus<B> + FromStimulus<B>, B: Fmt + FromStimulus<A>>(o: &mut Out, g: &mut Gen) {
    let mut xs: Vec<A> = A::inputs(g, B::NAME);
    sort_dedup(&mut xs);
    if A::NAME == B::NAME && !g.plan.thorough {
        // the identity conversion: a quarter of the inputs will do
        xs = xs.into_iter().enumerate().filter(|(i, _)| i % 4 == 0).map(|(_, x)| x).collect();
    }
    let mut prev: Option<(A, B)> = None;
    for &x in &xs {
        let y = ev_stim::<A, B>(o, x);
        if let (Some(y), false) = (y, x.isnan()) {
            if let Some((px, py)) = prev { if A::NAME != B::NAME { ev_pair(o, px, py, x, y); } }
            prev = Some((x, y));
        }
    }
    if rt_required(A::NAME, B::NAME) {
        for &x in &xs { ev_rt::<A, B>(o, x); }
    }
    // colour types on picks from the same inputs
    let n = g.plan.fmt_n;
    for shape in 0..4 {
        for i in 0..(if shape == 0 { 2 * n } else { n }) {
            let comps: Vec<A> = (0..SHAPE_LEN[shape]).map(|_| *g.rng.pick(&xs)).collect();
            ev_fmt::<A, B>(o, shape, if i % 3 == 2 { "from" } else { "into" }, &comps);
        }
    }
}

fn ops<A: Fmt + IntoStimulus<B> + FromStimulus<B>, B: Fmt + FromStimulus<A>>() -> PairOps {
    PairOps {
        from: A::NAME,
        to: B::NAME,
        bulk: bulk::<A, B>,
        one_stim: |o, j| { ev_stim::<A, B>(o, A::dec(j)); },
        one_pair: |o, j1, j2| {
            let (x1, x2) = (A::dec(j1), A::dec(j2));
            if let (Ok(y1), Ok(y2)) = (conv::<A, B>(x1), conv::<A, B>(x2)) { ev_pair(o, x1, y1, x2, y2); } else { ev_stim::<A, B>(o, x1); ev_stim::<A, B>(o, x2); }
        },
        one_rt: |o, j| ev_rt::<A, B>(o, A::dec(j)),
        one_fmt: |o, shape, via, j| {
            let xs: Vec<A> = j.as_array().unwrap().iter().map(A::dec).collect();
            ev_fmt::<A, B>(o, shape, via, &xs);
        },
    }
}

fn registry() -> Vec<PairOps> {
    let mut v = vec![];
    macro_rules! reg { ($($a:ident),*) => { $( reg!(@row $a; u8, u16, u32, u64, u128, f32, f64); )* };
                       (@row $a:ident; $($b:ident),*) => { $( v.push(ops::<$a, $b>()); )* }; }
    reg!(u8, u16, u32, u64, u128, f32, f64);
    v
}

// ------------------------------------------------------------------------------------------ exhaustive sweeps

/// position on the ordered f32 line -> bit pattern (0 = -inf .. 0x7f800000 = -0.0, 0x7f800001 = +0.0 .. 0xff000001 = +inf)
#[inline]
fn f32_at(idx: u64) -> f32 {
    if idx <= 0x7f80_0000 { f32::from_bits(0x8000_0000 | (0x7f80_0000 - idx as u32)) } else { f32::from_bits((idx - 0x7f80_0001) as u32) }
}
const F32_LINE: u64 = 0xff00_0002;
const U32_LINE: u64 = 1 << 32;

struct BlockRes {
    runs: Vec<(u64, u64, u32)>, // first, last, code
    cut: bool,
    dec: u64,
    nruns: u64,
    last: (u64, u64, u32),
    panic: Option<String>,
}

const DEC_CAP: u64 = 24;

fn sweep_block(f: &(dyn Fn(u64) -> u32 + Sync), lo: u64, hi: u64, run_cap: usize) -> BlockRes {
    let mut r = BlockRes { runs: vec![], cut: false, dec: 0, nruns: 0, last: (lo, lo, 0), panic: None };
    let res = catch(|| {
        let mut cur = (lo, lo, f(lo));
        for i in (lo + 1)..hi {
            let c = f(i);
            if c != cur.2 {
                r.nruns += 1;
                if !r.cut { r.runs.push(cur); }
                if c < cur.2 { r.dec += 1; }
                if r.dec > DEC_CAP || r.runs.len() > run_cap { r.cut = true; }
                cur = (i, i, c);
            } else {
                cur.1 = i;
            }
        }
        r.nruns += 1;
        if !r.cut { r.runs.push(cur); }
        r.last = cur;
    });
    if let Err(m) = res { r.panic = Some(m); r.cut = true; }
    r
}

fn idx2(i: u64) -> Value { json!([i >> 16, i & 0xffff]) }

fn sweep(o: &mut Out, from: &'static str, to: &'static str, total: u64, f: &(dyn Fn(u64) -> u32 + Sync), threads: usize, range: Option<(u64, u64)>) {
    let (lo0, hi0) = range.unwrap_or((0, total));
    let nblocks: u64 = if range.is_some() { (threads as u64).max(1) } else { 256 };
    let run_cap = (max_of(to) + 8) as usize;
    let bounds: Vec<(u64, u64)> = (0..nblocks).map(|b| (lo0 + (hi0 - lo0) * b / nblocks, lo0 + (hi0 - lo0) * (b + 1) / nblocks)).filter(|(a, b)| a < b).collect();
    let results: Mutex<Vec<Option<BlockRes>>> = Mutex::new((0..bounds.len()).map(|_| None).collect());
    let next = AtomicUsize::new(0);
    std::thread::scope(|s| {
        for _ in 0..threads.max(1) {
            s.spawn(|| loop {
                let b = next.fetch_add(1, Ordering::SeqCst);
                if b >= bounds.len() { break; }
                let r = sweep_block(f, bounds[b].0, bounds[b].1, run_cap);
                results.lock().unwrap()[b] = Some(r);
            });
        }
    });
    let results = results.into_inner().unwrap();
    let mut prev: Option<(u64, u32)> = None; // last index and code of the previous run
    let mut total_runs = 0u64;
    for (b, r) in results.into_iter().enumerate() {
        let r = r.unwrap();
        total_runs += r.nruns;
        for &(fi, li, code) in &r.runs {
            let (pcode, pli) = match prev {
                Some((pl, pc)) => (pc as i64, pl),
                // a replayed sub-range starts in the middle of the line: its first run is linked to itself minus one
                None => if fi == 0 { (-1, 0) } else { (code as i64, fi - 1) },
            };
            o.ev("step", None, json!({"ev": "step", "from": from, "to": to, "code": code, "fi": idx2(fi), "li": idx2(li), "pcode": pcode, "pli": idx2(pli)}));
            prev = Some((li, code));
        }
        if r.cut {
            o.ev("stepover", None, json!({"ev": "stepover", "from": from, "to": to, "block": b, "dec": r.dec, "runs": r.nruns,
                                          "lo": idx2(bounds[b].0), "hi": idx2(bounds[b].1 - 1), "panic": if r.panic.is_some() { 1 } else { 0 }, "msg": r.panic.clone().unwrap_or_default()}));
        }
        prev = Some((r.last.1, r.last.2));
    }
    if range.is_none() {
        o.ev("stepend", None, json!({"ev": "stepend", "from": from, "to": to, "li": idx2(prev.unwrap().0), "runs": total_runs}));
    }
}

fn nan_sweep(o: &mut Out, to: &'static str, f: &dyn Fn(f32) -> u32, max: u32) {
    let (mut count, mut bad, mut first_bad) = (0u64, 0u64, String::new());
    for hi in [0x7f80_0000u32, 0xff80_0000] {
        for m in 1..=0x007f_ffffu32 {
            let bits = hi | m;
            count += 1;
            if f(f32::from_bits(bits)) != max {
                if bad == 0 { first_bad = format!("{:08x}", bits); }
                bad += 1;
            }
        }
    }
    o.ev("nans", None, json!({"ev": "nans", "to": to, "count": count, "bad": bad, "first_bad": first_bad}));
}

fn f32_u8(i: u64) -> u32 { IntoStimulus::<u8>::into_stimulus(f32_at(i)) as u32 }
fn f32_u16(i: u64) -> u32 { IntoStimulus::<u16>::into_stimulus(f32_at(i)) as u32 }
fn u32_u8(i: u64) -> u32 { IntoStimulus::<u8>::into_stimulus(i as u32) as u32 }
fn u32_u16(i: u64) -> u32 { IntoStimulus::<u16>::into_stimulus(i as u32) as u32 }

fn sweep_fn(from: &str, to: &str) -> (&'static str, &'static str, u64, &'static (dyn Fn(u64) -> u32 + Sync)) {
    match (from, to) {
        ("f32", "u8") => ("f32", "u8", F32_LINE, &f32_u8),
        ("f32", "u16") => ("f32", "u16", F32_LINE, &f32_u16),
        ("u32", "u8") => ("u32", "u8", U32_LINE, &u32_u8),
        ("u32", "u16") => ("u32", "u16", U32_LINE, &u32_u16),
        _ => panic!("no sweep for {} -> {}", from, to),
    }
}

fn all_sweeps(o: &mut Out, threads: usize) {
    for (a, b) in [("f32", "u8"), ("f32", "u16"), ("u32", "u8"), ("u32", "u16")] {
        let (from, to, total, f) = sweep_fn(a, b);
        sweep(o, from, to, total, f, threads, None);
    }
    nan_sweep(o, "u8", &|x| IntoStimulus::<u8>::into_stimulus(x) as u32, 255);
    nan_sweep(o, "u16", &|x| IntoStimulus::<u16>::into_stimulus(x) as u32, 65535);
}

// ------------------------------------------------------------------------------------------ more colour forms
// into_format / from_format of the colour types with a hue (float to float: the hue goes through FromAngle, the other
// components through FromStimulus - both are the plain float conversion) and of Lms, and the `From` impls between
// Rgb / Rgba with u8, f32 and f64 components.  Recorded as "fmt" events: out must equal the component-wise conversion.
fn more_forms(o: &mut Out, g: &mut Gen, only: Option<&Value>) {
    use palette::{Hsl, Hsv, Hwb, Okhsl, Okhsv, Okhwb};
    use palette::lms::{matrix::VonKries, Lms};
    fn emit<A: Fmt, B: Fmt + FromStimulus<A>>(o: &mut Out, ty: &str, via: &str, xs: &[A], r: Result<Vec<B>, String>) {
        let cw: Result<Vec<B>, String> = xs.iter().map(|&x| conv_from::<A, B>(x)).collect();
        let mut v = json!({"ev": "fmt", "ty": ty, "via": via, "from": A::NAME, "to": B::NAME, "in": ex_arr(xs), "panic": 0});
        match (r, cw) {
            (Ok(out), Ok(cw)) => { v["out"] = ex_arr(&out); v["cw"] = ex_arr(&cw); }
            (r, cw) => { v["out"] = json!([]); v["cw"] = json!([]); v["panic"] = json!(1); v["msg"] = json!(r.err().or(cw.err()).unwrap_or_default()); }
        }
        o.ev("fmt", None, v);
    }
    let n = if only.is_some() { 1 } else { 4 * g.plan.fmt_n };
    macro_rules! pick { ($A:ty, $k:expr) => {{
        match only {
            Some(e) => e["in"].as_array().unwrap().iter().map(|j| <$A as Fmt>::dec(j)).collect::<Vec<$A>>(),
            None => (0..$k).map(|i| if i == 0 { g.rng.range(-400.0, 800.0) as $A } else { match g.rng.below(5) { 0 => 0.0 as $A, 1 => 1.0 as $A, 2 => g.rng.range(-0.5, 1.5) as $A, _ => g.rng.unit() as $A } }).collect::<Vec<$A>>(),
        }
    }}; }
    macro_rules! want { ($ty:expr, $via:expr, $A:ty, $B:ty) => {
        only.map_or(true, |e| e["ty"] == $ty && e["via"] == $via && e["from"] == <$A as Ex>::NAME && e["to"] == <$B as Ex>::NAME)
    }; }
    macro_rules! hue3 { ($name:expr, $A:ty, $B:ty, $mk:expr, $into:expr, $from:expr, $out:expr) => {
        if want!($name, "into", $A, $B) { for _ in 0..n { let xs = pick!($A, 3); emit::<$A, $B>(o, $name, "into", &xs, catch(|| { let d = $into($mk(&xs)); $out(d) })); } }
        if want!($name, "from", $A, $B) { for _ in 0..n { let xs = pick!($A, 3); emit::<$A, $B>(o, $name, "from", &xs, catch(|| { let d = $from($mk(&xs)); $out(d) })); } }
    }; }
    macro_rules! floats { ($A:ty, $B:ty) => {
        hue3!("Hsv", $A, $B, |x: &[$A]| Hsv::<Srgb, $A>::new(x[0], x[1], x[2]), |c: Hsv<Srgb, $A>| c.into_format::<$B>(), |c| Hsv::<Srgb, $B>::from_format(c), |d: Hsv<Srgb, $B>| vec![d.hue.into_inner(), d.saturation, d.value]);
        hue3!("Hsl", $A, $B, |x: &[$A]| Hsl::<Srgb, $A>::new(x[0], x[1], x[2]), |c: Hsl<Srgb, $A>| c.into_format::<$B>(), |c| Hsl::<Srgb, $B>::from_format(c), |d: Hsl<Srgb, $B>| vec![d.hue.into_inner(), d.saturation, d.lightness]);
        hue3!("Hwb", $A, $B, |x: &[$A]| Hwb::<Srgb, $A>::new(x[0], x[1], x[2]), |c: Hwb<Srgb, $A>| c.into_format::<$B>(), |c| Hwb::<Srgb, $B>::from_format(c), |d: Hwb<Srgb, $B>| vec![d.hue.into_inner(), d.whiteness, d.blackness]);
        hue3!("Okhsv", $A, $B, |x: &[$A]| Okhsv::<$A>::new(x[0], x[1], x[2]), |c: Okhsv<$A>| c.into_format::<$B>(), |c: Okhsv<$A>| c.into_format::<$B>(), |d: Okhsv<$B>| vec![d.hue.into_inner(), d.saturation, d.value]);
        hue3!("Okhsl", $A, $B, |x: &[$A]| Okhsl::<$A>::new(x[0], x[1], x[2]), |c: Okhsl<$A>| c.into_format::<$B>(), |c| Okhsl::<$B>::from_format(c), |d: Okhsl<$B>| vec![d.hue.into_inner(), d.saturation, d.lightness]);
        hue3!("Okhwb", $A, $B, |x: &[$A]| Okhwb::<$A>::new(x[0], x[1], x[2]), |c: Okhwb<$A>| c.into_format::<$B>(), |c: Okhwb<$A>| c.into_format::<$B>(), |d: Okhwb<$B>| vec![d.hue.into_inner(), d.whiteness, d.blackness]);
        hue3!("Lms", $A, $B, |x: &[$A]| Lms::<VonKries, $A>::new(x[0], x[1], x[2]), |c: Lms<VonKries, $A>| c.into_format::<$B>(), |c| Lms::<VonKries, $B>::from_format(c), |d: Lms<VonKries, $B>| vec![d.long, d.medium, d.short]);
    }; }
    // the same with transparency (Hsva, Hsla, Hwba): four components, the transparency through FromStimulus as well
    macro_rules! hue4 { ($name:expr, $A:ty, $B:ty, $C:ident, $f2:ident, $f3:ident) => {
        if want!($name, "into", $A, $B) { for _ in 0..n { let xs = pick!($A, 4); emit::<$A, $B>(o, $name, "into", &xs, catch(|| {
            let d: Alpha<$C<Srgb, $B>, $B> = Alpha { color: $C::<Srgb, $A>::new(xs[0], xs[1], xs[2]), alpha: xs[3] }.into_format();
            vec![d.color.hue.into_inner(), d.color.$f2, d.color.$f3, d.alpha] })); } }
        if want!($name, "from", $A, $B) { for _ in 0..n { let xs = pick!($A, 4); emit::<$A, $B>(o, $name, "from", &xs, catch(|| {
            let d = Alpha::<$C<Srgb, $B>, $B>::from_format(Alpha { color: $C::<Srgb, $A>::new(xs[0], xs[1], xs[2]), alpha: xs[3] });
            vec![d.color.hue.into_inner(), d.color.$f2, d.color.$f3, d.alpha] })); } }
    }; }
    macro_rules! floats4 { ($A:ty, $B:ty) => {
        hue4!("Hsva", $A, $B, Hsv, saturation, value);
        hue4!("Hsla", $A, $B, Hsl, saturation, lightness);
        hue4!("Hwba", $A, $B, Hwb, whiteness, blackness);
    }; }
    floats4!(f32, f64);
    floats4!(f64, f32);
    floats!(f32, f64);
    floats!(f64, f32);
    floats!(f32, f32);
    floats!(f64, f64);
    // From between component types of Rgb / Rgba
    macro_rules! froms { ($A:ty, $B:ty, $gen:expr) => {
        if want!("Rgb", "From", $A, $B) { for _ in 0..n {
            let xs: Vec<$A> = match only { Some(e) => e["in"].as_array().unwrap().iter().map(|j| <$A as Fmt>::dec(j)).collect(), None => (0..3).map(|_| $gen(&mut *g)).collect() };
            emit::<$A, $B>(o, "Rgb", "From", &xs, catch(|| { let d: Rgb<Srgb, $B> = Rgb::<Srgb, $A>::new(xs[0], xs[1], xs[2]).into(); vec![d.red, d.green, d.blue] }));
        } }
        if want!("Rgba", "From", $A, $B) { for _ in 0..n {
            let xs: Vec<$A> = match only { Some(e) => e["in"].as_array().unwrap().iter().map(|j| <$A as Fmt>::dec(j)).collect(), None => (0..4).map(|_| $gen(&mut *g)).collect() };
            emit::<$A, $B>(o, "Rgba", "From", &xs, catch(|| { let d: Alpha<Rgb<Srgb, $B>, $B> = Alpha { color: Rgb::<Srgb, $A>::new(xs[0], xs[1], xs[2]), alpha: xs[3] }.into(); vec![d.color.red, d.color.green, d.color.blue, d.alpha] }));
        } }
    }; }
    froms!(u8, f32, |g: &mut Gen| g.rng.below(256) as u8);
    froms!(u8, f64, |g: &mut Gen| g.rng.below(256) as u8);
    froms!(f32, u8, |g: &mut Gen| g.rng.range(-0.25, 1.25) as f32);
    froms!(f64, u8, |g: &mut Gen| g.rng.range(-0.25, 1.25));
    froms!(f32, f64, |g: &mut Gen| g.rng.range(-0.25, 1.25) as f32);
    froms!(f64, f32, |g: &mut Gen| g.rng.range(-0.25, 1.25));
}

// ------------------------------------------------------------------------------------------ main

fn find<'a>(reg: &'a [PairOps], from: &str, to: &str) -> &'a PairOps {
    reg.iter().find(|p| p.from == from && p.to == to).unwrap_or_else(|| panic!("no such pair {} -> {}", from, to))
}

fn idx_of(v: &Value) -> u64 { (v[0].as_u64().unwrap() << 16) | v[1].as_u64().unwrap() }

fn main() {
    let out = arg_or("--out", "-");
    let mut o = Out { rec: Rec::create(&out), counts: BTreeMap::new(), per_pair: BTreeMap::new(), panics: 0 };
    let reg = registry();
    let threads: usize = arg("--threads").and_then(|s| s.parse().ok())
        .unwrap_or_else(|| std::thread::available_parallelism().map(|n| n.get()).unwrap_or(4).min(12));

    if let Some(one) = arg("--one") {
        let e: Value = serde_json::from_str(&one).expect("event json");
        let s = |k: &str| e[k].as_str().unwrap_or("").to_string();
        match e["ev"].as_str().unwrap_or("") {
            "stim" => (find(&reg, &s("from"), &s("to")).one_stim)(&mut o, &e["in"]),
            "pair" => (find(&reg, &s("from"), &s("to")).one_pair)(&mut o, &e["in1"], &e["in2"]),
            "rt" => (find(&reg, &s("a"), &s("b")).one_rt)(&mut o, &e["in"]),
            "fmt" if s("via") == "From" || !["Rgb", "Rgba", "Luma", "Lumaa"].contains(&s("ty").as_str()) => {
                let plan = Plan { thorough: false, rand_unit: 1, rand_bits: 1, k255_other: 1, k65535: 1, kwide: 1, u16_stride: 1, rand_uint: 1, fmt_n: 1 };
                let mut g = Gen { plan, rng: Sm64::new(1) };
                more_forms(&mut o, &mut g, Some(&e));
            }
            "fmt" => {
                let shape = ["Rgb", "Rgba", "Luma", "Lumaa"].iter().position(|t| *t == s("ty")).expect("ty");
                (find(&reg, &s("from"), &s("to")).one_fmt)(&mut o, shape, &s("via"), &e["in"]);
            }
            "step" => {
                // the run and its predecessor's last input, swept again
                let (from, to, _total, f) = sweep_fn(&s("from"), &s("to"));
                let fi = idx_of(&e["fi"]);
                let lo = if e["pcode"].as_i64().unwrap_or(-1) < 0 { fi } else { idx_of(&e["pli"]) };
                sweep(&mut o, from, to, 0, f, threads, Some((lo, idx_of(&e["li"]) + 1)));
            }
            "stepover" => {
                let (from, to, _total, f) = sweep_fn(&s("from"), &s("to"));
                // one block of the full sweep again, as one range (cut the same way if it still misbehaves)
                let (lo, hi) = (idx_of(&e["lo"]), idx_of(&e["hi"]) + 1);
                let r = sweep_block(f, lo, hi, (max_of(to) + 8) as usize);
                o.ev("stepover", None, json!({"ev": "stepover", "from": from, "to": to, "block": e["block"], "dec": r.dec, "runs": r.nruns,
                                              "lo": idx2(lo), "hi": idx2(hi - 1), "panic": if r.panic.is_some() { 1 } else { 0 }, "msg": r.panic.unwrap_or_default()}));
            }
            "stepend" => {
                let (from, to, total, f) = sweep_fn(&s("from"), &s("to"));
                sweep(&mut o, from, to, total, f, threads, None);
            }
            "nans" => {
                if s("to") == "u8" { nan_sweep(&mut o, "u8", &|x| IntoStimulus::<u8>::into_stimulus(x) as u32, 255); }
                else { nan_sweep(&mut o, "u16", &|x| IntoStimulus::<u16>::into_stimulus(x) as u32, 65535); }
            }
            other => panic!("unknown event kind {}", other),
        }
    } else if let Some(path) = arg("--cases") {
        // cases printed by the model: {"from": fmt, "in": exact}; converted to all seven formats
        let cases: Vec<Value> = serde_json::from_str(&std::fs::read_to_string(&path).expect("cases file")).expect("cases json");
        for c in &cases {
            let from = c["from"].as_str().unwrap();
            for to in NAMES { (find(&reg, from, to).one_stim)(&mut o, &c["in"]); }
        }
    } else {
        let thorough = arg_or("--tier", "quick") == "thorough";
        let plan = if thorough {
            Plan { thorough, rand_unit: 4000, rand_bits: 4000, k255_other: 1, k65535: 8000, kwide: 600, u16_stride: 1, rand_uint: 3000, fmt_n: 40 }
        } else {
            Plan { thorough, rand_unit: 120, rand_bits: 120, k255_other: 16, k65535: 48, kwide: 24, u16_stride: 199, rand_uint: 60, fmt_n: 3 }
        };
        let mut g = Gen { plan, rng: Sm64::new(seed_from_env()) };
        if !flag("--sweep-only") {
            for p in &reg { (p.bulk)(&mut o, &mut g); }
            more_forms(&mut o, &mut g, None);
        }
        if flag("--sweep") || flag("--sweep-only") { all_sweeps(&mut o, threads); }
    }
    let (counts, per_pair, panics) = (o.counts, o.per_pair, o.panics);
    let n = o.rec.finish();
    eprintln!("{}", json!({"events": n, "counts": counts, "per_pair": per_pair, "panics": panics}));
}
