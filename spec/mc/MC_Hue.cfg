SPECIFICATION MCSpec
CONSTANTS
  N = 2000
  FullN = 400
  Block = 100
INVARIANTS Inv
CHECK_DEADLOCK FALSE
