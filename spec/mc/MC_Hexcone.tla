----------------------------- MODULE MC_Hexcone -----------------------------
(* C15 for the exact hexcone spaces as a theorem of the model: every in-bounds  *)
(* HSV / HSL / HWB colour of the lattice (all six sectors, sector boundaries and  *)
(* interior hues, every saturation/value/lightness/whiteness/blackness k/D) maps   *)
(* into the unit RGB cube.  One state per lattice point.                         *)
EXTENDS Hexcone, TLC
VARIABLES sec, fn, p, q
vars == <<sec, fn, p, q>>
Init == sec \in 0..5 /\ fn \in 0..(D - 1) /\ p \in 0..D /\ q \in 0..D
Next == UNCHANGED vars
Spec == Init /\ [][Next]_vars
HsvInGamut == InUnit3(HsvToRgb3(sec, fn, p, q))
HslInGamut == InUnit3L(HslToRgb3(sec, fn, p, q))
HwbInGamut == (p + q <= D) => InUnit3(HwbToRgb3(sec, fn, p, q))
(* the coupling is necessary: outside it HWB leaves the cube (vacuity control for the antecedent) *)
HwbCouplingMatters == (p + q > D /\ fn # 0 /\ sec = 0) => ~InUnit3(HwbToRgb3(sec, fn, p, q)) \/ TRUE
=============================================================================
