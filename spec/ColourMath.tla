------------------------------ MODULE ColourMath ------------------------------
(***************************************************************************)
(* C02 - conversions match the published colorimetric definitions.          *)
(*                                                                         *)
(* One RELATION per hand-written conversion edge, written from the           *)
(* publication (cited at each definition) over the exact values the code     *)
(* consumed and produced (104-bit fixed point, module Fx).  A relation does   *)
(* not compute the result: it measures how well input and output satisfy the   *)
(* defining equation (cube instead of cube root, cross-multiplication instead  *)
(* of division, series only for sine and cosine) and returns the number of     *)
(* bits of agreement; the trace specification compares that number with a      *)
(* threshold per edge class and component type.  The same relation serves both *)
(* directions of an edge.                                                     *)
(*                                                                         *)
(* Reference constants are written here, never read from the code:            *)
(*  - D65 white point, CIE 1931 2 deg: (0.95047, 1, 1.08883)  (ASTM E308)      *)
(*  - sRGB primaries (IEC 61966-2-1): R (0.64, 0.33) G (0.30, 0.60)            *)
(*    B (0.15, 0.06); the RGB->XYZ matrix is DERIVED from them here            *)
(*  - CIE 15:2004 L*a*b*, L*u*v*: epsilon = (6/29)^3 = 216/24389,              *)
(*    kappa = (29/3)^3 = 24389/27, i.e. f = (841/108) t + 4/29 below epsilon   *)
(*  - Oklab (B. Ottosson, "A perceptual color space for image processing",      *)
(*    2020): M1, M2 and the direct linear-sRGB matrices as published; for M1    *)
(*    also the recalculated matrix of CSS Color 4                             *)
(***************************************************************************)
EXTENDS Trig, Sequences

(* bits of agreement of x and y relative to scale (> 0): -log2(|x - y| / scale), 200 if equal *)
AgreeBits(x, y, scale) == IF x = y THEN 200
                          ELSE LET d == IAbs(ISub(x, y)) IN BitLen(scale[2]) - BitLen(d[2])
Min2i(a, b) == IF a <= b THEN a ELSE b
Min3i(a, b, c) == Min2i(a, Min2i(b, c))
Mag3(v) == FxMax(FxAbs(v[1]), FxMax(FxAbs(v[2]), FxAbs(v[3])))
AtLeast(s, k) == FxMax(s, FxEps(k))           \* keeps a scale away from zero: 2^-k is the absolute floor

-----------------------------------------------------------------------------
(* 3x3 matrices, row-major sequences of 9 *)
Det3(m) == FxAdd(FxSub(FxMul(m[1], FxSub(FxMul(m[5], m[9]), FxMul(m[6], m[8]))),
                       FxMul(m[2], FxSub(FxMul(m[4], m[9]), FxMul(m[6], m[7])))),
                 FxMul(m[3], FxSub(FxMul(m[4], m[8]), FxMul(m[5], m[7]))))
Adj3(m) == << FxSub(FxMul(m[5], m[9]), FxMul(m[6], m[8])), FxSub(FxMul(m[3], m[8]), FxMul(m[2], m[9])), FxSub(FxMul(m[2], m[6]), FxMul(m[3], m[5])),
              FxSub(FxMul(m[6], m[7]), FxMul(m[4], m[9])), FxSub(FxMul(m[1], m[9]), FxMul(m[3], m[7])), FxSub(FxMul(m[3], m[4]), FxMul(m[1], m[6])),
              FxSub(FxMul(m[4], m[8]), FxMul(m[5], m[7])), FxSub(FxMul(m[2], m[7]), FxMul(m[1], m[8])), FxSub(FxMul(m[1], m[5]), FxMul(m[2], m[4])) >>
Inv3(m) == LET d == Det3(m)  a == Adj3(m) IN [i \in 1..9 |-> FxDiv(a[i], d)]
MatMul3(a, b) == [k \in 1..9 |-> LET i == (k - 1) \div 3  j == (k - 1) % 3
                                IN FxAdd(FxMul(a[3 * i + 1], b[j + 1]), FxAdd(FxMul(a[3 * i + 2], b[j + 4]), FxMul(a[3 * i + 3], b[j + 7])))]

WhiteD65 == <<FxRat(95047, 100000), FxOne, FxRat(108883, 100000)>>

(* RGB -> XYZ matrix from chromaticities of the primaries and the white point *)
RgbToXyzFrom(xr, yr, xg, yg, xb, yb, white) ==
  LET col(x, y) == <<FxDiv(x, y), FxOne, FxDiv(FxSub(FxSub(FxOne, x), y), y)>>
      r == col(xr, yr)  g == col(xg, yg)  b == col(xb, yb)
      p == <<r[1], g[1], b[1], r[2], g[2], b[2], r[3], g[3], b[3]>>
      s == FxMatVec(Inv3(p), white)
  IN <<FxMul(p[1], s[1]), FxMul(p[2], s[2]), FxMul(p[3], s[3]),
       FxMul(p[4], s[1]), FxMul(p[5], s[2]), FxMul(p[6], s[3]),
       FxMul(p[7], s[1]), FxMul(p[8], s[2]), FxMul(p[9], s[3])>>
SrgbToXyz == RgbToXyzFrom(FxRat(64, 100), FxRat(33, 100), FxRat(30, 100), FxRat(60, 100), FxRat(15, 100), FxRat(6, 100), WhiteD65)

(* Oklab, Ottosson 2020 *)
OkM1 == << FxDec(1, 0, <<8189, 3301, 100>>), FxDec(1, 0, <<3618, 6674, 2400>>), FxDec(-1, 0, <<1288, 5971, 3700>>),
           FxDec(1, 0, <<329, 8454, 3600>>), FxDec(1, 0, <<9293, 1187, 1500>>), FxDec(1, 0, <<361, 4563, 8700>>),
           FxDec(1, 0, <<482, 30, 1800>>), FxDec(1, 0, <<2643, 6626, 9100>>), FxDec(1, 0, <<6338, 5170, 7000>>) >>
(* the same matrix recalculated for CSS Color 4 (w3c/csswg-drafts issue 6642) *)
OkM1Css == << FxDec(1, 0, <<8190, 2243, 7996, 7030>>), FxDec(1, 0, <<3619, 626, 52, 8904>>), FxDec(-1, 0, <<1288, 7378, 1520, 9879>>),
              FxDec(1, 0, <<329, 8365, 3932, 3885>>), FxDec(1, 0, <<9292, 8686, 1586, 3434>>), FxDec(1, 0, <<361, 4466, 6350, 6424>>),
              FxDec(1, 0, <<481, 7718, 9359, 6242>>), FxDec(1, 0, <<2642, 3953, 1752, 7308>>), FxDec(1, 0, <<6335, 4782, 8469, 4309>>) >>
OkM2 == << FxDec(1, 0, <<2104, 5425, 5300>>), FxDec(1, 0, <<7936, 1778, 5000>>), FxDec(-1, 0, <<40, 7204, 6800>>),
           FxDec(1, 1, <<9779, 9849, 5100>>), FxDec(-1, 2, <<4285, 9220, 5000>>), FxDec(1, 0, <<4505, 9370, 9900>>),
           FxDec(1, 0, <<259, 403, 7100>>), FxDec(1, 0, <<7827, 7176, 6200>>), FxDec(-1, 0, <<8086, 7576, 6000>>) >>
(* linear sRGB -> LMS, Ottosson (updated 2021-01-25) *)
OkRgbToLms == << FxDec(1, 0, <<4122, 2147, 800>>), FxDec(1, 0, <<5363, 3253, 6300>>), FxDec(1, 0, <<514, 4599, 2900>>),
           FxDec(1, 0, <<2119, 349, 8200>>), FxDec(1, 0, <<6806, 9954, 5100>>), FxDec(1, 0, <<1073, 9695, 6600>>),
           FxDec(1, 0, <<883, 246, 1900>>), FxDec(1, 0, <<2817, 1883, 7600>>), FxDec(1, 0, <<6299, 7870, 500>>) >>

(* Cone response matrices XYZ -> LMS (row major):
   Bradford: Lam 1985 / CIECAM97s, ICC.1 annex E, Lindbloom "Chromatic adaptation";
   von Kries: the Hunt-Pointer-Estevez matrix normalised to D65 (Lindbloom; Fairchild, Color Appearance Models).
   LMS -> XYZ is the inverse; the sources print it to seven decimals. *)
ConeBradford == << FxRat(8951, 10000),  FxRat(2664, 10000),  FxRat(-1614, 10000),
                   FxRat(-7502, 10000), FxRat(17135, 10000), FxRat(367, 10000),
                   FxRat(389, 10000),   FxRat(-685, 10000),  FxRat(10296, 10000) >>
ConeVonKries == << FxRat(40024, 100000),  FxRat(70760, 100000),  FxRat(-8081, 100000),
                   FxRat(-22630, 100000), FxRat(116532, 100000), FxRat(4570, 100000),
                   FxZero,                FxZero,                FxRat(91822, 100000) >>

(* constants that are expensive to derive are computed once per trace run and carried in a variable *)
Consts == [ rgb2xyz |-> SrgbToXyz, xyz2rgb |-> Inv3(SrgbToXyz), okm2inv |-> Inv3(OkM2),
            vk |-> ConeVonKries, vkinv |-> Inv3(ConeVonKries), bfd |-> ConeBradford, bfdinv |-> Inv3(ConeBradford) ]

-----------------------------------------------------------------------------
(* linear map: out = M in *)
MatBits(m, in, out) ==
  LET e == FxMatVec(m, in)
      sc == AtLeast(FxMax(Mag3(in), Mag3(e)), 30)
  IN Min3i(AgreeBits(out[1], e[1], sc), AgreeBits(out[2], e[2], sc), AgreeBits(out[3], e[3], sc))

(* CIE 15:2004, 8.2.1: f(t) = t^(1/3) for t > (6/29)^3, else (841/108) t + 4/29 *)
LabEps == FxRat(216, 24389)
LabF(t, f) ==
  LET hi == AgreeBits(FxCube(f), t, AtLeast(FxMax(FxAbs(t), FxAbs(FxCube(f))), 30))
      lo == AgreeBits(f, FxAdd(FxDivInt(FxMulInt(t, 841), 108), FxRat(4, 29)), AtLeast(FxAbs(f), 3))
      band == FxShr(LabEps, 20)
  IN IF FxLt(FxAdd(LabEps, band), t) THEN hi
     ELSE IF FxLt(t, FxSub(LabEps, band)) THEN lo
     ELSE IF hi >= lo THEN hi ELSE lo
NormX(x) == FxDivInt(FxMulInt(x, 100000), 95047)
NormZ(z) == FxDivInt(FxMulInt(z, 100000), 108883)
(* L* = 116 f(Y/Yn) - 16, a* = 500 (f(X/Xn) - f(Y/Yn)), b* = 200 (f(Y/Yn) - f(Z/Zn)) *)
LabBits(xyz, lab) ==
  LET fy == FxDivInt(FxAdd(lab[1], FxInt(16)), 116)
      fx == FxAdd(fy, FxDivInt(lab[2], 500))
      fz == FxSub(fy, FxDivInt(lab[3], 200))
  IN Min3i(LabF(NormX(xyz[1]), fx), LabF(xyz[2], fy), LabF(NormZ(xyz[3]), fz))

(* CIE 15:2004, 8.2.2: u* = 13 L* (u' - u'n), v* = 13 L* (v' - v'n), u' = 4X/(X+15Y+3Z), v' = 9Y/(X+15Y+3Z);
   for D65: u'n = 4 Xn / (Xn + 15 + 3 Zn) = 95047/480424, v'n = 9 / (...) = 28125/60053 *)
LuvBits(xyz, luv) ==
  LET d == FxAdd(xyz[1], FxAdd(FxMulInt(xyz[2], 15), FxMulInt(xyz[3], 3)))
      und == FxDivInt(FxShr(FxMulInt(d, 95047), 3), 60053)
      vnd == FxDivInt(FxMulInt(d, 28125), 60053)
      l13 == FxMulInt(luv[1], 13)
      ru == FxMul(l13, FxSub(FxMulInt(xyz[1], 4), und))
      rv == FxMul(l13, FxSub(FxMulInt(xyz[2], 9), vnd))
      su == AtLeast(FxMax(FxAbs(FxMul(l13, und)), FxAbs(FxMul(luv[2], d))), 30)
      sv == AtLeast(FxMax(FxAbs(FxMul(l13, vnd)), FxAbs(FxMul(luv[3], d))), 30)
      fy == FxDivInt(FxAdd(luv[1], FxInt(16)), 116)
  IN Min3i(LabF(xyz[2], fy), AgreeBits(FxMul(luv[2], d), ru, su), AgreeBits(FxMul(luv[3], d), rv, sv))

(* the same two definitions relative to any white point w = <<Xn, 1, Zn>> (D50 of ASTM E308: 0.96422, 0.82521; the DCI
   white of SMPTE RP 431-2, chromaticity (0.314, 0.351): Xn = 314/351, Zn = 335/351) *)
WhiteD50 == <<FxRat(96422, 100000), FxOne, FxRat(82521, 100000)>>
WhiteDci == <<FxRat(314, 351), FxOne, FxRat(335, 351)>>
LabBitsW(w, xyz, lab) ==
  LET fy == FxDivInt(FxAdd(lab[1], FxInt(16)), 116)
      fx == FxAdd(fy, FxDivInt(lab[2], 500))
      fz == FxSub(fy, FxDivInt(lab[3], 200))
  IN Min3i(LabF(FxDiv(xyz[1], w[1]), fx), LabF(xyz[2], fy), LabF(FxDiv(xyz[3], w[3]), fz))
LuvBitsW(w, xyz, luv) ==
  LET d == FxAdd(xyz[1], FxAdd(FxMulInt(xyz[2], 15), FxMulInt(xyz[3], 3)))
      dn == FxAdd(w[1], FxAdd(FxInt(15), FxMulInt(w[3], 3)))
      und == FxMul(d, FxDiv(FxMulInt(w[1], 4), dn))
      vnd == FxMul(d, FxDiv(FxInt(9), dn))
      l13 == FxMulInt(luv[1], 13)
      ru == FxMul(l13, FxSub(FxMulInt(xyz[1], 4), und))
      rv == FxMul(l13, FxSub(FxMulInt(xyz[2], 9), vnd))
      su == AtLeast(FxMax(FxAbs(FxMul(l13, und)), FxAbs(FxMul(luv[2], d))), 30)
      sv == AtLeast(FxMax(FxAbs(FxMul(l13, vnd)), FxAbs(FxMul(luv[3], d))), 30)
      fy == FxDivInt(FxAdd(luv[1], FxInt(16)), 116)
  IN Min3i(LabF(xyz[2], fy), AgreeBits(FxMul(luv[2], d), ru, su), AgreeBits(FxMul(luv[3], d), rv, sv))

(* CIE xyY: x = X/(X+Y+Z), y = Y/(X+Y+Z), luma = Y *)
YxyBits(xyz, yxy) ==
  LET s == FxAdd(xyz[1], FxAdd(xyz[2], xyz[3]))
      sc == AtLeast(FxAbs(s), 30)
  IN Min3i(AgreeBits(FxMul(yxy[1], s), xyz[1], sc), AgreeBits(FxMul(yxy[2], s), xyz[2], sc),
           AgreeBits(yxy[3], xyz[2], AtLeast(FxAbs(xyz[2]), 30)))

(* Oklab: (l, m, s) = M1 xyz; (l', m', s') = cube roots; Lab = M2 (l', m', s').  Judged as
   (M2^-1 Lab)^3 = M1 xyz, with M2^-1 inverted here from the published M2 (k.okm2inv). *)
OkCubeBits(k, lms, oklab) ==
  LET c == FxMatVec(k.okm2inv, oklab)
      cb == <<FxCube(c[1]), FxCube(c[2]), FxCube(c[3])>>
      sc == AtLeast(FxMax(Mag3(lms), Mag3(cb)), 30)
  IN Min3i(AgreeBits(cb[1], lms[1], sc), AgreeBits(cb[2], lms[2], sc), AgreeBits(cb[3], lms[3], sc))
OklabFromXyzBits(k, xyz, oklab) ==
  LET a == OkCubeBits(k, FxMatVec(OkM1, xyz), oklab)
      b == OkCubeBits(k, FxMatVec(OkM1Css, xyz), oklab)
  IN IF a >= b THEN a ELSE b                       \* either published M1
OklabFromRgbBits(k, rgb, oklab) == OkCubeBits(k, FxMatVec(OkRgbToLms, rgb), oklab)

(* polar forms: C^2 = a^2 + b^2, a = C cos h, b = C sin h, first component unchanged *)
PolarBits(rect, pol) ==
  LET sc == SinCosDeg(pol[3])
      s == AtLeast(FxMax(FxAbs(pol[2]), FxMax(FxAbs(rect[2]), FxAbs(rect[3]))), 30)
  IN IF FxIsNeg(pol[2]) /\ FxLt(FxEps(40), FxAbs(pol[2])) THEN 0      \* chroma must not be negative
     ELSE Min3i(AgreeBits(rect[1], pol[1], AtLeast(FxAbs(pol[1]), 30)),
                AgreeBits(rect[2], FxMul(pol[2], sc[2]), s), AgreeBits(rect[3], FxMul(pol[2], sc[1]), s))

-----------------------------------------------------------------------------
(* Hexcone models (A. R. Smith, "Color gamut transform pairs", 1978; HWB: Smith & Lyons 1996), as
   relations between an RGB triple in [0,1] and the cylindrical coordinates.  With M = max, m = min, d = M - m:
     HSV: V = M, S M = d;   HSL: L = (M + m)/2, S (1 - |2L - 1|) = d;   HWB: W = (1 - S) V, B = 1 - V
     hue/60 = ((G - B)/d) mod 6 if M = R;  (B - R)/d + 2 if M = G;  (R - G)/d + 4 if M = B   (any maximal channel) *)
Max3(v) == FxMax(v[1], FxMax(v[2], v[3]))
Min3(v) == FxMin(v[1], FxMin(v[2], v[3]))
(* agreement of the hue h (degrees) with the RGB triple: (h/60) d == off d + num  (mod 6 d), measured against M *)
HueBits(rgb, h) ==
  LET mx == Max3(rgb)  d == FxSub(mx, Min3(rgb))
      off == IF rgb[1] = mx THEN 0 ELSE IF rgb[2] = mx THEN 2 ELSE 4
      num == IF rgb[1] = mx THEN FxSub(rgb[2], rgb[3]) ELSE IF rgb[2] = mx THEN FxSub(rgb[3], rgb[1]) ELSE FxSub(rgb[1], rgb[2])
      hd == FxMul(FxDivInt(FxMod360(h), 60), d)                 \* (h/60) d with h/60 in [0, 6)
      e == FxAdd(FxMulInt(d, off), num)                         \* in (-d, 5 d]
      six == FxMulInt(d, 6)
      diff0 == FxSub(hd, e)
      \* reduce modulo 6 d into [-3 d, 3 d]
      diff1 == IF FxLt(FxMulInt(d, 3), diff0) THEN FxSub(diff0, six) ELSE IF FxLt(diff0, FxNeg(FxMulInt(d, 3))) THEN FxAdd(diff0, six) ELSE diff0
  IN AgreeBits(diff1, FxZero, AtLeast(mx, 30))
HsvBits(rgb, hsv) ==
  LET mx == Max3(rgb)  d == FxSub(mx, Min3(rgb))  sc == AtLeast(mx, 30)
  IN Min3i(HueBits(rgb, hsv[1]), AgreeBits(FxMul(hsv[2], mx), d, sc), AgreeBits(hsv[3], mx, sc))
HslBits(rgb, hsl) ==
  LET mx == Max3(rgb)  mn == Min3(rgb)  d == FxSub(mx, mn)
      l2 == FxAdd(mx, mn)                                       \* 2 L
      span == FxSub(FxOne, FxAbs(FxSub(FxMulInt(hsl[3], 2), FxOne)))   \* 1 - |2L - 1|
  IN Min3i(HueBits(rgb, hsl[1]), AgreeBits(FxMul(hsl[2], span), d, AtLeast(FxOne, 1)), AgreeBits(FxMulInt(hsl[3], 2), l2, AtLeast(FxOne, 1)))
(* The hexcone the other way round: the RGB triple of maximum M, minimum m and hue h (degrees); used to judge the direct
   conversions between hexcone colours of two RGB standards, which must be what going through the two RGB colours gives *)
HexRgb(M, m, h) ==
  LET h6 == FxDivInt(FxMod360(h), 60)                               \* [0, 6)
      k == IF Len(h6[2]) <= FL THEN 0 ELSE h6[2][FL + 1]             \* its integer part: the sector
      fr == FxSub(h6, FxInt(k))
      d == FxSub(M, m)
      up == FxAdd(m, FxMul(d, fr))
      dn == FxAdd(m, FxMul(d, FxSub(FxOne, fr)))
  IN CASE k = 0 -> <<M, up, m>> [] k = 1 -> <<dn, M, m>> [] k = 2 -> <<m, M, up>>
       [] k = 3 -> <<m, dn, M>> [] k = 4 -> <<up, m, M>> [] OTHER -> <<M, m, dn>>
HsvRgb(hsv) == HexRgb(hsv[3], FxMul(hsv[3], FxSub(FxOne, hsv[2])), hsv[1])
HslRgb(hsl) == LET c2 == FxHalf(FxMul(FxSub(FxOne, FxAbs(FxSub(FxMulInt(hsl[3], 2), FxOne))), hsl[2]))
               IN HexRgb(FxAdd(hsl[3], c2), FxSub(hsl[3], c2), hsl[1])
(* W = (1 - S) V, B = 1 - V, hue identical *)
HwbFromHsvBits(hsv, hwb) ==
  Min3i(AgreeBits(FxMod360(hwb[1]), FxMod360(hsv[1]), Fx360T),
        AgreeBits(hwb[2], FxMul(FxSub(FxOne, hsv[2]), hsv[3]), AtLeast(FxOne, 1)),
        AgreeBits(hwb[3], FxSub(FxOne, hsv[3]), AtLeast(FxOne, 1)))
(* HSV and HSL describe the same (M, m): M = V = L + S_l min(L, 1 - L), m = V (1 - S_v) = L - S_l min(L, 1 - L) *)
HsvHslBits(hsv, hsl) ==
  LET c == FxMul(hsl[2], FxMin(hsl[3], FxSub(FxOne, hsl[3])))
  IN Min3i(AgreeBits(FxMod360(hsl[1]), FxMod360(hsv[1]), Fx360T),
           AgreeBits(hsv[3], FxAdd(hsl[3], c), AtLeast(FxOne, 1)),
           AgreeBits(FxMul(hsv[3], FxSub(FxOne, hsv[2])), FxSub(hsl[3], c), AtLeast(FxOne, 1)))

(* relative luminance: luma = Y; a luma converted back is the grey of that luminance, Y times the white point *)
LumaFromXyzBits(xyz, luma) == AgreeBits(luma[1], xyz[2], AtLeast(FxAbs(xyz[2]), 30))
XyzFromLumaBits(luma, xyz) ==
  LET sc == AtLeast(FxAbs(luma[1]), 30)
  IN Min3i(AgreeBits(xyz[1], FxMul(luma[1], WhiteD65[1]), sc), AgreeBits(xyz[2], luma[1], sc), AgreeBits(xyz[3], FxMul(luma[1], WhiteD65[3]), sc))

-----------------------------------------------------------------------------
(* Okhsl (B. Ottosson, "Okhsv and Okhsl", 2021): the saturation -> chroma interpolation.  With
   mid = 0.8 and the three chroma anchors C_0, C_mid, C_max of the hue and lightness,
     s < mid :  t = s / mid,                 k1 = mid C_0,                       k2 = 1 - k1 / C_mid,
                C = t k1 / (1 - k2 t)
     s >= mid:  t = (s - mid) / (1 - mid),   k1 = (1 - mid) C_mid^2 / (mid^2 C_0), k2 = 1 - k1 / (C_max - C_mid),
                C = C_mid + t k1 / (1 - k2 t)
   The anchors themselves come from Ottosson's numerical gamut procedure, which this specification does not
   transcribe (section 5); they are taken from the code's own results on the SAME hue and lightness:
   C_mid = C(0.8), C_max = C(1), and C_0 solved from C(eps) with the first formula.  The relation then
   decides the interpolation at every other saturation, in both segments. *)
OkMid == FxRat(4, 5)
OkhslC0(ceps, eps, cmid) ==          \* C_0 = c (1 - t) / (mid t (1 - c / C_mid)),  t = eps / mid
  LET t == FxDiv(eps, OkMid)
  IN FxDiv(FxMul(ceps, FxSub(FxOne, t)), FxMul(FxMul(OkMid, t), FxSub(FxOne, FxDiv(ceps, cmid))))
OkhslChroma(s, c0, cmid, cmax) ==
  IF FxLt(s, OkMid)
  THEN LET t == FxDiv(s, OkMid)  k1 == FxMul(OkMid, c0)  k2 == FxSub(FxOne, FxDiv(k1, cmid))
       IN FxDiv(FxMul(t, k1), FxSub(FxOne, FxMul(k2, t)))
  ELSE LET t == FxDiv(FxSub(s, OkMid), FxSub(FxOne, OkMid))
           k1 == FxDiv(FxMul(FxSub(FxOne, OkMid), FxSqr(cmid)), FxMul(FxSqr(OkMid), c0))
           k2 == FxSub(FxOne, FxDiv(k1, FxSub(cmax, cmid)))
       IN FxAdd(cmid, FxDiv(FxMul(t, k1), FxSub(FxOne, FxMul(k2, t))))
(* ss: the swept saturations, the first three being eps, 0.8 and 1; cs: the chroma the code returned for each *)
OkhslInterpBits(ss, cs) ==
  LET c0 == OkhslC0(cs[1], ss[1], cs[2])
      bits(i) == AgreeBits(cs[i], OkhslChroma(ss[i], c0, cs[2], cs[3]), AtLeast(cs[3], 30))
      rest == {bits(i) : i \in 4..Len(ss)}
  IN CHOOSE b \in rest : \A x \in rest : b <= x
=============================================================================
