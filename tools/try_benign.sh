#!/bin/sh
# usage: tools/try_benign.sh <dir with patch.diff> [ids...]
# Runs the quick checks of every property anchored in the files the patch touches (or the given ids) against a scratch
# worktree with the patch applied, like tools/try_seeded.sh; a benign change must leave every check at exit 0.
d="$1"; shift
ids="$*"
if [ -z "$ids" ]; then
  ids=$(python3 - "$d/patch.diff" <<'PY'
import json,re,sys
files=set(re.findall(r"^\+\+\+ b/(\S+)", open(sys.argv[1]).read(), re.M))
out=[]
for l in open('/verif/properties.jsonl'):
    p=json.loads(l)
    anch=set(p['anchors']['files'])
    if files & anch or any(f.startswith('palette/src/macros/') or f.startswith('palette/src/num') or f=='palette/src/lib.rs' for f in files) and p['id'] in ('C01','C03','C07','C10','C17','C18'):
        out.append(p['id'])
print(" ".join(out))
PY
)
fi
echo "BENIGN $(basename $(dirname $d))/$(basename $d): checks $ids"
/verif/tools/try_seeded.sh "$d" $ids
