// Included by the convstd* binaries after `type T = f32|f64;` and `const TNAME`: the same machinery as convlib.rs
// for a universe of OTHER RGB standards and white points (Adobe RGB, Display P3, Rec.2020/709, ProPhoto/D50, DCI-P3).
// A type-erased universe of palette colour types ("nodes") of the D65 / sRGB family with the full
// matrix of conversions between them (existence decided at compile time), driven by NDJSON commands.
//
// command  {"id":n,"from":"srgb","in":["<hex bits of f64>",..],"path":["xyz","lab","srgb"],"mode":"u|c|t|a"}
//   -> event {"ev":"walk",...}: the value after every hop (exact), its image in Xyz by the direct
//      unclamped route ("hub"), per-hop ok flags for try_from_color, panic / finite flags.
// command  {"id":n,"op":"bounds","node":"hwb","in":[..],"alpha":0|1}
//   -> event {"ev":"bounds",...}: clamp, clamp_assign, slice clamp_assign, is_within_bounds before/after.
// command  {"op":"consts"} -> one {"ev":"consts"} event per node with the min_/max_ accessor values,
//      and one {"ev":"caps"} event with the conversion existence matrix.

use palette::convert::{FromColorUnclamped, TryFromColor};
use palette::white_point::{D50, D65};
use palette::{Alpha, Clamp, ClampAssign, FromColor, IsWithinBounds};
use palette::{Hsl, Hsv, Hwb, Lab, Lch, LinSrgb, Luv, Srgb, Xyz};
use pvh::*;
use serde_json::{json, Value};
use std::marker::PhantomData;

type V = [T; 4]; // up to three components in declared order, alpha last (index 3)

pub trait Node: Copy + Clamp + ClampAssign + IsWithinBounds<Mask = bool> + 'static {
    const NAME: &'static str;
    const N: usize;
    fn of(v: &V) -> Self;
    fn arr(self) -> V;
    /// (min, max) per component from the type's own accessors; None = no such accessor
    fn bounds() -> Vec<(Option<T>, Option<T>)>;
}

macro_rules! node3 {
    ($ty:ty, $name:expr, $f0:ident, $f1:ident, $f2:ident, [$($b:expr),*]) => {
        impl Node for $ty {
            const NAME: &'static str = $name;
            const N: usize = 3;
            fn of(v: &V) -> Self { <$ty>::new(v[0], v[1], v[2]) }
            fn arr(self) -> V { [self.$f0, self.$f1, self.$f2, 0.0] }
            fn bounds() -> Vec<(Option<T>, Option<T>)> { vec![$($b),*] }
        }
    };
}
macro_rules! node_hue_first {
    ($ty:ty, $name:expr, $f1:ident, $f2:ident, [$($b:expr),*]) => {
        impl Node for $ty {
            const NAME: &'static str = $name;
            const N: usize = 3;
            fn of(v: &V) -> Self { <$ty>::new(v[0], v[1], v[2]) }
            fn arr(self) -> V { [self.hue.into_inner(), self.$f1, self.$f2, 0.0] }
            fn bounds() -> Vec<(Option<T>, Option<T>)> { vec![$($b),*] }
        }
    };
}
macro_rules! node_hue_last {
    ($ty:ty, $name:expr, $f0:ident, $f1:ident, [$($b:expr),*]) => {
        impl Node for $ty {
            const NAME: &'static str = $name;
            const N: usize = 3;
            fn of(v: &V) -> Self { <$ty>::new(v[0], v[1], v[2]) }
            fn arr(self) -> V { [self.$f0, self.$f1, self.hue.into_inner(), 0.0] }
            fn bounds() -> Vec<(Option<T>, Option<T>)> { vec![$($b),*] }
        }
    };
}
macro_rules! node1 {
    ($ty:ty, $name:expr, $f0:ident, [$($b:expr),*]) => {
        impl Node for $ty {
            const NAME: &'static str = $name;
            const N: usize = 1;
            fn of(v: &V) -> Self { <$ty>::new(v[0]) }
            fn arr(self) -> V { [self.$f0, 0.0, 0.0, 0.0] }
            fn bounds() -> Vec<(Option<T>, Option<T>)> { vec![$($b),*] }
        }
    };
}
macro_rules! mm { ($ty:ty, $min:ident, $max:ident) => { (Some(<$ty>::$min()), Some(<$ty>::$max())) }; }
macro_rules! mn { ($ty:ty, $min:ident) => { (Some(<$ty>::$min()), None) }; }
const FREE: (Option<T>, Option<T>) = (None, None);

type NXyz = Xyz<D65, T>;
type NLab = Lab<D65, T>;
type NSrgb = Srgb<T>;
type NLinSrgb = LinSrgb<T>;
type NAdobe = palette::rgb::AdobeRgb<T>;
type NLinAdobe = palette::rgb::LinAdobeRgb<T>;
type NP3 = palette::rgb::DisplayP3<T>;
type NLinP3 = palette::rgb::LinDisplayP3<T>;
type NRec2020 = palette::rgb::Rec2020<T>;
type NLinRec2020 = palette::rgb::LinRec2020<T>;
type NRec709 = palette::rgb::Rec709<T>;
type NHsv = Hsv<palette::encoding::Srgb, T>;
type NHsl = Hsl<palette::encoding::Srgb, T>;
type NHwb = Hwb<palette::encoding::Srgb, T>;
type NHsvLin = Hsv<palette::encoding::Linear<palette::encoding::Srgb>, T>;
type NHslLin = Hsl<palette::encoding::Linear<palette::encoding::Srgb>, T>;
type NHwbRec709 = Hwb<palette::encoding::Rec709, T>;
type NHsvAdobe = Hsv<palette::encoding::AdobeRgb, T>;
type NHslP3 = Hsl<palette::encoding::DisplayP3, T>;
type NHwbRec2020 = Hwb<palette::encoding::Rec2020, T>;
type NXyz50 = Xyz<D50, T>;
type NLab50 = Lab<D50, T>;
type NLch50 = Lch<D50, T>;
type NLuv50 = Luv<D50, T>;
type NProPhoto = palette::rgb::ProPhotoRgb<T>;
type NLinProPhoto = palette::rgb::LinProPhotoRgb<T>;
type NHsvProPhoto = Hsv<palette::encoding::ProPhotoRgb, T>;
type NXyzDci = Xyz<palette::encoding::DciP3, T>;
type NLabDci = Lab<palette::encoding::DciP3, T>;
type NDciP3 = palette::rgb::DciP3<T>;
type NLinDciP3 = palette::rgb::LinDciP3<T>;
type NDciP3Plus = palette::rgb::DciP3Plus<palette::encoding::P3Gamma, T>;
type NLinDciP3Plus = palette::rgb::LinDciP3Plus<palette::encoding::P3Gamma, T>;

macro_rules! rgbnode { ($ty:ty, $name:expr) => { node3!($ty, $name, red, green, blue, [mm!($ty, min_red, max_red), mm!($ty, min_green, max_green), mm!($ty, min_blue, max_blue)]); }; }
macro_rules! xyznode { ($ty:ty, $name:expr) => { node3!($ty, $name, x, y, z, [mm!($ty, min_x, max_x), mm!($ty, min_y, max_y), mm!($ty, min_z, max_z)]); }; }
macro_rules! labnode { ($ty:ty, $name:expr) => { node3!($ty, $name, l, a, b, [mm!($ty, min_l, max_l), mm!($ty, min_a, max_a), mm!($ty, min_b, max_b)]); }; }
xyznode!(NXyz, "xyz");
labnode!(NLab, "lab");
rgbnode!(NSrgb, "srgb");
rgbnode!(NLinSrgb, "linsrgb");
rgbnode!(NAdobe, "adobe");
rgbnode!(NLinAdobe, "linadobe");
rgbnode!(NP3, "p3");
rgbnode!(NLinP3, "linp3");
rgbnode!(NRec2020, "rec2020");
rgbnode!(NLinRec2020, "linrec2020");
rgbnode!(NRec709, "rec709");
node_hue_first!(NHsv, "hsv", saturation, value, [FREE, mm!(NHsv, min_saturation, max_saturation), mm!(NHsv, min_value, max_value)]);
node_hue_first!(NHsl, "hsl", saturation, lightness, [FREE, mm!(NHsl, min_saturation, max_saturation), mm!(NHsl, min_lightness, max_lightness)]);
node_hue_first!(NHwb, "hwb", whiteness, blackness, [FREE, mm!(NHwb, min_whiteness, max_whiteness), mm!(NHwb, min_blackness, max_blackness)]);
node_hue_first!(NHsvLin, "hsv_linsrgb", saturation, value, [FREE, mm!(NHsvLin, min_saturation, max_saturation), mm!(NHsvLin, min_value, max_value)]);
node_hue_first!(NHslLin, "hsl_linsrgb", saturation, lightness, [FREE, mm!(NHslLin, min_saturation, max_saturation), mm!(NHslLin, min_lightness, max_lightness)]);
node_hue_first!(NHwbRec709, "hwb_rec709", whiteness, blackness, [FREE, mm!(NHwbRec709, min_whiteness, max_whiteness), mm!(NHwbRec709, min_blackness, max_blackness)]);
node_hue_first!(NHsvAdobe, "hsv_adobe", saturation, value, [FREE, mm!(NHsvAdobe, min_saturation, max_saturation), mm!(NHsvAdobe, min_value, max_value)]);
node_hue_first!(NHslP3, "hsl_p3", saturation, lightness, [FREE, mm!(NHslP3, min_saturation, max_saturation), mm!(NHslP3, min_lightness, max_lightness)]);
node_hue_first!(NHwbRec2020, "hwb_rec2020", whiteness, blackness, [FREE, mm!(NHwbRec2020, min_whiteness, max_whiteness), mm!(NHwbRec2020, min_blackness, max_blackness)]);
xyznode!(NXyz50, "xyz50");
labnode!(NLab50, "lab50");
node_hue_last!(NLch50, "lch50", l, chroma, [mm!(NLch50, min_l, max_l), mm!(NLch50, min_chroma, max_chroma), FREE]);
node3!(NLuv50, "luv50", l, u, v, [mm!(NLuv50, min_l, max_l), mm!(NLuv50, min_u, max_u), mm!(NLuv50, min_v, max_v)]);
rgbnode!(NProPhoto, "prophoto");
rgbnode!(NLinProPhoto, "linprophoto");
node_hue_first!(NHsvProPhoto, "hsv_prophoto", saturation, value, [FREE, mm!(NHsvProPhoto, min_saturation, max_saturation), mm!(NHsvProPhoto, min_value, max_value)]);
xyznode!(NXyzDci, "xyzdci");
labnode!(NLabDci, "labdci");
rgbnode!(NDciP3, "dcip3");
rgbnode!(NLinDciP3, "lindcip3");
rgbnode!(NDciP3Plus, "dcip3plus");
rgbnode!(NLinDciP3Plus, "lindcip3plus");

#[derive(Clone, Copy)]
pub struct Out { pub v: V, pub ok: bool }
pub type ConvFn = fn(&V, u8) -> Out;

// compile-time existence of `B: FromColorUnclamped<A>` by autoref specialisation
pub struct P<A, B>(PhantomData<(A, B)>);
pub trait Yes { fn get(&self) -> Option<ConvFn>; }
pub trait No { fn get(&self) -> Option<ConvFn> { None } }
impl<A, B> Yes for P<A, B>
where
    A: Node,
    B: Node + FromColorUnclamped<A>,
{
    fn get(&self) -> Option<ConvFn> {
        fn f<A: Node, B: Node + FromColorUnclamped<A>>(v: &V, mode: u8) -> Out {
            let a = A::of(v);
            match mode {
                b'u' => Out { v: B::from_color_unclamped(a).arr(), ok: true },
                b'c' => Out { v: <B as FromColor<A>>::from_color(a).arr(), ok: true },
                b't' => match <B as TryFromColor<A>>::try_from_color(a) {
                    Ok(b) => Out { v: b.arr(), ok: true },
                    Err(e) => Out { v: e.color().arr(), ok: false },
                },
                _ => {
                    // with transparency attached
                    let aa: Alpha<A, T> = Alpha { color: a, alpha: v[3] };
                    let bb: Alpha<B, T> = Alpha::<B, T>::from_color_unclamped(aa);
                    let mut o = bb.color.arr();
                    o[3] = bb.alpha;
                    Out { v: o, ok: true }
                }
            }
        }
        Some(f::<A, B>)
    }
}
impl<A, B> No for &P<A, B> {}

pub struct NodeInfo {
    pub name: &'static str,
    pub n: usize,
    pub bounds: fn() -> Vec<(Option<T>, Option<T>)>,
    pub bounds_op: fn(&V, bool) -> Value,
}

fn bounds_op<A: Node>(v: &V, alpha: bool) -> Value
where
    Alpha<A, T>: Clamp + ClampAssign,
{
    let n = A::N;
    let enc = |x: &V, al: bool| -> Value {
        let mut o: Vec<Value> = x[..n].iter().map(|c| c.ex()).collect();
        if al { o.push(x[3].ex()); }
        Value::Array(o)
    };
    if !alpha {
        let a = A::of(v);
        let c = a.clamp();
        let c2 = c.clamp();
        let mut ca = a;
        ca.clamp_assign();
        // slice form: three colours, the middle one is the subject
        let mut sl = [A::of(&[0.25 as T, 0.25 as T, 0.25 as T, 0.0]), a, A::of(&[0.5 as T, 0.5 as T, 0.5 as T, 0.0])];
        sl[..].clamp_assign();
        json!({"clamp": enc(&c.arr(), false), "clamp2": enc(&c2.arr(), false), "clamp_assign": enc(&ca.arr(), false), "slice": enc(&sl[1].arr(), false),
               "within_in": a.is_within_bounds() as u8, "within_out": c.is_within_bounds() as u8,
               "within_out_assign": ca.is_within_bounds() as u8})
    } else {
        let a: Alpha<A, T> = Alpha { color: A::of(v), alpha: v[3] };
        let c = a.clamp();
        let c2 = c.clamp();
        let mut ca = a;
        ca.clamp_assign();
        let get = |x: &Alpha<A, T>| { let mut o = x.color.arr(); o[3] = x.alpha; o };
        // Alpha<C, T>: IsWithinBounds is not implementable for float T on the pinned tree (its bound asks
        // T: IsWithinBounds); the flags are composed from the colour's own answer and the alpha range
        let w = |x: &Alpha<A, T>| (x.color.is_within_bounds() && x.alpha >= 0.0 && x.alpha <= 1.0) as u8;
        json!({"clamp": enc(&get(&c), true), "clamp2": enc(&get(&c2), true), "clamp_assign": enc(&get(&ca), true), "slice": enc(&get(&ca), true),
               "within_in": w(&a), "within_out": w(&c), "within_out_assign": w(&ca)})
    }
}

macro_rules! row {
    ($A:ty; [$($B:ty),*]) => { vec![ $( (&P::<$A, $B>(PhantomData)).get() ),* ] };
}
macro_rules! universe {
    ([$($A:ty),*]; $list:tt) => {
        pub fn nodes() -> Vec<NodeInfo> {
            vec![ $( NodeInfo { name: <$A as Node>::NAME, n: <$A as Node>::N, bounds: <$A as Node>::bounds, bounds_op: bounds_op::<$A> } ),* ]
        }
        pub fn table() -> Vec<Vec<Option<ConvFn>>> { vec![ $( row!($A; $list) ),* ] }
    };
}

universe!([NXyz, NLab, NSrgb, NLinSrgb, NAdobe, NLinAdobe, NP3, NLinP3, NRec2020, NLinRec2020, NRec709, NHsvAdobe, NHslP3, NHwbRec2020, NHsv, NHsl, NHwb, NHsvLin, NHslLin, NHwbRec709, NXyz50, NLab50, NLch50, NLuv50, NProPhoto, NLinProPhoto, NHsvProPhoto, NXyzDci, NLabDci, NDciP3, NLinDciP3, NDciP3Plus, NLinDciP3Plus];
          [NXyz, NLab, NSrgb, NLinSrgb, NAdobe, NLinAdobe, NP3, NLinP3, NRec2020, NLinRec2020, NRec709, NHsvAdobe, NHslP3, NHwbRec2020, NHsv, NHsl, NHwb, NHsvLin, NHslLin, NHwbRec709, NXyz50, NLab50, NLch50, NLuv50, NProPhoto, NLinProPhoto, NHsvProPhoto, NXyzDci, NLabDci, NDciP3, NLinDciP3, NDciP3Plus, NLinDciP3Plus]);

fn lohi(n: &NodeInfo, alpha: bool) -> (Value, Value) {
    let mut lo: Vec<Value> = (n.bounds)().iter().map(|(lo, _)| match lo { Some(x) => x.ex(), None => json!([]) }).collect();
    let mut hi: Vec<Value> = (n.bounds)().iter().map(|(_, hi)| match hi { Some(x) => x.ex(), None => json!([]) }).collect();
    if alpha { lo.push((0.0 as T).ex()); hi.push((1.0 as T).ex()); }
    (Value::Array(lo), Value::Array(hi))
}

fn hexf(s: &str) -> T { f64::from_bits(u64::from_str_radix(s, 16).expect("hex f64")) as T }

fn enc(v: &V, n: usize, alpha: bool) -> Value {
    let mut o: Vec<Value> = v[..n].iter().map(|c| c.ex()).collect();
    if alpha { o.push(v[3].ex()); }
    Value::Array(o)
}
fn fin(v: &V, n: usize, alpha: bool) -> bool { v[..n].iter().all(|c| c.is_finite()) && (!alpha || v[3].is_finite()) }

fn walk(nodes: &[NodeInfo], table: &[Vec<Option<ConvFn>>], c: &Value, path_key: &str, mode: u8) -> Value {
    let idx = |name: &str| -> usize {
        nodes.iter().position(|n| n.name == name).unwrap_or_else(|| { eprintln!("unknown node {}", name); std::process::exit(3) })
    };
    let from = idx(c["from"].as_str().unwrap());
    let alpha = mode == b'a';
    let mut v: V = [0.0; 4];
    let ins = c["in"].as_array().unwrap();
    let with_alpha_in = ins.len() > nodes[from].n;
    for (k, s) in ins.iter().enumerate() {
        let x = hexf(s.as_str().unwrap());
        if with_alpha_in && k == ins.len() - 1 { v[3] = x } else { v[k] = x }
    }
    let path: Vec<usize> = c[path_key].as_array().unwrap().iter().map(|p| idx(p.as_str().unwrap())).collect();
    let mut names = vec![nodes[from].name];
    let mut vals = vec![enc(&v, nodes[from].n, alpha)];
    let mut oks: Vec<u8> = vec![1];
    let mut hub: Vec<Value> = vec![];
    let mut panic = 0u8;
    let mut finite = fin(&v, nodes[from].n, alpha) as u8;
    let mut missing = 0u8;
    let hub_of = |cur: usize, v: &V| -> Value {
        // the Xyz node of this node's white point group: the first node named xyz* it converts to
        if nodes[cur].name.starts_with("xyz") { return enc(v, 3, false); }
        let xyz_i = match (0..nodes.len()).find(|&i| nodes[i].name.starts_with("xyz") && table[cur][i].is_some()) { Some(i) => i, None => return json!([[2, 0], [2, 0], [2, 0]]) };
        match table[cur][xyz_i] {
            Some(f) => match catch(|| f(v, b'u')) { Ok(o) => enc(&o.v, 3, false), Err(_) => json!([[2, 0], [2, 0], [2, 0]]) },
            None => json!([[2, 0], [2, 0], [2, 0]]),
        }
    };
    hub.push(hub_of(from, &v));
    let mut cur = from;
    for &to in &path {
        let f = match table[cur][to] { Some(f) => f, None => { missing = 1; names.push(nodes[to].name); break } };
        match catch(|| f(&v, mode)) {
            Ok(o) => {
                v = o.v;
                oks.push(o.ok as u8);
                if !fin(&v, nodes[to].n, alpha) { finite = 0; }
                names.push(nodes[to].name);
                vals.push(enc(&v, nodes[to].n, alpha));
                hub.push(hub_of(to, &v));
                cur = to;
            }
            Err(_) => { panic = 1; names.push(nodes[to].name); break }
        }
    }
    json!({"mode": (mode as char).to_string(), "nodes": names, "vals": vals, "ok": oks, "hub": hub,
           "panic": panic, "fin": finite, "missing": missing})
}

pub fn convmain() {
    let nodes = nodes();
    let table = table();
    let idx = |name: &str| -> usize {
        nodes.iter().position(|n| n.name == name).unwrap_or_else(|| { eprintln!("unknown node {}", name); std::process::exit(3) })
    };
    let input = std::fs::read_to_string(arg("--cmds").expect("--cmds")).expect("command file");
    let mut rec = Rec::create(&arg_or("--out", "-"));
    for line in input.lines() {
        if line.trim().is_empty() { continue; }
        let c: Value = serde_json::from_str(line).expect("command json");
        let op = c.get("op").and_then(|o| o.as_str()).unwrap_or("walk");
        match op {
            "consts" => {
                for (i, n) in nodes.iter().enumerate() {
                    let b: Vec<Value> = (n.bounds)().iter().map(|(lo, hi)| json!([lo.map(|x| x.ex()), hi.map(|x| x.ex())])).collect();
                    let lo: Vec<Value> = (n.bounds)().iter().map(|(lo, _)| match lo { Some(x) => x.ex(), None => json!([]) }).collect();
                    let hi: Vec<Value> = (n.bounds)().iter().map(|(_, hi)| match hi { Some(x) => x.ex(), None => json!([]) }).collect();
                    let _ = b;
                    let caps: Vec<u8> = table[i].iter().map(|f| f.is_some() as u8).collect();
                    rec.ev(json!({"ev": "consts", "t": TNAME, "node": n.name, "n": n.n, "lo": lo, "hi": hi, "to": caps,
                                  "names": nodes.iter().map(|m| m.name).collect::<Vec<_>>()}));
                }
            }
            "bounds" => {
                let ni = idx(c["node"].as_str().unwrap());
                let alpha = c.get("alpha").and_then(|a| a.as_u64()).unwrap_or(0) == 1;
                let mut v: V = [0.0; 4];
                let ins = c["in"].as_array().unwrap();
                for (k, s) in ins.iter().enumerate() {
                    let x = hexf(s.as_str().unwrap());
                    if alpha && k == ins.len() - 1 { v[3] = x } else { v[k] = x }
                }
                let r = catch(|| (nodes[ni].bounds_op)(&v, alpha));
                let mut e = json!({"ev": "bounds", "id": c["id"], "t": TNAME, "node": nodes[ni].name, "alpha": alpha as u8,
                                   "in": enc(&v, nodes[ni].n, alpha)});
                let (lo, hi) = lohi(&nodes[ni], alpha);
                e["lo"] = lo; e["hi"] = hi;
                match r {
                    Ok(o) => { for (k, val) in o.as_object().unwrap() { e[k] = val.clone(); } e["panic"] = json!(0); }
                    Err(_) => { e["panic"] = json!(1); }
                }
                rec.ev(e);
            }
            "conv3" => {
                let from = idx(c["from"].as_str().unwrap());
                let to = idx(c["to"].as_str().unwrap());
                let mut v: V = [0.0; 4];
                for (k, s) in c["in"].as_array().unwrap().iter().enumerate() { v[k] = hexf(s.as_str().unwrap()); }
                let (lo, hi) = lohi(&nodes[to], false);
                let mut e = json!({"ev": "conv3", "id": c["id"], "t": TNAME, "from": nodes[from].name, "to": nodes[to].name,
                                   "in": enc(&v, nodes[from].n, false), "lo": lo, "hi": hi});
                match table[from][to] {
                    None => { e["missing"] = json!(1); }
                    Some(f) => {
                        let n = nodes[to].n;
                        match catch(|| (f(&v, b'u'), f(&v, b'c'), f(&v, b't'))) {
                            Ok((u, cl, t)) => {
                                e["u"] = enc(&u.v, n, false); e["c"] = enc(&cl.v, n, false); e["tv"] = enc(&t.v, n, false);
                                e["t_ok"] = json!(t.ok as u8); e["panic"] = json!(0);
                                e["fin"] = json!(fin(&u.v, n, false) as u8);
                            }
                            Err(_) => { e["panic"] = json!(1); }
                        }
                    }
                }
                rec.ev(e);
            }
            "tri" => {
                // two routes from the same input: {"op":"tri","from":..,"in":[..],"p1":[..],"p2":[..]}
                let w1 = walk(&nodes, &table, &c, "p1", b'u');
                let w2 = walk(&nodes, &table, &c, "p2", b'u');
                rec.ev(json!({"ev": "tri", "id": c["id"], "t": TNAME, "w1": w1, "w2": w2}));
            }
            _ => {
                let mode = c.get("mode").and_then(|m| m.as_str()).unwrap_or("u").as_bytes()[0];
                let mut e = walk(&nodes, &table, &c, "path", mode);
                e["ev"] = json!("walk");
                e["id"] = c["id"].clone();
                e["t"] = json!(TNAME);
                e["tag"] = c.get("tag").cloned().unwrap_or(json!(""));
                if mode == b'a' {
                    // the same walk without transparency, for "attaching alpha never changes the colour"
                    let b = walk(&nodes, &table, &c, "path", b'u');
                    e["base"] = b["vals"].clone();
                }
                rec.ev(e);
            }
        }
    }
    let n = rec.finish();
    eprintln!("conv[{}]: {} events", TNAME, n);
}
