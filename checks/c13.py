"""C13 - in-place conversion equals out-of-place conversion; guards restore on drop.
Spec: spec/InPlace.tla (guard stack machine over symbolic conversion terms). TLC enumerates every guard
program up to a depth and simulates longer ones; the harness runs each on Vec / Box<[T]> / single values and
records raw arrays, address, length, capacity and the out-of-place value of the specification's term;
TraceInPlace.tla validates every step."""
import json
from common import *


def programs(ctx, nt, max_ops, depth, cells, tag, simulate=None):
    r = tlc_mc(ctx, "MC_InPlace", constants={"NT": nt, "MaxOps": max_ops, "MaxDepth": depth, "MaxCells": cells},
               tag=tag, simulate=simulate)
    hs = extract_prints(r.out_path, "REPLAY")
    if simulate:
        groups, keep = {}, []
        for h in hs:
            k = h[:h.rfind(",[")]
            groups[k] = groups.get(k, 0) + 1
            if groups[k] <= 2:
                keep.append(h)
        hs = keep
    else:
        zero = coverage_zero_actions(r.out_path, {"InPlace", "MC_InPlace"})
        if zero:
            raise ToolError("vacuity: actions never taken in %s: %s" % (tag, zero))
    return hs


def run(ctx):
    bins = cargo_build(["inplace"])
    if ctx.quick:
        plan = [("ip_exh", programs(ctx, 3, 4, 3, 2, "ip_exh")),
                ("ip_sim", programs(ctx, 4, 9, 4, 3, "ip_sim", simulate=(400, 12)))]
    else:
        plan = [("ip_exh", programs(ctx, 4, 4, 3, 2, "ip_exh")),
                ("ip_exh5", programs(ctx, 3, 5, 3, 1, "ip_exh5")),
                ("ip_sim", programs(ctx, 4, 14, 4, 3, "ip_sim", simulate=(6000, 18)))]
    nontrivial = set()
    nprog = 0
    for tag, hs in plan:
        hp = ctx.p(tag + ".hist")
        with open(hp, "w") as f:
            for h in hs:
                f.write(h + "\n")
                if '"guard"' in h or '"owned"' in h:
                    nontrivial.add(h)
        tp = ctx.p(tag + ".ndjson")
        run_bin(bins["inplace"], ["--hist", hp, "--kinds", "vec,box,one", "--out", tp])
        res = validate_trace(ctx, "TraceInPlace", tp, tag=tag)
        nprog += res.scenarios
        ctx.cov["traces_validated_against_impl"] += res.scenarios - len(res.rejected)
        add_samples(ctx, tp, n=2, every=200003)
        for (line, ev, info, scen) in res.rejected:
            rs = next((e for e in reversed(scen) if e.get("ev") == "reset"), {})
            coords = {"kind": "guard", "op": ev.get("op"), "container": rs.get("kind")}
            what = "%s buffer: after %s(t=%s, clamped=%s) the buffer holds %s but the specification's term %s evaluates out of place to %s (ptr_eq=%s len=%s cap=%s); model: %s" % (
                rs.get("kind"), ev.get("op"), ev.get("t"), ev.get("cl"), ev.get("arrays"), ev.get("terms"), ev.get("ref"),
                ev.get("ptr_eq"), ev.get("len"), ev.get("cap"), info[:300])
            report(ctx, coords, what, {"bin": "inplace", "scenario": scen, "rejected_event": ev, "trace_line": line})
    ctx.cov["distinct_nontrivial"] = len(nontrivial)
    return finish(ctx, "model_checking",
                  rule="a case is one guard program (sequence of guard operations) run on one container kind; distinct by "
                       "its operation sequence, non-trivial when it creates a guard or converts an owned buffer",
                  explanation="TLC enumerates all behaviours of InPlace.tla up to the stated depth (and simulates longer ones); "
                              "each is executed on real buffers; after every operation TLC checks that the in-place arrays are "
                              "bit-identical to the specification's term evaluated with the ordinary conversion API, and that "
                              "address, length and capacity never change.",
                  trusted=["the out-of-place API (FromColor / FromColorUnclamped) as the meaning of a conversion step",
                           "observation through the live guard's Deref"],
                  extra={"programs_executed": nprog})


def replay(ctx, path):
    rp = json.load(open(path))["replay"]
    bins = cargo_build(["inplace"])
    scen = rp["scenario"]
    rs = next(e for e in scen if e.get("ev") == "reset")
    ops = [["init", rs["n"], rs["t0"], 0]] + [[e["op"], e["t"], e["cl"], e["i"]] for e in scen if e.get("ev") == "guard"]
    # implicit end-of-program drops were logged as explicit drops; replaying them explicitly is equivalent
    hp = ctx.p("replay.hist")
    open(hp, "w").write(json.dumps(ops) + "\n")
    tp = ctx.p("replay.ndjson")
    run_bin(bins["inplace"], ["--hist", hp, "--kinds", rs["kind"], "--out", tp])
    res = validate_trace(ctx, "TraceInPlace", tp, tag="replay")
    if res.rejected:
        print("VIOLATION property=C13 replay=%s" % path)
        print("  still rejected: %s" % json.dumps(res.rejected[0][1])[:500])
        return 1
    print("replay accepted")
    return 0
