------------------------------- MODULE Packed -------------------------------
(***************************************************************************)
(* C12 (part 2) - colours packed into arrays and unsigned integers with a  *)
(* channel order.                                                          *)
(*                                                                         *)
(* Documented contract (palette/src/cast/packed.rs, rgb/channels.rs,       *)
(* luma/channels.rs, Rgb::into_u32 / from_u32):                            *)
(*   * a channel order is named by spelling the channels from the FIRST    *)
(*     array element / MOST significant byte to the last / least           *)
(*     significant: "RGBA color packed in ARGB order", "0xAARRGGBB",       *)
(*     "0xRRGGBBAA"; the integer form is the big-endian reading of the     *)
(*     byte array (Srgb::new(96u8,127,0).into_u32::<Rgba>() = 0x607F00FF); *)
(*   * implemented orders: Rgba, Argb, Bgra, Abgr; for luma La and Al;     *)
(*   * "When an Rgb type is packed, the alpha value will be 0xFF in the    *)
(*     corresponding u32.  Converting from a packed color type back to an  *)
(*     Rgb type will disregard the alpha value.";                          *)
(*   * From<u32>/Into<u32> "defaults to the 0xAARRGGBB component order"    *)
(*     for Rgb and "to the 0xRRGGBBAA component order" for Rgba.           *)
(*                                                                         *)
(* A colour is a tuple of channel values in the colour type's own field    *)
(* order (r, g, b, a) resp. (l, a).  An order is a sequence of channel     *)
(* names, one per position: order[i] is the channel stored at position i,  *)
(* position 1 being the first array element = the most significant byte.   *)
(* A packed integer is represented by its sequence of bytes, most          *)
(* significant first (TLC integers are 32-bit; NatOfBytes states the       *)
(* number they denote).                                                    *)
(***************************************************************************)
EXTENDS Integers, Sequences, FiniteSets

RgbaChannels == <<"r", "g", "b", "a">>
LumaChannels == <<"l", "a">>

(* all orders over a channel list: the bijections positions -> channels *)
Orders(chs) == {o \in [1..Len(chs) -> {chs[i] : i \in 1..Len(chs)}] : \A i, j \in 1..Len(chs) : i # j => o[i] # o[j]}

(* the orders palette implements, by name *)
RgbaOrders == [ rgba |-> <<"r", "g", "b", "a">>,
                argb |-> <<"a", "r", "g", "b">>,
                bgra |-> <<"b", "g", "r", "a">>,
                abgr |-> <<"a", "b", "g", "r">> ]
LumaOrders == [ la |-> <<"l", "a">>,
                al |-> <<"a", "l">> ]

IndexOf(seq, x) == CHOOSE i \in 1..Len(seq) : seq[i] = x
(* position (1 = most significant) of channel ch in the order *)
PosOf(order, ch) == IndexOf(order, ch)

(* ComponentOrder::pack / Packed::pack: colour (in field order chs) -> positions *)
Pack(chs, order, c) == [i \in 1..Len(order) |-> c[IndexOf(chs, order[i])]]
(* ComponentOrder::unpack / Packed::unpack: positions -> colour *)
Unpack(chs, order, p) == [k \in 1..Len(chs) |-> p[PosOf(order, chs[k])]]

(* Rgb (no alpha) through an RGBA order: alpha is the maximum when packing, dropped when unpacking *)
PackRgb(order, c3, amax) == Pack(RgbaChannels, order, <<c3[1], c3[2], c3[3], amax>>)
UnpackRgb(order, p) == SubSeq(Unpack(RgbaChannels, order, p), 1, 3)

(* From<u32> / Into<u32> *)
DefaultOrderRgb == RgbaOrders.argb
DefaultOrderRgba == RgbaOrders.rgba

(* the number a byte sequence denotes read big-endian (only evaluable by TLC below 2^31) *)
RECURSIVE NatOfBytes(_)
NatOfBytes(p) == IF p = <<>> THEN 0 ELSE 256 * NatOfBytes(SubSeq(p, 1, Len(p) - 1)) + p[Len(p)]

-----------------------------------------------------------------------------
(* the property, on the model *)

(* unpacking what was packed returns the colour, and packing what was unpacked returns the bytes *)
PackRoundTrip(chs, order, c) ==
  /\ Unpack(chs, order, Pack(chs, order, c)) = c
  /\ Pack(chs, order, Unpack(chs, order, c)) = c      \* c read as a packed value
(* each channel lands in the byte its letter occupies in the order's name *)
Lands(chs, order, c) ==
  \A k \in 1..Len(chs) : Pack(chs, order, c)[PosOf(order, chs[k])] = c[k]
(* the Rgb forms: the colour survives, alpha is amax in the packed value and ignored on the way back *)
RgbForms(order, c3, anyAlpha, amax) ==
  /\ UnpackRgb(order, PackRgb(order, c3, amax)) = c3
  /\ PackRgb(order, c3, amax)[PosOf(order, "a")] = amax
  /\ UnpackRgb(order, Pack(RgbaChannels, order, <<c3[1], c3[2], c3[3], anyAlpha>>)) = c3
=============================================================================
