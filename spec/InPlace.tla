------------------------------ MODULE InPlace ------------------------------
(***************************************************************************)
(* C13 - in-place conversion equals out-of-place conversion, and guards    *)
(* restore on drop.                                                        *)
(*                                                                         *)
(* The buffer is a sequence of cells.  The specification never computes a  *)
(* colour: each cell carries a TERM, the sequence of ordinary              *)
(* (out-of-place) conversions and writes that its current raw array must    *)
(* equal.  A step is                                                       *)
(*   <<"init", i, t>>        the i-th initial colour of the scenario, type t *)
(*   <<"conv", a, b, cl>>    read the array as type a, convert to type b    *)
(*                           with from_color (cl = 1) or                   *)
(*                           from_color_unclamped (cl = 0)                 *)
(*   <<"const", t, k>>       the k-th constant colour of type t            *)
(* Reinterpretation (a forgotten guard) needs no step: the next conversion  *)
(* names the type the array is then read as.                               *)
(*                                                                         *)
(* guards is the stack of live conversion guards; only the top one is       *)
(* usable (borrow checker).  [cur, orig, cl]: the guard shows the buffer as *)
(* type cur, restores to type orig, clamping iff cl = 1.                   *)
(***************************************************************************)
EXTENDS Integers, Sequences

CONSTANT NT            \* colour types are 0..NT-1, all with the same array layout
VARIABLES base,        \* static type of the buffer when no guard is alive
          cells,       \* Seq(term)
          guards,      \* stack of guards
          forgotten    \* TRUE once some guard has been forgotten (history flag for the typing invariant)

vars == <<base, cells, guards, forgotten>>
Types == 0..(NT - 1)

CurType == IF guards = <<>> THEN base ELSE guards[Len(guards)].cur
Top == guards[Len(guards)]
PopG == SubSeq(guards, 1, Len(guards) - 1)
Conv(a, b, cl) == <<"conv", a, b, cl>>
All(step) == [i \in DOMAIN cells |-> Append(cells[i], step)]

InitWith(n, t0) == /\ base = t0
                   /\ cells = [i \in 1..n |-> << <<"init", i, t0>> >>]
                   /\ guards = <<>>
                   /\ forgotten = FALSE

(* T::from_color_mut(&mut buffer) / from_color_unclamped_mut, on the buffer itself or, nested,
   on the view of the top guard (DerefMut) *)
NewGuard(t, cl) ==
  /\ cells' = All(Conv(CurType, t, cl))
  /\ guards' = Append(guards, [cur |-> t, orig |-> CurType, cl |-> cl])
  /\ UNCHANGED <<base, forgotten>>

(* guard.then_into_color_mut::<T>() / then_into_color_unclamped_mut: replaces the top guard and
   keeps its restore target, so the restore is ONE hop *)
ThenInto(t, cl) ==
  /\ guards # <<>>
  /\ cells' = All(Conv(CurType, t, cl))
  /\ guards' = [guards EXCEPT ![Len(guards)] = [cur |-> t, orig |-> @.orig, cl |-> cl]]
  /\ UNCHANGED <<base, forgotten>>

(* into_unclamped_guard / into_clamped_guard: only the restore mode changes *)
Flip ==
  /\ guards # <<>>
  /\ guards' = [guards EXCEPT ![Len(guards)].cl = 1 - @]
  /\ UNCHANGED <<base, cells, forgotten>>

(* guard.restore() and Drop: convert the CURRENT contents back in a single step *)
Restore ==
  /\ guards # <<>>
  /\ cells' = All(Conv(Top.cur, Top.orig, Top.cl))
  /\ guards' = PopG
  /\ UNCHANGED <<base, forgotten>>
DropGuard == Restore

(* mem::forget(guard): nothing is converted back; the arrays stay and are read as the outer type *)
Forget ==
  /\ guards # <<>>
  /\ guards' = PopG
  /\ forgotten' = TRUE
  /\ UNCHANGED <<base, cells>>

(* write the k-th constant colour of the currently visible type into cell i (through DerefMut) *)
Write(i, k) ==
  /\ i \in DOMAIN cells
  /\ cells' = [cells EXCEPT ![i] = << <<"const", CurType, k>> >>]
  /\ UNCHANGED <<base, guards, forgotten>>

(* Vec<U>::from_color(Vec<T>) / Box<[U]>::from_color(Box<[T]>) and the unclamped forms:
   an owned buffer changes its static type in place *)
OwnedConv(t, cl) ==
  /\ guards = <<>>
  /\ base' = t
  /\ cells' = All(Conv(base, t, cl))
  /\ UNCHANGED <<guards, forgotten>>

-----------------------------------------------------------------------------
(* typing invariants of the guard machine *)

LastTo(term) == LET s == term[Len(term)]
                IN IF s[1] = "conv" THEN s[3] ELSE IF s[1] = "const" THEN s[2] ELSE s[3]

(* unless a guard was forgotten, every cell holds a value OF the type it is currently viewed as *)
WellTyped == forgotten \/ \A i \in DOMAIN cells : LastTo(cells[i]) = CurType
(* the guard stack is a chain of views starting at the buffer's own type *)
StackChain == \A g \in DOMAIN guards : guards[g].orig = (IF g = 1 THEN base ELSE guards[g - 1].cur)
(* consecutive conversion steps chain unless a forget intervened *)
TermChain == forgotten \/ \A i \in DOMAIN cells : \A j \in 2..Len(cells[i]) :
               cells[i][j][1] = "conv" => cells[i][j][2] = LastTo(SubSeq(cells[i], 1, j - 1))
(* a restore never leaves a double conversion: with the stack empty (and nothing forgotten or
   written), every cell's term has as many steps back as forth - checked through its length parity
   being odd is too weak, so the precise statement is: the types visited form a closed walk *)
ClosedWalk == (guards = <<>> /\ ~forgotten) => \A i \in DOMAIN cells : LastTo(cells[i]) = base
=============================================================================
