SPECIFICATION Spec
INVARIANT Holds
CHECK_DEADLOCK FALSE
