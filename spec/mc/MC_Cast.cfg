SPECIFICATION MCSpec
CONSTANTS
  MaxOps = 2
  MaxN = 4
  MaxLen = 8
  MaxCap = 10
  Emit = TRUE
INVARIANTS Inv EmitDone
CHECK_DEADLOCK FALSE
