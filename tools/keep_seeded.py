#!/usr/bin/env python3
"""usage: tools/keep_seeded.py <ID> <n> <slug> <result-line...>
Copies a confirmed seeded change from /tmp/seed/<ID>.work/<n>/ to /verif/seeded/<ID>-<slug>/ with meta.json."""
import json, os, shutil, sys, re
ID, n, slug = sys.argv[1], sys.argv[2], sys.argv[3]
result = " ".join(sys.argv[4:])
ROOT = os.environ.get("SEED_ROOT", "/tmp/seed")
src = "%s/%s.work/%s" % (ROOT, ID, n)
dst = "/verif/seeded/%s-%s" % (ID, slug)
os.makedirs(dst, exist_ok=True)
shutil.copy(src + "/patch.diff", dst + "/patch.diff")
if os.path.isdir(src + "/demo"):
    shutil.copytree(src + "/demo", dst + "/demo", dirs_exist_ok=True, ignore=shutil.ignore_patterns("target", "Cargo.lock"))
for f in ("demo.rs", "demo.sh", "notes.md"):
    if os.path.exists(src + "/" + f):
        shutil.copy(src + "/" + f, dst + "/" + f)
notes = open(src + "/notes.md").read() if os.path.exists(src + "/notes.md") else ""
needs = ""
m = re.search(r"(?is)(what it needs.*?)(\n#|\Z)", notes)
if m:
    needs = " ".join(m.group(1).split())[:900]
files = re.findall(r"^\+\+\+ b/(\S+)", open(src + "/patch.diff").read(), re.M)
meta = {"property": ID, "files_touched": files,
        "needs_to_manifest": needs or "see notes.md",
        "origin": "fresh sub-agent given only the property text and a scratch worktree (%s/%s); nothing from /verif" % (ROOT, ID),
        "confirmed": "tools/confirm_seeded.sh %s %s: existing suite (cargo test --workspace --no-fail-fast --offline) passes with the change, "
                     "demonstration fails with the change and passes without it" % (ID, n),
        "demo_how": "the demo is a tiny cargo project with a path dependency on %s/%s/palette: point it at a checkout with/without the patch and `cargo run --offline`" % (ROOT, ID),
        "checks_run": "tools/try_seeded.sh (scratch worktree with the patch applied, harness copy pointing at it): " + result}
json.dump(meta, open(dst + "/meta.json", "w"), indent=1)
print("kept", dst)
