------------------------------- MODULE MC_Ops -------------------------------
(* C10 checked on the model itself (theorems about Ops.tla), exhaustively on a grid of components    *)
(* (eighths of the range, hues on a lattice with opposite / wrapping / out-of-turn pairs) x factors  *)
(* {-1, -1/2, 0, 1/4, 1/2, 1, 3/2, 2}.  One state per case; sections:                                *)
(*   mix     end points at 0 and 1, saturation of the factor outside [0, 1], betweenness, monotone   *)
(*           approach of the second colour, and the judge accepts the exact / rejects the unclamped  *)
(*   mixhue  the same on the circle, shorter way round, proportional progress, two admissible        *)
(*           results exactly for opposite hues, the judges reject the long way round                 *)
(*   inc     lighten / saturate (relative and fixed) on one component: identity at 0, reaches the    *)
(*           limit at 1 (and the opposite limit at -1), never leaves the range, monotone in the      *)
(*           factor, toward the limit for [0, 1], darken = the documented darken formula, the doc    *)
(*           examples (50% -> 75% / 25% / 100%), judge rejects a limit taken at min instead of max   *)
(*   colour  whole colours of six types: untouched components, in-range stays in range (with the     *)
(*           whiteness + blackness coupling), HWB moves whiteness and blackness oppositely, judges   *)
(*   scheme  the colour-scheme helpers as rotations: complementary twice = identity, tetradic =      *)
(*           three quarter turns, Lab-like negation / quarter turn agree with the rotation algebra   *)
(*   arith   the arithmetic judges accept the exact result and reject a different one                *)
(*   machine the same-call-same-result machine: gid grows, variants only after their reference       *)
EXTENDS Ops, FiniteSets, TLC

CONSTANTS NCol,     \* how many of ColNodes the colour section enumerates (quick tier: the first 4)
          Secs      \* the sections to run (all of them; a small subset for the -coverage vacuity run)

VARIABLES sec,      \* section
          ph,       \* "blk": p is a block (the first two parameters), "case": p is one case
          p
mcvars == <<vars, sec, ph, p>>

F8 == <<-8, -4, 0, 2, 4, 8, 12, 16>>               \* factors in eighths
Fv(i) == DyMulPow2(DyFromInt(F8[i]), -3)
E8(k) == DyMulPow2(DyFromInt(k), -3)               \* k / 8
LinLat == {-8, 0, 1, 3, 4, 8}                      \* components for mix, in eighths
HueLat == <<0, 45, 135, 180, 225, 315, 360, -90, 405, 1441>>     \* half degrees for the last: 720.5
Hv(i) == IF i = 10 THEN DyMulPow2(DyFromInt(HueLat[i]), -1) ELSE DyFromInt(HueLat[i])
Kinds == << <<0, 1>>, <<0, 100>>, <<-1, 1>> >>     \* [lo, hi] of an affected component
KLat == {0, 1, 3, 4, 7, 8}                          \* position inside the range, in eighths
KLo(kd) == DyFromInt(Kinds[kd][1])
KHi(kd) == DyFromInt(Kinds[kd][2])
KX(kd, k) == DyAdd(KLo(kd), DyMul(DySub(KHi(kd), KLo(kd)), E8(k)))
Methods == <<"lighten", "lighten_fixed">>
ColNodes == <<"hwb", "hsv", "xyz", "lab", "lch", "linluma", "okhwb", "srgb">>
C3 == <<0, 3, 8>>

Params(s) == CASE s = "mix" -> LinLat \X LinLat \X (1..8)
               [] s = "mixhue" -> (1..10) \X (1..10) \X (1..8)
               [] s = "inc" -> (1..3) \X KLat \X (1..8) \X (1..2)
               [] s = "colour" -> (1..NCol) \X (1..3) \X (1..3) \X (1..3) \X (1..8) \X (1..2)
               [] s = "scheme" -> (1..10) \X (1..3) \X (1..3)
               [] s = "arith" -> LinLat \X LinLat
               [] s = "machine" -> {<<0, 0>>}
Sections == {"mix", "mixhue", "inc", "colour", "scheme", "arith", "machine"}

(* cases are enumerated as states in two steps (block, then case) so that TLC's workers share them *)
ASSUME Secs \subseteq Sections
MCInit == Init /\ sec \in Secs /\ ph = "blk" /\ p \in {<<q[1], q[2]>> : q \in Params(sec)}
Enum == /\ ph = "blk" /\ ph' = "case"
        /\ p' \in {q \in Params(sec) : q[1] = p[1] /\ q[2] = p[2]}
        /\ UNCHANGED <<vars, sec>>
Case(s) == sec = s /\ ph = "case"

(* ---- the machine section: every behaviour over a tiny event alphabet *)
Ev == [gid : 1..2, form : {"val", "assign", "alpha", "alpha_assign"}, fam : {"Lighten", "Clamp"}, m : {"x"},
       node : {"lab"}, t : {"f64"}, in : {<<>>}, in2 : {<<>>}, args : {<< <<0, 0>> >>}, out : {<<1>>, <<2>>}]
MReset == Case("machine") /\ UNCHANGED <<sec, ph, p>> /\ Reset
MOpen == Case("machine") /\ UNCHANGED <<sec, ph, p>> /\ \E e \in Ev : Open(e)
MJoin == Case("machine") /\ UNCHANGED <<sec, ph, p>> /\ \E e \in Ev : Join(e)
MCNext == Enum \/ MReset \/ MOpen \/ MJoin
MCSpec == MCInit /\ [][MCNext]_mcvars

MachineInv == /\ TypeOK
              /\ (grp.gid = 0 => grp = NoGroup)
              /\ (grp.gid > 0 => grp.ref # <<>> /\ grp.sig # <<>>)
              /\ (sec # "machine" => grp = NoGroup /\ prev = <<>>)
              /\ (prev # <<>> => prev[1][1] \in FactorFams /\ grp.gid > 0)
(* the gid never goes back inside a scenario, a variant never changes the reference *)
MachineStep == [][\/ grp' = NoGroup
                  \/ grp'.gid > grp.gid
                  \/ (grp'.gid = grp.gid /\ grp'.ref = grp.ref /\ grp'.sig = grp.sig)]_mcvars

-----------------------------------------------------------------------------
Abs(d) == DyAbs(d)
(* equality of values (two representations of one dyadic may differ in their exponent) *)
CEq(c1, c2) == Len(c1) = Len(c2) /\ \A i \in DOMAIN c1 : DyEq(c1[i], c2[i])
SetEq(S, T) == (\A x \in S : \E y \in T : CEq(x, y)) /\ (\A y \in T : \E x \in S : CEq(x, y))
Cong(x, y) == HueCongruent(x, y)
CD(x) == HueCircDist(x)

MixThm ==
  Case("mix") =>
    LET a == E8(p[1])  b == E8(p[2])  f == Fv(p[3])  r == MixLin(a, b, f)
    IN /\ (F8[p[3]] = 0 => DyEq(r, a)) /\ (F8[p[3]] = 8 => DyEq(r, b))
       /\ (F8[p[3]] <= 0 => DyEq(r, a)) /\ (F8[p[3]] >= 8 => DyEq(r, b))
       /\ DyLe(DyMin(a, b), r) /\ DyLe(r, DyMax(a, b))
       /\ (p[3] < 8 => DyLe(Abs(DySub(b, MixLin(a, b, Fv(p[3] + 1)))), Abs(DySub(b, r))))      \* adjacent factors: <= is transitive
       /\ SetEq(MixSet("lab", <<a, a, b>>, <<b, a, a>>, f), {<<r, a, MixLin(b, a, f)>>})
       \* the judges: accept the exact result for both component types, reject the unclamped factor
       /\ MixCompOK("f32", a, b, f, r) /\ MixCompOK("f64", a, b, f, r) /\ BetweenComp("f32", a, b, r)
       /\ ((a # b /\ (F8[p[3]] < 0 \/ F8[p[3]] > 8)) =>
             LET w == DyAdd(a, DyMul(DySub(b, a), f)) IN ~MixCompOK("f32", a, b, f, w) /\ ~BetweenComp("f32", a, b, w))

MixHueThm ==
  Case("mixhue") =>
    LET ha == Hv(p[1])  hb == Hv(p[2])  f == Fv(p[3])  fc == Clamp01(f)
        S == MixHueSet(ha, hb, f)  r == SignedDiff(ha, hb)  d == CD(DySub(hb, ha))
        opposite == DyEq(d, D180)
    IN /\ DyLt(DyNeg(D180), r) /\ DyLe(r, D180) /\ Cong(DyAdd(ha, r), hb) /\ DyEq(Abs(r), d)
       /\ Cardinality(S) = (IF opposite /\ ~DyIsZero(fc) THEN 2 ELSE 1)
       /\ \A x \in S :
            /\ (F8[p[3]] <= 0 => DyEq(x, ha)) /\ (F8[p[3]] >= 8 => Cong(x, hb))
            /\ DyEq(CD(DySub(x, ha)), DyMul(d, fc))                                   \* proportional progress ...
            /\ DyEq(DyAdd(CD(DySub(x, ha)), CD(DySub(hb, x))), d)                       \* ... on a shortest arc
            /\ MixHueOK("f32", ha, hb, f, x) /\ MixHueOK("f64", ha, hb, f, x) /\ BetweenHue("f32", ha, hb, x)
            /\ MixHueOK("f64", ha, hb, f, DyAdd(x, D360))                               \* an angle, not a number
       \* the long way round is rejected by both judges (strictly inside, hues neither equal nor opposite)
       /\ ((~opposite /\ ~DyIsZero(d) /\ F8[p[3]] > 0 /\ F8[p[3]] < 8) =>
             LET w == MixHueWith(ha, OtherWay(r), f) IN ~MixHueOK("f32", ha, hb, f, w) /\ ~BetweenHue("f32", ha, hb, w))
       \* inside a whole colour: the other components are mixed linearly
       /\ SetEq(MixSet("hsv", <<ha, D0, D1>>, <<hb, D1, D1>>, f), {<<x, fc, D1>> : x \in S})

IncThm ==
  Case("inc") =>
    LET kd == p[1]  lo == KLo(kd)  hi == KHi(kd)  x == KX(kd, p[2])  fi == p[3]  f == Fv(fi)  m == Methods[p[4]]
        r == Inc(m, x, lo, hi, f)
        darkenDoc(g) == IF m = "lighten" THEN ClampTo(DySub(x, DyMul(DySub(x, lo), g)), lo, hi)
                        ELSE ClampTo(DySub(x, DyMul(DySub(hi, lo), g)), lo, hi)
    IN /\ (F8[fi] = 0 => DyEq(r, x))
       /\ (F8[fi] >= 8 => DyEq(r, hi)) /\ (F8[fi] <= -8 => DyEq(r, lo))                \* factor 1 reaches the limit
       /\ DyLe(lo, r) /\ DyLe(r, hi)                                                  \* never leaves the range
       /\ (fi < 8 => DyLe(r, Inc(m, x, lo, hi, Fv(fi + 1))))                          \* monotone in the factor
       /\ (F8[fi] >= 0 => DyLe(x, r)) /\ (F8[fi] <= 0 => DyLe(r, x))                  \* toward the limit
       /\ (F8[fi] >= 0 => DyEq(Inc(m, x, lo, hi, DyNeg(f)), darkenDoc(f)))            \* darken(f) = lighten(-f)
       /\ (m = "lighten" /\ F8[fi] \in 0..8 => DyEq(r, DyAdd(x, DyMul(DySub(hi, x), f))))   \* "scales towards the maximum"
       \* judges
       /\ IncCompOK("f64", m, x, lo, hi, f, r)
       /\ LET raw == IncRaw(m, x, lo, hi, f) IN (~CompWithin(raw, lo, hi) => ~IncCompOK("f32", m, x, lo, hi, f, raw))
       \* a limit expression using min for max leaves x where it is
       /\ ((m = "lighten" /\ F8[fi] > 0 /\ DyLt(x, hi)) => ~IncCompOK("f32", m, x, lo, hi, f, x))

(* vacuity of the antecedents above: the lattices contain opposite, wrapping, equal and out-of-turn hue pairs,
   factors on both sides of [0, 1], and the circle arithmetic taken from Hue.tla behaves as documented there *)
ASSUME Witnesses ==
  /\ \E i, j \in 1..10 : DyEq(CD(DySub(Hv(j), Hv(i))), D180)
  /\ \E i, j \in 1..10 : DySign(SignedDiff(Hv(i), Hv(j))) < 0 /\ DyLt(Hv(i), Hv(j))          \* wraps backwards
  /\ \E i, j \in 1..10 : i # j /\ Cong(Hv(i), Hv(j))
  /\ \E i \in 1..8 : F8[i] < 0 /\ \E j \in 1..8 : F8[j] > 8
  /\ DyEq(HueMod360(DyFromInt(-90)), DyFromInt(270)) /\ DyEq(HueCanonSigned(DyFromInt(270)), DyFromInt(-90))
  /\ DyEq(HueCanonSigned(D180), D180) /\ DyEq(HueCanonSigned(DyNeg(D180)), D180)
  /\ DyEq(HueCircDist(Hv(10)), E8(4)) /\ UlpExp("f32", D1) = -23 /\ UlpExp("f64", D360) = -44

(* the documentation's examples *)
ASSUME DocExamples ==
  LET h == E8(4) IN /\ DyEq(Inc("lighten", h, D0, D1, h), E8(6))               \* 50% lighten(0.5) -> 75%
                    /\ DyEq(Inc("lighten", h, D0, D1, DyNeg(h)), E8(2))        \* 50% darken(0.5) -> 25%
                    /\ DyEq(Inc("lighten_fixed", h, D0, D1, h), D1)            \* 50% lighten_fixed(0.5) -> 100%
                    /\ DyEq(Inc("lighten_fixed", h, D0, D1, DyNeg(h)), D0)     \* 50% darken_fixed(0.5) -> 0%

(* documented bounds as dyadics (truncated at 2^-104: any lo < hi serves the theorems) *)
DocDy(b) == IF b = NoB THEN <<>> ELSE LET x == FxRat(b[1], b[2]) IN <<x[1], IF x[1] = 0 THEN 0 ELSE -FL, x[2]>>
LoOf(node) == [i \in 1..NComp(node) |-> DocDy(DocBounds[node][i][1])]
HiOf(node) == [i \in 1..NComp(node) |-> DocDy(DocBounds[node][i][2])]
CompAt(node, i, k) ==
  LET lo == LoOf(node)[i]  hi == HiOf(node)[i]
  IN IF i = HueIdx(node) THEN DyFromInt(45 * k)
     ELSE IF Absent(lo) \/ Absent(hi) THEN E8(k - 4)
     ELSE DyAdd(lo, DyMul(DySub(hi, lo), E8(k)))
ColourAt(node, ks) ==
  LET c == [i \in 1..NComp(node) |-> CompAt(node, i, C3[ks[i]])]
  IN IF IsHwb(node) THEN [c EXCEPT ![3] = DyMul(E8(C3[ks[3]]), DySub(D1, c[2]))] ELSE c     \* whiteness + blackness <= 1

ColourThm ==
  Case("colour") =>
    LET node == ColNodes[p[1]]  c == ColourAt(node, <<p[2], p[3], p[4]>>)  fi == p[5]  f == Fv(fi)
        lo == LoOf(node)  hi == HiOf(node)
        fams == {"Lighten", "Saturate"} \cap Caps[node]
        meth(tr) == IF tr = "Lighten" THEN Methods[p[6]] ELSE (IF p[6] = 1 THEN "saturate" ELSE "saturate_fixed")
    IN /\ Within(node, c, lo, hi)
       /\ \A tr \in fams :
            LET m == meth(tr)  r == Increase(tr, m, node, c, lo, hi, f)
            IN /\ \A i \in DOMAIN c : i \notin AffIdx(tr, node) => r[i] = c[i]               \* untouched components
               /\ Within(node, r, lo, hi)                                                  \* stays in range (any factor)
               /\ (F8[fi] = 0 => CEq(r, c))
               /\ IncreaseOK(tr, m, node, "f64", c, lo, hi, f, r)                            \* the tighter of the two judges
               /\ RangeOK(tr, node, lo, hi, r)
               /\ (fi < 8 => LET nx == Increase(tr, m, node, c, lo, hi, Fv(fi + 1))
                              IN /\ MonoOK(tr, node, "f32", lo, hi, r, nx)                  \* the sweep judge accepts the model ...
                                 /\ (~CEq(nx, r) => ~MonoOK(tr, node, "f32", lo, hi, nx, r)))  \* ... and rejects it backwards
               /\ (IsHwb(node) /\ tr = "Lighten" =>
                     /\ (F8[fi] >= 8 => DyEq(r[2], D1) /\ DyIsZero(r[3]))                   \* white at 1
                     /\ (F8[fi] <= -8 => DyIsZero(r[2]) /\ DyEq(r[3], D1))                  \* black at -1
                     /\ (F8[fi] >= 0 => DyLe(c[2], r[2]) /\ DyLe(r[3], c[3]))               \* opposite directions
                     /\ (F8[fi] <= 0 => DyLe(r[2], c[2]) /\ DyLe(c[3], r[3]))
                     \* what palette computes without the upper clamp is accepted as a value, but not as in range
                     /\ LET raw == HwbRaw(m, c, lo, hi, f)  lc == <<raw[1], DyMax(raw[2], lo[2]), DyMax(raw[3], lo[3])>>
                        IN /\ IncreaseOK(tr, m, node, "f32", c, lo, hi, f, lc)
                           /\ (~CEq(lc, r) => ~RangeOK(tr, node, lo, hi, lc)))

SchemeThm ==
  Case("scheme") =>
    LET h == Hv(p[1])
        c == <<h, E8(C3[p[2]]), E8(C3[p[3]])>>                     \* a cylinder colour, hue first ("hsv")
        g == <<E8(4), E8(C3[p[2]] - 4), E8(C3[p[3]] - 4)>>         \* a Lab-like colour
        hue(m, k) == SchemeHue("hsv", c, m, k)
        lab(m, k) == SchemeLab("lab", g, m, k)
        quarter(x) == SchemeLab("lab", x, "tetradic", 1)
    IN /\ Cong(SchemeHue("hsv", hue("complementary", 1), "complementary", 1)[1], h)
       /\ hue("tetradic", 2) = hue("complementary", 1)
       /\ Cong(SchemeHue("hsv", hue("tetradic", 1), "tetradic", 1)[1], hue("tetradic", 2)[1])
       /\ Cong(SchemeHue("hsv", hue("tetradic", 3), "tetradic", 1)[1], h)
       /\ Cong(SchemeHue("hsv", hue("triadic", 2), "triadic", 1)[1], h)
       /\ Cong(hue("analogous", 1)[1], DyAdd(h, DyFromInt(330))) /\ Cong(hue("analogous_secondary", 1)[1], DyAdd(h, DyFromInt(300)))
       /\ Cong(hue("split_complementary", 1)[1], DyAdd(hue("complementary", 1)[1], DyFromInt(-30)))
       /\ Cong(hue("split_complementary", 2)[1], DyAdd(hue("complementary", 1)[1], DyFromInt(30)))
       /\ \A m \in {"complementary", "split_complementary", "analogous", "analogous_secondary", "triadic", "tetradic"} :
            \A k \in 1..SchemeLen("hsv", m) : /\ hue(m, k)[2] = c[2] /\ hue(m, k)[3] = c[3]
                                              /\ SchemeHueOK("hsv", "f32", c, m, k, hue(m, k))
                                              /\ ~SchemeHueOK("hsv", "f32", c, m, k, c)
       \* Lab-like: the quarter turn generates the scheme
       /\ quarter(quarter(g)) = lab("complementary", 1) /\ quarter(quarter(quarter(quarter(g)))) = g
       /\ lab("tetradic", 1) = quarter(g) /\ lab("tetradic", 2) = lab("complementary", 1)
       /\ lab("tetradic", 3) = quarter(quarter(quarter(g)))
       /\ lab("tetradic", 1)[1] = g[1] /\ SchemeLen("lab", "tetradic") = 3 /\ SchemeLen("lab", "complementary") = 1
       \* a quarter turn is a rotation: the squared radius is kept and it is orthogonal to the original
       /\ DyEq(DyAdd(DyMul(quarter(g)[2], quarter(g)[2]), DyMul(quarter(g)[3], quarter(g)[3])), DyAdd(DyMul(g[2], g[2]), DyMul(g[3], g[3])))
       /\ DyIsZero(DyAdd(DyMul(quarter(g)[2], g[2]), DyMul(quarter(g)[3], g[3])))
       /\ ShiftHue("hsv", c, D0) = c /\ WithHue("hsv", c, h) = c
       /\ ShiftHueOK("hsv", "f64", c, D180, hue("complementary", 1))

ArithThm ==
  Case("arith") =>
    LET x == E8(p[1])  y == E8(p[2])
    IN /\ \A tr \in {"Add", "Sub", "Mul"} : ArithCompOK(tr, "f32", x, y, Arith2(tr, x, y))
       /\ (~DyIsZero(y) => ~ArithCompOK("Add", "f32", x, y, DySub(x, y)) /\ ~ArithCompOK("Sub", "f64", x, y, DyAdd(x, y)))
       \* quotient by cross-multiplication: x / y with y a power of two (exact) accepted, x / y + 1/8 rejected
       /\ (p[2] \in {1, 4, 8} => /\ ArithCompOK("Div", "f32", x, y, DyMul(x, E8(64 \div p[2])))
                                    /\ ~ArithCompOK("Div", "f32", x, y, DyAdd(DyMul(x, E8(64 \div p[2])), E8(1))))
       /\ ArithCompOK("Div", "f32", x, D0, x)          \* division by zero: nothing is claimed
       \* a quotient that is not a dyadic: x / 3 cut to 24 significant bits (within one ulp) is accepted for either sign,
       \* cut to 16 bits it is rejected
       /\ (p[1] # 0 =>
             LET q == FxDivInt(FxOfDy(x), 3)  nb == BitLen(q[2])
                 cut(bits) == LET r == IShl(IShr(q, nb - bits), nb - bits) IN <<r[1], -FL, r[2]>>
             IN /\ ArithCompOK("Div", "f32", x, DyFromInt(3), cut(24)) /\ ArithCompOK("Div", "f32", DyNeg(x), DyFromInt(3), DyNeg(cut(24)))
                /\ (cut(16) # cut(24) => /\ ~ArithCompOK("Div", "f32", x, DyFromInt(3), cut(16))
                                         /\ ~ArithCompOK("Div", "f32", DyNeg(x), DyFromInt(3), DyNeg(cut(16)))))

=============================================================================
