------------------------------ MODULE MC_Simd ------------------------------
(* C17 on the model, one state per case:                                        *)
(*  part "pack"   Pack / Unpack are inverse, lane-wise and order preserving for    *)
(*                2, 4 and 8 lanes (all arrays over three scalar colours);         *)
(*                lifted operations act on every lane independently                *)
(*  part "select" the select laws and De Morgan for all masks of 2, 4, 8 lanes     *)
(*  part "cmp"    lane-wise comparisons on IEEE values incl. NaN and infinities     *)
(*  part "group"  LANE GROUPINGS: for every family of abstract input classes (which *)
(*                branch of a piecewise definition a lane takes) all assignments    *)
(*                of classes to 2 lanes, and the rows of two Latin squares for 4     *)
(*                and 8 lanes, emitted as REPLAY lines; the harness builds one SIMD  *)
(*                input per line whose lanes take DIFFERENT branches.               *)
EXTENDS Simd, TLC, Json

CONSTANTS Emit,
          Masks      \* "few" or "all": which masks deal two classes over 4 and 8 lanes

(* Families of abstract input classes.  `src`: the nodes whose coordinates the classes are phrased in; the groupings
   are run for every conversion from such a node that exists for wide types.
     rgbmax   which channel is the maximum, ties, grey (RGB -> HSV / HSL / HWB, both implementations)
     rgbtf    per channel: linear toe (l) / power segment (h) of the transfer function, t = on the threshold
     xyzjoin  per channel X/Xn Y/Yn Z/Zn above (a) / below (b) the join (6/29)^3 of f(t); black (Yxy: zero divisor)
     labjoin  the same for the inverse f; exactly neutral
     polar    zero / tiny chroma, hue quadrant, hue representation (negative, >= 360, on an axis)
     cart     neutral, quadrant of (a, b), on an axis (atan2 edge cases)
     yxy      zero luma, zero y (invalid divisor)
     hexhue   hue sector, sector boundary, hue representation
     hexsv    grey, black, white, fully saturated, lightness below / at / above one half
     luma     toe / power segment / threshold, black, white *)
Families == <<
  [fam |-> "rgbmax",  src |-> <<"srgb", "linsrgb">>, classes |-> <<"rmax", "gmax", "bmax", "tie_rg", "tie_gb", "tie_rb", "grey", "black", "white">>],
  [fam |-> "rgbtf",   src |-> <<"srgb", "linsrgb">>, classes |-> <<"lll", "hll", "lhl", "llh", "hhl", "hlh", "lhh", "hhh", "ttt">>],
  [fam |-> "xyzjoin", src |-> <<"xyz">>, classes |-> <<"aaa", "baa", "aba", "aab", "bba", "bab", "abb", "bbb", "black">>],
  [fam |-> "labjoin", src |-> <<"lab">>, classes |-> <<"aaa", "baa", "aba", "aab", "bba", "bab", "abb", "bbb", "black", "grey0">>],
  [fam |-> "polar",   src |-> <<"lch", "oklch", "lchuv">>, classes |-> <<"c0", "c0h", "tiny", "q1", "q2", "q3", "q4", "hneg", "h360", "axis">>],
  [fam |-> "cart",    src |-> <<"lab", "oklab", "luv">>, classes |-> <<"grey0", "black", "q1", "q2", "q3", "q4", "a0p", "a0n", "b0p", "b0n", "diag">>],
  [fam |-> "yxy",     src |-> <<"yxy">>, classes |-> <<"norm", "dark", "luma0", "y0", "black">>],
  [fam |-> "hexhue",  src |-> <<"hsl", "hsv", "hwb", "okhsv", "okhwb", "hsluv">>,
                      classes |-> <<"s0", "s1", "s2", "s3", "s4", "s5", "b0", "b60", "b120", "b180", "b240", "b300", "h360", "hneg", "hbig">>],
  [fam |-> "hexsv",   src |-> <<"hsl", "hsv", "hwb", "okhsv", "okhwb", "hsluv">>, classes |-> <<"grey", "black", "white", "full", "lo", "hi", "half", "norm">>],
  [fam |-> "luma",    src |-> <<"linluma", "srgbluma">>, classes |-> <<"black", "white", "low", "high", "thr">>]
>>

LaneCounts == {2, 4, 8}

(* Latin squares of order k: square 1 is cyclic (lane i of row r takes class (i + r) mod k), square 2 uses the smallest
   stride > 1 coprime to k, so that neighbouring lanes are paired differently *)
RECURSIVE Gcd(_, _)
Gcd(a, b) == IF b = 0 THEN a ELSE Gcd(b, a % b)
Stride2(k) == CHOOSE s \in 2..(k + 1) : Gcd(s, k) = 1 /\ \A u \in 2..(s - 1) : Gcd(u, k) # 1
Stride(sq, k) == IF sq = 1 THEN 1 ELSE Stride2(k)
LatinRow(classes, n, sq, r) == LET k == Len(classes) IN [i \in 1..n |-> classes[(((i - 1) * Stride(sq, k) + r) % k) + 1]]

(* small domains for the model-side laws *)
Cols == {<<1, 2, 3>>, <<4, 5, 6>>, <<7, 8, 9>>}
Cols2 == {<<1, 2, 3>>, <<4, 9, 6>>}                                              \* 8 lanes: all arrays over two colours
(* 8 lanes: every first mask, second masks of period 4 *)
Masks8 == {[i \in 1..8 |-> q[((i - 1) % 4) + 1]] : q \in [1..4 -> BOOLEAN]}
Vals == {<<2, 0>>, <<-3, 0>>, <<-1, 0, 1>>, <<0, 0>>, <<1, 0, 1>>, <<3, 0>>}       \* NaN, -inf, -1, 0, 1, +inf  (Fx encoding)
VecA(n) == [i \in 1..n |-> i]
VecB(n) == [i \in 1..n |-> 10 + i]
(* a piecewise scalar operation to lift: branch on which component is largest *)
Piece(c) == IF c[1] >= c[2] /\ c[1] >= c[3] THEN <<c[1], 0, 0>> ELSE IF c[2] >= c[3] THEN <<0, c[2] + 1, 0>> ELSE <<0, 0, c[3] + 2>>

(* masks that deal two classes over n lanes; "few": the structured ones, "all": every non-constant mask *)
Bits(n, bs) == [i \in 1..n |-> bs[i] = 1]
FewMasks(n) == IF n = 4
               THEN {Bits(4, b) : b \in {<<1,1,0,0>>, <<0,0,1,1>>, <<1,0,1,0>>, <<0,1,0,1>>, <<1,0,0,0>>, <<0,1,1,1>>}}
               ELSE {Bits(8, b) : b \in {<<1,1,1,1,0,0,0,0>>, <<0,0,0,0,1,1,1,1>>, <<1,1,0,0,1,1,0,0>>, <<1,0,1,0,1,0,1,0>>,
                                         <<1,0,0,0,0,0,0,0>>, <<0,1,1,1,1,1,1,1>>, <<1,1,1,0,0,0,0,0>>, <<0,0,0,1,1,1,1,1>>}}
TwoClassMasks(n) == IF Masks = "all" THEN {m \in [1..n -> BOOLEAN] : \E i, j \in 1..n : m[i] # m[j]} ELSE FewMasks(n)
RECURSIVE MaskNumFrom(_, _)
MaskNumFrom(m, i) == IF i > Len(m) THEN 0 ELSE (IF m[i] THEN 1 ELSE 0) + 2 * MaskNumFrom(m, i + 1)
MaskNum(m) == MaskNumFrom(m, 1)

VARIABLE case
Init ==
  \/ \E n \in LaneCounts : \E arr \in [1..n -> (IF n = 8 THEN Cols2 ELSE Cols)] : case = [part |-> "pack", n |-> n, arr |-> arr]
  \/ \E n \in LaneCounts : \E m1 \in [1..n -> BOOLEAN], m2 \in (IF n = 8 THEN Masks8 ELSE [1..n -> BOOLEAN]) :
       case = [part |-> "select", n |-> n, m1 |-> m1, m2 |-> m2]
  \/ \E x \in [1..2 -> Vals], y \in [1..2 -> Vals] : case = [part |-> "cmp", x |-> x, y |-> y]
  \/ \E f \in DOMAIN Families :
       \/ \E c1 \in DOMAIN Families[f].classes, c2 \in DOMAIN Families[f].classes :
            case = [part |-> "group", fam |-> Families[f].fam, src |-> Families[f].src, n |-> 2, sq |-> 0, r |-> 0, k |-> Len(Families[f].classes),
                    lanes |-> <<Families[f].classes[c1], Families[f].classes[c2]>>]
       \/ \E n \in {4, 8}, sq \in {1, 2}, r \in 0..(Len(Families[f].classes) - 1) :
            case = [part |-> "group", fam |-> Families[f].fam, src |-> Families[f].src, n |-> n, sq |-> sq, r |-> r, k |-> Len(Families[f].classes),
                    lanes |-> LatinRow(Families[f].classes, n, sq, r)]
       (* two classes dealt over the lanes by a mask (sq = 3): whole halves, quarters, alternating lanes, one lane against
          the rest - the shapes a vector-wide shortcut ("no lane / every lane takes this branch") can get wrong; r is the
          mask as a number *)
       \/ \E n \in {4, 8} : \E c1 \in DOMAIN Families[f].classes : \E m \in TwoClassMasks(n) :
            LET k == Len(Families[f].classes)  c2 == (c1 % k) + 1
            IN case = [part |-> "group", fam |-> Families[f].fam, src |-> Families[f].src, n |-> n, sq |-> 3, r |-> MaskNum(m), k |-> k,
                       lanes |-> [i \in 1..n |-> Families[f].classes[IF m[i] THEN c1 ELSE c2]]]
Next == UNCHANGED case
Spec == Init /\ [][Next]_case

Is(p) == case.part = p

(* ---- packing ---- *)
PackLaws ==
  Is("pack") =>
    LET arr == case.arr  s == Pack(arr)  n == case.n
    IN /\ Unpack(s) = arr                                              \* array -> SIMD -> array is the identity
       /\ Pack(Unpack(s)) = s
       /\ NLanes(s) = n /\ Len(s) = 3
       /\ \A i \in 1..n : LaneOf(s, i) = arr[i]                         \* lane i IS scalar colour i: order preserved
       /\ \A k \in 1..3 : \A i \in 1..n : s[k][i] = arr[i][k]            \* component vector k holds component k of every colour
       /\ Unpack(Pack(Reverse(arr))) = Reverse(arr)
       /\ (Pack(Reverse(arr)) = s <=> Reverse(arr) = arr)               \* a reversed packing is observable unless the array is a palindrome
       (* lifted operations: every lane is the scalar result for that lane's input, whatever the other lanes hold *)
       /\ \A i \in 1..n : LaneOf(Lift1(Piece, s), i) = Piece(arr[i])
       /\ \A i \in 1..n : \A c \in Cols2 :
            LET arr2 == [arr EXCEPT ![i] = c]
            IN \A j \in (1..n) \ {i} : LaneOf(Lift1(Piece, Pack(arr2)), j) = LaneOf(Lift1(Piece, s), j)

(* ---- select and mask algebra ---- *)
SelectLaws ==
  Is("select") =>
    LET n == case.n  m == case.m1  m2 == case.m2  a == VecA(n)  b == VecB(n)
    IN /\ Select(m, a, a) = a
       /\ Select(Splat(n, TRUE), a, b) = a
       /\ Select(Splat(n, FALSE), a, b) = b
       /\ Select(MNot(m), a, b) = Select(m, b, a)
       /\ MNot(MAnd(m, m2)) = MOr(MNot(m), MNot(m2))                    \* De Morgan
       /\ MNot(MOr(m, m2)) = MAnd(MNot(m), MNot(m2))
       /\ MNot(MNot(m)) = m
       /\ MXor(m, m2) = MAnd(MOr(m, m2), MNot(MAnd(m, m2)))
       /\ Select(MAnd(m, m2), a, b) = Select(m, Select(m2, a, b), b)     \* nested lazy_select chains (if .. else if ..)
       /\ Select(MOr(m, m2), a, b) = Select(m, a, Select(m2, a, b))
       /\ \A i \in 1..n : Select(m, a, b)[i] \in {a[i], b[i]}             \* a lane never receives another lane's value
       /\ (IsTrue(m) <=> m = Splat(n, TRUE)) /\ (IsFalse(m) <=> m = Splat(n, FALSE))
       /\ (IsTrue(m) => ~IsFalse(m))
       /\ SelectColour(m, <<a, b, a>>, <<b, a, b>>) = <<Select(m, a, b), Select(m, b, a), Select(m, a, b)>>
       /\ Unpack(SelectColour(m, <<a, b, a>>, <<b, a, b>>)) =
            [i \in 1..n |-> IF m[i] THEN LaneOf(<<a, b, a>>, i) ELSE LaneOf(<<b, a, b>>, i)]

(* ---- comparisons ---- *)
Cardinality2(S) == IF S = {} THEN 0 ELSE IF \E e \in S : S = {e} THEN 1 ELSE 2
CmpLaws ==
  Is("cmp") =>
    LET x == case.x  y == case.y
    IN /\ \A op \in CmpOps : \A i \in 1..2 : CmpLanes(op, x, y)[i] = NumCmp(op, x[i], y[i])
       /\ CmpLanes("lt", x, y) = CmpLanes("gt", y, x)
       /\ CmpLanes("lt_eq", x, y) = MOr(CmpLanes("lt", x, y), CmpLanes("eq", x, y))
       /\ CmpLanes("gt_eq", x, y) = CmpLanes("lt_eq", y, x)
       /\ CmpLanes("neq", x, y) = MNot(CmpLanes("eq", x, y))
       /\ \A i \in 1..2 :
            IF Unordered(x[i], y[i])
            THEN \A op \in CmpOps : NumCmp(op, x[i], y[i]) = (op = "neq")      \* NaN: everything false but !=
            ELSE Cardinality2({op \in {"lt", "eq", "gt"} : NumCmp(op, x[i], y[i])}) = 1   \* trichotomy

(* ---- lane groupings ---- *)
Distinct(q) == {q[i] : i \in DOMAIN q}
FamOf(name) == CHOOSE f \in DOMAIN Families : Families[f].fam = name
GroupLaws ==
  Is("group") =>
    LET cl == Families[FamOf(case.fam)].classes  k == Len(cl)  n == case.n
    IN /\ Len(case.lanes) = n
       /\ \A i \in 1..n : \E c \in DOMAIN cl : case.lanes[i] = cl[c]
       (* Latin rows: the lanes take as many different branches as there are lanes (or classes) *)
       /\ (case.sq \in {1, 2} => \A i, j \in 1..(IF n < k THEN n ELSE k) : i # j => case.lanes[i] # case.lanes[j])
       (* Latin square: over the k rows every class visits every lane exactly once *)
       /\ (case.sq \in {1, 2} => \A i \in 1..n : \A c \in DOMAIN cl :
             \E r \in 0..(k - 1) : /\ LatinRow(cl, n, case.sq, r)[i] = cl[c]
                                   /\ \A r2 \in 0..(k - 1) : LatinRow(cl, n, case.sq, r2)[i] = cl[c] => r2 = r)
       /\ Gcd(Stride(2, k), k) = 1
       (* mask groupings: exactly two classes (one when the family has a single class), both present *)
       /\ (case.sq = 3 => Cardinality2(Distinct(case.lanes)) = (IF k = 1 THEN 1 ELSE 2))

EmitGroup == (Emit /\ Is("group")) => PrintT(<<"REPLAY", ToJson(case)>>)
=============================================================================
