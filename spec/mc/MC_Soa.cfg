SPECIFICATION MCSpec
CONSTANTS
  MaxOps = 3
  MaxLen = 4
  Emit = TRUE
INVARIANTS Inv EmitDone
CHECK_DEADLOCK FALSE
