----------------------------- MODULE TraceFinite -----------------------------
(* Trace validation for C07: for every colour in the statement's domain -      *)
(* finite components inside the documented range, each exactly on a bound (or    *)
(* exactly zero) or at least a billionth of the range away from it - every call  *)
(* returns finite components and does not panic.  Event kinds: `walk` (one or    *)
(* more conversions), `bounds` (clamp family), `fin` (any other API call,        *)
(* pre-digested by the harness to: inputs, finite flag, panic flag).             *)
EXTENDS ColourEq, ConvGraph, Json, IOUtils, TLC

Rec == ndJsonDeserialize(IOEnv.TRACE)
VARIABLE l

Billionth(r) == FxDivInt(FxDivInt(FxDivInt(r, 1000), 1000), 1000)

(* x in [lo, hi] and on a bound, zero, or >= 1e-9 * range away from both bounds *)
CompInDomain(x, b) ==
  IF b[1] = NoB \/ b[2] = NoB THEN TRUE      \* no documented range (hue, Oklab a/b, open-ended chroma)
  ELSE LET lo == DocFx(b[1])  hi == DocFx(b[2])  m == Billionth(FxSub(hi, lo))
       IN /\ FxLe(lo, x) /\ FxLe(x, hi)
          /\ \/ x = lo \/ x = hi \/ FxIsZero(x)
             \/ (FxLe(FxAdd(lo, m), x) /\ FxLe(x, FxSub(hi, m)))

(* documented upper bounds are decimal; a float bound value such as f32(0.95047) counts as "on the bound" *)
OnBoundFloat(x, b, t) == b[2] # NoB /\ FxNear(x, DocFx(b[2]), 100, IF t = "f32" THEN 22 ELSE 50)

InDomain(node, t, vals) ==
  /\ AllFin(vals)
  /\ \A i \in 1..NComp(node) :
       LET x == FxOf(vals[i])  b == DocBounds[node][i]
       IN CompInDomain(x, b) \/ OnBoundFloat(x, b, t)
  /\ (node \in {"hwb", "okhwb"} => FxLe(FxAdd(FxOf(vals[2]), FxOf(vals[3])), FxOne))
  /\ (Len(vals) > NComp(node) =>      \* alpha in [0, 1]
        LET a == FxOf(vals[Len(vals)]) IN FxLe(FxZero, a) /\ FxLe(a, FxOne))

WalkWhy(e) ==
  IF ~InDomain(e.nodes[1], e.t, e.vals[1]) THEN "ok"          \* outside the statement's domain: not judged
  ELSE IF e.missing = 1 THEN "ok"
  ELSE IF e.panic = 1 THEN "panic"
  ELSE IF e.fin = 0 THEN "non-finite-result"
  ELSE "ok"

BoundsWhy(e) ==
  IF ~InDomain(e.node, e.t, e["in"]) THEN "ok"
  ELSE IF e.panic = 1 THEN "panic"
  ELSE IF ~(AllFin(e.clamp) /\ AllFin(e.clamp_assign)) THEN "non-finite-result"
  ELSE "ok"

(* one colour converted to every other type of the universe (hue sweeps over the degenerate boundaries): the targets *)
(* whose result was not finite and those that panicked must both be empty                                            *)
FanWhy(e) ==
  IF ~InDomain(e.from, e.t, e["in"]) THEN "ok"
  ELSE IF e.panics # <<>> THEN "panic"
  ELSE IF e.bad # <<>> THEN "non-finite-result"
  ELSE IF e.n = 0 THEN "no-conversion-exercised"
  ELSE "ok"

(* generic pre-digested call: e.args = sequence of [node, vals] *)
FinWhy(e) ==
  IF \E i \in DOMAIN e.args : ~InDomain(e.args[i].node, e.t, e.args[i].vals) THEN "ok"
  ELSE IF e.panic = 1 THEN "panic"
  ELSE IF e.fin = 0 THEN "non-finite-result"
  ELSE "ok"

(* operator calls recorded by the C10 driver: node, in (with alpha for the Alpha forms), in2, args, out = list of colours *)
OpWhy(e) ==
  IF ~InDomain(e.node, e.t, e["in"]) THEN "ok"
  ELSE IF e.in2 # <<>> /\ ~InDomain(e.node, e.t, e.in2) THEN "ok"
  ELSE IF ~AllFin(e.args) THEN "ok"
  \* component-wise division by a colour or scalar with a zero component has no finite value: not judged
  ELSE IF e.fam = "Div" /\ ((\E i \in DOMAIN e.in2 : e.in2[i][1] = 0) \/ (\E i \in DOMAIN e.args : e.args[i][1] = 0)) THEN "ok"
  ELSE IF e.panic = 1 THEN "panic"
  ELSE IF \E i \in DOMAIN e.out : ~AllFin(e.out[i]) THEN "non-finite-result"
  ELSE "ok"

(* blends, compositing, premultiplication recorded by the C08 driver: straight colours ss/sd and the alphas
   (last element of src/dst) in the unit range, on a bound or a billionth away *)
UnitB == <<Q(0, 1), Q(1, 1)>>
UnitOk(js) == AllFin(js) /\ \A i \in DOMAIN js : CompInDomain(FxOf(js[i]), UnitB)
BlendWhy(e) ==
  IF ~(UnitOk(e.ss) /\ UnitOk(e.sd) /\ UnitOk(<<e.src[Len(e.src)], e.dst[Len(e.dst)]>>)) THEN "ok"
  ELSE IF e.panic = 1 THEN "panic"
  ELSE IF ~AllFin(e.out) THEN "non-finite-result"
  ELSE "ok"

(* colour differences recorded by the C09 driver (diff --fin): both colours in the statement's domain, every returned
   value finite, no panic.  out = the value both ways round, aux / rect = the same measure through other routes. *)
DiffNode(ty) == CASE ty = "jab" -> "cam16ucsjab" [] ty = "jmh" -> "cam16ucsjmh" [] OTHER -> ty
DiffWhy(e) ==
  IF DiffNode(e.ty) \notin NodeNames THEN "ok"
  ELSE IF ~(AllFin(e.c1) /\ AllFin(e.c2)) THEN "ok"
  ELSE IF ~InDomain(DiffNode(e.ty), e.t, e.c1) \/ ~InDomain(DiffNode(e.ty), e.t, e.c2) THEN "ok"
  ELSE IF e.panic = 1 THEN "panic"
  ELSE IF ~AllFin(e.out) \/ ~AllFin(e.aux) \/ ~AllFin(e.rect) THEN "non-finite-result"
  ELSE "ok"

(* contrast (relative luminance and ratio) of two in-range RGB colours *)
WcagWhy(e) ==
  IF e.ty \notin NodeNames THEN "ok"
  ELSE IF ~(AllFin(e.c1) /\ AllFin(e.c2)) THEN "ok"
  ELSE IF ~InDomain(e.ty, e.t, e.c1) \/ ~InDomain(e.ty, e.t, e.c2) THEN "ok"
  ELSE IF e.panic = 1 THEN "panic"
  ELSE IF ~AllFin(e.lum) \/ ~AllFin(e.ratio) THEN "non-finite-result"
  ELSE "ok"

(* leaving premultiplied alpha by any of its ways (trait, method, Alpha::from, the bare colour's From): finite for
   finite components in [0, 1], also at alpha = 0 *)
UnpremulWhy(e) ==
  IF ~UnitOk(e.p) THEN "ok"
  ELSE IF e.panic = 1 THEN "panic"
  ELSE IF ~AllFin(e.out) THEN "non-finite-result"
  ELSE "ok"

(* a CAM16 partial colour (lightness or brightness, chroma-like attribute >= 0, hue) expanded to the full colour and
   converted back to XYZ: attributes on their lower bound or a billionth of the usual range (100) away from it *)
PfinWhy(e) ==
  IF ~AllFin(e.p) \/ FxIsNeg(FxOf(e.p[1])) \/ FxIsNeg(FxOf(e.p[2])) THEN "ok"
  ELSE IF e.panic = 1 THEN "panic"
  ELSE IF ~AllFin(e.full) \/ ~AllFin(e.xyz) THEN "non-finite-result"
  ELSE "ok"

Why(e) == CASE e.ev = "walk" -> WalkWhy(e)
            [] e.ev = "bounds" -> BoundsWhy(e)
            [] e.ev = "fan" -> FanWhy(e)
            [] e.ev = "fin" -> FinWhy(e)
            [] e.ev = "op" -> OpWhy(e)
            [] e.ev = "diff" -> DiffWhy(e)
            [] e.ev = "wcag" -> WcagWhy(e)
            [] e.ev \in {"blend", "compose", "custom", "eqn"} -> BlendWhy(e)
            [] e.ev = "unpremul" -> UnpremulWhy(e)
            [] e.ev = "pfin" -> PfinWhy(e)
            [] OTHER -> "ok"

TInit == l = 1
TNext == /\ l <= Len(Rec)
         /\ LET w == Why(Rec[l]) IN IF w = "ok" THEN TRUE ELSE PrintT(<<"REJECT", l, w>>)
         /\ l' = l + 1
TSpec == TInit /\ [][TNext]_l
Consumed == TLCGet("stats").diameter = Len(Rec) + 1 \/ PrintT(<<"UNCONSUMED", TLCGet("stats").diameter>>)
=============================================================================
