------------------------------ MODULE MC_Packed ------------------------------
(* Exhaustive small configuration of Packed.tla: ALL 4! orders of (r,g,b,a)   *)
(* and both luma orders x a lattice of channel values.  The orders palette    *)
(* implements are marked (`impl`), and only those are emitted for replay.     *)
(* Every state is a case; the tree shape (order, then one channel at a time)  *)
(* only spreads the work over TLC's workers.                                  *)
EXTENDS Packed, TLC, Json

CONSTANTS Lat,      \* channel values
          Emit

VARIABLE kase
vars == <<kase>>

ImplName(tab, o) == IF \E n \in DOMAIN tab : tab[n] = o THEN CHOOSE n \in DOMAIN tab : tab[n] = o ELSE "none"

MCInit ==
  \/ \E o \in Orders(RgbaChannels) : kase = [k |-> "pack", o |-> o, impl |-> ImplName(RgbaOrders, o), c |-> <<>>]
  \/ \E o \in Orders(LumaChannels) : kase = [k |-> "lpack", o |-> o, impl |-> ImplName(LumaOrders, o), c |-> <<>>]

MCNext == /\ Len(kase.c) < Len(kase.o)
          /\ \E v \in Lat : kase' = [kase EXCEPT !.c = Append(@, v)]
MCSpec == MCInit /\ [][MCNext]_vars

Chs == IF kase.k = "pack" THEN RgbaChannels ELSE LumaChannels
Complete == Len(kase.c) = Len(kase.o)

InvPack == Complete =>
  /\ PackRoundTrip(Chs, kase.o, kase.c)
  /\ Lands(Chs, kase.o, kase.c)
  /\ kase.k = "pack" => RgbForms(kase.o, SubSeq(kase.c, 1, 3), kase.c[4], 255)

(* the implemented orders are orders, four (two) different ones, and the defaults are among them *)
InvImpl ==
  /\ \A n \in DOMAIN RgbaOrders : RgbaOrders[n] \in Orders(RgbaChannels)
  /\ \A n \in DOMAIN LumaOrders : LumaOrders[n] \in Orders(LumaChannels)
  /\ Cardinality({RgbaOrders[n] : n \in DOMAIN RgbaOrders}) = 4
  /\ Cardinality({LumaOrders[n] : n \in DOMAIN LumaOrders}) = 2
  /\ Cardinality(Orders(RgbaChannels)) = 24
  (* From<u32>: 0xAARRGGBB for Rgb, 0xRRGGBBAA for Rgba *)
  /\ DefaultOrderRgb = <<"a", "r", "g", "b">> /\ DefaultOrderRgba = <<"r", "g", "b", "a">>
  (* the integer reading is big-endian: position 1 is the most significant byte *)
  /\ NatOfBytes(Pack(RgbaChannels, RgbaOrders.argb, <<96, 127, 0, 0>>)) = 6323968      \* 0x00607F00
  /\ NatOfBytes(<<96, 127>>) = 24703                                                   \* 0x607F

Inv == InvPack /\ InvImpl

EmitCase ==
  Emit =>
    /\ (Complete /\ kase.impl # "none") => PrintT(<<"REPLAY", ToJson([k |-> kase.k, order |-> kase.impl, c |-> kase.c])>>)
    (* the byte position of every channel, for the harness' sweep of all packed values *)
    /\ (kase.c = <<>> /\ kase.impl # "none") =>
         PrintT(<<"REPLAY", ToJson([k |-> "order", name |-> kase.impl, pos |-> [i \in 1..Len(Chs) |-> PosOf(kase.o, Chs[i])]])>>)
=============================================================================
