------------------------------ MODULE MC_Serde ------------------------------
(* Exhaustive enumeration of the shapes of C20: every colour struct of the   *)
(* configured types (1..4 fields, with/without hue, hue written bare or as a *)
(* newtype) x plain/Alpha/PreAlpha is serialized by the model; the           *)
(* environment then hands the tree to the deserializer unchanged, with the   *)
(* fields permuted, as a map, as a sequence / tuple / tuple struct, without  *)
(* alpha, without a colour field, too short, too long, or with an unknown    *)
(* field; with and without the optional-alpha helper.  The invariants are    *)
(* the model-level statements of the property; every deserializer case is    *)
(* emitted as one JSON line for replay into palette.                         *)
EXTENDS Serde, TLC, Json

CONSTANTS Types, PrimSet, Emit

VARIABLES stage,   \* "init" -> "ser" -> "mut" -> "done"   (or "init" -> "helper")
          lab,     \* what the environment did to the tree
          opt      \* whether the optional-alpha helper deserializes

mcvars == <<vars, stage, lab, opt>>

(* distinct exact dyadics as bit patterns: components 1..4, alpha, an extra value *)
Tok == [f32 |-> <<"3e800000", "3f000000", "3f400000", "3e000000", "3f200000", "3ec00000">>,
        f64 |-> <<"3fd0000000000000", "3fe0000000000000", "3fe8000000000000", "3fc0000000000000",
                  "3fe4000000000000", "3fd8000000000000">>,
        u8  |-> <<"11", "22", "33", "44", "aa", "55">>]
IntTypes == {"Rgb", "Luma"}    \* colour structs the harness drives with integer components

Valid(ty, prim, wrap) == /\ (wrap = "prealpha" => TypeTable[ty].pre /\ prim \in {"f32", "f64"})
                         /\ (prim = "u8" => ty \in IntTypes)
Value(ty, prim, wrap) == [ty |-> ty, prim |-> prim, wrap |-> wrap,
                          comps |-> [i \in 1..Len(TypeTable[ty].fields) |-> Tok[prim][i]],
                          alpha |-> IF wrap = "plain" THEN "" ELSE Tok[prim][5]]

MCInit == Init /\ stage = "init" /\ lab = "" /\ opt = FALSE

DoSerialize ==
  /\ stage = "init"
  /\ \E ty \in Types, prim \in PrimSet, wrap \in Wraps :
       /\ Valid(ty, prim, wrap)
       /\ \E hf \in (IF TypeTable[ty].hue = 0 THEN {"bare"} ELSE {"bare", "newtype"}) :
            SerializeValue(Value(ty, prim, wrap), hf, "Hue")
  /\ stage' = "ser" /\ UNCHANGED <<lab, opt>>

(* ---- what the environment may do to a tree before it reaches the deserializer ---- *)
n == Len(tree.items)
Wrapped == val.wrap # "plain"
NF == Len(TypeTable[val.ty].fields)
PermuteT(t, p) == [t EXCEPT !.keys = [i \in 1..Len(t.items) |-> t.keys[p[i]]],
                            !.items = [i \in 1..Len(t.items) |-> t.items[p[i]]]]
Without(s, i) == SubSeq(s, 1, i - 1) \o SubSeq(s, i + 1, Len(s))
RemoveT(t, i) == [t EXCEPT !.keys = Without(t.keys, i), !.items = Without(t.items, i), !.len = Len(t.items) - 1]
ToPos(t, kind, m) == Node(kind, IF kind = "tuple_struct" THEN t.name ELSE "", "", SubSeq(t.items, 1, m), <<>>, m)
ToMap(t) == [t EXCEPT !.k = "map", !.name = ""]
Ident(p) == \A i \in DOMAIN p : p[i] = i
Extra == Num(val.prim, Tok[val.prim][6])
Env(t, l) == stage = "ser" /\ tree' = t /\ lab' = l /\ stage' = "mut" /\ UNCHANGED <<val, res, opt>>

Exact == Env(tree, "exact")
Permuted == stage = "ser" /\ \E p \in Permutations(1..n) : ~Ident(p) /\ Env(PermuteT(tree, p), "permuted")
AsMap == stage = "ser" /\ \E p \in Permutations(1..n) : Env(ToMap(PermuteT(tree, p)), "map")
AsPositional == \E kind \in Positional : Env(ToPos(tree, kind, n), "positional")
MissingAlpha ==
  /\ stage = "ser" /\ Wrapped
  /\ \/ \E p \in Permutations(1..(n - 1)) : Env(PermuteT(RemoveT(tree, n), p), "missing_alpha")
     \/ \E kind \in Positional : Env(ToPos(tree, kind, n - 1), "missing_alpha")
MissingField ==
  stage = "ser" /\
  \E i \in 1..NF : \/ Env(RemoveT(tree, i), "missing_field")
                   \/ Wrapped /\ Env(PermuteT(RemoveT(tree, i), [j \in 1..(n - 1) |-> n - j]), "missing_field")
Short == stage = "ser" /\ \E kind \in Positional, m \in 0..(NF - 1) : Env(ToPos(tree, kind, m), "short")
ExtraField ==
  \/ Env([tree EXCEPT !.keys = Append(@, "unknown"), !.items = Append(@, Extra), !.len = n + 1], "extra_field")
  \/ Env([tree EXCEPT !.keys = <<"unknown">> \o @, !.items = <<Extra>> \o @, !.len = n + 1], "extra_field")
  \/ ~Wrapped /\ Env([tree EXCEPT !.keys = Append(@, "alpha"), !.items = Append(@, Extra), !.len = n + 1], "extra_field")
TooLong == \E kind \in Positional :
             Env(Node(kind, IF kind = "tuple_struct" THEN tree.name ELSE "", "", Append(tree.items, Extra), <<>>, n + 1), "too_long")

DoDeserialize ==
  /\ stage = "mut"
  /\ \E o \in (IF Wrapped THEN BOOLEAN ELSE {FALSE}) :
       DeserializeValue(val.ty, val.prim, val.wrap, o, tree) /\ opt' = o
  /\ stage' = "done" /\ UNCHANGED lab

(* ---- the helper forms ---- *)
DoAsArray ==
  /\ stage = "init"
  /\ \E ty \in Types, prim \in PrimSet, wrap \in Wraps, kind \in {"tuple", "seq"} :
       Valid(ty, prim, wrap) /\ SerializeAsArray(Value(ty, prim, wrap), kind)
  /\ stage' = "array" /\ lab' = "as_array" /\ UNCHANGED opt
DoAsUint ==
  /\ stage = "init"
  /\ \E order \in DOMAIN ChannelOrder :
       SerializeAsUint("u32", order, [r |-> "11", g |-> "22", b |-> "33", a |-> "aa", l |-> "77"])
  /\ stage' = "uint" /\ lab' = "as_uint" /\ UNCHANGED opt

MCNext == DoSerialize \/ Exact \/ Permuted \/ AsMap \/ AsPositional \/ MissingAlpha \/ MissingField \/ Short
          \/ ExtraField \/ TooLong \/ DoDeserialize \/ DoAsArray \/ DoAsUint
MCSpec == MCInit /\ [][MCNext]_mcvars

-----------------------------------------------------------------------------
(* the property on the model *)

(* De(Ser(v)) = v for every shape, and after any permutation of the fields *)
RoundTrip == (stage = "done" /\ lab \in {"exact", "permuted", "map", "positional"}) => res = Same(val)
(* missing alpha: an error, or full opacity through the helper *)
MissingAlphaInv == (stage = "done" /\ lab = "missing_alpha") =>
                     res = IF opt THEN OK(val.comps, FullOpacity[val.prim]) ELSE ERR
(* nothing is invented for a missing colour field *)
MissingFieldInv == (stage = "done" /\ lab \in {"missing_field", "short"}) => res = ERR
(* unknown / surplus data is outside the statement: the model must not decide it *)
OpenInv == (stage = "done" /\ lab \in {"extra_field", "too_long"}) => res = OPEN
(* the written tree: flat, depth 1, declared fields (+ alpha last) only, no metadata, lengths announced correctly *)
WrittenInv == stage = "ser" =>
  /\ Flat(tree, val.prim) /\ Depth(tree) = 1 /\ NoMeta(tree) /\ NoDupKeys(tree) /\ WellFormed(tree)
  /\ tree.keys = (IF Wrapped THEN Append(TypeTable[val.ty].fields, "alpha") ELSE TypeTable[val.ty].fields)
  /\ Range(TypeTable[val.ty].fields) \cap (TypeTable[val.ty].meta \cup MetaNames \cup {"alpha"}) = {}
  /\ Wrapped => /\ StripAlpha("struct", tree)[2] = Num(val.prim, val.alpha)
                /\ AddAlpha(StripAlpha("struct", tree)[1], Num(val.prim, val.alpha)) = tree
(* as_array is the cast array and reads back as the same colour; as_uint is the packed integer *)
ArrayInv == stage = "array" =>
  /\ [i \in DOMAIN tree.items |-> tree.items[i].num] = CastArray(val)
  /\ De(val.ty, val.prim, val.wrap, FALSE, tree) = Same(val)
UintInv == stage = "uint" => tree.k = "num" /\ tree.name = "u32"
PackingRef == /\ Packed("Rgba", [r |-> "17", g |-> "c6", b |-> "4c", a |-> "ff", l |-> ""]) = "17c64cff"  \* 398871807, palette's documentation
              /\ Packed("Argb", [r |-> "17", g |-> "c6", b |-> "4c", a |-> "ff", l |-> ""]) = "ff17c64c"  \* 4279748172
              /\ Packed("Bgra", [r |-> "17", g |-> "c6", b |-> "4c", a |-> "ff", l |-> ""]) = "4cc617ff"
              /\ Packed("Abgr", [r |-> "17", g |-> "c6", b |-> "4c", a |-> "ff", l |-> ""]) = "ff4cc617"
              /\ Packed("La", [r |-> "", g |-> "", b |-> "", a |-> "ff", l |-> "80"]) = "80ff"
              /\ Packed("Al", [r |-> "", g |-> "", b |-> "", a |-> "ff", l |-> "80"]) = "ff80"

(* the flattening rule on every tree shape: invertible, alpha a direct child, never deeper than one level *)
X == Num("f32", "3e800000")
Y == Num("f32", "3f000000")
A == Num("f32", "3f200000")
GenericShapes == {Unit, UnitStruct("Empty"), TupleStruct("UnitTuple", <<>>), Newtype("Newtype", X), TupleStruct("Pair", <<X, Y>>),
                  Struct("Single", <<"value">>, <<X>>), Tuple(<<X, Y>>), SeqN(<<X, Y>>), MapN(<<"first", "second">>, <<X, Y>>),
                  Struct("H", <<"hue">>, <<Newtype("RgbHue", X)>>)}
ShapeInv == \A s \in GenericShapes :
  LET t == AddAlpha(s, A) IN
  /\ StripAlpha(s.k, t) = <<s, A>>
  /\ \E i \in DOMAIN t.items : t.items[i] = A
  /\ Depth(t) <= Max2(1, Depth(s)) /\ WellFormed(t)
  /\ AddAlpha(X, A) = Unsupported

Inv == RoundTrip /\ MissingAlphaInv /\ MissingFieldInv /\ OpenInv /\ WrittenInv /\ ArrayInv /\ UintInv /\ PackingRef /\ ShapeInv

(* case emitter: one line per deserializer case *)
EmitDone == (Emit /\ stage = "done") =>
  PrintT(<<"REPLAY", ToJson([ty |-> val.ty, prim |-> val.prim, wrap |-> val.wrap, opt |-> opt, label |-> lab, tree |-> tree])>>)
=============================================================================
