SPECIFICATION Spec
CONSTANTS
  NH = 12
INVARIANT Holds
CHECK_DEADLOCK FALSE
