//! C13 driver: executes guard programs (emitted by TLC from spec/mc/MC_InPlace.tla) on real
//! palette buffers - `&mut [T]` views of a Vec or Box<[T]>, single `&mut T` values, and owned
//! Vec/Box conversions - and records after every operation the raw arrays seen through the
//! innermost live guard, the address/len/capacity, and the value of the specification's term
//! computed with the ordinary out-of-place API.
//!
//! usage: inplace --hist <file> --kinds vec,box,one --out trace.ndjson

use palette::convert::{FromColorMut, FromColorMutGuard, FromColorUnclamped, FromColorUnclampedMut, FromColorUnclampedMutGuard};
use palette::encoding;
use palette::{FromColor, Hsl, Hsv, Hwb, Srgb};
use pvh::*;
use serde_json::{json, Value};

type C0 = Srgb<f32>;
type C1 = Hsv<encoding::Srgb, f32>;
type C2 = Hsl<encoding::Srgb, f32>;
type C3 = Hwb<encoding::Srgb, f32>;
type Arr = [f32; 3];

trait K: Copy + 'static {
    const ID: usize;
    fn of(a: Arr) -> Self;
    fn arr(self) -> Arr;
}
impl K for C0 {
    const ID: usize = 0;
    fn of(a: Arr) -> Self { Srgb::new(a[0], a[1], a[2]) }
    fn arr(self) -> Arr { [self.red, self.green, self.blue] }
}
impl K for C1 {
    const ID: usize = 1;
    fn of(a: Arr) -> Self { Hsv::new(a[0], a[1], a[2]) }
    fn arr(self) -> Arr { [self.hue.into_inner(), self.saturation, self.value] }
}
impl K for C2 {
    const ID: usize = 2;
    fn of(a: Arr) -> Self { Hsl::new(a[0], a[1], a[2]) }
    fn arr(self) -> Arr { [self.hue.into_inner(), self.saturation, self.lightness] }
}
impl K for C3 {
    const ID: usize = 3;
    fn of(a: Arr) -> Self { Hwb::new(a[0], a[1], a[2]) }
    fn arr(self) -> Arr { [self.hue.into_inner(), self.whiteness, self.blackness] }
}

fn init_arr(i: usize) -> Arr {
    match i % 3 {
        1 => [0.25, 1.3, -0.1],
        2 => [0.9, 0.4, 0.6],
        _ => [-0.5, 0.125, 2.0],
    }
}
fn const_arr(t: usize, _k: usize) -> Arr {
    match t {
        0 => [1.5, 0.5, -0.25],
        1 => [400.0, 1.25, 0.5],
        2 => [-30.0, 0.5, 1.2],
        _ => [100.0, 0.7, 0.6],
    }
}

/// out-of-place conversion of one raw array, by type ids
fn conv(a: usize, b: usize, cl: bool, x: Arr) -> Arr {
    macro_rules! go {
        ($A:ty, $B:ty) => {
            if cl { <$B>::from_color(<$A>::of(x)).arr() } else { <$B>::from_color_unclamped(<$A>::of(x)).arr() }
        };
    }
    macro_rules! row {
        ($A:ty) => {
            match b { 0 => go!($A, C0), 1 => go!($A, C1), 2 => go!($A, C2), _ => go!($A, C3) }
        };
    }
    match a { 0 => row!(C0), 1 => row!(C1), 2 => row!(C2), _ => row!(C3) }
}

#[derive(Clone, Debug)]
enum Step {
    Init(usize, usize),
    Conv(usize, usize, bool),
    Const(usize, usize),
}
fn step_json(s: &Step) -> Value {
    match s {
        Step::Init(i, t) => json!(["init", i, t]),
        Step::Conv(a, b, cl) => json!(["conv", a, b, *cl as u8]),
        Step::Const(t, k) => json!(["const", t, k]),
    }
}
fn eval(term: &[Step]) -> Arr {
    let mut x = [0.0f32; 3];
    for s in term {
        x = match s {
            Step::Init(i, _) => init_arr(*i),
            Step::Conv(a, b, cl) => conv(*a, *b, *cl, x),
            Step::Const(t, k) => const_arr(*t, *k),
        };
    }
    x
}
/// bit pattern; every NaN is written as the canonical quiet NaN: sign and payload of a NaN are not values
/// (constant folding and run time evaluation of the same expression differ in them)
fn bits(x: f32) -> String { if x.is_nan() { "7fc00000".to_string() } else { format!("{:08x}", x.to_bits()) } }
fn hex(a: &Arr) -> Value { json!([bits(a[0]), bits(a[1]), bits(a[2])]) }

/// A live guard, type-erased. 'a is the lifetime of the borrow it holds.
trait GuardDyn<'a> {
    fn cur(&self) -> usize;
    fn nest<'b>(&'b mut self, t: usize, cl: bool) -> Box<dyn GuardDyn<'b> + 'b>;
    fn then(self: Box<Self>, t: usize, cl: bool) -> Box<dyn GuardDyn<'a> + 'a>;
    fn flip(self: Box<Self>) -> Box<dyn GuardDyn<'a> + 'a>;
    fn restore(self: Box<Self>);
    fn forget(self: Box<Self>);
    fn write(&mut self, i: usize, a: Arr);
    fn view(&self) -> (usize, Vec<Arr>); // address, raw arrays
}

macro_rules! by_type {
    ($t:expr, $C:ident => $e:expr) => {
        match $t { 0 => { type $C = C0; $e } 1 => { type $C = C1; $e } 2 => { type $C = C2; $e } _ => { type $C = C3; $e } }
    };
}

macro_rules! impl_guard_slice {
    ($T:ty, $U:ty) => {
        impl<'a> GuardDyn<'a> for FromColorMutGuard<'a, [$T], [$U]> {
            fn cur(&self) -> usize { <$T as K>::ID }
            fn nest<'b>(&'b mut self, t: usize, cl: bool) -> Box<dyn GuardDyn<'b> + 'b> {
                let v: &'b mut [$T] = &mut **self;
                by_type!(t, C => if cl { Box::new(<[C]>::from_color_mut(v)) } else { Box::new(<[C]>::from_color_unclamped_mut(v)) })
            }
            fn then(self: Box<Self>, t: usize, cl: bool) -> Box<dyn GuardDyn<'a> + 'a> {
                by_type!(t, C => if cl { Box::new((*self).then_into_color_mut::<[C]>()) } else { Box::new((*self).then_into_color_unclamped_mut::<[C]>()) })
            }
            fn flip(self: Box<Self>) -> Box<dyn GuardDyn<'a> + 'a> { Box::new((*self).into_unclamped_guard()) }
            fn restore(self: Box<Self>) { let _ = (*self).restore(); }
            fn forget(self: Box<Self>) { core::mem::forget(*self) }
            fn write(&mut self, i: usize, a: Arr) { (**self)[i] = <$T>::of(a); }
            fn view(&self) -> (usize, Vec<Arr>) { let s: &[$T] = &**self; (s.as_ptr() as usize, s.iter().map(|c| c.arr()).collect()) }
        }
        impl<'a> GuardDyn<'a> for FromColorUnclampedMutGuard<'a, [$T], [$U]> {
            fn cur(&self) -> usize { <$T as K>::ID }
            fn nest<'b>(&'b mut self, t: usize, cl: bool) -> Box<dyn GuardDyn<'b> + 'b> {
                let v: &'b mut [$T] = &mut **self;
                by_type!(t, C => if cl { Box::new(<[C]>::from_color_mut(v)) } else { Box::new(<[C]>::from_color_unclamped_mut(v)) })
            }
            fn then(self: Box<Self>, t: usize, cl: bool) -> Box<dyn GuardDyn<'a> + 'a> {
                by_type!(t, C => if cl { Box::new((*self).then_into_color_mut::<[C]>()) } else { Box::new((*self).then_into_color_unclamped_mut::<[C]>()) })
            }
            fn flip(self: Box<Self>) -> Box<dyn GuardDyn<'a> + 'a> { Box::new((*self).into_clamped_guard()) }
            fn restore(self: Box<Self>) { let _ = (*self).restore(); }
            fn forget(self: Box<Self>) { core::mem::forget(*self) }
            fn write(&mut self, i: usize, a: Arr) { (**self)[i] = <$T>::of(a); }
            fn view(&self) -> (usize, Vec<Arr>) { let s: &[$T] = &**self; (s.as_ptr() as usize, s.iter().map(|c| c.arr()).collect()) }
        }
        // single values
        impl<'a> GuardDyn<'a> for FromColorMutGuard<'a, $T, $U> {
            fn cur(&self) -> usize { <$T as K>::ID }
            fn nest<'b>(&'b mut self, t: usize, cl: bool) -> Box<dyn GuardDyn<'b> + 'b> {
                let v: &'b mut $T = &mut **self;
                by_type!(t, C => if cl { Box::new(<C>::from_color_mut(v)) } else { Box::new(<C>::from_color_unclamped_mut(v)) })
            }
            fn then(self: Box<Self>, t: usize, cl: bool) -> Box<dyn GuardDyn<'a> + 'a> {
                by_type!(t, C => if cl { Box::new((*self).then_into_color_mut::<C>()) } else { Box::new((*self).then_into_color_unclamped_mut::<C>()) })
            }
            fn flip(self: Box<Self>) -> Box<dyn GuardDyn<'a> + 'a> { Box::new((*self).into_unclamped_guard()) }
            fn restore(self: Box<Self>) { let _ = (*self).restore(); }
            fn forget(self: Box<Self>) { core::mem::forget(*self) }
            fn write(&mut self, _i: usize, a: Arr) { **self = <$T>::of(a); }
            fn view(&self) -> (usize, Vec<Arr>) { let s: &$T = &**self; (s as *const $T as usize, vec![s.arr()]) }
        }
        impl<'a> GuardDyn<'a> for FromColorUnclampedMutGuard<'a, $T, $U> {
            fn cur(&self) -> usize { <$T as K>::ID }
            fn nest<'b>(&'b mut self, t: usize, cl: bool) -> Box<dyn GuardDyn<'b> + 'b> {
                let v: &'b mut $T = &mut **self;
                by_type!(t, C => if cl { Box::new(<C>::from_color_mut(v)) } else { Box::new(<C>::from_color_unclamped_mut(v)) })
            }
            fn then(self: Box<Self>, t: usize, cl: bool) -> Box<dyn GuardDyn<'a> + 'a> {
                by_type!(t, C => if cl { Box::new((*self).then_into_color_mut::<C>()) } else { Box::new((*self).then_into_color_unclamped_mut::<C>()) })
            }
            fn flip(self: Box<Self>) -> Box<dyn GuardDyn<'a> + 'a> { Box::new((*self).into_clamped_guard()) }
            fn restore(self: Box<Self>) { let _ = (*self).restore(); }
            fn forget(self: Box<Self>) { core::mem::forget(*self) }
            fn write(&mut self, _i: usize, a: Arr) { **self = <$T>::of(a); }
            fn view(&self) -> (usize, Vec<Arr>) { let s: &$T = &**self; (s as *const $T as usize, vec![s.arr()]) }
        }
    };
}
macro_rules! impl_guard_rows { ($($T:ty),*) => { $( impl_guard_slice!($T, C0); impl_guard_slice!($T, C1); impl_guard_slice!($T, C2); impl_guard_slice!($T, C3); )* }; }
impl_guard_rows!(C0, C1, C2, C3);

#[derive(Clone, Debug)]
struct Op { k: String, t: usize, cl: bool, i: usize }

/// mirror of the specification's state, kept by the harness to know which term to evaluate;
/// TLC checks that it equals the model's own `cells`
struct Mirror { base: usize, cells: Vec<Vec<Step>>, guards: Vec<(usize, usize, bool)> }
impl Mirror {
    fn cur(&self) -> usize { self.guards.last().map(|g| g.0).unwrap_or(self.base) }
    fn all(&mut self, s: Step) { for c in &mut self.cells { c.push(s.clone()); } }
}


struct Run<'r> { rec: &'r mut Rec, m: Mirror, addr0: usize, ops: std::vec::IntoIter<Op>, cap: usize }

impl<'r> Run<'r> {
    fn log(&mut self, op: &Op, view: (usize, Vec<Arr>), cap: usize) {
        let arrays: Vec<Value> = view.1.iter().map(hex).collect();
        let refs: Vec<Value> = self.m.cells.iter().map(|t| hex(&eval(t))).collect();
        let terms: Vec<Value> = self.m.cells.iter().map(|t| Value::Array(t.iter().map(step_json).collect())).collect();
        self.rec.ev(json!({"ev": "guard", "op": op.k, "t": op.t, "cl": op.cl as u8, "i": op.i,
            "ptr_eq": (view.0 == self.addr0 || view.1.is_empty()) as u8, "len": view.1.len(), "cap": cap,
            "arrays": arrays, "ref": refs, "terms": terms}));
    }

    /// run operations on a live guard until it is consumed; returns the operation that consumed it
    /// (the caller observes the buffer after it, through the parent guard or the buffer itself)
    fn level<'a>(&mut self, mut g: Box<dyn GuardDyn<'a> + 'a>) -> Op {
        loop {
            let op = match self.ops.next() {
                Some(o) => o,
                None => Op { k: "drop".into(), t: 0, cl: false, i: 0 }, // end of program: guards drop in reverse order
            };
            match op.k.as_str() {
                "guard" => {
                    let cur = self.m.cur();
                    self.m.all(Step::Conv(cur, op.t, op.cl));
                    self.m.guards.push((op.t, cur, op.cl));
                    let child = g.nest(op.t, op.cl);
                    let v = child.view();
                    self.log(&op, v, self.cap);
                    let pop = self.level(child);
                    let v = g.view();
                    self.log(&pop, v, self.cap);
                }
                "then" => {
                    let cur = self.m.cur();
                    self.m.all(Step::Conv(cur, op.t, op.cl));
                    let top = self.m.guards.last_mut().unwrap();
                    *top = (op.t, top.1, op.cl);
                    g = g.then(op.t, op.cl);
                    let v = g.view();
                    self.log(&op, v, self.cap);
                }
                "flip" => {
                    let top = self.m.guards.last_mut().unwrap();
                    top.2 = !top.2;
                    g = g.flip();
                    let v = g.view();
                    self.log(&op, v, self.cap);
                }
                "write" => {
                    let cur = self.m.cur();
                    self.m.cells[op.i - 1] = vec![Step::Const(cur, 1)];
                    g.write(op.i - 1, const_arr(cur, 1));
                    let v = g.view();
                    self.log(&op, v, self.cap);
                }
                "restore" | "drop" | "forget" => {
                    let (c, o, cl) = self.m.guards.pop().unwrap();
                    if op.k != "forget" { self.m.all(Step::Conv(c, o, cl)); }
                    match op.k.as_str() { "restore" => g.restore(), "drop" => drop(g), _ => g.forget() }
                    return op;
                }
                other => { eprintln!("op {} not possible while a guard is alive", other); std::process::exit(3) }
            }
        }
    }
}

/// the buffer at rest, one variant per static type
macro_rules! buf_enum {
    ($name:ident, $wrap:ident) => {
        enum $name { T0($wrap<C0>), T1($wrap<C1>), T2($wrap<C2>), T3($wrap<C3>) }
    };
}
type VecOf<T> = Vec<T>;
type BoxOf<T> = Box<[T]>;
type OneOf<T> = T;
buf_enum!(VBuf, VecOf);
buf_enum!(BBuf, BoxOf);
buf_enum!(OBuf, OneOf);

macro_rules! each { ($e:expr, $name:ident, $v:ident => $body:expr) => {
    match $e { $name::T0($v) => $body, $name::T1($v) => $body, $name::T2($v) => $body, $name::T3($v) => $body }
}; }

impl VBuf {
    fn view(&self) -> ((usize, Vec<Arr>), usize) { each!(self, VBuf, v => ((v.as_ptr() as usize, v.iter().map(|c| c.arr()).collect()), v.capacity())) }
    fn guard<'b>(&'b mut self, t: usize, cl: bool) -> Box<dyn GuardDyn<'b> + 'b> {
        each!(self, VBuf, v => { let s = &mut v[..]; by_type!(t, C => if cl { Box::new(<[C]>::from_color_mut(s)) } else { Box::new(<[C]>::from_color_unclamped_mut(s)) }) })
    }
    fn write(&mut self, i: usize, a: Arr) { each!(self, VBuf, v => v[i] = K::of(a)) }
    fn owned(self, t: usize, cl: bool) -> VBuf {
        macro_rules! to { ($v:ident, $C:ty, $V:ident) => { VBuf::$V(if cl { Vec::<$C>::from_color($v) } else { Vec::<$C>::from_color_unclamped($v) }) }; }
        each!(self, VBuf, v => match t { 0 => to!(v, C0, T0), 1 => to!(v, C1, T1), 2 => to!(v, C2, T2), _ => to!(v, C3, T3) })
    }
}
impl BBuf {
    fn view(&self) -> ((usize, Vec<Arr>), usize) { each!(self, BBuf, v => ((v.as_ptr() as usize, v.iter().map(|c| c.arr()).collect()), v.len())) }
    fn guard<'b>(&'b mut self, t: usize, cl: bool) -> Box<dyn GuardDyn<'b> + 'b> {
        each!(self, BBuf, v => { let s = &mut v[..]; by_type!(t, C => if cl { Box::new(<[C]>::from_color_mut(s)) } else { Box::new(<[C]>::from_color_unclamped_mut(s)) }) })
    }
    fn write(&mut self, i: usize, a: Arr) { each!(self, BBuf, v => v[i] = K::of(a)) }
    fn owned(self, t: usize, cl: bool) -> BBuf {
        macro_rules! to { ($v:ident, $C:ty, $V:ident) => { BBuf::$V(if cl { Box::<[$C]>::from_color($v) } else { Box::<[$C]>::from_color_unclamped($v) }) }; }
        each!(self, BBuf, v => match t { 0 => to!(v, C0, T0), 1 => to!(v, C1, T1), 2 => to!(v, C2, T2), _ => to!(v, C3, T3) })
    }
}
impl OBuf {
    fn view(&self) -> ((usize, Vec<Arr>), usize) { each!(self, OBuf, v => ((v as *const _ as usize, vec![v.arr()]), 1)) }
    fn guard<'b>(&'b mut self, t: usize, cl: bool) -> Box<dyn GuardDyn<'b> + 'b> {
        each!(self, OBuf, v => by_type!(t, C => if cl { Box::new(<C>::from_color_mut(v)) } else { Box::new(<C>::from_color_unclamped_mut(v)) }))
    }
    fn write(&mut self, _i: usize, a: Arr) { each!(self, OBuf, v => *v = K::of(a)) }
}

macro_rules! base_loop {
    ($run:ident, $buf:ident, $owned:expr) => {
        loop {
            let op = match $run.ops.next() { Some(o) => o, None => break };
            match op.k.as_str() {
                "guard" => {
                    let cur = $run.m.cur();
                    $run.m.all(Step::Conv(cur, op.t, op.cl));
                    $run.m.guards.push((op.t, cur, op.cl));
                    let pop = {
                        let g = $buf.guard(op.t, op.cl);
                        let v = g.view();
                        $run.log(&op, v, $run.cap);
                        $run.level(g)
                    };
                    let (v, cap) = $buf.view();
                    $run.log(&pop, v, cap);
                }
                "write" => {
                    let cur = $run.m.cur();
                    $run.m.cells[op.i - 1] = vec![Step::Const(cur, 1)];
                    $buf.write(op.i - 1, const_arr(cur, 1));
                    let (v, cap) = $buf.view();
                    $run.log(&op, v, cap);
                }
                "owned" => {
                    let b = $run.m.base;
                    $run.m.all(Step::Conv(b, op.t, op.cl));
                    $run.m.base = op.t;
                    #[allow(clippy::redundant_closure_call)]
                    { $buf = ($owned)($buf, op.t, op.cl); }
                    let (v, cap) = $buf.view();
                    $run.log(&op, v, cap);
                }
                // operations that need a live guard cannot occur here in a behaviour of the specification
                other => { eprintln!("op {} without a guard", other); std::process::exit(3) }
            }
        }
    };
}

fn parse(line: &str) -> (usize, usize, Vec<Op>) {
    let v: Value = serde_json::from_str(line).expect("history json");
    let a = v.as_array().unwrap();
    let init = a[0].as_array().unwrap();
    let (n, t0) = (init[1].as_u64().unwrap() as usize, init[2].as_u64().unwrap() as usize);
    let ops = a[1..].iter().map(|o| {
        let o = o.as_array().unwrap();
        Op { k: o[0].as_str().unwrap().to_string(), t: o[1].as_u64().unwrap() as usize, cl: o[2].as_u64().unwrap() == 1, i: o[3].as_u64().unwrap() as usize }
    }).collect();
    (n, t0, ops)
}

fn main() {
    let out = arg_or("--out", "-");
    let kinds = arg_or("--kinds", "vec,box,one");
    let text = std::fs::read_to_string(arg("--hist").expect("--hist")).expect("history file");
    let mut rec = Rec::create(&out);
    let mut nb = 0u64;
    for kind in kinds.split(',') {
        for line in text.lines() {
            if line.trim().is_empty() { continue; }
            let (n, t0, ops) = parse(line);
            if t0 != 0 { eprintln!("only base type 0 is driven"); std::process::exit(3) }
            if kind == "one" && (n != 1 || ops.iter().any(|o| o.k == "owned")) { continue; }
            nb += 1;
            let cells: Vec<Vec<Step>> = (1..=n).map(|i| vec![Step::Init(i, t0)]).collect();
            let m = Mirror { base: t0, cells, guards: vec![] };
            let init: Vec<C0> = (1..=n).map(|i| C0::of(init_arr(i))).collect();
            match kind {
                "vec" => {
                    let mut v = Vec::with_capacity(n + 3);
                    v.extend(init);
                    let mut buf = VBuf::T0(v);
                    let ((addr0, arrays), cap) = buf.view();
                    rec.ev(json!({"ev": "reset", "kind": kind, "n": n, "t0": t0, "cap": cap, "arrays": arrays.iter().map(hex).collect::<Vec<_>>()}));
                    let mut run = Run { rec: &mut rec, m, addr0, ops: ops.into_iter(), cap };
                    base_loop!(run, buf, |b: VBuf, t, cl| b.owned(t, cl));
                }
                "box" => {
                    let mut buf = BBuf::T0(init.into_boxed_slice());
                    let ((addr0, arrays), cap) = buf.view();
                    rec.ev(json!({"ev": "reset", "kind": kind, "n": n, "t0": t0, "cap": cap, "arrays": arrays.iter().map(hex).collect::<Vec<_>>()}));
                    let mut run = Run { rec: &mut rec, m, addr0, ops: ops.into_iter(), cap };
                    base_loop!(run, buf, |b: BBuf, t, cl| b.owned(t, cl));
                }
                "one" => {
                    let mut buf = OBuf::T0(init[0]);
                    let ((addr0, arrays), cap) = buf.view();
                    rec.ev(json!({"ev": "reset", "kind": kind, "n": n, "t0": t0, "cap": cap, "arrays": arrays.iter().map(hex).collect::<Vec<_>>()}));
                    let mut run = Run { rec: &mut rec, m, addr0, ops: ops.into_iter(), cap };
                    base_loop!(run, buf, |b: OBuf, _t, _cl| b);
                }
                other => { eprintln!("unknown kind {}", other); std::process::exit(3) }
            }
        }
    }
    let n = rec.finish();
    eprintln!("inplace: {} behaviours, {} events", nb, n);
}
