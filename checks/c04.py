"""C04 - zero-copy casts are lossless, length-exact and layout-sound.
Spec: spec/Cast.tla (a buffer [form, unit, n, len, cap, data, addr]; one action per cast family, the call style as an
argument). TLC enumerates every chain of casts from every small initial buffer (MC_Cast) and checks the invariants of the
model; the harness executes each chain on real palette types of that channel count, building and reading colours by
field name, and records form, unit, length, observed capacity, address identity, flat contents (bit-exact tokens),
error kind and size_of/align_of after every call; TraceCast.tla validates every recorded call against the model and
the field names against the specification's declared-order table.
quick: all chains of depth 1 on every type, depth 2 on two types per chain (rotating). thorough: depth 2 on every type,
depth 3 on two types per chain, and a sample of the depth-1 chains replayed under Miri as an undefined-behaviour monitor.
A cast that kills the process (non-unwinding precondition check of std, signal) is located with --crashlog and reported
as a violating event."""
import json, os, re, time
from common import *

CFG = {"MaxN": 4, "MaxLen": 8, "MaxCap": 10}
OPS = ["into_array", "from_array", "into_component", "try_from_component", "from_component", "into_uint", "from_uint",
       "map", "ref_as_slice", "try_slice_as_ref"]
FORMS = ["value", "ref", "mut", "box", "array", "slice", "slice_mut", "boxed_slice", "vec"]


def chains(ctx, max_ops, tag):
    c = dict(CFG, MaxOps=max_ops)
    r = tlc_mc(ctx, "MC_Cast", constants=c, tag=tag, workers=6)
    hs = sorted(extract_prints(r.out_path, "REPLAY"))
    if not hs:
        raise ToolError("MC_Cast emitted no chains (%s)" % r.out_path)
    zero = coverage_zero_actions(r.out_path, {"Cast", "MC_Cast"})
    if zero:
        raise ToolError("vacuity: actions never taken in %s: %s" % (tag, zero))
    return hs


def model_notes(ctx, tag):
    """What the specification expected at each rejected line: TraceCast prints one `"MODEL|<line>|<json>"` string per
    rejection (chunk-local line numbers); map them to line indices of the whole recording."""
    notes, start, k = {}, 0, 1
    while True:
        chunk = ctx.p("%s.chunk%03d.ndjson" % (tag, k))
        if not os.path.exists(chunk):
            break
        with open(chunk) as f:
            n = sum(1 for _ in f)
        if os.path.exists(chunk + ".tlc.out"):
            for line in open(chunk + ".tlc.out"):
                if line.startswith('"MODEL|'):
                    try:
                        _, ll, js = json.loads(line).split("|", 2)
                        notes[start + int(ll) - 1] = js
                    except Exception:
                        pass
        start += n
        k += 1
    return notes


class Crashed(Exception):
    pass


def run_cast(ctx, bins, hp, types, rotate, tp):
    """Run the harness. A cast that trips a non-unwinding check (e.g. std's from_raw_parts precondition under
    debug assertions) or a signal kills the process: that cannot be recorded from inside, so the run is repeated with
    --crashlog to find the scenario in flight, which is reported as a violating event (memory unsoundness observed)."""
    args = ["--hist", hp, "--types", types, "--rotate", rotate, "--out", tp]
    try:
        return run_bin(bins["cast"], args)
    except ToolError as e:
        m = re.search(r"failed \((-?\d+)\)", str(e))
        if not m or not (int(m.group(1)) < 0 or int(m.group(1)) in (132, 134, 135, 136, 139)):
            raise
        rc = int(m.group(1))
    cl = tp + ".crashlog"
    import subprocess
    r = subprocess.run([bins["cast"]] + [str(a) for a in args] + ["--crashlog", cl], stdout=subprocess.DEVNULL,
                       stderr=subprocess.PIPE, text=True, timeout=3600)
    last = None
    if os.path.exists(cl):
        for line in open(cl):
            last = line
    if r.returncode == 0 or not last:
        raise ToolError("cast harness died with %d but the crash did not reproduce" % rc)
    ty, chain = last.rstrip("\n").split("\t", 1)
    raise Crashed(json.dumps({"ty": ty, "chain": json.loads(chain), "rc": r.returncode, "stderr": (r.stderr or "")[-300:]}))


def report_crash(ctx, c):
    c = json.loads(str(c))
    ini = c["chain"][0]
    coords = {"kind": "cast-crash", "ty": c["ty"], "form": ini[3], "op": c["chain"][-1][0] if len(c["chain"]) > 1 else "init"}
    what = "%s: the process was killed (exit %s: %s) inside the casts of the chain %s - a cast tripped a non-unwinding check or a signal" % (
        c["ty"], c["rc"], c["stderr"].strip().replace("\n", " ")[-160:], json.dumps(c["chain"]))
    report(ctx, coords, what, {"bin": "cast", "type": c["ty"], "chain": c["chain"], "crash": True,
                               "how": "./check C04 --replay <this file>"})


MIRI_EVERY = 35      # every 35th depth-1 chain (~240 scenarios, one type each, rotating): about 3 minutes
MIRI_TIMEOUT = 1200


def miri_cmd(hp, types, rotate, tp, cl):
    return ["cargo", "+nightly", "miri", "run", "--offline", "--bin", "cast", "--", "--hist", hp, "--types", types,
            "--rotate", str(rotate), "--out", tp, "--crashlog", cl]


def miri_env():
    return dict(os.environ, MIRIFLAGS="-Zmiri-disable-isolation", CARGO_NET_OFFLINE="true", CARGO_TERM_COLOR="never")


def miri_run(hp, types, rotate, tp, cl, timeout):
    """-> (status, detail): 'ok' | 'ub' (detail: type, chain, message) | 'absent' | 'timeout' | 'failed' (detail: text)"""
    import subprocess
    try:
        if subprocess.run(["cargo", "+nightly", "miri", "--version"], cwd=HARNESS, capture_output=True, text=True,
                          timeout=120).returncode != 0:
            return "absent", None
    except Exception:
        return "absent", None
    try:
        r = subprocess.run(miri_cmd(hp, types, rotate, tp, cl), cwd=HARNESS, env=miri_env(), stdout=subprocess.DEVNULL,
                           stderr=subprocess.PIPE, text=True, timeout=timeout)
    except subprocess.TimeoutExpired:
        return "timeout", None
    if r.returncode == 0:
        return "ok", (r.stderr or "").strip().splitlines()[-1:]
    err = r.stderr or ""
    m = re.search(r"error: (Undefined Behavior|unsupported operation|memory leaked|abnormal termination|the evaluated program)[^\n]*", err)
    last = None
    if os.path.exists(cl):
        for line in open(cl):
            last = line
    if m and last:
        ty, chain = last.rstrip("\n").split("\t", 1)
        return "ub", (ty, json.loads(chain), err[m.start():m.start() + 600])
    return "failed", err[-1500:]


def miri_monitor(ctx, hs):
    """Thorough tier: the same replayer on a sample of the depth-1 chains under Miri, as an execution monitor for
    undefined behaviour inside the unsafe blocks (allocation layout on free, provenance, validity, bounds). Miri reporting
    an error is a violating event; Miri being unavailable or too slow is recorded in the evidence, not a verdict."""
    sample = hs[::MIRI_EVERY]
    hp, tp, cl = ctx.p("miri.hist"), ctx.p("miri.ndjson"), ctx.p("miri.crashlog")
    open(hp, "w").write("".join(h + "\n" for h in sample))
    t = time.time()
    st, d = miri_run(hp, "all", 1, tp, cl, MIRI_TIMEOUT)
    log("miri monitor: %s, %d chains, %.0fs" % (st, len(sample), time.time() - t))
    ctx.cov["miri"] = {"status": st, "chains": len(sample), "wall_s": round(time.time() - t)}
    if st == "ok":
        res = validate_trace(ctx, "TraceCast", tp, tag="miri")
        ctx.cov["miri"]["scenarios"] = res.scenarios
        if res.rejected:
            raise ToolError("the recording made under Miri is rejected although the native one is not: %r" % (res.rejected[0][:2],))
    elif st == "ub":
        ty, chain, msg = d
        report(ctx, {"kind": "cast-miri", "ty": ty, "form": chain[0][3], "op": chain[-1][0]},
               "%s: Miri reports an error while executing the chain %s: %s" % (ty, json.dumps(chain), " ".join(msg.split())[:300]),
               {"bin": "cast", "type": ty, "chain": chain, "miri": True, "message": msg, "how": "./check C04 --replay <this file>"})
    elif st == "absent":
        ctx.assumptions.append("Miri (cargo +nightly miri) is not installed: the undefined-behaviour monitor did not run")
    elif st == "timeout":
        ctx.assumptions.append("the Miri monitor did not finish within %d s and was abandoned (no verdict from it)" % MIRI_TIMEOUT)
    else:
        ctx.assumptions.append("the Miri monitor could not be run: " + " ".join(str(d).split())[-300:])


def describe(ev, rs, info):
    return ("%s, initial %s of %s x %s (cap %s): %s(api=%s, m=%s) returned form=%s unit=%s len=%s cap=%s same_address=%s "
            "contents=%s err=%s elsize=%s elalign=%s; the specification says %s") % (
        rs.get("ty"), rs.get("form"), rs.get("len"), rs.get("unit"), rs.get("cap"), ev.get("op"), ev.get("api"), ev.get("m"),
        ev.get("form"), ev.get("unit"), ev.get("len"), ev.get("cap"), ev.get("addr"), ev.get("data"), ev.get("err"),
        ev.get("elsize"), ev.get("elalign"), info[:400])


def positional(ctx, bins):
    """Beyond C04's statement (which is about casts): the positional constructors and destructuring forms of every
    colour struct (`new`, `new_const`, `new_srgb*`, `from_components`, tuples, `into_components`, `with_white_point`,
    `with_meta`) against the same declared-order table (Cast!PositionalOk, TraceCtor.tla). A departure is NOT a
    violation of C04 as stated, so it is printed as a NOTE and recorded in the evidence, never as a VIOLATION."""
    tp = ctx.p("ctor.ndjson")
    run_bin(bins["cast"], ["--ctor", "--out", tp])
    res = validate_trace(ctx, "TraceCtor", tp, stateless=True, tag="ctor")
    notes = []
    for (line, ev, info, _) in res.rejected:
        why = (info or "").strip().strip('"')
        msg = "%s %s<%s> %s: %s (arguments %s, fields %s read %s)" % (ev.get("wrap"), ev.get("base"), ev.get("k"), ev.get("form"), why,
                                                                      ev.get("args"), ev.get("names"), ev.get("read"))
        print("NOTE: outside C04's statement, positional construction departs from the declared order: " + msg)
        notes.append(msg)
    return {"events": res.events, "departures": notes[:20]}


def run(ctx):
    bins = cargo_build(["cast"])
    ntypes = len(run_bin(bins["cast"], ["--list"]).stdout.strip().splitlines())
    if ctx.quick:
        # depth 1 on every type; depth 2 on two types per chain (rotating through all types of that channel count)
        plan = [("cast_d1", chains(ctx, 1, "cast_d1"), 0), ("cast_d2", chains(ctx, 2, "cast_d2"), 2)]
    else:
        plan = [("cast_d1", chains(ctx, 1, "cast_d1"), 0), ("cast_d2", chains(ctx, 2, "cast_d2"), 0),
                ("cast_d3", chains(ctx, 3, "cast_d3"), 2)]
    nontrivial, scen_total, skipped = set(), 0, 0
    for tag, hs, rotate in plan:
        hp = ctx.p(tag + ".hist")
        with open(hp, "w") as f:
            for h in hs:
                f.write(h + "\n")
                if not re.match(r'^\[\["init","\w+",\d+,"\w+","\w+",0,', h):
                    nontrivial.add(h)
        tp = ctx.p(tag + ".ndjson")
        try:
            r = run_cast(ctx, bins, hp, "all", rotate, tp)
        except Crashed as c:
            report_crash(ctx, c)
            continue
        m = re.search(r"(\d+) scenarios on (\d+) types \(least covered type: (\d+)\), (\d+) skipped", r.stderr or "")
        if not m:
            raise ToolError("cast harness summary not understood: %r" % (r.stderr or "")[-300:])
        if int(m.group(2)) != ntypes or int(m.group(3)) == 0:
            raise ToolError("vacuity: %s covered %s of %d types" % (tag, m.group(2), ntypes))
        scen_total += int(m.group(1))
        skipped += int(m.group(4))
        if tag == "cast_d1":
            # vacuity of the recording: every operation, every call style and every outcome kind was exercised
            txt = open(tp).read()
            want = ['"op":"%s"' % o for o in OPS] + ['"api":%d' % a for a in range(5)] + ['"m":1'] + \
                   ['"err":%d' % k for k in (0, 1, 2, 3, 9)] + ['"form":"%s"' % f for f in FORMS + ["dead"]]
            missing = [w for w in want if w not in txt]
            del txt
        else:
            missing = []
        res = validate_trace(ctx, "TraceCast", tp, tag=tag)
        if missing and not res.rejected:
            # (with rejections the implementation departed from the model and an outcome kind may rightly be absent)
            raise ToolError("vacuity: the depth-1 recording was accepted but never shows %s" % missing)
        bad_scen = set()
        notes = model_notes(ctx, tag) if res.rejected else {}
        add_samples(ctx, tp, n=2, every=100003)
        for (line, ev, info, scen) in res.rejected:
            rs = next((e for e in reversed(scen) if e.get("ev") == "reset"), {})
            info = notes.get(line, info) or "(no step of the specification matches this call)"
            bad_scen.add(json.dumps(rs, sort_keys=True) + json.dumps([[e.get("op"), e.get("api"), e.get("m")] for e in scen[1:]]))
            if ev.get("ev") == "reset":
                coords = {"kind": "cast-init", "ty": ev.get("ty"), "form": ev.get("form"), "unit": ev.get("unit")}
                what = "%s: fields %s numbered in that order read back as %s in an initial %s of %s (len %s cap %s same_address=%s elsize=%s elalign=%s); the specification says %s" % (
                    ev.get("ty"), ev.get("names"), ev.get("data"), ev.get("form"), ev.get("unit"), ev.get("len"), ev.get("cap"),
                    ev.get("addr"), ev.get("elsize"), ev.get("elalign"), info[:400])
            else:
                coords = {"kind": "cast", "op": ev.get("op"), "api": ev.get("api"), "ty": rs.get("ty"), "form": rs.get("form")}
                what = describe(ev, rs, info)
            report(ctx, coords, what, {"bin": "cast", "type": rs.get("ty") or ev.get("ty"), "scenario": scen,
                                       "rejected_event": ev, "trace_line": line, "how": "./check C04 --replay <this file>"})
        ctx.cov["traces_validated_against_impl"] += res.scenarios - len(bad_scen)
        # the recording and its chunks are large in the thorough tier: keep them only when something was rejected
        for fn in os.listdir(ctx.work):
            if fn.startswith(tag + ".") and fn.endswith(".ndjson") and (".chunk" in fn or (not ctx.quick and not res.rejected)):
                os.remove(os.path.join(ctx.work, fn))
    ctor = positional(ctx, bins)
    if not ctx.quick and not ctx.violations:
        miri_monitor(ctx, plan[0][1])
    ctx.cov["distinct_nontrivial"] = len(nontrivial)
    return finish(ctx, "model_checking",
                  rule="a case is one chain (initial buffer: family, channel count, form, unit, length, capacity; then a sequence "
                       "of casts with their call style) executed on one colour type; distinct by the chain, non-trivial when the "
                       "initial buffer is not empty",
                  explanation="TLC enumerates every chain of casts of Cast.tla up to the stated depth over all small buffers "
                              "(n 1..4, up to 8 components, Vec capacities up to 10 incl. non-multiples, every form and unit), checks "
                              "the model's invariants (flat data unchanged, len*unit and cap*unit conserved, address identity, round "
                              "trip, rejection exactly for non-multiples) and emits each chain; each chain is executed on palette "
                              "types of that channel count and TLC validates every call's observed result against the model.",
                  trusted=["the harness' token<->bit-pattern mapping (exact inverse, checked bit for bit) and its by-name "
                           "constructors/readers", "Vec::capacity(), as_ptr(), size_of/align_of as observations",
                           "absence of undefined behaviour as such is observed through values, addresses and layout only"],
                  extra={"scenarios_executed": scen_total, "types": ntypes, "skipped_allocator_capacity": skipped,
                         "positional_construction_outside_the_property": ctor})


def replay(ctx, path):
    rp = json.load(open(path))["replay"]
    bins = cargo_build(["cast"])
    if rp.get("miri"):
        hp = ctx.p("replay.hist")
        open(hp, "w").write(json.dumps(rp["chain"]) + "\n")
        st, d = miri_run(hp, rp["type"], 0, ctx.p("replay.ndjson"), ctx.p("replay.crashlog"), MIRI_TIMEOUT)
        if st == "ub":
            print("VIOLATION property=C04 replay=%s" % path)
            print("  Miri still reports: %s" % " ".join(d[2].split())[:400])
            return 1
        if st != "ok":
            raise ToolError("Miri replay: %s %s" % (st, d))
        print("replay accepted: Miri no longer reports an error on this chain")
        return 0
    if rp.get("chain"):
        chain, ty = rp["chain"], rp["type"]
    else:
        scen = rp["scenario"]
        rs = next(e for e in scen if e.get("ev") == "reset")
        ty = rs["ty"]
        chain = [["init", rs["fam"], rs["n"], rs["form"], rs["unit"], rs["len"], rs["cap"]]]
        chain += [[e["op"], e["api"], e["m"]] for e in scen if e.get("ev") == "cast"]
    hp = ctx.p("replay.hist")
    open(hp, "w").write(json.dumps(chain) + "\n")
    tp = ctx.p("replay.ndjson")
    try:
        run_cast(ctx, bins, hp, ty, 0, tp)
    except Crashed as c:
        print("VIOLATION property=C04 replay=%s" % path)
        print("  the process is still killed inside the chain: %s" % str(c)[:500])
        return 1
    res = validate_trace(ctx, "TraceCast", tp, tag="replay")
    if res.rejected:
        print("VIOLATION property=C04 replay=%s" % path)
        print("  still rejected at line %d: %s" % (res.rejected[0][0], json.dumps(res.rejected[0][1])[:600]))
        return 1
    print("replay accepted: the chain is now a behaviour of the specification")
    return 0
