--------------------------- MODULE TraceEquality ---------------------------
(* Trace validation of colour comparisons (Equality.tla).  Every recorded     *)
(* call of `==`/`!=`, abs_diff_eq/ne, relative_eq/ne, ulps_eq/ne on a colour   *)
(* type, a hue type or an `Alpha` must be a step of the model: the answer is   *)
(* the component-wise conjunction the model demands (three-valued inside the   *)
(* rounding band of a threshold) and the "not equal" form is its negation.     *)
(*                                                                            *)
(* Event: {"ev":"cmp","op":"eq"|"abs"|"rel"|"ulps","ty":<type>,"t":"f32"|"f64", *)
(*         "hi":<index of the hue component or 0>,"a":[exact..],"b":[exact..],  *)
(*         "eps":exact,"mr":exact,"k":int,"r":0|1,"nr":0|1}                     *)
(* A departure where only the hue component decides `==` is C11's equality     *)
(* clause (REJECT); every other departure is behaviour outside the listed      *)
(* properties and is printed as a NOTE.                                        *)
EXTENDS Equality, Json, IOUtils, TLC

Rec == ndJsonDeserialize(IOEnv.TRACE)

VARIABLES l
tvars == <<evars, l>>

TInit == EInit /\ l = 1

IsOp(op) == /\ l <= Len(Rec) /\ Rec[l].ev = "cmp" /\ Rec[l].op = op /\ Rec[l].t \in FloatTypes

Seq2Dy(js) == [i \in DOMAIN js |-> Dy(js[i])]
Fin(e) == AllFin(e.a) /\ AllFin(e.b) /\ IsFin(e.eps) /\ IsFin(e.mr)

(* c11 = TRUE: the departure is a violation of C11's equality clause *)
Judge(op, ok, c11, why) ==
  /\ IF ok THEN TRUE ELSE IF c11 THEN PrintT(<<"REJECT", l, why>>)
                          ELSE PrintT(<<"NOTE", "comparison", Rec[l].ty, Rec[l].t, op, Rec[l].r, Rec[l].nr, why>>)
  /\ lastc' = op /\ l' = l + 1 /\ UNCHANGED last

TrEq ==
  /\ IsOp("eq")
  /\ LET e == Rec[l] a == Seq2Dy(e.a) b == Seq2Dy(e.b)
     IN Judge("eq", Fin(e) /\ PartialEqOK(e.hi, e.t, a, b, e.r) /\ Complement(e.r, e.nr),
              Fin(e) /\ Len(a) = Len(b) /\ OnlyHueDecides(e.hi, a, b) /\ Complement(e.r, e.nr),
              "eq: not the conjunction of the component equalities (hues modulo 360), or != is not its negation")

TrAbs ==
  /\ IsOp("abs")
  /\ LET e == Rec[l] a == Seq2Dy(e.a) b == Seq2Dy(e.b)
     IN Judge("abs", Fin(e) /\ AbsDiffOK(e.hi, e.t, a, b, Dy(e.eps), e.r) /\ Complement(e.r, e.nr), FALSE,
              "abs_diff: not all components within eps, or _ne is not the negation")

TrRel ==
  /\ IsOp("rel")
  /\ LET e == Rec[l] a == Seq2Dy(e.a) b == Seq2Dy(e.b)
     IN Judge("rel", Fin(e) /\ RelativeOK(e.hi, e.t, a, b, Dy(e.eps), Dy(e.mr), e.r) /\ Complement(e.r, e.nr), FALSE,
              "relative: not all components within eps or max_relative, or _ne is not the negation")

TrUlps ==
  /\ IsOp("ulps")
  /\ LET e == Rec[l] a == Seq2Dy(e.a) b == Seq2Dy(e.b)
     IN Judge("ulps", Fin(e) /\ UlpsOK(e.hi, e.t, a, b, Dy(e.eps), e.k, e.r) /\ Complement(e.r, e.nr), FALSE,
              "ulps: not all components within eps or max_ulps, or _ne is not the negation")

TReset == /\ l <= Len(Rec) /\ Rec[l].ev = "reset"
          /\ UNCHANGED evars /\ l' = l + 1

TNext == TReset \/ TrEq \/ TrAbs \/ TrRel \/ TrUlps
TSpec == TInit /\ [][TNext]_tvars

Consumed == TLCGet("stats").diameter = Len(Rec) + 1 \/ PrintT(<<"UNCONSUMED", TLCGet("stats").diameter>>)
TInv == ETypeOK
=============================================================================
