SPECIFICATION MCSpec
CONSTANTS
  GBits = 2
  Ops = {"multiply", "screen", "overlay", "darken", "lighten", "dodge", "burn", "hard_light", "soft_light", "difference", "exclusion", "over", "inside", "outside", "atop", "xor", "plus", "premul"}
  EnumStep = 1
  AssertPlusRange = "no"
INVARIANT Inv
CHECK_DEADLOCK TRUE
