-------------------------------- MODULE Types --------------------------------
(***************************************************************************)
(* The type universe: the colour spaces the harness drives ("nodes"), their *)
(* components in declared order and the DOCUMENTED range of each component   *)
(* (from the field documentation of each palette type; reference data, not   *)
(* read from the code).  A bound is <<num, den>> (a rational with ordinary    *)
(* integers) or <<>> when the documentation gives none.                      *)
(***************************************************************************)
EXTENDS Fx

Q(n, d) == <<n, d>>
NoB == <<>>
Unit == <<Q(0, 1), Q(1, 1)>>
Free == <<NoB, NoB>>

(* D65 white point, CIE 1931 2 degree observer (ASTM E308): X = 0.95047, Y = 1, Z = 1.08883 *)
DocBounds ==
  [ xyz      |-> << <<Q(0, 1), Q(95047, 100000)>>, Unit, <<Q(0, 1), Q(108883, 100000)>> >>,
    yxy      |-> << Unit, Unit, Unit >>,
    lab      |-> << <<Q(0, 1), Q(100, 1)>>, <<Q(-128, 1), Q(127, 1)>>, <<Q(-128, 1), Q(127, 1)>> >>,
    lch      |-> << <<Q(0, 1), Q(100, 1)>>, <<Q(0, 1), Q(128, 1)>>, Free >>,
    luv      |-> << <<Q(0, 1), Q(100, 1)>>, <<Q(-84, 1), Q(176, 1)>>, <<Q(-135, 1), Q(108, 1)>> >>,
    lchuv    |-> << <<Q(0, 1), Q(100, 1)>>, <<Q(0, 1), Q(180, 1)>>, Free >>,
    hsluv    |-> << Free, <<Q(0, 1), Q(100, 1)>>, <<Q(0, 1), Q(100, 1)>> >>,
    oklab    |-> << Unit, Free, Free >>,
    oklch    |-> << Unit, <<Q(0, 1), NoB>>, Free >>,
    okhsl    |-> << Free, Unit, Unit >>,
    okhsv    |-> << Free, Unit, Unit >>,
    okhwb    |-> << Free, Unit, Unit >>,
    linsrgb  |-> << Unit, Unit, Unit >>,
    srgb     |-> << Unit, Unit, Unit >>,
    hsl      |-> << Free, Unit, Unit >>,
    hsv      |-> << Free, Unit, Unit >>,
    hwb      |-> << Free, Unit, Unit >>,
    linluma  |-> << Unit >>,
    srgbluma |-> << Unit >>,
    \* CAM16-UCS: "lightness: 0 to 100", colourfulness "0 and up", a' and b' unbounded (bounds contract only, no conversions here)
    cam16ucsjab |-> << <<Q(0, 1), Q(100, 1)>>, Free, Free >>,
    \* max_srgb_colorfulness() = 50 is "entirely arbitrary and only for use in Lighten, Darken and random generation": advisory
    cam16ucsjmh |-> << <<Q(0, 1), Q(100, 1)>>, <<Q(0, 1), Q(50, 1)>>, Free >>,
    \* cone responses: "the typical range is between 0.0 and 1.0, but it doesn't have an actual upper bound"
    lmsvk    |-> << <<Q(0, 1), NoB>>, <<Q(0, 1), NoB>>, <<Q(0, 1), NoB>> >>,
    lmsbfd   |-> << <<Q(0, 1), NoB>>, <<Q(0, 1), NoB>>, <<Q(0, 1), NoB>> >>,
    \* the universe of the other RGB standards and white points (harness binaries convstd*):
    \* D50 (ASTM E308): X = 0.96422, Z = 0.82521; DCI white x = 0.314, y = 0.351: X = 0.89459, Z = 0.95442
    adobe |-> << Unit, Unit, Unit >>, linadobe |-> << Unit, Unit, Unit >>,
    p3 |-> << Unit, Unit, Unit >>, linp3 |-> << Unit, Unit, Unit >>,
    rec2020 |-> << Unit, Unit, Unit >>, linrec2020 |-> << Unit, Unit, Unit >>, rec709 |-> << Unit, Unit, Unit >>,
    hsv_linsrgb |-> << Free, Unit, Unit >>, hsl_linsrgb |-> << Free, Unit, Unit >>, hwb_rec709 |-> << Free, Unit, Unit >>,
    hsv_adobe |-> << Free, Unit, Unit >>, hsl_p3 |-> << Free, Unit, Unit >>, hwb_rec2020 |-> << Free, Unit, Unit >>,
    xyz50    |-> << <<Q(0, 1), Q(96422, 100000)>>, Unit, <<Q(0, 1), Q(82521, 100000)>> >>,
    lab50    |-> << <<Q(0, 1), Q(100, 1)>>, <<Q(-128, 1), Q(127, 1)>>, <<Q(-128, 1), Q(127, 1)>> >>,
    lch50    |-> << <<Q(0, 1), Q(100, 1)>>, <<Q(0, 1), Q(128, 1)>>, Free >>,
    luv50    |-> << <<Q(0, 1), Q(100, 1)>>, <<Q(-84, 1), Q(176, 1)>>, <<Q(-135, 1), Q(108, 1)>> >>,
    prophoto |-> << Unit, Unit, Unit >>, linprophoto |-> << Unit, Unit, Unit >>, hsv_prophoto |-> << Free, Unit, Unit >>,
    xyzdci   |-> << <<Q(0, 1), Q(89459, 100000)>>, Unit, <<Q(0, 1), Q(95442, 100000)>> >>,
    labdci   |-> << <<Q(0, 1), Q(100, 1)>>, <<Q(-128, 1), Q(127, 1)>>, <<Q(-128, 1), Q(127, 1)>> >>,
    dcip3 |-> << Unit, Unit, Unit >>, lindcip3 |-> << Unit, Unit, Unit >>,
    dcip3plus |-> << Unit, Unit, Unit >>, lindcip3plus |-> << Unit, Unit, Unit >> ]

NodeNames == DOMAIN DocBounds
NComp(node) == Len(DocBounds[node])
(* index of the hue component, 0 if none *)
HueIdx(node) == CASE node \in {"lch", "lchuv", "oklch", "lch50", "cam16ucsjmh"} -> 3
                  [] node \in {"hsluv", "okhsl", "okhsv", "okhwb", "hsl", "hsv", "hwb", "hsv_adobe", "hsl_p3", "hwb_rec2020", "hsv_prophoto",
                             "hsv_linsrgb", "hsl_linsrgb", "hwb_rec709"} -> 1
                  [] OTHER -> 0

(* Upper bounds that the documentation gives as guidance only and that the type's contract does not
   enforce: Lch::max_chroma ("does not cover the entire colour space, but covers enough to be practical"). *)
AdvisoryUpper == { <<"lch", 2>>, <<"lch50", 2>>, <<"cam16ucsjmh", 2>> }
(* Documented slack above an upper bound: Okhsv accepts saturation and value up to 1 + 1e-6, "the maximum
   inaccuracy of the sRGB gamut boundary computation" (ok_utils::MAX_SRGB_SATURATION_INACCURACY).
   As a power of two not below it: 2^-19 > 1e-6 (and covers f32 rounding of the sum). *)
UpperSlackBits(node, i) == IF node = "okhsv" /\ i \in {2, 3} THEN 19 ELSE 0      \* 0 = no slack

DocFx(b) == FxRat(b[1], b[2])
(* does the accessor value (logged number, <<>> when the type has no accessor) agree with the documentation? *)
AccessorAgrees(doc, acc, t) ==
  IF doc = NoB THEN acc = <<>>
  ELSE acc # <<>> /\ FxNear(FxOf(acc), DocFx(doc), 100, IF t = "f32" THEN 22 ELSE 50)
=============================================================================
