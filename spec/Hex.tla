-------------------------------- MODULE Hex --------------------------------
(***************************************************************************)
(* C12 (part 1) - hexadecimal colour strings: the documented grammar,      *)
(* parsing and formatting.                                                 *)
(*                                                                         *)
(* A STRING is a sequence of CHARACTERS; a character is an atomic token    *)
(* (a TLA+ string naming it).  The grammar below only distinguishes        *)
(*   - the 22 hexadecimal digit characters 0-9 a-f A-F,                    *)
(*   - the character "#",                                                  *)
(*   - everything else (one class: "not a hexadecimal digit").             *)
(* Lengths are counted in CHARACTERS, as in palette's documentation        *)
(* ("#f8b", "#ff88bb", "3 or 6 character format").  How many bytes a       *)
(* character occupies in some encoding is deliberately NOT part of the     *)
(* model: the exhaustive configurations use an abstract alphabet in which  *)
(* "e2" stands for a character of two UTF-8 bytes (U+00E9) and "e3" for    *)
(* one of three bytes (U+20AC), "sp" for U+0020; to the grammar they are   *)
(* simply non-digits.                                                      *)
(*                                                                         *)
(* Documented contract (palette/src/rgb/rgb.rs, Rgb::from_hex /            *)
(* Rgba::from_hex and the FromStr impls):                                  *)
(*   * optional '#' at the beginning of the string;                        *)
(*   * then exactly N hexadecimal digits, N = channels x w, where w (the   *)
(*     digits per channel) depends on the component type:                  *)
(*        "#f8b" and "#ff88bb" (w = 1, 2) require 8 bits or higher,        *)
(*        "#ffff8888bbbb" (w = 4) requires 16 bits or higher,              *)
(*        "#ffffffff88888888bbbbbbbb" (w = 8) requires 32 bits or higher,  *)
(*        f32 accepts the formats for u16 or shorter, f64 those for u32    *)
(*        or shorter;                                                      *)
(*     i.e.  Rgb<u8>: 3|6   Rgb<u16>, Rgb<f32>: 3|6|12                     *)
(*           Rgb<u32>, Rgb<f64>: 3|6|12|24                                 *)
(*           Rgba<u8>: 4|8  Rgba<u16>, Rgba<f32>: 4|8|16                   *)
(*           Rgba<u32>, Rgba<f64>: 4|8|16|32;                              *)
(*   * the value of a channel is the number written by its w digits; a     *)
(*     one-digit channel d means dd ("#08f" = "#0088ff"); a channel        *)
(*     narrower than the component type is widened by repeating its bit    *)
(*     pattern ("#f8b" as u16 = ffff 8888 bbbb; the number-format          *)
(*     conversion of C06: x*257, x*65537, ...);                            *)
(*   * anything else is an error (FromHexError) - never accepted, never a  *)
(*     panic.                                                              *)
(* Formatting ({:x}, {:X}; LowerHex/UpperHex for Rgb and Alpha): every     *)
(* component zero-padded to 2 x size_of digits, in the order r, g, b(, a), *)
(* no prefix.                                                              *)
(*                                                                         *)
(* A channel VALUE is modelled as the sequence of its hexadecimal digits   *)
(* (values 0..15, most significant first) at the width of the component    *)
(* type: 2, 4 or 8 digits.  That is exact for every width (TLC integers    *)
(* stop at 2^31-1) and makes "repeat the bit pattern" literally            *)
(* repetition.  NatOf gives the number a digit sequence denotes; the       *)
(* exhaustive configuration checks that repetition IS multiplication by    *)
(* 17, 257, 65537 and 16843009 (with BigNat for 32 bits).                  *)
(* For f32/f64 targets the parsed value is the ratio value/max; as         *)
(* dd/ff = dddd/ffff = dddddddd/ffffffff the model returns every channel   *)
(* of a float type at 8 digits, to be read as a numerator over ffffffff.   *)
(***************************************************************************)
EXTENDS Integers, Sequences, FiniteSets

Lower == <<"0", "1", "2", "3", "4", "5", "6", "7", "8", "9", "a", "b", "c", "d", "e", "f">>
Upper == <<"0", "1", "2", "3", "4", "5", "6", "7", "8", "9", "A", "B", "C", "D", "E", "F">>

HexDigits == {Lower[i] : i \in 1..16} \cup {Upper[i] : i \in 1..16}          \* 22 characters
IsHexDigit(ch) == ch \in HexDigits
DigitValue == [ch \in HexDigits |-> (CHOOSE i \in 1..16 : Lower[i] = ch \/ Upper[i] = ch) - 1]
DigitVal(ch) == DigitValue[ch]

(* the parsable types: [alpha, cw = digits of the component type (8 for floats, see above),
   widths = the digits-per-channel forms the type accepts] *)
HexTypes ==
  [ rgb_u8   |-> [alpha |-> FALSE, cw |-> 2, widths |-> {1, 2},       float |-> FALSE],
    rgba_u8  |-> [alpha |-> TRUE,  cw |-> 2, widths |-> {1, 2},       float |-> FALSE],
    rgb_u16  |-> [alpha |-> FALSE, cw |-> 4, widths |-> {1, 2, 4},    float |-> FALSE],
    rgba_u16 |-> [alpha |-> TRUE,  cw |-> 4, widths |-> {1, 2, 4},    float |-> FALSE],
    rgb_u32  |-> [alpha |-> FALSE, cw |-> 8, widths |-> {1, 2, 4, 8}, float |-> FALSE],
    rgba_u32 |-> [alpha |-> TRUE,  cw |-> 8, widths |-> {1, 2, 4, 8}, float |-> FALSE],
    rgb_f32  |-> [alpha |-> FALSE, cw |-> 8, widths |-> {1, 2, 4},    float |-> TRUE],
    rgba_f32 |-> [alpha |-> TRUE,  cw |-> 8, widths |-> {1, 2, 4},    float |-> TRUE],
    rgb_f64  |-> [alpha |-> FALSE, cw |-> 8, widths |-> {1, 2, 4, 8}, float |-> TRUE],
    rgba_f64 |-> [alpha |-> TRUE,  cw |-> 8, widths |-> {1, 2, 4, 8}, float |-> TRUE] ]

TypeNames == DOMAIN HexTypes
NCh(ty) == IF HexTypes[ty].alpha THEN 4 ELSE 3
CW(ty) == HexTypes[ty].cw
Widths(ty) == HexTypes[ty].widths
(* the documented numbers of digits: 3|6, 3|6|12, ... 4|8|16|32 *)
DigitCounts(ty) == {NCh(ty) * w : w \in Widths(ty)}

-----------------------------------------------------------------------------
(* values *)

(* the number denoted by a digit sequence (most significant first) *)
RECURSIVE NatOf(_)
NatOf(d) == IF d = <<>> THEN 0 ELSE 16 * NatOf(SubSeq(d, 1, Len(d) - 1)) + d[Len(d)]

(* repeat the digit pattern d up to width w (Len(d) divides w): "f" -> "ff", "ab" -> "abab" -> "abababab" *)
Widen(d, w) == [i \in 1..w |-> d[((i - 1) % Len(d)) + 1]]

IsChannel(v, w) == v \in [1..w -> 0..15]
IsColour(ty, c) == Len(c) = NCh(ty) /\ \A k \in 1..NCh(ty) : IsChannel(c[k], CW(ty))

-----------------------------------------------------------------------------
(* FromStr / from_hex *)

Err == [ok |-> FALSE, val |-> <<>>]
Ok(v) == [ok |-> TRUE, val |-> v]

StripHash(s) == IF Len(s) > 0 /\ s[1] = "#" THEN SubSeq(s, 2, Len(s)) ELSE s

Parse(ty, s) ==
  LET body == StripHash(s)
      n == Len(body)
      k == NCh(ty)
      w == n \div k
  IN IF n % k = 0 /\ w \in Widths(ty) /\ \A i \in 1..n : IsHexDigit(body[i])
     THEN Ok([c \in 1..k |-> Widen([j \in 1..w |-> DigitVal(body[(c - 1) * w + j])], CW(ty))])
     ELSE Err

(* The same language, stated as a grammar instead of as a parser (used to cross-check Parse):
   s is in the language iff it is an optional "#" followed by N digit characters, N documented for ty *)
InLanguage(ty, s) ==
  \E h \in {0, 1}, n \in DigitCounts(ty) :
    /\ Len(s) = h + n
    /\ (h = 1 => s[1] = "#")
    /\ \A i \in (h + 1)..(h + n) : IsHexDigit(s[i])

(* how many strings of exactly len characters are accepted, over an alphabet that contains nd digit
   characters and the character "#" *)
RECURSIVE IPow(_, _)
IPow(b, e) == IF e = 0 THEN 1 ELSE b * IPow(b, e - 1)
AcceptCount(ty, len, nd) ==
  (IF len \in DigitCounts(ty) THEN IPow(nd, len) ELSE 0)
  + (IF len - 1 \in DigitCounts(ty) THEN IPow(nd, len - 1) ELSE 0)

-----------------------------------------------------------------------------
(* LowerHex / UpperHex *)

Flatten(c, w) == [i \in 1..(Len(c) * w) |-> c[((i - 1) \div w) + 1][((i - 1) % w) + 1]]

(* c: a colour of an integer type ty; upper: {:X} instead of {:x} *)
Format(ty, c, upper) ==
  LET tab == IF upper THEN Upper ELSE Lower
      d == Flatten(c, CW(ty))
  IN [i \in 1..Len(d) |-> tab[d[i] + 1]]

-----------------------------------------------------------------------------
(* the property, on the model *)

(* formatting then parsing returns the colour, with or without the '#', in both cases *)
RoundTrip(ty, c) ==
  \A upper \in BOOLEAN :
    /\ Parse(ty, Format(ty, c, upper)) = Ok(c)
    /\ Parse(ty, <<"#">> \o Format(ty, c, upper)) = Ok(c)
    /\ Len(Format(ty, c, upper)) = NCh(ty) * CW(ty)

(* parser and grammar describe the same set; accepted values are colours of the type *)
ParseSound(ty, s) ==
  /\ Parse(ty, s).ok <=> InLanguage(ty, s)
  /\ Parse(ty, s).ok => IsColour(ty, Parse(ty, s).val)
=============================================================================
