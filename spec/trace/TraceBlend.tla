----------------------------- MODULE TraceBlend -----------------------------
(* Trace validation for C08.  Every recorded call of palette's blending API    *)
(* (harness/src/bin/blend.rs) must return, in every colour channel and in the   *)
(* alpha, the value Blend.tla gives for the exact inputs, within Arith(8), and  *)
(* the result must be in [0, 1].  Events are independent of each other          *)
(* (blending has no state), so a rejected line never hides the following ones.  *)
(*                                                                              *)
(* Events (numbers exact; arrays hold the n colour channels, then alpha):       *)
(*  {"ev":"blend"|"compose"|"custom"|"eqn","mode","form","ty","t","n",          *)
(*   "src","dst": as handed to palette (premultiplied for form "pre"),          *)
(*   "ss","sd": the straight colours they were made from,                       *)
(*   "out": result (n values for form "opaque", n+1 otherwise), "q" (eqn),      *)
(*   "panic"}                                                                   *)
(*  {"ev":"premul","via","ty","t","n","c","a","pre","back","panic"}             *)
(*  {"ev":"unpremul","via","ty","t","n","p","out","panic"}                      *)
(*                                                                              *)
(* Forms: "pre"    PreAlpha<C> in and out: out = the premultiplied model value; *)
(*        "alpha"  Alpha<C,T> in and out: out = the un-premultiplied PreAlpha   *)
(*                 result, i.e. out[i] * out_alpha = model value (cross-         *)
(*                 multiplied), out[i] = 0 when the result alpha is 0;          *)
(*        "opaque" C in and out: as "alpha" with as = ab = 1, no alpha returned *)
(*                 (the divisor is the model's result alpha).                   *)
(*                                                                              *)
(* Reject reasons (short: TLC prints them on one line):                         *)
(*   panic, non-finite, bad-event (the harness recorded inconsistent inputs),   *)
(*   value-differs, alpha-differs, out-of-range, alpha-out-of-range,            *)
(*   plus-colour-above-one (the result is the W3C value of `plus`, Cs + Cb, and *)
(*   that value itself exceeds 1 - see MC_Blend!PlusRange).                     *)
EXTENDS Blend, Json, IOUtils, TLC

Rec == ndJsonDeserialize(IOEnv.TRACE)
VARIABLES l, skip
tvars == <<vars, l, skip>>

DySeq(js) == [i \in DOMAIN js |-> Dy(js[i])]
LOCAL Has(ch, w) == \E i \in DOMAIN ch : ch[i] = w

-----------------------------------------------------------------------------
(* blend / compose / custom / eqn *)

OpKinds == {"blend", "compose", "custom", "eqn"}

(* the premultiplied model result: a sequence of n model values, then the model alpha (a Dy) *)
ModelPre(e, cs, cb, as, ab) ==
  LET n == e.n
      S == [i \in 1..(n + 1) |-> IF i <= n THEN DyMul(cs[i], as) ELSE as]
      D == [i \in 1..(n + 1) |-> IF i <= n THEN DyMul(cb[i], ab) ELSE ab]
  IN CASE e.ev = "blend"   -> [i \in 1..(n + 1) |-> IF i <= n THEN BlendPre(e.mode, cs[i], cb[i], as, ab) ELSE QOf(OverAlpha(as, ab))]
       [] e.ev = "compose" -> [i \in 1..(n + 1) |-> IF i <= n THEN QOf(ComposePre(e.mode, S[i], D[i], as, ab)) ELSE QOf(ComposeAlpha(e.mode, as, ab))]
       [] e.ev = "custom"  -> LET r == CustomPre(S, D) IN [i \in 1..(n + 1) |-> QOf(r[i])]
       [] e.ev = "eqn"     -> LET r == EqnPre(e.q, S, D) IN [i \in 1..(n + 1) |-> QOf(r[i])]

(* the harness' own consistency: inputs in [0, 1], src = ss (times as for form "pre"), as = ab = 1 for form "opaque" *)
InputsOk(e, cs, cb, as, ab) ==
  LET n == e.n  src == DySeq(e.src)  dst == DySeq(e.dst) IN
  /\ Len(e.src) = n + 1 /\ Len(e.dst) = n + 1 /\ Len(e.ss) = n /\ Len(e.sd) = n
  /\ Len(e.out) = (IF e.form = "opaque" THEN n ELSE n + 1)
  /\ In01(as) /\ In01(ab) /\ \A i \in 1..n : In01(cs[i]) /\ In01(cb[i])
  /\ (e.form = "opaque" => DyEq(as, D1) /\ DyEq(ab, D1))
  /\ \A i \in 1..n : IF e.form = "pre" THEN DyEq(src[i], DyMul(cs[i], as)) /\ DyEq(dst[i], DyMul(cb[i], ab))
                                        ELSE DyEq(src[i], cs[i]) /\ DyEq(dst[i], cb[i])

OpWhy(e) ==
  IF e.panic # 0 THEN "panic"
  ELSE IF ~(AllFin(e.src) /\ AllFin(e.dst) /\ AllFin(e.ss) /\ AllFin(e.sd)) THEN "bad-event"
  ELSE IF ~AllFin(e.out) THEN "non-finite"
  ELSE
  LET n == e.n  t == e.t
      cs == DySeq(e.ss)  cb == DySeq(e.sd)
      as == Dy(e.src[n + 1])  ab == Dy(e.dst[n + 1])
  IN IF ~(e.form \in Forms /\ t \in FloatTypes /\ InputsOk(e, cs, cb, as, ab)) THEN "bad-event"
  ELSE
  LET out == DySeq(e.out)
      m == ModelPre(e, cs, cb, as, ab)
      ao == m[n + 1].n                                   \* the model's result alpha
      sc == DyMax(as, ab)                                \* every term of every formula is bounded by it
      straight == e.form # "pre"
      (* the divisor of a straight result: the alpha that was returned with it (checked below against the
         model's), or the model's alpha when none is returned *)
      w == IF e.form = "pre" THEN D1 ELSE IF e.form = "alpha" THEN out[n + 1] ELSE ao
      alphaOk == e.form = "opaque" \/ NearDy(t, out[n + 1], ao, sc)
      ranged == e.ev \in {"blend", "compose"}            \* the range clause speaks about Blend and Compose
      (* `plus`: the W3C value itself is above one *)
      above(i) == e.mode = "plus" /\ (IF straight THEN DyLt(w, m[i].n) ELSE DyLt(D1, m[i].n))
      ch == [i \in 1..n |->
               IF straight /\ DyIsZero(w) THEN (IF DyIsZero(out[i]) THEN "ok" ELSE "value-differs")
               ELSE IF ~NearQ(t, out[i], w, m[i], sc) THEN "value-differs"
               ELSE IF ranged /\ ~InRange(t, out[i]) THEN (IF above(i) THEN "plus-colour-above-one" ELSE "out-of-range")
               ELSE "ok"]
  IN IF Has(ch, "value-differs") THEN "value-differs"
     ELSE IF ~alphaOk THEN "alpha-differs"
     ELSE IF ranged /\ e.form # "opaque" /\ ~InRange(t, out[n + 1]) THEN "alpha-out-of-range"
     ELSE IF Has(ch, "out-of-range") THEN "out-of-range"
     ELSE IF Has(ch, "plus-colour-above-one") THEN "plus-colour-above-one"
     ELSE "ok"

-----------------------------------------------------------------------------
(* premultiply, and the round trip back *)

PremulWhy(e) ==
  IF e.panic # 0 THEN "panic"
  ELSE IF ~(AllFin(e.c) /\ IsFin(e.a)) THEN "bad-event"
  ELSE IF ~(AllFin(e.pre) /\ AllFin(e.back)) THEN "non-finite"
  ELSE
  LET n == e.n  t == e.t  c == DySeq(e.c)  a == Dy(e.a)  pre == DySeq(e.pre)  back == DySeq(e.back)
  IN IF ~(Len(e.c) = n /\ Len(e.pre) = n + 1 /\ Len(e.back) = n + 1 /\ In01(a) /\ \A i \in 1..n : In01(c[i])) THEN "bad-event"
     ELSE IF ~(DyEq(pre[n + 1], a) /\ DyEq(back[n + 1], a)) THEN "alpha-differs"
     ELSE IF \E i \in 1..n : ~NearDy(t, pre[i], DyMul(c[i], a), D0) THEN "value-differs"                 \* p = c * a
     ELSE IF \E i \in 1..n : ~(IF DyIsZero(a) THEN DyIsZero(back[i]) ELSE NearDy(t, back[i], c[i], D0))   \* back = c, or 0
          THEN "round-trip-differs"
     ELSE "ok"

UnpremulWhy(e) ==
  IF e.panic # 0 THEN "panic"
  ELSE IF ~AllFin(e.p) THEN "bad-event"
  ELSE IF ~AllFin(e.out) THEN "non-finite"
  ELSE
  LET n == e.n  t == e.t  p == DySeq(e.p)  out == DySeq(e.out)  a == p[n + 1]
  IN IF ~(Len(e.p) = n + 1 /\ Len(e.out) = n + 1 /\ \A i \in 1..(n + 1) : In01(p[i])) THEN "bad-event"
     ELSE IF ~DyEq(out[n + 1], a) THEN "alpha-differs"
     ELSE IF \E i \in 1..n : ~(IF DyIsZero(a) THEN DyIsZero(out[i]) ELSE NearDy(t, DyMul(out[i], a), p[i], D0))   \* c * a = p
          THEN "value-differs"
     ELSE "ok"

-----------------------------------------------------------------------------
Why(e) == CASE e.ev \in OpKinds -> OpWhy(e)
            [] e.ev = "premul" -> PremulWhy(e)
            [] e.ev = "unpremul" -> UnpremulWhy(e)
            [] OTHER -> "unknown-event"

TInit == Init /\ l = 1 /\ skip = FALSE
TJudge == /\ l <= Len(Rec) /\ Rec[l].ev # "reset"
          /\ LET w == Why(Rec[l]) IN IF w = "ok" THEN TRUE ELSE PrintT(<<"REJECT", l, w>>)
          /\ last' = (IF Rec[l].ev \in {"blend", "compose", "premul", "unpremul"} THEN Rec[l].ev ELSE "blend")
          /\ l' = l + 1 /\ skip' = FALSE
(* a reset line (not needed by stateless recordings, accepted for uniformity) *)
TReset == /\ l <= Len(Rec) /\ Rec[l].ev = "reset"
          /\ UNCHANGED last /\ skip' = FALSE /\ l' = l + 1
TNext == TJudge \/ TReset
TSpec == TInit /\ [][TNext]_tvars

Consumed == TLCGet("stats").diameter = Len(Rec) + 1 \/ PrintT(<<"UNCONSUMED", TLCGet("stats").diameter>>)
TInv == TypeOK
=============================================================================
