-------------------------------- MODULE Hue --------------------------------
(***************************************************************************)
(* C11 - hues behave as angles on a circle.                                *)
(*                                                                         *)
(* The model speaks about the EXACT real number a stored float denotes     *)
(* (an exact dyadic `Dy` of Fx.tla).  360 is an integer, so the residue    *)
(* x mod 360 of a dyadic x is again an exact dyadic and every statement    *)
(* below is decided by integer arithmetic - there is no floating point and *)
(* no trigonometry in this module.                                         *)
(*                                                                         *)
(* One relation per public operation (`...OK`: "the call with these exact  *)
(* inputs may return this exact output") and one named action per          *)
(* operation that is enabled exactly when the relation holds.  The         *)
(* relations are what the trace specification evaluates on recorded calls  *)
(* of palette, and what MC_Hue checks for consistency on the model.        *)
(*                                                                         *)
(* Component types: "f32" (24-bit significand) and "f64" (53-bit).         *)
(***************************************************************************)
EXTENDS Fx

FloatTypes == {"f32", "f64"}
HueTypes == {"RgbHue", "LabHue", "LuvHue", "OklabHue", "Cam16Hue"}

Prec(t) == IF t = "f32" THEN 24 ELSE 53            \* significand bits
MinExp(t) == IF t = "f32" THEN -149 ELSE -1074     \* log2 of the smallest positive value

D180 == DyFromInt(180)
D360 == DyFromInt(360)
DOne == DyFromInt(1)

(* The statement quantifies over angles "up to a million degrees in magnitude". *)
DomainMax == DyFromInt(1000000)
InDomain(x) == DyLe(DyAbs(x), DomainMax)

-----------------------------------------------------------------------------
(* exact arithmetic modulo 360 *)

LOCAL MinI(a, b) == IF a <= b THEN a ELSE b
LOCAL MaxI(a, b) == IF a >= b THEN a ELSE b

(* the fractional part of |d| (the limbs below the unit position), as a Dy in [0, 1) *)
DyFracMag(d) ==
  IF d[1] = 0 \/ d[2] >= 0 THEN DyZero
  ELSE LET low == Norm(SubSeq(d[3], 1, MinI(-d[2], Len(d[3]))))
       IN IF low = <<>> THEN DyZero ELSE <<1, d[2], low>>

(* x mod 360 in [0, 360), exact: |x| = I + f with I a natural and 0 <= f < 1, so
   |x| mod 360 = (I mod 360) + f, and (-v) mod 360 = 360 - (v mod 360) unless that is 0 *)
Mod360(d) ==
  IF d[1] = 0 THEN DyZero
  ELSE LET rp == DyAdd(DyFromInt(ModSmall(DyTruncMag(d), 360)), DyFracMag(d))
       IN IF d[1] > 0 \/ DyIsZero(rp) THEN rp ELSE DySub(D360, rp)

(* distance of d from the nearest multiple of 360, in [0, 180] *)
CircDist(d) == LET r == Mod360(d) IN DyMin(r, DySub(D360, r))

(* x1 and x2 denote the same point of the circle, exactly *)
Congruent(x1, x2) == DyIsZero(Mod360(DySub(x1, x2)))

-----------------------------------------------------------------------------
(* rounding error of a stored angle *)

(* log2 of the unit in the last place of a value v # 0 stored in type t *)
UlpExp(t, v) == MaxI(DyLog2(v) - (Prec(t) - 1), MinExp(t))

(* TOLERANCE Eps: "the rounding error of the stored angle" = 8 ulp_t(max(|x|, 360)).
   Principled bound: normalisation computes x/360 (1 rounding), x + 180 (1 rounding, signed form),
   floor/ceil, k*360 and a subtraction (exact whenever k*360 is representable, otherwise 1 rounding each);
   an error of one unit in k moves the result by one turn and is invisible modulo 360, but the
   roundings can push the result past the end of the interval by 1 ulp of the stored angle
   (x = 180 + 360k + ulp(x): x + 180 rounds to 360(k+1), so the result is 180 + ulp(x)), and a result
   close to 360 is itself rounded to the grid of 360 (0.5 ulp).  Calibration on the pinned tree
   (evidence: max_deviation_observed): range overshoot exactly 1 ulp, congruence 0.5 ulp; 8 ulp leaves
   the required 8x margin. *)
EpsUlps == 8
Eps(t, x) == DyPow2(UlpExp(t, DyMax(DyAbs(x), D360)) + 3)

-----------------------------------------------------------------------------
(* normal forms *)

(* into_degrees / From<Hue> for float: y in [-180, 180] and y == x (mod 360), within Eps *)
SignedOK(t, x, y) ==
  LET e == Eps(t, x) hi == DyAdd(D180, e)
  IN /\ DyLe(DyNeg(hi), y) /\ DyLe(y, hi)
     /\ DyLe(CircDist(DySub(y, x)), e)

(* into_positive_degrees: y in [0, 360] and y == x (mod 360), within Eps *)
UnsignedOK(t, x, y) ==
  LET e == Eps(t, x)
  IN /\ DyLe(DyNeg(e), y) /\ DyLe(y, DyAdd(D360, e))
     /\ DyLe(CircDist(DySub(y, x)), e)

(* the exact notions (no rounding), used on the model *)
SignedExact(x, y) == DyLe(DyNeg(D180), y) /\ DyLe(y, D180) /\ Congruent(x, y)
UnsignedExact(x, y) == DyLe(DyZero, y) /\ DyLe(y, D360) /\ Congruent(x, y)
(* canonical representatives *)
CanonUnsigned(x) == Mod360(x)
CanonSigned(x) == LET r == Mod360(x) IN IF DyLe(r, D180) THEN r ELSE DySub(r, D360)

-----------------------------------------------------------------------------
(* equality *)

(* the two stored angles differ by a whole number of turns exactly: they MUST compare equal
   (this is "a hue equals itself shifted by whole turns whenever the shifted angle is exactly
   representable": the second operand IS the exactly representable shifted angle) *)
MustEq(x1, x2) == Congruent(x1, x2)
(* they differ by more than rounding error modulo 360: they MUST compare unequal.  Each side's
   normal form carries the rounding error of its own stored angle, hence the sum. *)
MustNe(t, x1, x2) == DyLt(DyAdd(Eps(t, x1), Eps(t, x2)), CircDist(DySub(x1, x2)))
(* b = 1: compared equal, b = 0: unequal; between the two bands either answer is accepted *)
EqOK(t, x1, x2, b) ==
  LET cd == CircDist(DySub(x1, x2))
  IN /\ b \in {0, 1}
     /\ (DyIsZero(cd) => b = 1)
     /\ (DyLt(DyAdd(Eps(t, x1), Eps(t, x2)), cd) => b = 0)

-----------------------------------------------------------------------------
(* degrees and radians.  Reference constant: pi to 48 decimals (OEIS A000796), kept to 104
   fractional bits by FxDec. *)
PiDec == FxDec(1, 3, <<1415, 9265, 3589, 7932, 3846, 2643, 3832, 7950, 2884, 1971, 6939, 9375>>)
(* the same number as a literal (floor(pi * 2^104) in limbs), because TLC re-evaluates a definition that goes
   through a RECURSIVE operator at every use; MC_Hue asserts PiFx = PiDec at every model run *)
PiFx == <<1, <<3587, 3153, 1222, 4518, 6704, 1090, 7594, 1159, 3>>>>
PiDy == <<1, -FL, <<3587, 3153, 1222, 4518, 6704, 1090, 7594, 1159, 3>>>>

(* TOLERANCE RadRelBits: deg -> rad and rad -> deg are one multiplication by a constant that is itself
   rounded to the component type: relative error <= 2 * 2^-Prec.  2^-(Prec-4) is 8 x that.
   The absolute term (2^10 smallest positive values) covers results in the subnormal range. *)
RadRelBits(t) == Prec(t) - 4
RadOK(t, deg, rad) ==
  LET lhs == DyMulInt(rad, 180)
      rhs == DyMul(deg, PiDy)
      tol == DyAdd(DyMulPow2(DyAbs(rhs), -RadRelBits(t)), DyPow2(MinExp(t) + 10))
  IN DyLe(DyAbs(DySub(lhs, rhs)), tol)

-----------------------------------------------------------------------------
(* cartesian: from_cartesian(a, b) then into_cartesian gives (a2, b2) *)

(* TOLERANCE CartDirBits: the hue passes through pi + atan2 (result up to 2 pi, one rounding of a value
   with ulp(2 pi)), radians -> degrees, degrees -> radians and sin_cos: about 6 half-ulps of 2 pi, i.e.
   a direction error of about 3 * 2^-Prec * 2 pi ~ 19 * 2^-Prec radians.  2^-(Prec-7) = 128 * 2^-Prec. *)
CartDirBits(t) == Prec(t) - 7
(* TOLERANCE CartNormBits: sin^2 + cos^2 of correctly rounded-ish sin and cos: a few 2^-Prec. *)
CartNormBits(t) == Prec(t) - 4
CartOK(t, a, b, a2, b2) ==
  LET n1 == DyAdd(DyAbs(a), DyAbs(b))
      cross == DyAbs(DySub(DyMul(a2, b), DyMul(b2, a)))
      dot == DyAdd(DyMul(a2, a), DyMul(b2, b))
      nrm == DyAdd(DyMul(a2, a2), DyMul(b2, b2))
  IN /\ DyLe(DyAbs(DySub(nrm, DOne)), DyPow2(-CartNormBits(t)))              \* a unit vector
     /\ (~DyIsZero(n1) =>
           /\ DyLe(cross, DyMulPow2(n1, -CartDirBits(t)))                     \* parallel
           /\ DySign(dot) > 0)                                                \* and not opposite

-----------------------------------------------------------------------------
(* 8-bit hues: code k denotes k * 360 / 256 degrees = 45 k / 32 *)

FromU8OK(k, y) == k \in 0..255 /\ DyEq(DyMulInt(y, 32), DyFromInt(45 * k))
U8Value(k) == <<1, -1, FromNat((45 * k) * 256)>>     \* 45 k / 32 = 45 k * 256 / 8192 ; k >= 1
U8Dy(k) == IF k = 0 THEN DyZero ELSE U8Value(k)

(* float -> u8 is round(r * 256 / 360) mod 256 with r = x mod 360.  Cross-multiplied: the code n is
   accepted when |256 r - 360 n'| <= 180 + slack for n' = n (or n' = 256 when n = 0: wrap-around).
   TOLERANCE: slack = 256 * Eps(t, x) - the rounding error of the stored angle carried through the
   scaling - so at a tie and within rounding error of a tie either neighbour is accepted. *)
ToU8OK(t, x, n) ==
  LET P == DyMulInt(Mod360(x), 256)
      lim == DyAdd(D180, DyMulInt(Eps(t, x), 256))
      near(m) == DyLe(DyAbs(DySub(P, DyFromInt(360 * m))), lim)
  IN n \in 0..255 /\ (near(n) \/ (n = 0 /\ near(256)))

(* the exact map (ties upward, as `round` on a non-negative number), used on the model *)
U8Canon(x) == ToNat(DivSmall(DyTruncMag(DyAdd(DyMulInt(Mod360(x), 256), D180)), 360)) % 256

-----------------------------------------------------------------------------
(* Hue + Hue, Hue + scalar, scalar + Hue, and the same for - : the result denotes the exact sum
   (difference) modulo 360 within the rounding error of the largest magnitude involved *)
LOCAL Big3(a, b, c) == DyMax(DyAbs(a), DyMax(DyAbs(b), DyAbs(c)))
AddOK(t, x1, x2, z) == LET s == DyAdd(x1, x2) IN DyLe(CircDist(DySub(z, s)), Eps(t, Big3(x1, x2, s)))
SubOK(t, x1, x2, z) == LET s == DySub(x1, x2) IN DyLe(CircDist(DySub(z, s)), Eps(t, Big3(x1, x2, s)))

-----------------------------------------------------------------------------
(* The machine: a hue library has no state; `last` records the last call the model accepted
   (operation, component type).  One action per public operation, enabled iff the relation holds. *)
VARIABLE last
vars == <<last>>

Init == last = <<"none", "f32">>

IntoDegrees(t, x, y)          == InDomain(x) /\ SignedOK(t, x, y) /\ last' = <<"signed", t>>
IntoPositiveDegrees(t, x, y)  == InDomain(x) /\ UnsignedOK(t, x, y) /\ last' = <<"unsigned", t>>
HueEq(t, x1, x2, b)           == InDomain(x1) /\ InDomain(x2) /\ EqOK(t, x1, x2, b) /\ last' = <<"eq", t>>
IntoRadians(t, deg, rad)      == RadOK(t, deg, rad) /\ last' = <<"radians", t>>
CartesianRoundTrip(t, a, b, a2, b2) == CartOK(t, a, b, a2, b2) /\ last' = <<"cartesian", t>>
IntoU8(t, x, n)               == InDomain(x) /\ ToU8OK(t, x, n) /\ last' = <<"to_u8", t>>
FromU8(t, k, y)               == FromU8OK(k, y) /\ last' = <<"from_u8", t>>
HueAdd(t, x1, x2, z)          == InDomain(x1) /\ InDomain(x2) /\ AddOK(t, x1, x2, z) /\ last' = <<"add", t>>
HueSub(t, x1, x2, z)          == InDomain(x1) /\ InDomain(x2) /\ SubOK(t, x1, x2, z) /\ last' = <<"sub", t>>

TypeOK == last[1] \in {"none", "signed", "unsigned", "eq", "radians", "cartesian", "to_u8", "from_u8", "add", "sub"}
          /\ last[2] \in FloatTypes
=============================================================================
