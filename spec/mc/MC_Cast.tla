------------------------------- MODULE MC_Cast -------------------------------
(* Every chain of up to MaxOps casts from every small initial buffer, emitted  *)
(* one JSON line per chain; the invariants of Cast.tla are checked on every     *)
(* reachable state.                                                            *)
(*   arr family : n in 1..MaxN, lengths 0..MaxLen and Vec capacities            *)
(*                len..MaxCap counted in COMPONENTS, every form and unit;       *)
(*                by-value arrays hold two colours (2n components, or 2n+1 to   *)
(*                exercise the rejecting path).                                *)
(*   uint family: n = 1, lengths 0..ULen, capacities ..UCap.                    *)
EXTENDS Cast, TLC, Json

CONSTANTS MaxOps, MaxN, MaxLen, MaxCap, Emit

VARIABLE hist          \* <<"init", fam, n, form, unit, len, cap>> followed by <<op, api, m>>: what is enumerated

ULen == 2
UCap == 3

Valid(f, n, form, unit, len, cap) ==
  /\ IF f = "uint" THEN n = 1 /\ unit \in {"colour", "uint"} /\ form # "box"
                   ELSE unit \in {"colour", "array", "component"}
  /\ CASE form \in Single -> len = 1 /\ cap = 1 /\ unit # "component"
       [] form = "array" -> /\ cap = len
                            /\ IF unit = "component" THEN len = 2 * n \/ (n > 1 /\ len = 2 * n + 1) ELSE len = 2
       [] form = "vec" -> /\ len <= cap
                          /\ IF f = "uint" THEN len <= ULen /\ cap <= UCap
                             ELSE len * USize(unit, n) <= MaxLen /\ cap * USize(unit, n) <= MaxCap
       [] OTHER -> /\ cap = len
                   /\ IF f = "uint" THEN len <= ULen ELSE len * USize(unit, n) <= MaxLen

Max2(a, b) == IF a >= b THEN a ELSE b
Hi == Max2(Max2(MaxLen, MaxCap), 2 * MaxN + 1)

MCInit ==
  \E f \in {"arr", "uint"}, n \in 1..MaxN, form \in Single \cup Multi, unit \in Units,
     len \in 0..Hi, cap \in 0..Hi :
    /\ len <= IF form = "array" THEN 2 * MaxN + 1 ELSE MaxLen
    /\ cap <= IF form = "array" THEN 2 * MaxN + 1 ELSE MaxCap
    /\ Valid(f, n, form, unit, len, cap)
    /\ InitWith(f, n, form, unit, len, cap)
    /\ hist = << <<"init", f, n, form, unit, len, cap>> >>

Log(op, api, m) == hist' = Append(hist, <<op, api, m>>)

Go == Len(hist) <= MaxOps /\ Alive

(* one sub-action per action of Cast.tla, so that TLC's coverage names each of them *)
DoIntoArray == Go /\ \E api \in 0..4, m \in {0, 1} : IntoArray(api, m) /\ Log("into_array", api, m)
DoFromArray == Go /\ \E api \in 0..4, m \in {0, 1} : FromArray(api, m) /\ Log("from_array", api, m)
DoIntoComponent == Go /\ \E api \in 0..4, m \in {0, 1} : IntoComponent(api, m) /\ Log("into_component", api, m)
DoTryFromComponent == Go /\ \E api \in 0..4, m \in {0, 1} : TryFromComponent(api, m) /\ Log("try_from_component", api, m)
DoFromComponent == Go /\ \E api \in 0..4, m \in {0, 1} : FromComponent(api, m) /\ Log("from_component", api, m)
DoIntoUint == Go /\ \E api \in 0..4, m \in {0, 1} : IntoUint(api, m) /\ Log("into_uint", api, m)
DoFromUint == Go /\ \E api \in 0..4, m \in {0, 1} : FromUint(api, m) /\ Log("from_uint", api, m)
DoMapInPlace == Go /\ MapInPlace /\ Log("map", 0, 0)
DoRefAsSlice == Go /\ RefAsSlice /\ Log("ref_as_slice", 1, 0)
DoTrySliceAsRef == Go /\ TrySliceAsRef /\ Log("try_slice_as_ref", 1, 0)

MCNext ==
  \/ DoIntoArray \/ DoFromArray \/ DoIntoComponent \/ DoTryFromComponent \/ DoFromComponent
  \/ DoIntoUint \/ DoFromUint \/ DoMapInPlace \/ DoRefAsSlice \/ DoTrySliceAsRef

MCSpec == MCInit /\ [][MCNext]_<<vars, hist>>

(* behaviour emitter: one line per complete chain (full length, or ended early by a consuming panic) *)
EmitDone == (Emit /\ (Len(hist) = MaxOps + 1 \/ ~Alive)) => PrintT(<<"REPLAY", ToJson(hist)>>)

Inv == CastInv
=============================================================================
