"""C15 - gamut-bounded cylindrical spaces stay inside the RGB gamut.
Spec: spec/Hexcone.tla (exact integer hexcone model; MC_Hexcone proves containment for HSV/HSL/HWB as a theorem on a
lattice), spec/trace/TraceGamut.tla (containment, bound preservation and round trip judged on recorded conversions
with named tolerances). The harness converts the cylinder lattice of the seven spaces to sRGB and the RGB lattice into
the seven spaces and back, f32 and f64."""
import json, itertools, random
from common import *
from colours import *

CYL = ["hsl", "hsv", "hwb", "okhsl", "okhsv", "okhwb", "hsluv"]
# Oklab hues of the sRGB primaries/secondaries (where the cusp construction changes branch) and sector edges
SPECIAL_HUES = [29.2, 29.3, 109.8, 109.7, 142.5, 142.4, 194.8, 194.7, 264.0, 264.05, 264.1, 328.4, 328.3,
                59.999, 60.0, 60.001, 119.999, 120.0, 179.999, 180.0, 239.999, 240.0, 299.999, 300.0, 359.999, 360.0, 0.0, 12.17, 85.87, 127.7]


def gen(ctx, path):
    rnd = random.Random(ctx.seed)
    c = Cmds(path)
    step = 15 if ctx.quick else 3
    hues = sorted(set([float(h) for h in range(0, 360, step)] + SPECIAL_HUES))
    vals = [0, 1e-9, 0.25, 0.5, 0.75, 0.96, 1 - 1e-9, 1] if ctx.quick else [0, 1e-9, 0.1, 0.25, 0.4, 0.5, 0.6, 0.75, 0.9, 0.96, 0.99, 1 - 1e-9, 1]
    for S in CYL:
        sc = 100.0 if S == "hsluv" else 1.0
        for h in hues:
            for a in vals:
                for b in vals:
                    if S in HWB and a + b > 1:
                        continue
                    c.add(**{"from": S, "in": (h, a * sc, b * sc), "path": ["srgb"], "mode": "u", "tag": "fwd"})
        for _ in range(300 if ctx.quick else 5000):
            a, b = rnd.random(), rnd.random()
            if S in HWB and a + b > 1:
                a, b = 1 - a, 1 - b
            c.add(**{"from": S, "in": (rnd.uniform(0, 360), a * sc, b * sc), "path": ["srgb"], "mode": "u", "tag": "fwd"})
    N = 9 if ctx.quick else 17
    pts = [(r / (N - 1), g / (N - 1), b / (N - 1)) for r in range(N) for g in range(N) for b in range(N)]
    pts += [tuple(rnd.random() for _ in range(3)) for _ in range(300 if ctx.quick else 6000)]
    # faces, edges, near-boundary
    pts += [tuple(rnd.choice([0.0, 1.0, 1e-9, 1 - 1e-9, rnd.random()]) for _ in range(3)) for _ in range(300 if ctx.quick else 4000)]
    # one and two units in the last place (f32 and f64) inside the faces of the cube: sums and differences that round
    # to 2, 1 or 0 (the divisor 2 - (max + min) of the HSL saturation, max - min of the hue)
    near = []
    for u in (2.0 ** -24, 2.0 ** -23, 2.0 ** -53, 2.0 ** -52):
        for combo in itertools.product((1.0, 1.0 - u), repeat=3):
            near.append(combo)
        near += [(1.0, 1.0 - u, 0.5), (0.5, 1.0, 1.0 - u), (1.0 - u, 0.5, 0.5 - u), (u, 0.0, 0.0), (u, u, 0.0), (0.5, 0.5 + u, 0.5), (0.5, 0.5, 0.5 - u)]
    pts += near
    # a second component a hair above the third (hues a hair off a sector edge: -6e-8 rounds to a whole turn), and the
    # 8-bit greys (exactly zero chroma in Oklab for some of them in f32: the achromatic branches)
    for tiny in (1e-9, 6e-8, 1e-16):
        for base in ((1.0, 0.0), (0.5, 0.25), (0.75, 0.0)):
            for perm in set(itertools.permutations((base[0], base[1], base[1] + tiny))):
                pts.append(perm)
    pts += [(k / 255.0,) * 3 for k in range(256)]
    for p in pts:
        for S in CYL:
            c.add(**{"from": "srgb", "in": p, "path": [S, "srgb"], "mode": "u", "tag": "rev"})
    return c.close()


def coords_of(ev, why):
    d = {"kind": "walk", "class": why, "t": ev.get("t"), "tag": ev.get("tag")}
    if ev.get("tag") == "fwd":
        d["space"] = ev["nodes"][0]
        v = [dy_to_float(x) for x in ev["vals"][0]]
        d["hue"] = v[0] % 360.0
    else:
        d["space"] = ev["nodes"][1]
        rgb = [dy_to_float(x) for x in ev["vals"][0]]
        d["r"], d["g"], d["b"] = rgb
        d["min_rgb"] = min(rgb)
        d["edge_dist"] = max(0.0, min(min(rgb), 1.0 - max(rgb)))
        try:
            d["hue"] = dy_to_float(ev["vals"][1][0]) % 360.0
            back = [dy_to_float(x) for x in ev["vals"][2]]
            d["rt_dev"] = max(abs(x - y) for x, y in zip(rgb, back))
        except Exception:
            pass
    return d


def run(ctx):
    bins = cargo_build(["conv64", "conv32"])
    tlc_mc(ctx, "MC_Hexcone", tag="hexcone", workers=4, constants={"D": 8 if ctx.quick else 12})
    cmds = ctx.p("c15.cmds")
    n = gen(ctx, cmds)
    log("C15: %d commands" % n)
    worst = {}
    for b in ("conv64", "conv32"):
        tp = ctx.p("c15.%s.ndjson" % b)
        run_bin(bins[b], ["--cmds", cmds, "--out", tp])
        res = validate_trace(ctx, "TraceGamut", tp, stateless=True, chunk_events=6000, tag="c15." + b)
        ctx.cov["traces_validated_against_impl"] += res.events - len(res.rejected)
        add_samples(ctx, tp, n=1, every=30011)
        ctx.cov["distinct_nontrivial"] += count_distinct(
            tp, lambda e: json.dumps([e.get("nodes"), e.get("vals", [""])[0]]), lambda e: True)
        # the margin is visible: largest excursion seen per space and direction (informational, not a verdict)
        with open(tp) as f:
            for line in f:
                e = json.loads(line)
                if e.get("panic") or not e.get("fin"):
                    continue
                if e["tag"] == "fwd":
                    out = [dy_to_float(x) for x in e["vals"][1]]
                    ex = max(max(-v, v - 1) for v in out)
                    k = "%s fwd %s" % (e["t"], e["nodes"][0])
                else:
                    S = e["nodes"][1]
                    v = [dy_to_float(x) for x in e["vals"][1]]
                    sc = 100.0 if S == "hsluv" else 1.0
                    ex = max(max(-x / sc, x / sc - 1) for x in v[1:])
                    k = "%s rev %s" % (e["t"], S)
                if ex > worst.get(k, 0):
                    worst[k] = ex
        for (line, ev, info, _) in res.rejected:
            why = info.strip().strip('"')
            d = coords_of(ev, why)
            what = "%s %s %s: %s; stages %s" % (ev.get("t"), ev.get("tag"), d.get("space"), why,
                                                [[round(dy_to_float(x), 9) for x in v] for v in ev["vals"]])
            report(ctx, d, what, {"bin": b, "event": ev, "trace_line": line})
    return finish(ctx, "model_checking",
                  rule="a case is one in-bounds cylinder colour converted to sRGB, or one in-gamut sRGB colour converted into a cylinder "
                       "space and back; distinct by exact input",
                  explanation="MC_Hexcone: in-bounds HSV/HSL/HWB map into the unit cube exactly (theorem of the integer hexcone model, one "
                              "state per lattice point). Recorded conversions of the cylinder lattice (dense hues incl. sector edges and the "
                              "Oklab hues of the sRGB primaries) and of the RGB lattice are judged by TLC with the named tolerances of "
                              "TraceGamut.tla.",
                  trusted=["tolerances FwdTol/RevSlack of spec/trace/TraceGamut.tla (about twice the pinned tree's excursion)"],
                  extra={"largest_excursion_seen": {k: float("%.3g" % v) for k, v in sorted(worst.items())}})


def replay(ctx, path):
    rp = json.load(open(path))["replay"]
    bins = cargo_build(["conv64", "conv32"])
    ev = rp["event"]
    c = Cmds(ctx.p("replay.cmds"))
    c.add(**{"from": ev["nodes"][0], "in": [dy_to_float(x) for x in ev["vals"][0]], "path": ev["nodes"][1:], "mode": "u", "tag": ev["tag"]})
    c.close()
    tp = ctx.p("replay.ndjson")
    run_bin(bins[rp["bin"]], ["--cmds", ctx.p("replay.cmds"), "--out", tp])
    res = validate_trace(ctx, "TraceGamut", tp, stateless=True, tag="replay")
    if res.rejected:
        print("VIOLATION property=C15 replay=%s" % path)
        print("  still rejected: %s" % res.rejected[0][2])
        return 1
    print("replay accepted")
    return 0
