------------------------------ MODULE TraceCam16 ------------------------------
(* Trace validation for C16: every recorded event of harness/src/bin/cam16.rs is judged by the verdict      *)
(* operators of Cam16.tla (stateless: one event per line, each self-contained; the viewing conditions are an  *)
(* opaque `params` id).  With CALIB=1 in the environment the measured bits of agreement of every relation are  *)
(* printed as NOTE lines in addition (calibration, evidence of the margins); the verdict is unchanged.         *)
EXTENDS Cam16, Json, IOUtils, TLC

Rec == ndJsonDeserialize(IOEnv.TRACE)
Calib == "CALIB" \in DOMAIN IOEnv /\ IOEnv.CALIB = "1"
VARIABLE l

Note(e) ==
  IF ~Calib THEN TRUE
  ELSE IF e.ev = "conv" /\ ConvJudged(e)
       THEN LET b == ConvBits(e)
                col == IF InCollar(FxV(e.x)) THEN 1 ELSE 0
            IN PrintT(<<"NOTE", "conv", e.t, e.pk, e.params, col, b.rtf, b.rtp, b.pp, b.ef, b.sat, b.wj, l>>)
  ELSE IF e.ev = "pair" /\ PairJudged(e) THEN PrintT(<<"NOTE", "pair", e.t, e.params, PairBits(DyV(e.f1), DyV(e.f2)), l>>)
  ELSE IF e.ev = "ucs" /\ UcsJudged(e)
       THEN LET b == UcsBits(e) IN PrintT(<<"NOTE", "ucs", e.t, b.fj, b.fm, b.pol, b.ij, b.im, b.rt, l>>)
  ELSE TRUE

Why(e) == CASE e.ev = "conv" -> ConvWhy(e)
            [] e.ev = "pair" -> PairWhy(e)
            [] e.ev = "ucs" -> UcsWhy(e)

TInit == l = 1
TNext == /\ l <= Len(Rec)
         /\ Rec[l].ev \in {"conv", "pair", "ucs"}
         /\ Note(Rec[l])
         /\ LET w == Why(Rec[l]) IN IF w = "ok" THEN TRUE ELSE PrintT(<<"REJECT", l, w>>)
         /\ l' = l + 1
TSpec == TInit /\ [][TNext]_l
Consumed == TLCGet("stats").diameter = Len(Rec) + 1 \/ PrintT(<<"UNCONSUMED", TLCGet("stats").diameter>>)
=============================================================================
