"""C18 - struct-of-arrays collections behave like a vector of colours.
Spec: spec/Soa.tla. TLC enumerates every operation history up to a depth (MC_Soa) and long random ones
(-simulate); the harness executes each on real palette collections; TraceSoa.tla validates every recorded
call against the reference machine."""
import json
from common import *

MUT = ("push", "extend", "collect")


ALLK = "{0, 1, 2, 3, 4, 5}"
PAIRK = "{6, 7}"            # ranges given as pairs of bounds: (Excluded(a), Included(b)), (Excluded(a), Excluded(b))
ALLK8 = "{0, 1, 2, 3, 4, 5, 6, 7}"


def histories(ctx, max_ops, max_len, tag, simulate=None, kinds="{0}"):
    r = tlc_mc(ctx, "MC_Soa", constants={"MaxOps": max_ops, "MaxLen": max_len, "Kinds": kinds}, tag=tag, simulate=simulate,
               workers=6 if ctx.quick else 12)
    hs = extract_prints(r.out_path, "REPLAY")
    if simulate:
        # TLC evaluates the emitter on every candidate successor of a simulated state, so the last operation of
        # a simulated history comes in all variants; keep at most 3 per (history minus last operation)
        groups, keep = {}, []
        for h in hs:
            k = h[:h.rfind(",[")]
            groups[k] = groups.get(k, 0) + 1
            if groups[k] <= 3:
                keep.append(h)
        hs = keep
    if not simulate:
        zero = coverage_zero_actions(r.out_path, {"Soa", "MC_Soa"})
        if zero:
            raise ToolError("vacuity: actions never taken in %s: %s" % (tag, zero))
    return hs


def run(ctx):
    bins = cargo_build(["soa"])
    if ctx.quick:
        exh = histories(ctx, 3, 4, "soa_exh")
        exk = histories(ctx, 2, 4, "soa_kinds", kinds=ALLK)        # every range form (a..=b, ..b, ..=b, a.., ..) to depth 2
        exb = histories(ctx, 2, 4, "soa_pairs", kinds=PAIRK)
        sim = histories(ctx, 14, 6, "soa_sim", simulate=(700, 16), kinds=ALLK8)
        plan = [("soa_exh", exh, "hsva,rgb"), ("soa_kinds", exk, "hsva,rgb,oklch"), ("soa_pairs", exb, "hsva,rgb"),
                ("soa_sim", sim, "hsva,rgb,laba,oklch,luma,jmha")]
    else:
        exh = histories(ctx, 3, 4, "soa_exh")
        exk = histories(ctx, 3, 4, "soa_kinds", kinds=ALLK)
        exh4 = histories(ctx, 4, 3, "soa_exh4")
        exb = histories(ctx, 3, 4, "soa_pairs", kinds=PAIRK)
        sim = histories(ctx, 30, 8, "soa_sim", simulate=(1500, 32), kinds=ALLK8)     # 8000 x 32 exhausts the heap; 3000 x 32 made the tier run 40-70 minutes
        plan = [("soa_exh", exh, "hsva,rgb,laba,oklch,luma,jmha"), ("soa_kinds", exk, "hsva,rgb"), ("soa_pairs", exb, "hsva,laba"), ("soa_exh4", exh4, "hsva"),
                ("soa_sim", sim, "hsva,rgb,laba,oklch,luma,jmha")]
    total_h, nontrivial = 0, set()
    for tag, hs, types in plan:
        hp = ctx.p(tag + ".hist")
        with open(hp, "w") as f:
            for h in hs:
                f.write(h + "\n")
                if any(('"%s"' % m) in h for m in MUT):
                    nontrivial.add(h)
        total_h += len(hs) * len(types.split(","))
        tp = ctx.p(tag + ".ndjson")
        run_bin(bins["soa"], ["--hist", hp, "--types", types, "--out", tp])
        res = validate_trace(ctx, "TraceSoa", tp, stateless=False, tag=tag)
        ctx.cov["traces_validated_against_impl"] += res.scenarios - len({tuple(map(json.dumps, r[3][:1])) and r[0] for r in res.rejected})
        add_samples(ctx, tp, n=2, every=100003)
        for (line, ev, info, scen) in res.rejected:
            ty = next((e.get("ty") for e in reversed(scen) if e.get("ev") == "reset"), "?")
            coords = {"kind": "soa", "op": ev.get("op"), "ty": ty}
            what = "collection %s: call %s(%s,%s,%s,%s) replied %s / contents %s but the reference vector says %s" % (
                ty, ev.get("op") + ("" if not ev.get("k") else "[range form %s]" % ["a..b", "a..=b", "..b", "..=b", "a..", "..", "(Excluded(a), Included(b))", "(Excluded(a), Excluded(b))"][ev["k"]]), ev.get("a"), ev.get("b"), ev.get("c"), ev.get("d"), ev.get("ret"), ev.get("comps"), info)
            report(ctx, coords, what, {"bin": "soa", "type": ty, "scenario": scen, "rejected_event": ev,
                                       "trace_line": line, "how": "./check C18 --replay <this file>"})
    ctx.cov["distinct_nontrivial"] = len(nontrivial)
    return finish(ctx, "model_checking",
                  rule="a case is one operation history (sequence of calls with arguments) executed on one collection type; "
                       "distinct by its operation sequence, non-trivial when it inserts at least one colour",
                  explanation="TLC enumerates all histories of Soa.tla up to the stated depth and simulates long ones; each is "
                              "replayed on palette's Vec-backed colours and every call's reply, per-component contents and "
                              "lengths are validated against the specification by TLC (TraceSoa.tla).",
                  trusted=["the harness' token<->colour mapping (component j of token t is 8t+j)", "TLC, JVM, rustc",
                           "std::vec::Vec as the meaning of the reference sequence operations"],
                  extra={"histories_executed": total_h})


def replay(ctx, path):
    rp = json.load(open(path))["replay"]
    bins = cargo_build(["soa"])
    ops = [[e["op"], e["a"], e["b"], e["c"], e["d"], e.get("k", 0)] for e in rp["scenario"] if e.get("ev") == "soa"]
    hp = ctx.p("replay.hist")
    open(hp, "w").write(json.dumps(ops) + "\n")
    tp = ctx.p("replay.ndjson")
    run_bin(bins["soa"], ["--hist", hp, "--types", rp["type"], "--out", tp])
    res = validate_trace(ctx, "TraceSoa", tp, tag="replay")
    for (line, ev, info, scen) in res.rejected:
        print("VIOLATION property=C18 replay=%s" % path)
        print("  still rejected at call %d: %s" % (line, json.dumps(ev)))
        return 1
    print("replay accepted: the history is now a behaviour of the specification")
    return 0
