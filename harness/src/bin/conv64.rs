//! D65 / sRGB family conversion universe with f64 components (see ../convlib.rs).
type T = f64;
const TNAME: &str = "f64";
include!("../convlib.rs");
fn main() { convmain() }
