------------------------------- MODULE MC_Soa -------------------------------
(* Exhaustive enumeration of all operation histories of the collection      *)
(* machine up to MaxOps, emitted one JSON line per complete history.        *)
EXTENDS Soa, TLC, Json

CONSTANTS MaxOps, MaxLen, Emit

VARIABLE hist          \* sequence of operations performed (this IS what is enumerated)

Op(k, a, b, c, d) == <<k, a, b, c, d>>

MCInit == Init /\ hist = <<>>

Room(n) == Len(vec) + n <= MaxLen

MCNext ==
  /\ Len(hist) < MaxOps
  /\ \/ Room(1) /\ Push /\ hist' = Append(hist, Op("push", 0, 0, 0, 0))
     \/ Pop /\ hist' = Append(hist, Op("pop", 0, 0, 0, 0))
     \/ \E n \in 0..2 : Room(n) /\ Extend(n) /\ hist' = Append(hist, Op("extend", n, 0, 0, 0))
     \/ \E n \in 0..2 : Collect(n) /\ hist' = Append(hist, Op("collect", n, 0, 0, 0))
     \/ \E n \in {0, 3} : WithCapacity(n) /\ hist' = Append(hist, Op("with_capacity", n, 0, 0, 0))
     \/ Clear /\ hist' = Append(hist, Op("clear", 0, 0, 0, 0))
     \/ \E a \in 0..(Len(vec) + 1), b \in 0..(Len(vec) + 1) :
          \E nf \in 0..Min2(2, IF b > a THEN b - a + 1 ELSE 1), nb \in 0..1 :
            Drain(a, b, nf, nb) /\ hist' = Append(hist, Op("drain", a, b, nf, nb))
     \/ \E i \in 0..Len(vec) : Get(i) /\ hist' = Append(hist, Op("get", i, 0, 0, 0))
     \/ \E a \in 0..(Len(vec) + 1), b \in 0..(Len(vec) + 1) :
          GetRange(a, b) /\ hist' = Append(hist, Op("get_range", a, b, 0, 0))
     \/ \E i \in 0..Len(vec) : GetMutWrite(i) /\ hist' = Append(hist, Op("get_mut_write", i, 0, 0, 0))
     \/ \E a \in 0..Len(vec), b \in 0..(Len(vec) + 1) :
          GetMutRangeWrite(a, b) /\ hist' = Append(hist, Op("get_mut_range_write", a, b, 0, 0))
     \/ Iter /\ hist' = Append(hist, Op("iter", 0, 0, 0, 0))
     \/ IterRev /\ hist' = Append(hist, Op("iter_rev", 0, 0, 0, 0))
     \/ \E nf \in 1..2 : IterMixed(nf) /\ hist' = Append(hist, Op("iter_mixed", nf, 0, 0, 0))
     \/ IterMutWrite /\ hist' = Append(hist, Op("iter_mut_write", 0, 0, 0, 0))
     \/ IntoIter /\ hist' = Append(hist, Op("into_iter", 0, 0, 0, 0))
     \/ LenOp /\ hist' = Append(hist, Op("len", 0, 0, 0, 0))

MCSpec == MCInit /\ [][MCNext]_<<vars, hist>>

(* behaviour emitter: one line per complete history *)
EmitDone == (Emit /\ Len(hist) = MaxOps) => PrintT(<<"REPLAY", ToJson(hist)>>)

Inv == TypeOK /\ Distinct /\ Known
=============================================================================
