---------------------------- MODULE MC_OkColour ----------------------------
(* The transcriptions of C02's published procedures (OkColour.tla, HsluvRef.tla) checked against what the procedures are   *)
(* FOR, before any code is consulted - no code value appears here.  One state per hue of a grid (NH hues):                 *)
(*   - Okhsv: saturation 1 and value 1 is the cusp of the sRGB gamut at that hue: converted to linear sRGB the largest         *)
(*     component is 1 and the smallest 0, within the accuracy Ottosson states for the one-step approximation;                *)
(*   - Okhsl: saturation 1 lies on the gamut surface at every lightness (some component is 0 or 1); saturation 0 is grey;      *)
(*   - toe and toe_inv are mutually inverse, toe_inv(1) = 1;                                                               *)
(*   - HSLuv: saturation 100 lies on the gamut surface: the ray of length maxChroma(L, h) ends on one of the six lines, and    *)
(*     maxChroma(L, h) is positive and below 180.                                                                         *)
(* A relation that accepted everything would make the trace validation of C02 vacuous: the last check perturbs one         *)
(* constant's worth (s = 0.98 instead of 1) and requires the cusp test to FAIL.                                             *)
EXTENDS OkColour, HsluvRef, TLC

CONSTANT NH
VARIABLE k
(* k = -1: start; k = -1 - g: group g of the hues (evaluated by one TLC worker each); k >= 0: hue number k *)
G == 6
Init == k = -1
Next == \/ k = -1 /\ k' \in {-1 - g : g \in 1..G}
        \/ k < -1 /\ k' \in {h \in 0..(NH - 1) : h % G = (-1 - k) - 1}
Spec == Init /\ [][Next]_k

Hue == FxDivInt(FxInt(360 * k), NH)
Br == CHOOSE b \in HueBranches(Hue) : TRUE
Min3F(v) == FxMin(v[1], FxMin(v[2], v[3]))
Rgb(lab) == OkToLin(lab[1], lab[2], lab[3])
OnSurface(rgb, bits) == /\ FxLe(FxNeg(FxEps(bits)), Min3F(rgb)) /\ FxLe(Max3(rgb), FxAdd(FxOne, FxEps(bits)))
                        /\ (FxLe(Min3F(rgb), FxEps(bits)) \/ FxLe(FxSub(FxOne, FxEps(bits)), Max3(rgb)))
IsCusp(rgb, bits) == FxNearAbs(Max3(rgb), FxOne, FxEps(bits)) /\ FxNearAbs(Min3F(rgb), FxZero, FxEps(bits))

CuspOk == IsCusp(Rgb(OkhsvRef(Br, <<Hue, FxOne, FxOne>>)), 9)
CuspVacuity == ~IsCusp(Rgb(OkhsvRef(Br, <<Hue, FxRat(98, 100), FxOne>>)), 9)
HslSurface == \A l \in {FxRat(2, 10), FxRat(5, 10), FxRat(8, 10)} : OnSurface(Rgb(OkhslRef(Br, <<Hue, FxOne, l>>)), 7)
HslGrey == LET g == OkhslRef(Br, <<Hue, FxZero, FxRat(1, 2)>>) IN g[2] = FxZero /\ g[3] = FxZero /\ FxNear(g[1], ToeInv(FxRat(1, 2)), 90, 200)
ToeOk == LET x == FxDivInt(FxInt(k + 1), NH + 1) IN FxNear(Toe(ToeInv(x)), x, 90, 200) /\ FxNear(ToeInv(FxOne), FxOne, 90, 200)
HsluvOk == \A L \in {FxInt(5), FxInt(50), FxInt(93)} :
             LET mc == HsMaxChroma(L, Hue) IN mc[1] /\ FxLt(FxZero, mc[2]) /\ FxLt(mc[2], FxInt(180))

Holds == k >= 0 => (CuspOk /\ CuspVacuity /\ HslSurface /\ HslGrey /\ ToeOk /\ HsluvOk)
=============================================================================
