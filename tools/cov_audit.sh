#!/bin/sh
# Execution-coverage audit (BUILDING.md): which functions of palette/src does no quick check execute?
# Builds the harness with -C instrument-coverage (nightly) in a scratch sandbox, runs every quick check against it, merges the
# profiles and prints the uncovered functions per file. Chooses what to drive next; never part of a verdict. ~40 minutes.
cd /verif
OUT=${1:-/tmp/pvcov}
mkdir -p $OUT/prof
eval $(tools/mksandbox.sh cov)
sed -i 's#"cfg(palette_verif)"\]#"cfg(palette_verif)", "-C", "instrument-coverage"]#' /tmp/pvsb/cov/harness/.cargo/config.toml
export RUSTUP_TOOLCHAIN=nightly LLVM_PROFILE_FILE=$OUT/prof/%p-%8m.profraw
for p in C01 C02 C03 C04 C05 C06 C07 C08 C09 C10 C11 C12 C13 C14 C15 C16 C17 C18 C19 C20; do
  ./check $p > $OUT/$p.log 2>&1; echo "$p exit=$?"
done
LT=$(ls -d /root/.rustup/toolchains/nightly-x86_64-unknown-linux-gnu/lib/rustlib/x86_64-unknown-linux-gnu/bin)
$LT/llvm-profdata merge -sparse $OUT/prof/*.profraw -o $OUT/all.profdata
OBJS=""; for b in /tmp/pvsb/cov/harness/target/release/* /tmp/pvsb/cov/harness/target/sweep/*; do [ -f "$b" ] && [ -x "$b" ] && OBJS="$OBJS -object $b"; done
$LT/llvm-cov export -format=lcov $OBJS -instr-profile=$OUT/all.profdata --ignore-filename-regex='(registry|rustc|harness)' > $OUT/all.lcov 2>/dev/null
python3 - $OUT/all.lcov <<'PY'
import re,sys,collections
cur=None; miss=collections.defaultdict(list); tot=collections.Counter(); hit=collections.Counter()
for l in open(sys.argv[1]):
    l=l.strip()
    if l.startswith('SF:'): cur=l[3:].split('/palette/src/')[-1]
    elif l.startswith('DA:'):
        n,c=l[3:].split(',')[:2]; tot[cur]+=1
        if int(c)==0: miss[cur].append(int(n))
        else: hit[cur]+=1
T=sum(tot.values()); H=sum(hit.values())
print("lines executed: %d of %d (%.1f %%)" % (H,T,100.0*H/max(T,1)))
for f in sorted(miss):
    try: L=open('/repo/palette/src/'+f).read().split('\n')
    except OSError: continue
    names=collections.Counter()
    prev=None
    for n in miss[f]:
        if prev is not None and n<=prev+2: prev=n; continue
        prev=n
        for i in range(n, max(n-40,0), -1):
            m=re.search(r'\bfn\s+(\w+)', L[i-1]) if i-1 < len(L) else None
            if m: names[m.group(1)]+=1; break
    print("%-36s %4d lines not executed: %s" % (f, len(miss[f]), dict(names)))
PY
tools/rmsandbox.sh cov
rm -rf $OUT/prof
