------------------------------ MODULE MC_Diff ------------------------------
(* C09 checked on the model itself, before any code is consulted.               *)
(*                                                                            *)
(* One evaluated state per pair of L*a*b* colours.  The pairs are                         *)
(*  - the 34 pairs of the supplementary test data of Sharma, Wu, Dalal (2005),     *)
(*    table 1, with the published dE00 (4 decimals): the reference De00 of          *)
(*    Diff.tla must reproduce every one of them to 4 decimals;                      *)
(*  - all ordered pairs over a small grid of colours (chroma 0, the four axes,       *)
(*    eight oblique hues; two lightnesses): they concretise the abstract case         *)
(*    lattice of the CIEDE2000 hue logic                                            *)
(*        (C'1 = 0?, C'2 = 0?, |h'2 - h'1| > 180?, h'2 <= h'1?, h'1 + h'2 < 360?).       *)
(*    The class of every pair is part of the state; the set of FEASIBLE classes is     *)
(*    derived here from an integer abstraction of the hues and printed, and the        *)
(*    check script demands that every feasible class is inhabited by a pair.          *)
(* Invariants: the reference is non-negative, symmetric, zero on identical colours    *)
(* (exactly), and equals the published values; the elementary functions satisfy        *)
(* their identities.  Every pair is printed as a REPLAY line for the harness.          *)
EXTENDS Diff, Json, TLC

CONSTANTS Scales,      \* chroma multipliers of the grid's (a, b) points, e.g. {1} or {1, 3}
          Emit         \* TRUE: print one REPLAY line per pair

VARIABLES k,           \* constants record (built once)
          i,           \* index of the pair
          done,        \* the pair has been evaluated
          res          \* everything computed for the pair

(* Sharma, Wu, Dalal (2005), table 1: L1 a1 b1 L2 a2 b2 dE00, all times 10^4 *)
Sharma == <<
  <<500000, 26772, -797751, 500000, 0, -827485, 20425>>,
  <<500000, 31571, -772803, 500000, 0, -827485, 28615>>,
  <<500000, 28361, -740200, 500000, 0, -827485, 34412>>,
  <<500000, -13802, -842814, 500000, 0, -827485, 10000>>,
  <<500000, -11848, -848006, 500000, 0, -827485, 10000>>,
  <<500000, -9009, -855211, 500000, 0, -827485, 10000>>,
  <<500000, 0, 0, 500000, -10000, 20000, 23669>>,
  <<500000, -10000, 20000, 500000, 0, 0, 23669>>,
  <<500000, 24900, -10, 500000, -24900, 9, 71792>>,
  <<500000, 24900, -10, 500000, -24900, 10, 71792>>,
  <<500000, 24900, -10, 500000, -24900, 11, 72195>>,
  <<500000, 24900, -10, 500000, -24900, 12, 72195>>,
  <<500000, -10, 24900, 500000, 9, -24900, 48045>>,
  <<500000, -10, 24900, 500000, 10, -24900, 48045>>,
  <<500000, -10, 24900, 500000, 11, -24900, 47461>>,
  <<500000, 25000, 0, 500000, 0, -25000, 43065>>,
  <<500000, 25000, 0, 730000, 250000, -180000, 271492>>,
  <<500000, 25000, 0, 610000, -50000, 290000, 228977>>,
  <<500000, 25000, 0, 560000, -270000, -30000, 319030>>,
  <<500000, 25000, 0, 580000, 240000, 150000, 194535>>,
  <<500000, 25000, 0, 500000, 31736, 5854, 10000>>,
  <<500000, 25000, 0, 500000, 32972, 0, 10000>>,
  <<500000, 25000, 0, 500000, 18634, 5757, 10000>>,
  <<500000, 25000, 0, 500000, 32592, 3350, 10000>>,
  <<602574, -340099, 362677, 604626, -341751, 394387, 12644>>,
  <<630109, -310961, -58663, 628187, -297946, -40864, 12630>>,
  <<612901, 37196, -53901, 614292, 22480, -49620, 18731>>,
  <<350831, -441164, 37933, 350232, -400716, 15901, 18645>>,
  <<227233, 200904, -466940, 230331, 149730, -425619, 20373>>,
  <<364612, 478580, 183852, 362715, 505065, 212231, 14146>>,
  <<908027, -20831, 14410, 911528, -16435, 447, 14441>>,
  <<909257, -5406, -9208, 886381, -8985, -7239, 15381>>,
  <<67747, -2908, -24247, 58714, -985, -22286, 6377>>,
  <<20776, 795, -11350, 9033, -636, -5514, 9082>> >>

(* the grid: (a, b) directions - achromatic, the four axes (hues exactly 0, 90, 180, 270), eight oblique ones *)
AB == << <<0, 0>>, <<20, 0>>, <<0, 20>>, <<-20, 0>>, <<0, -20>>,
         <<30, 5>>, <<5, 30>>, <<-5, 30>>, <<-30, 5>>, <<-30, -5>>, <<-5, -30>>, <<5, -30>>, <<30, -5>> >>
ScaleSeq == LET RECURSIVE ToSeq(_)
                ToSeq(S) == IF S = {} THEN <<>> ELSE LET m == CHOOSE x \in S : \A y \in S : x <= y IN <<m>> \o ToSeq(S \ {m})
            IN ToSeq(Scales)
NCol == Len(AB) * Len(ScaleSeq)
ColAB(j) == LET p == AB[((j - 1) % Len(AB)) + 1]  s == ScaleSeq[((j - 1) \div Len(AB)) + 1] IN <<p[1] * s, p[2] * s>>
NGrid == NCol * NCol
NPairs == Len(Sharma) + NGrid

(* pair number n -> [c1, c2 (integers), den, want (published value times 10^4, or -1)] *)
Pair(n) ==
  IF n <= Len(Sharma)
  THEN LET r == Sharma[n] IN [c1 |-> <<r[1], r[2], r[3]>>, c2 |-> <<r[4], r[5], r[6]>>, den |-> 10000, want |-> r[7]]
  ELSE LET g == n - Len(Sharma) - 1
           j1 == (g \div NCol) + 1  j2 == (g % NCol) + 1
           l2 == IF j1 = j2 \/ (j1 + j2) % 2 = 0 THEN 40 ELSE 70
       IN [c1 |-> <<40, ColAB(j1)[1], ColAB(j1)[2]>>, c2 |-> <<l2, ColAB(j2)[1], ColAB(j2)[2]>>, den |-> 1, want |-> -1]
Col(c, den) == <<QRat(c[1], den), QRat(c[2], den), QRat(c[3], den)>>

B01(b) == IF b THEN 1 ELSE 0
Micro(x) == LET m == QMulInt(QMulInt(x, 1000), 1000) IN m[9] + 8192 * m[10] + 8192 * 8192 * m[11]      \* floor(x 10^6), 0 <= x < 2000
Eval(kk, n) ==
  LET p == Pair(n)
      c1 == Col(p.c1, p.den)  c2 == Col(p.c2, p.den)
      P == De00Primes(kk, c1, c2)
      f == De00Tail(kk, c1, c2, P, FALSE, 0)
      near == ~f.zero /\ QLe(QAbs(QSub(f.hdabs, Q180)), QEps(60))       \* a hue difference of exactly 180 degrees
  IN [ de |-> f.de, back |-> De00(kk, c2, c1),
       cls |-> <<B01(P.z1), B01(P.z2), B01(f.wide), B01(f.le), B01(f.lt360)>>,
       near180 |-> near,
       flipped |-> IF near THEN De00Tail(kk, c1, c2, P, TRUE, 0).de ELSE f.de ]

(* one initial state per pair; the evaluation is a step, so that TLC's workers share the pairs *)
Dummy == [de |-> QZero, back |-> QZero, cls |-> <<0, 0, 0, 0, 0>>, near180 |-> FALSE, flipped |-> QZero]
Init == /\ k = DiffConsts
        /\ i \in 1..NPairs
        /\ done = FALSE /\ res = Dummy
Evaluate == /\ ~done
            /\ res' = Eval(k, i) /\ done' = TRUE
            /\ UNCHANGED <<k, i>>
Next == Evaluate
Spec == Init /\ [][Next]_<<k, i, done, res>>

-----------------------------------------------------------------------------
Fail(what) == PrintT(<<"model fails", what, i>>) /\ FALSE

NonNegative00 == ~done \/ (~QIsNeg(res.de) /\ ~QIsNeg(res.back)) \/ Fail("non-negative")
(* symmetric to 2^-80: the two evaluations differ only in the signs of dL', dC', dh' *)
Symmetric00 == ~done \/ QAgreeBits(res.de, res.back, QOne) >= 80 \/ Fail("symmetric")
Identical00 == ~done \/ (Pair(i).c1 = Pair(i).c2 => res.de = QZero /\ res.back = QZero) \/ Fail("zero on identical colours")
(* published value reproduced to 4 decimals; a pair whose hue difference is exactly 180 degrees (pairs 10 and 14)
   may be on either side of the jump *)
Published(v, want) == QLe(QAbs(QSub(v, QRat(want, 10000))), QRat(1, 20000))
SharmaOK == ~done \/ (Pair(i).want >= 0 => Published(res.de, Pair(i).want) \/ (res.near180 /\ Published(res.flipped, Pair(i).want)))
            \/ Fail("Sharma table 1")

(* the arithmetic and the elementary functions against each other and against module Fx, once *)
QNear(x, y, bits) == QAgreeBits(x, y, QMax(QOne, QMax(QAbs(x), QAbs(y)))) >= bits
QD(sgn, ip, groups) == QOfFx(FxDec(sgn, ip, groups))
ElemOK ==
  ~done \/ i # 1 \/
  (/\ QMul(QInt(-3), QInt(-3)) = QInt(9) /\ QMul(QInt(-3), QRat(5, 2)) = QNeg(QRat(15, 2)) /\ QSub(QInt(2), QInt(5)) = QInt(-3)
   /\ FxOfQ(QOfFx(FxRat(-7, 3))) = FxRat(-7, 3)
   /\ QNear(QMul(QOfFx(FxRat(-7, 3)), QOfFx(FxRat(22, 7))), QOfFx(FxMul(FxRat(-7, 3), FxRat(22, 7))), 100)
   /\ QNear(QDiv(QInt(-22), QInt(7)), QRat(-22, 7), 98) /\ QNear(QDiv(QInt(1000000), QRat(1, 100)), QInt(100000000), 98)
   /\ QNear(QSqr(QSqrt(QRat(12345, 7))), QRat(12345, 7), 98)
   /\ QNear(QSqr(QSqrt(QRat(1, 9973))), QRat(1, 9973), 98)
   /\ QNear(QSqrt(QInt(2)), QD(1, 1, <<4142, 1356, 2373, 950, 4880, 1688, 7242, 969, 8078>>), 98)
   /\ QNear(QExpNeg(QOne), QD(1, 0, <<3678, 7944, 1171, 4423, 2159, 5523, 7701, 6146, 867>>), 95)        \* 1/e
   /\ QNear(QMul(QExpNeg(QRat(7, 3)), QExpNeg(QRat(11, 5))), QExpNeg(QRat(68, 15)), 95)
   /\ QExpNeg(QInt(121)) = QZero
   /\ \A h \in {1, 17, 44, 45, 46, 89, 90, 91, 135, 179, 180, 181, 200, 269, 271, 300, 359} :
        QNear(QAtan2Deg(k.e, QMulInt(QSinDeg(k.e, QInt(h)), 37), QMulInt(QCosDeg(k.e, QInt(h)), 37)), QInt(h), 95)
   /\ QNear(QSinDeg(k.e, QInt(30)), QRat(1, 2), 95) /\ QNear(QCosDeg(k.e, QInt(-780)), QRat(1, 2), 95)
   /\ QNear(QSinDeg(k.e, QInt(1086)), QOfFx(SinCosDeg(FxInt(1086))[1]), 93)                              \* Trig.tla
   /\ QNear(QCosDeg(k.e, QRat(12345, 7)), QOfFx(SinCosDeg(FxRat(12345, 7))[2]), 93)
   /\ FxOfQ(QPow(QInt(25), 7)) = FxMulInt(FxInt(78125), 78125)                                           \* 25^7 = 5^14 = 78125^2
   (* the closed-form relations accept exact points and reject perturbed ones *)
   /\ PowRelBits(QfOne, DyFromInt(5), DyFromInt(25), 1, 2) >= 90                                        \* 5^2 = 25
   /\ PowRelBits(QfOne, FxDy(FxAdd(FxInt(5), FxEps(30))), DyFromInt(25), 1, 2) < 36
   /\ PowRelBits(k.c143_10, FxDy(FxRat(143, 100)), DyFromInt(1), 7, 10) >= 90                           \* 1.43 * 1^0.7
   /\ PowRelBits(k.c126_40, FxDy(FxRat(126, 100)), DyFromInt(1), 11, 40) >= 90
   /\ PowRelBits(k.c141_200, FxDy(FxMulInt(FxRat(141, 100), 2)), DyFromInt(1), 63, 200) < 10             \* off by a factor 2
   /\ RelBits(DyFromInt(7), DyFromInt(7)) = 200 /\ RelBits(DyFromInt(7), DyFromInt(8)) < 4
   /\ HyabBits(DyFromInt(12), <<DyFromInt(10), DyFromInt(1), DyFromInt(2)>>, <<DyFromInt(3), DyFromInt(4), DyFromInt(6)>>) >= 90   \* 7 + 5
   /\ HyabBits(DyFromInt(12), <<DyFromInt(1), DyFromInt(10), DyFromInt(2)>>, <<DyFromInt(4), DyFromInt(3), DyFromInt(6)>>) < 10   \* L and a swapped
   /\ ConvBits(k, <<QInt(50), QInt(5), QD(1, 53, <<1301, 235, 4155, 9800>>)>>, <<QInt(50), QInt(3), QInt(4)>>) >= 44          \* atan2(4, 3)
   /\ ConvBits(k, <<QInt(50), QInt(5), QInt(54)>>, <<QInt(50), QInt(3), QInt(4)>>) < 12
   /\ ContrastBits(QInt(21), QOne, QZero) >= 90 /\ ContrastBits(QInt(20), QOne, QZero) < 10
   /\ PredicatesAgree(DyFromInt(5), <<1, 1, 0, 1, 1>>) /\ ~PredicatesAgree(DyFromInt(4), <<1, 1, 0, 1, 1>>)
   /\ RatioInRange(DyFromInt(21), 24, 4) /\ ~RatioInRange(DyFromInt(22), 24, 4) /\ ~RatioInRange(DyZero, 24, 4))
  \/ Fail("elementary functions")

(* feasible classes of the hue logic, from an integer abstraction: a hue in 0, 10, .., 350, forced to 0 when achromatic *)
HueAbs == {10 * n : n \in 0..35}
Feasible == { LET g1 == IF z1 THEN 0 ELSE h1  g2 == IF z2 THEN 0 ELSE h2
                  d == g2 - g1  ad == IF d < 0 THEN -d ELSE d
              IN <<B01(z1), B01(z2), B01(ad > 180), B01(g2 <= g1), B01(g1 + g2 < 360)>>
              : z1 \in BOOLEAN, z2 \in BOOLEAN, h1 \in HueAbs, h2 \in HueAbs }
FeasibleSeq == LET RECURSIVE ToSeq(_)
                   ToSeq(S) == IF S = {} THEN <<>> ELSE LET m == CHOOSE x \in S : TRUE IN <<m>> \o ToSeq(S \ {m})
               IN ToSeq(Feasible)
ASSUME PrintT(<<"FEASIBLE", ToJson(FeasibleSeq)>>)

EmitDone == (Emit /\ done) => PrintT(<<"REPLAY", ToJson([n |-> i, c1 |-> Pair(i).c1, c2 |-> Pair(i).c2, den |-> Pair(i).den,
                                              cls |-> res.cls, near180 |-> B01(res.near180), ref_micro |-> Micro(res.de),
                                              want |-> Pair(i).want])>>)
=============================================================================
