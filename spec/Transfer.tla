------------------------------ MODULE Transfer ------------------------------
(***************************************************************************)
(* C05 - the published transfer curves as exact RELATIONS.                 *)
(*                                                                         *)
(* There is no power function in this module.  Every curve is              *)
(*      x = g(Y) = Y / slope                   for Y below the knee        *)
(*               = ((Y + a) / b) ^ (p / q)     above it                    *)
(* (x linear light, Y the encoded value, p/q the published exponent as a   *)
(* fraction), so "x = g(Y)" above the knee is  x^q = ((Y + a)/b)^p  - a    *)
(* statement about INTEGER powers of rationals.  All other statements      *)
(* (x lies on the curve within a tolerance, the error of an integer code   *)
(* is below 0.6) are bracketings  g(Ylo) <= x <= g(Yhi)  because g is       *)
(* increasing, and each side is decided by comparing two integer powers.   *)
(*                                                                         *)
(* Integer powers are evaluated in truncated big-float arithmetic (`Bf`,   *)
(* 79+ significant bits, every product rounded DOWN, relative error per    *)
(* product < 2^-78, so < 2^-68 after a 563rd power) and a comparison       *)
(* only counts when it holds with a relative margin of 2^-60: the verdict  *)
(* is three-valued (holds / fails / undecided) and only a certain failure  *)
(* rejects.  Undecided happens on exact equality (x = 0, x = 1) only.      *)
(*                                                                         *)
(* Published constants (reference data, never read from the code):         *)
(*  sRGB      IEC 61966-2-1: 12.92, knee 0.04045 (encoded) / 0.0031308,     *)
(*            1.055, 0.055, exponent 2.4 = 12/5; and the variant in which  *)
(*            1.055 is replaced by the value that makes the two segments   *)
(*            meet exactly at 0.0031308 (1.0549999686...; the rounded      *)
(*            constants of the standard leave a step of 1e-8 there) - what *)
(*            palette's table generator uses                               *)
(*  Rec.709 / Rec.2020 OETF  ITU-R BT.709-6, BT.2020-2: 4.5, exponent      *)
(*            1/0.45 = 20/9, and either alpha = 1.099, beta = 0.018 or the *)
(*            exact solution alpha = 1.09929682680944,                     *)
(*            beta = 0.018053968510807 (BT.2020 12-bit; what palette uses) *)
(*  Adobe RGB (1998): exponent 563/256 (2.19921875)                        *)
(*  DCI-P3    SMPTE RP 431-2: exponent 2.6 = 13/5                          *)
(*  ProPhoto  ISO 22028-2 (ROMM): 16, knee 1/32 (encoded) = 16/512,         *)
(*            exponent 1.8 = 9/5                                           *)
(*  linear    identity                                                     *)
(***************************************************************************)
EXTENDS Fx

-----------------------------------------------------------------------------
(* truncated big floats: <<M, q>> denotes M * 8192^q, M a BigNat of at most PL limbs.  Values of at most
   PL limbs are exact; longer products keep their top PL limbs (rounded down, relative error < 8192^-(PL-1) = 2^-78).
   (PL = 7 rather than more: one 7x7-limb product costs TLC about a millisecond, and a check needs up to 40.) *)
PL == 7
BfZero == <<<<>>, 0>>
BfTrunc(M, q) == IF Len(M) <= PL THEN <<M, q>> ELSE <<SubSeq(M, Len(M) - PL + 1, Len(M)), q + (Len(M) - PL)>>
BfNat(M) == BfTrunc(M, 0)
BfMul(a, b) == IF a[1] = <<>> \/ b[1] = <<>> THEN BfZero ELSE BfTrunc(Mul(a[1], b[1]), a[2] + b[2])
(* a^n by repeated squaring.  The intermediate powers are bound by set comprehension over singletons: TLC does not
   reliably cache LET-bound or argument expressions (never under -coverage), and a twice-used square would make the
   recursion exponential. *)
RECURSIVE BfPowS(_, _)
BfPowS(a, n) == IF n = 0 THEN {<<One, 0>>} ELSE IF n = 1 THEN {a}
                ELSE IF n % 2 = 0 THEN {BfMul(h, h) : h \in BfPowS(a, n \div 2)}
                ELSE {BfMul(h2, a) : h2 \in {BfMul(h, h) : h \in BfPowS(a, n \div 2)}}
BfPow(a, n) == CHOOSE v \in BfPowS(a, n) : TRUE
BfCmp(a, b) ==
  IF a[1] = <<>> THEN (IF b[1] = <<>> THEN 0 ELSE -1)
  ELSE IF b[1] = <<>> THEN 1
  ELSE LET ta == Len(a[1]) + a[2]  tb == Len(b[1]) + b[2]
       IN IF ta > tb THEN 1 ELSE IF ta < tb THEN -1
          ELSE LET q == IF a[2] <= b[2] THEN a[2] ELSE b[2]
               IN Cmp(ShiftLimbs(a[1], a[2] - q), ShiftLimbs(b[1], b[2] - q))
(* a < b for certain, when a and b are lower bounds whose true values exceed them by at most 2^-68 relative
   (a power a^n computed by BfPow is low by less than n * 2^-78, a product of two such by the sum; n <= 563 + 256):
   an inexact value has PL limbs (>= 79 bits), so its Shr by 60 is > 2^-68 of it; an exact one needs no slack *)
SureBits == 60
SureLt(a, b) == BfCmp(<<Add(a[1], Shr(a[1], SureBits)), a[2]>>, b) < 0

-----------------------------------------------------------------------------
(* non-negative rationals <<n, d>>, n and d BigNats, d # 0 *)
Rat(n, d) == <<FromNat(n), FromNat(d)>>                    \* ordinary naturals
RatZero == <<Zero, One>>
RatOfDy(d) == IF d[1] = 0 THEN RatZero
              ELSE IF d[2] >= 0 THEN <<ShiftLimbs(d[3], d[2]), One>>
              ELSE <<d[3], ShiftLimbs(One, -d[2])>>        \* |d|
RatAdd(a, b) == <<Add(Mul(a[1], b[2]), Mul(b[1], a[2])), Mul(a[2], b[2])>>
RatMul(a, b) == <<Mul(a[1], b[1]), Mul(a[2], b[2])>>
RatDiv(a, b) == <<Mul(a[1], b[2]), Mul(a[2], b[1])>>        \* b # 0
RatCmp(a, b) == Cmp(Mul(a[1], b[2]), Mul(b[1], a[2]))
(* max(a - b, 0) *)
RatSub0(a, b) == LET x == Mul(a[1], b[2])  y == Mul(b[1], a[2])
                 IN IF Le(x, y) THEN RatZero ELSE <<Sub(x, y), Mul(a[2], b[2])>>
RatAbsDiff(a, b) == LET x == Mul(a[1], b[2])  y == Mul(b[1], a[2])
                    IN <<IF Le(x, y) THEN Sub(y, x) ELSE Sub(x, y), Mul(a[2], b[2])>>
(* a * 2^-k *)
RatShr(a, k) == <<a[1], Shl(a[2], k)>>
RatPow2Neg(k) == <<One, Shl(One, k)>>

-----------------------------------------------------------------------------
(* the curves *)
LOCAL Dec15(hi, lo7) == Add(Mul(FromNat(hi), FromNat(10000000)), FromNat(lo7))     \* hi * 10^7 + lo7
LOCAL Ten14 == Mul(FromNat(10000000), FromNat(10000000))
LOCAL Ten15 == Mul(FromNat(100000000), FromNat(10000000))
LOCAL RecAlphaN == Dec15(10992968, 2680944)          \* 1.09929682680944 * 10^14
LOCAL RecAlphaM1N == Dec15(992968, 2680944)          \* 0.09929682680944 * 10^14
LOCAL RecBetaN == Dec15(1805396, 8510807)            \* 0.018053968510807 * 10^15
(* (12.92 * 0.0031308 - 1) / (0.0031308^(1/2.4) - 1) = 1.05499996864597051842... (60-digit decimal arithmetic) *)
LOCAL Dec18(hi, lo9) == Add(Mul(FromNat(hi), FromNat(1000000000)), FromNat(lo9))   \* hi * 10^9 + lo9
LOCAL Ten17 == Mul(FromNat(1000000000), FromNat(100000000))
LOCAL SrgbAlphaCN == Dec18(105499996, 864597052)     \* 1.05499996864597052 * 10^17
LOCAL SrgbAlphaCM1N == Dec18(5499996, 864597052)     \* 0.05499996864597052 * 10^17

(* lin: has a linear toe; knee: the join, in ENCODED units; x = ((Y + a)/b)^(p/q) above it *)
SrgbPar == [lin |-> TRUE, slope |-> Rat(323, 25), knee |-> Rat(809, 20000), a |-> Rat(11, 200), b |-> Rat(211, 200), p |-> 12, q |-> 5]
SrgbParC == [lin |-> TRUE, slope |-> Rat(323, 25), knee |-> Rat(809, 20000), a |-> <<SrgbAlphaCM1N, Ten17>>, b |-> <<SrgbAlphaCN, Ten17>>, p |-> 12, q |-> 5]
RecParA == [lin |-> TRUE, slope |-> Rat(9, 2), knee |-> Rat(81, 1000), a |-> Rat(99, 1000), b |-> Rat(1099, 1000), p |-> 20, q |-> 9]
RecParB == [lin |-> TRUE, slope |-> Rat(9, 2), knee |-> <<MulSmall(RecBetaN, 9), MulSmall(Ten15, 2)>>,
            a |-> <<RecAlphaM1N, Ten14>>, b |-> <<RecAlphaN, Ten14>>, p |-> 20, q |-> 9]
AdobePar == [lin |-> FALSE, slope |-> Rat(1, 1), knee |-> RatZero, a |-> RatZero, b |-> Rat(1, 1), p |-> 563, q |-> 256]
P3Par == [lin |-> FALSE, slope |-> Rat(1, 1), knee |-> RatZero, a |-> RatZero, b |-> Rat(1, 1), p |-> 13, q |-> 5]
ProPhotoPar == [lin |-> TRUE, slope |-> Rat(16, 1), knee |-> Rat(1, 32), a |-> RatZero, b |-> Rat(1, 1), p |-> 9, q |-> 5]

Curves == {"srgb", "rec_oetf", "adobe", "p3", "prophoto", "linear"}
(* the admissible published parameter sets of a curve (sRGB: rounded or continuous; Rec: either constant set) *)
Pars(curve) == CASE curve = "srgb" -> {SrgbPar, SrgbParC}
                 [] curve = "rec_oetf" -> {RecParA, RecParB}
                 [] curve = "adobe" -> {AdobePar}
                 [] curve = "p3" -> {P3Par}
                 [] curve = "prophoto" -> {ProPhotoPar}
                 [] OTHER -> {}

(* sign of g(Y) - x on one branch: 1 / -1 for certain, 0 undecided (or equal).  Y a rational, x a Dy >= 0
   (its magnitude <<M, q>> is a Bf as it stands).
   (The intermediate values are bound by set comprehension over singletons, not by LET: TLC re-evaluates or
   re-validates LET-bound and argument expressions at every use, which multiplies the cost of the powers.) *)
SureCmp(L, R) == IF SureLt(R, L) THEN 1 ELSE IF SureLt(L, R) THEN -1 ELSE 0
GCmp(par, br, Y, x) ==
  IF br = "lin" THEN RatCmp(RatDiv(Y, par.slope), RatOfDy(x))                \* exact
  ELSE CHOOSE r \in {SureCmp(lr[1], lr[2]) :                                  \* U^p against x^q, cross-multiplied
                     lr \in {<<BfPow(BfNat(U[1]), par.p), BfMul(BfPow(BfTrunc(x[3], x[2]), par.q), BfPow(BfNat(U[2]), par.p))>> :
                             U \in {RatDiv(RatAdd(Y, par.a), par.b)}}} : TRUE

(* TOLERANCE KneeBandBits: within kn * (1 +- 2^-12) of the join EITHER branch is accepted.  The two published knees of
   sRGB (0.04045 and 12.92 * 0.0031308) differ by 1.6e-6 relative and a constant rounded to f32 by 6e-8; the branches
   differ by < 2e-8 (sRGB), 0 (ProPhoto), < 1e-9 (Rec B), ~4e-6 (Rec A, the three-digit set) inside the band. *)
KneeBandBits == 12
Branches(par, Y) ==
  IF ~par.lin THEN {"pow"}
  ELSE LET w == RatShr(par.knee, KneeBandBits)
       IN (IF RatCmp(Y, RatAdd(par.knee, w)) <= 0 THEN {"lin"} ELSE {})
          \cup (IF RatCmp(Y, RatSub0(par.knee, w)) >= 0 THEN {"pow"} ELSE {})

(* the outcomes of comparing g(Y) with x, one per admissible branch *)
CmpSet(par, Y, x) == {GCmp(par, br, Y, x) : br \in Branches(par, Y)}
(* x < g(Y) for certain on every admissible branch / x > g(Y) likewise *)
XBelow(par, Y, x) == CmpSet(par, Y, x) = {1}
XAbove(par, Y, x) == CmpSet(par, Y, x) = {-1}

(* g(Ylo) <= x <= g(Yhi) is not refuted *)
Between(par, x, Ylo, Yhi) == ~XBelow(par, Ylo, x) /\ ~XAbove(par, Yhi, x)
OnCurve(curve, x, Ylo, Yhi) ==
  IF curve = "linear" THEN RatCmp(Ylo, RatOfDy(x)) <= 0 /\ RatCmp(RatOfDy(x), Yhi) <= 0
  ELSE \E par \in Pars(curve) : Between(par, x, Ylo, Yhi)

-----------------------------------------------------------------------------
(* The integer codes.  "Error below 0.6 of one code": |max * f(x) - k| < 0.6, i.e.
   g((k - 0.6)/max) < x < g((k + 0.6)/max); x the exact value of the f32 (a Dy >= 0) *)
Lo06(max, k) == IF k = 0 THEN RatZero ELSE Rat(10 * k - 6, 10 * max)
Hi06(max, k) == Rat(10 * k + 6, 10 * max)
Within06(curve, max, k, x) == OnCurve(curve, x, Lo06(max, k), Hi06(max, k))
(* the same with 0.5: exact rounding of the curve *)
Within05(curve, max, k, x) ==
  OnCurve(curve, x, IF k = 0 THEN RatZero ELSE Rat(2 * k - 1, 2 * max), Rat(2 * k + 1, 2 * max))

(* A whole run [xf, xl] of inputs with code k: f is increasing, so the lower bound needs checking at the first input
   only and the upper bound at the last.  One pair of outcome sets per admissible parameter set; code 0 has no lower
   bound to check (f >= 0). *)
RunVerdicts(curve, max, k, xf, xl) ==
  {<<IF k = 0 THEN {} ELSE CmpSet(par, Lo06(max, k), xf), CmpSet(par, Hi06(max, k), xl)>> : par \in Pars(curve)}
RunWithin06(vs) == \E v \in vs : v[1] # {1} /\ v[2] # {-1}
RunUndecided(vs) == \E v \in vs : 0 \in v[1] \/ 0 \in v[2]
(* The boundary between the runs of k - 1 and k (k >= 1): xb the last input of k - 1, xa the first input of k:
   upper bound of k - 1 at xb, lower bound of k at xa.  All boundaries plus the two ends cover every run. *)
BoundaryVerdicts(curve, max, k, xb, xa) ==
  {<<CmpSet(par, Lo06(max, k), xa), CmpSet(par, Hi06(max, k - 1), xb)>> : par \in Pars(curve)}

-----------------------------------------------------------------------------
(* Floating point results: tolerances are expressed on the ENCODED value Y: tol(Y) = Y * 2^-RelBits + 2^-AbsBits.

   TOLERANCE RelBits.  from_linear is powf (< 1 ulp), one fused multiply-subtract whose cancellation at the knee
   amplifies by (Y + a)/Y <= 2.4, and constants rounded to the component type (an exponent error e changes the result
   by e * |ln x| relative: 2.4 u at the sRGB knee, 31 u on x for x = 2^-28 on the pure power curves, u = 2^-Prec);
   into_linear the same, its error divided by the exponent p/q when mapped back to Y.  Principled bound about 16 u.
   Calibration on the pinned tree (evidence: max_deviation_observed, in units of u): float curves f32 <= 15 u,
   f64 <= 11 u; decode tables f32 <= 1 u, f64 <= 33 u (ProPhoto code 2048, the table generator's alpha = 1 + 2^-52).
   Hence 128 u for f32 and 512 u for f64.
   PUBLICATION: the exact Rec. constants are published to 15 digits (alpha - 1 to 13); palette's table generator solves
   alpha from the 15-digit beta and lands 2.9e-15 away, which is 270 u of Y at the knee in f64.  For that curve in f64
   the tolerance is 2^-41 = 4096 u (> 8 x 270). *)
Prec(t) == IF t = "f32" THEN 24 ELSE 53
RelBits(curve, t) == IF t = "f32" THEN 17 ELSE IF curve = "rec_oetf" THEN 41 ELSE 44
AbsBits(t) == IF t = "f32" THEN 40 ELSE 70        \* floor of the tolerance for results near zero
(* the bracket <<Ylo, Yhi>> = Y -+ (Y * 2^-RelBits + 2^-AbsBits) of Y = n/d, built with shifts only and on one
   denominator (a sum of rationals would multiply the denominators, and TLC pays for every limb) *)
Bracket(curve, t, Y) ==
  LET ab == AbsBits(t)  rb == RelBits(curve, t)
      n2 == Shl(Y[1], ab)  d2 == Shl(Y[2], ab)
      tl == Add(Shl(Y[1], ab - rb), Y[2])
  IN <<<<IF Le(n2, tl) THEN Zero ELSE Sub(n2, tl), d2>>, <<Add(n2, tl), d2>>>>
OnCurveTol(curve, t, x, Y) == \A b \in {Bracket(curve, t, Y)} : OnCurve(curve, x, b[1], b[2])

(* (x, y) is a point of the curve: x linear, y encoded, both exact dyadics >= 0 *)
CurveOK(curve, t, x, y) == OnCurveTol(curve, t, x, RatOfDy(y))
(* the decoder's value for code k *)
DecodeOK(curve, t, max, k, x) == OnCurveTol(curve, t, x, Rat(k, max))

(* the joins, in the units of the argument: dir "enc" takes linear x (knee / slope), "dec" takes encoded y *)
KneeIn(par, dir) == IF dir = "dec" THEN par.knee ELSE RatDiv(par.knee, par.slope)
NearKnee(curve, dir, v) ==
  \E par \in Pars(curve) : par.lin /\ LET kn == KneeIn(par, dir)
                                      IN RatCmp(RatAbsDiff(RatOfDy(v), kn), RatShr(kn, KneeBandBits)) <= 0
StraddlesKnee(curve, dir, v0, v1) ==
  \E par \in Pars(curve) : par.lin /\ LET kn == KneeIn(par, dir)  w == RatShr(kn, KneeBandBits)
                                      IN RatCmp(RatOfDy(v0), RatAdd(kn, w)) <= 0 /\ RatCmp(RatOfDy(v1), RatSub0(kn, w)) >= 0

(* "the step of less than 1e-6 that the published constants themselves leave where the segments meet" *)
KneeStepOK(d) == RatCmp(RatMul(d, Rat(1000000, 1)), Rat(1, 1)) < 0

(* TOLERANCE RoundTripBits: dec(enc(v)) and enc(dec(v)) against v, relative to v.  Two curve evaluations, the second
   amplifying the error of the first by the local exponent (<= 2.6, or its inverse): principled ~ 16 u; calibrated
   (evidence: max_deviation_observed, the roundtrip entries): <= 15 u in f32, <= 10 u in f64 away from the join; 128 u.
   At the join the published step is allowed. *)
RoundTripBits(t) == Prec(t) - 7
RoundTripOK(curve, t, dir, v, back) ==
  LET V == RatOfDy(v)  d == RatAbsDiff(V, RatOfDy(back))
  IN \/ RatCmp(d, RatAdd(RatShr(V, RoundTripBits(t)), RatPow2Neg(AbsBits(t)))) <= 0
     \/ NearKnee(curve, dir, v) /\ KneeStepOK(d)

(* TOLERANCE MonoUlps: monotone, except (a) at the join by less than 1e-6, (b) by rounding: the library power function
   is accurate to < 1 ulp but not proven monotone, so a dip of at most 2 ulp of the result is rounding, not the curve.
   Calibrated: the largest dip observed away from the join is reported in the evidence (0 on the pinned tree). *)
MonoSlack(t, w0) == RatShr(RatOfDy(w0), Prec(t) - 2)
MonotoneOK(curve, t, dir, v0, w0, v1, w1) ==
  \/ DyLe(w0, w1)
  \/ RatCmp(RatAbsDiff(RatOfDy(w0), RatOfDy(w1)), MonoSlack(t, w0)) <= 0
  \/ StraddlesKnee(curve, dir, v0, v1) /\ KneeStepOK(RatAbsDiff(RatOfDy(w0), RatOfDy(w1)))
=============================================================================
