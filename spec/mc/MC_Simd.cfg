SPECIFICATION Spec
CONSTANTS
  Emit = TRUE
  Masks = "few"
INVARIANTS PackLaws SelectLaws CmpLaws GroupLaws EmitGroup
CHECK_DEADLOCK FALSE
