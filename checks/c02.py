"""C02 - conversions match the published colorimetric definitions.
Spec: spec/ColourMath.tla - one relation per hand-written conversion edge, written from the publication with its
own reference constants, evaluated by TLC in 104-bit fixed point on the exact recorded values (cube instead of cube
root, cross-multiplication instead of division, series only for sine/cosine). MC_ColourMath checks the reference
against itself (derived matrices, joins, known exact points accepted, perturbed points rejected). The harness runs
every edge on lattices, threshold-straddling points and random points for f32 and f64; TraceMath.tla judges."""
import json, random, itertools
from common import *
from colours import *

EDGES = [("linsrgb", "xyz"), ("xyz", "linsrgb"), ("xyz", "lab"), ("lab", "xyz"), ("xyz", "luv"), ("luv", "xyz"), ("xyz", "yxy"),
         ("yxy", "xyz"), ("xyz", "oklab"), ("oklab", "xyz"), ("linsrgb", "oklab"), ("oklab", "linsrgb"), ("lab", "lch"), ("lch", "lab"),
         ("luv", "lchuv"), ("lchuv", "luv"), ("oklab", "oklch"), ("oklch", "oklab"), ("srgb", "hsv"), ("hsv", "srgb"), ("srgb", "hsl"),
         ("hsl", "srgb"), ("hsv", "hwb"), ("hwb", "hsv"), ("okhsv", "okhwb"), ("okhwb", "okhsv"), ("hsv", "hsl"), ("hsl", "hsv"),
         ("xyz", "linluma"), ("linluma", "xyz"), ("xyz", "lmsvk"), ("lmsvk", "xyz"), ("xyz", "lmsbfd"), ("lmsbfd", "xyz"),
         ("lchuv", "hsluv"), ("hsluv", "lchuv"),
         ("okhsv", "oklab"), ("oklab", "okhsv"), ("okhsl", "oklab"), ("oklab", "okhsl")]
OK_CYL = {("okhsv", "oklab"), ("oklab", "okhsv"), ("okhsl", "oklab"), ("oklab", "okhsl")}


def oklab_of_linsrgb(r, g, b):
    """Ottosson's linear sRGB -> Oklab, used only to GENERATE in-gamut Oklab inputs"""
    l = 0.4122214708 * r + 0.5363325363 * g + 0.0514459929 * b
    m = 0.2119034982 * r + 0.6806995451 * g + 0.1073969566 * b
    s = 0.0883024619 * r + 0.2817188376 * g + 0.6299787005 * b
    l_, m_, s_ = l ** (1 / 3), m ** (1 / 3), s ** (1 / 3)
    return (0.2104542553 * l_ + 0.7936177850 * m_ - 0.0040720468 * s_,
            1.9779984951 * l_ - 2.4285922050 * m_ + 0.4505937099 * s_,
            0.0259040371 * l_ + 0.7827717662 * m_ - 0.8086757660 * s_)
# the CIE definitions relative to other white points (binaries convstd64 / convstd32)
STD_EDGES = [("xyz50", "lab50"), ("lab50", "xyz50"), ("xyz50", "luv50"), ("luv50", "xyz50"), ("lab50", "lch50"), ("lch50", "lab50"),
             ("xyzdci", "labdci"), ("labdci", "xyzdci"),
             ("hsv", "hsv_linsrgb"), ("hsv_linsrgb", "hsv"), ("hsl", "hsl_linsrgb"), ("hsl_linsrgb", "hsl")]
# the transfer curves of the RGB standards (encoded <-> linear of the same primaries)
TF_PAIRS = [("srgb", "linsrgb", 0.04045, 0.0031308), ("rec709", "linsrgb", 0.0812428583, 0.0180539685), ("p3", "linp3", 0.04045, 0.0031308),
            ("adobe", "linadobe", 0.0, 0.0), ("rec2020", "linrec2020", 0.0812428583, 0.0180539685), ("prophoto", "linprophoto", 0.03125, 0.001953125),
            ("dcip3", "lindcip3", 0.0, 0.0)]
for (_e, _l, _, _) in TF_PAIRS:
    STD_EDGES += [(_e, _l), (_l, _e)]
STD_RANGES = {"xyz50": [(0, 0.96422), (0, 1), (0, 0.82521)], "lab50": NODES["lab"], "lch50": NODES["lch"], "luv50": NODES["luv"],
              "xyzdci": [(0, 0.89459), (0, 1), (0, 0.95442)], "labdci": NODES["lab"],
              "hsv": NODES["hsv"], "hsv_linsrgb": NODES["hsv"], "hsl": NODES["hsl"], "hsl_linsrgb": NODES["hsl"]}
for (_e, _l, _, _) in TF_PAIRS:
    STD_RANGES[_e] = STD_RANGES[_l] = NODES["srgb"]
WHITE = (0.95047, 1.0, 1.08883)
LAB_EPS = 216.0 / 24389.0


def straddle(v, rel=1e-7):
    return [v * (1 - rel), v, v * (1 + rel), v * (1 - 1e-3), v * (1 + 1e-3)]


def special_points(a):
    """points on both sides of every piecewise threshold and sector boundary of the edge's definition"""
    pts = []
    if a == "xyz":      # the join of f(t) at t = (6/29)^3, per channel
        for k in range(3):
            for t in straddle(LAB_EPS):
                p = [0.3 * WHITE[0], 0.3, 0.3 * WHITE[2]]
                p[k] = t * WHITE[k]
                pts.append(tuple(p))
        pts += [tuple(t * w for w in WHITE) for t in straddle(LAB_EPS)] + [WHITE, (0.0, 0.0, 0.0), (1e-6, 1e-6, 1e-6)]
    if a in ("lab", "luv", "lch", "lchuv"):   # L* = 8 is the join on the inverse side
        for L in straddle(8.0, 1e-7) + [0.5, 7.9, 8.1]:
            pts += [(L, 0.0, 0.0), (L, 10.0, -10.0 if a in ("lab", "luv") else 200.0)]
        if a == "lab":    # a* or b* pushing fx / fz across the join
            pts += [(50.0, -300.0, 0.0), (50.0, 0.0, 90.0), (9.0, -3.0, 1.5), (9.0, 0.0, 2.0)]
    if a in ("hsv", "hsl", "hwb", "okhsv", "okhwb"):
        for h in (0.0, 59.9999999, 60.0, 60.0000001, 119.9999999, 120.0, 180.0, 240.0, 299.9999999, 300.0, 359.9999999, 360.0, -60.0, 420.0):
            pts += [(h, 0.5, 0.5), (h, 1.0, 1.0) if a not in HWB else (h, 0.0, 0.0), (h, 0.25, 0.75)]
        pts += [(33.0, 0.0, 0.5), (33.0, 0.5, 0.0), (33.0, 1.0, 0.5), (33.0, 0.5, 0.5000000001), (33.0, 0.5, 0.4999999999)]
    if a in ("srgb", "linsrgb"):      # ties of the maximum / minimum, greys, primaries
        pts += [(1, 0, 0), (0, 1, 0), (0, 0, 1), (1, 1, 0), (0, 1, 1), (1, 0, 1), (0.5, 0.5, 0.2), (0.2, 0.5, 0.5), (0.5, 0.2, 0.5),
                (0.5, 0.5, 0.5), (0.5, 0.5000000001, 0.5), (0, 0, 0), (1, 1, 1), (0.7, 0.7, 0.3), (0.3, 0.7, 0.7), (0.25, 0.5, 0.75)]
    if a in ("oklab", "oklch"):
        pts += [(1.0, 0.0, 0.0), (0.0, 0.0, 0.0), (0.5, 0.0, 0.0)]
    if a == "yxy":
        pts += [(0.3127, 0.3290, 1.0), (0.3127, 0.3290, 0.0), (0.64, 0.33, 0.2126)]
    return [tuple(float(v) for v in p) for p in pts]


def gen(ctx, path, path_ok):
    """two command files: the cheap relations, and the Okhsv / Okhsl edges whose reference (a transcription of the whole
    published procedure) costs TLC about a second per event"""
    rnd = random.Random(ctx.seed)
    c = Cmds(path)
    cok = Cmds(path_ok)
    nr, nl = (30, 20) if ctx.quick else (300, 120)
    for (a, b) in EDGES:
        if (a, b) in OK_CYL or "hsluv" in (a, b):
            n1, n2 = (10, 8) if ctx.quick else (120, 60)
            lat = lattice_in(a, [0.0, 77.0, 180.0, 301.5])
            pts = random_in(a, rnd, n1) + rnd.sample(lat, min(n2, len(lat)))
            if "hsluv" in (a, b):     # both sides of the join of the bounds' sub2 at L* = 8, hues next to the gamut's corners
                k = 0 if a == "lchuv" else 2
                for L in (7.99, 8.0, 8.01, 50.0, 93.0):
                    for h in (12.18, 85.87, 127.72, 192.18, 265.87, 307.72):
                        p = [h, 60.0, L] if a == "hsluv" else [L, 30.0, h]
                        pts.append(tuple(p))
                pts = pts if not ctx.quick else pts[:n1 + n2] + rnd.sample(pts[n1 + n2:], 12)
            elif a == "oklab":      # Oklab colours inside the sRGB gamut: interior, faces, near the primaries
                cube = [tuple(x) for x in itertools.product([0.0, 0.02, 0.5, 1.0], repeat=3) if any(x)]
                rgbs = [tuple(rnd.random() for _ in range(3)) for _ in range(2 * n1)] + (rnd.sample(cube, 16) if ctx.quick else cube)
                pts = pts[:n1] + [oklab_of_linsrgb(*x) for x in rgbs]
            else:
                hs = (29.23, 142.5, 264.05) if ctx.quick else (29.23, 109.77, 142.5, 194.77, 264.05, 328.36)
                pts += [(h, s_, v) for h in hs for (s_, v) in ((1.0, 1.0), (0.999, 0.999), (0.5, 1.0), (1.0, 0.5), (0.79999, 0.6), (0.8, 0.6), (0.80001, 0.6))]
            for p in pts:
                cok.add(**{"from": a, "in": p, "path": [b], "mode": "u"})
            continue
        lat = lattice_in(a, [0.0, 77.0, 180.0, 301.5])
        pts = random_in(a, rnd, nr) + rnd.sample(lat, min(nl, len(lat))) + special_points(a)
        if a in HWB:
            pts = [p if p[1] + p[2] <= 1 else (p[0], p[1] / 2, p[2] / 2) for p in pts]
        for p in pts:
            c.add(**{"from": a, "in": p, "path": [b], "mode": "u"})
    # Okhsl: the saturation -> chroma interpolation of the publication, anchored on the code's own C(eps), C(0.8), C(1)
    sweep = [2.0 ** -10, 0.8, 1.0, 0.2, 0.5, 0.79, 0.81, 0.9, 0.97] if ctx.quick else [2.0 ** -10, 0.8, 1.0, 0.1, 0.2, 0.4, 0.6, 0.79, 0.81, 0.85, 0.9, 0.95, 0.99]
    hues = [0.0, 29.2, 60.0, 110.0, 142.5, 180.0, 220.0, 264.05, 300.0, 330.0] + ([] if ctx.quick else [rnd.uniform(0, 360) for _ in range(60)])
    for h in hues:
        for l in ([0.15, 0.5, 0.8, 0.97] if ctx.quick else [0.02, 0.1, 0.2, 0.3, 0.4, 0.5, 0.6, 0.7, 0.8, 0.9, 0.97, 0.995]):
            c.add(op="sweep", **{"from": "okhsl", "in": (h, 0.0, l), "path": ["oklab", "oklch"]}, s=[hx(x) for x in sweep])
    return c.close(), cok.close()


def gen_std(ctx, path):
    rnd = random.Random(ctx.seed + 5)
    c = Cmds(path)
    nr, nl = (30, 20) if ctx.quick else (250, 100)
    for (a, b) in STD_EDGES:
        if a[:3] in ("hsv", "hsl") and ctx.quick:
            nr, nl = 12, 8
        tf = [t for t in TF_PAIRS if a in t[:2] and b in t[:2]]
        if tf:      # both sides of the join of the two pieces (in the encoded and in the linear domain), and a dense run across it
            j = tf[0][2] if a == tf[0][0] else tf[0][3]
            nr, nl = (10, 6) if ctx.quick else (200, 60)
            pts = [(j * f, 0.5, j * g) for f in (0.9, 0.99, 0.999, 1.0, 1.001, 1.01, 1.1, 1.25) for g in (0.97, 1.03)] if j else []
            pts += [(x, x, x) for x in (0.0, 1e-9, 1e-4, 0.5, 1 - 1e-9, 1.0)]
            pts += [tuple(rnd.random() for _ in range(3)) for _ in range(nr)]
            for q in pts:
                c.add(**{"from": a, "in": q, "path": [b], "mode": "u"})
            continue
        axes = [[0.0, 77.0, 180.0, 301.5] if r is None else in_lattice(*r) for r in STD_RANGES[a]]
        lat = list(itertools.product(*axes))
        pts = [tuple(rnd.uniform(0, 360) if r is None else rnd.uniform(*r) for r in STD_RANGES[a]) for _ in range(nr)]
        pts += rnd.sample(lat, min(nl, len(lat)))
        if a.startswith("xyz"):      # both sides of the join of f(t), per channel, relative to this white
            w = [r[1] for r in STD_RANGES[a]]
            for k in range(3):
                for t in straddle(LAB_EPS):
                    p = [0.3 * w[0], 0.3, 0.3 * w[2]]
                    p[k] = t * w[k]
                    pts.append(tuple(p))
            pts += [tuple(w), tuple(LAB_EPS * x for x in w), (1e-6, 1e-6, 1e-6)]
        elif a[:3] in ("hsv", "hsl"):     # sector edges, the join of the transfer curve (value 0.04045 / 0.0031308), greys
            j = 0.04045 if "lin" not in a else 0.0031308
            pts += [(h, s_, v) for h in (0.0, 59.99, 60.0, 120.0, 180.0, 240.0, 300.0, 359.99) for (s_, v) in ((1.0, 1.0), (0.5, 0.5), (0.3, j), (0.0, 0.7))]
            pts += [(33.0, 0.5, j * f) for f in (0.999, 1.0, 1.001)]
        else:
            pts += [(L, 0.0, 0.0) for L in straddle(8.0, 1e-7)] + [(L, 10.0, -10.0 if "lch" not in a else 200.0) for L in (7.9, 8.1, 50.0)]
        for p in pts:
            c.add(**{"from": a, "in": p, "path": [b], "mode": "u"})
    return c.close()


def run(ctx):
    bins = cargo_build(["conv64", "conv32", "convstd64", "convstd32"])
    tlc_mc(ctx, "MC_ColourMath", tag="colourmath", workers=4, coverage=False)
    nh = 12 if ctx.quick else 72
    r = tlc_mc(ctx, "MC_OkColour", tag="okcolour", workers=6, coverage=False, constants={"NH": nh})
    if r.distinct != nh + 7:
        raise ToolError("MC_OkColour visited %d states, expected %d (vacuity control)" % (r.distinct, nh + 7))
    cmds, cmds_ok = ctx.p("c02.cmds"), ctx.p("c02ok.cmds")
    n, nok = gen(ctx, cmds, cmds_ok)
    log("C02: %d commands, %d on the Okhsv / Okhsl edges" % (n, nok))
    cmds_std = ctx.p("c02std.cmds")
    nstd = gen_std(ctx, cmds_std)
    nch = 13 if ctx.quick else 16
    for (b, cf, tag, chunk) in [("conv64", cmds, "c02.conv64", max(120, n // nch + 1)), ("conv32", cmds, "c02.conv32", max(120, n // nch + 1)),
                                ("convstd64", cmds_std, "c02std.conv64", max(60, nstd // 6 + 1)), ("convstd32", cmds_std, "c02std.conv32", max(60, nstd // 6 + 1)),
                                ("conv64", cmds_ok, "c02ok.conv64", max(6, nok // 32 + 1)), ("conv32", cmds_ok, "c02ok.conv32", max(6, nok // 32 + 1))]:
        tp = ctx.p(tag + ".ndjson")
        run_bin(bins[b], ["--cmds", cf, "--out", tp])
        res = validate_trace(ctx, "TraceMath", tp, stateless=True, chunk_events=chunk, tag=tag, xmx="2g")
        ctx.cov["traces_validated_against_impl"] += res.events - len(res.rejected)
        add_samples(ctx, tp, n=1, every=997)
        ctx.cov["distinct_nontrivial"] += count_distinct(tp, lambda e: json.dumps([e.get("nodes"), e.get("vals", [e.get("in")])[0]]), lambda e: True)
        for (line, ev, info, _) in res.rejected:
            why = info.strip().strip('"')
            if ev["ev"] == "sweep":
                d = {"kind": "sweep", "class": why, "t": ev.get("t"), "from": ev["from"], "to": ev["to"]}
                what = "%s %s (hue, -, lightness) = %s: %s: chroma over saturations %s is %s" % (
                    ev.get("t"), ev["from"], [dy_to_float(x) for x in ev["in"]], why, [round(dy_to_float(x), 6) for x in ev["s"]],
                    [round(dy_to_float(o[1]), 9) for o in ev["out"]])
                report(ctx, d, what, {"bin": b, "event": ev, "trace_line": line})
                continue
            d = {"kind": "conv", "class": why, "t": ev.get("t"), "from": ev["nodes"][0], "to": ev["nodes"][-1]}
            what = "%s %s -> %s: %s: input %s gave %s" % (ev.get("t"), d["from"], d["to"], why, [dy_to_float(x) for x in ev["vals"][0]],
                                                          [dy_to_float(x) for x in ev["vals"][-1]] if len(ev["vals"]) > 1 else "-")
            report(ctx, d, what, {"bin": b, "event": ev, "trace_line": line})
    return finish(ctx, "model_checking",
                  rule="a case is one input colour converted along one hand-written edge; distinct by edge and exact input; every case "
                       "evaluates a defining equation (non-trivial)",
                  explanation="MC_ColourMath: 17 self-checks of the reference (derived sRGB matrix hits the white point and inverts, f(t) "
                              "continuous at the join, known exact points accepted, perturbed points rejected). MC_OkColour: the transcribed Okhsv / Okhsl / "
                              "HSLuv procedures mean what they are for on a hue grid (s = v = 1 is the gamut cusp, s = 1 the gamut surface, toe "
                              "inverse, a 2 % perturbation fails). 66 directed edges x lattice, "
                              "threshold-straddling and random inputs x f32/f64 are judged by TLC with the relations of ColourMath.tla in "
                              "104-bit fixed point.",
                  trusted=["reference constants and formulas written in spec/ColourMath.tla with their citations",
                           "thresholds of spec/trace/TraceMath.tla"])


def replay(ctx, path):
    rp = json.load(open(path))["replay"]
    bins = cargo_build(["conv64", "conv32"])
    ev = rp["event"]
    c = Cmds(ctx.p("replay.cmds"))
    if ev["ev"] == "sweep":
        c.add(op="sweep", **{"from": ev["from"], "in": [dy_to_float(x) for x in ev["in"]], "path": ["oklab", "oklch"]},
              s=[hx(dy_to_float(x)) for x in ev["s"]])
    else:
        c.add(**{"from": ev["nodes"][0], "in": [dy_to_float(x) for x in ev["vals"][0]], "path": ev["nodes"][1:], "mode": "u"})
    c.close()
    tp = ctx.p("replay.ndjson")
    run_bin(bins[rp["bin"]], ["--cmds", ctx.p("replay.cmds"), "--out", tp])
    res = validate_trace(ctx, "TraceMath", tp, stateless=True, tag="replay")
    if res.rejected:
        print("VIOLATION property=C02 replay=%s" % path)
        print("  still rejected: %s" % res.rejected[0][2])
        return 1
    print("replay accepted")
    return 0
