------------------------------ MODULE MC_Adapt ------------------------------
(* The reference of C14 checked against itself before any code is consulted    *)
(* (facts of the publication, one state per case):                             *)
(*  space  for every RGB space the matrix derived from the published primaries   *)
(*         and white point maps (1, 1, 1) to the white point and inverts;        *)
(*  pair   for every pair of white points {a, b} and every method, in both orders:  *)
(*         the reference adaptation matrix maps white a onto white b, is the        *)
(*         identity when a = b, and A(b -> a) A(a -> b) = I (one case decides both    *)
(*         ordered pairs (a, b) and (b, a));                                        *)
(*  cone   the published seven-decimal inverse cone matrices are the inverses of    *)
(*         the published cone matrices to seven decimals (this is where the          *)
(*         Published7 tolerance of adaptation comes from);                          *)
(*  neg    perturbed constants are told apart (no relation is vacuous).             *)
(* Full = FALSE samples the pairs: all pairs with D65 or D50 on one side and the     *)
(* diagonal; Full = TRUE takes all 16 x 16.                                           *)
(* TLC computes initial states and the successors of one state sequentially, so the    *)
(* cases hang two levels below a root (root -> group -> case): the groups are spread     *)
(* over the workers.                                                                  *)
EXTENDS Adapt, TLC

CONSTANT Full
VARIABLES case, K        \* K: the inverse cone matrices, computed once (TLC re-evaluates definitions at every use)

NearSeq(a, b, bits) == Len(a) = Len(b) /\ \A i \in DOMAIN a : FxNear(a[i], b[i], bits, 200)
Tight == 86        \* Fx truncation (2^-104 per operation) and the Newton reciprocal (2^-96 relative) on entries below 8
(* (1, 1, 1) -> white: 2^-90; ProPhoto's blue primary has y = 0.0001, a column of magnitude 10^4 in the primaries matrix,
   which costs the fixed point 13 bits: 2^-89 is reached there *)
SpaceTight(sp) == IF sp = "prophoto" THEN 86 ELSE 90

NW == Len(WhiteNames)
AllPairs == {<<i, j>> : i \in 1..NW, j \in 1..NW}
Hub(i) == WhiteNames[i] \in {"D65", "D50"}
OrderedPairs == IF Full THEN AllPairs
                ELSE {p \in AllPairs : Hub(p[1]) \/ Hub(p[2]) \/ p[1] = p[2]}
(* one case per unordered pair: <<i, j>> with i <= j stands for (i, j) and (j, i) *)
Pairs == {p \in AllPairs : p[1] <= p[2] /\ (p \in OrderedPairs \/ <<p[2], p[1]>> \in OrderedPairs)}

MiscSeq == [i \in DOMAIN SpaceNames |-> <<"space", SpaceNames[i], "", "">>]
           \o [k \in DOMAIN MethodNames |-> <<"cone", MethodNames[k], "", "">>]
           \o << <<"neg", "white", "", "">>, <<"neg", "whitepair", "", "">>, <<"neg", "space", "", "">>,
                 <<"neg", "method", "", "">>, <<"neg", "digit", "", "">>, <<"neg", "okm1", "", "">> >>
(* the cases are dealt over NG groups by index, so that the workers get equal shares *)
NG == 12
Root == <<"root", "", "", "">>
Groups == {<<"group", ToString(g), "", "">> : g \in 0..(NG - 1)}
CasesOfGroup(g) ==
  {MiscSeq[n] : n \in {x \in DOMAIN MiscSeq : x % NG = g}}
  \cup {<<"pair", WhiteNames[t[1]], WhiteNames[t[2]], MethodNames[t[3]]>> :
           t \in {<<u[1][1], u[1][2], u[2]>> : u \in {v \in Pairs \X DOMAIN MethodNames : (v[1][1] * 7 + v[1][2] * 3 + v[2]) % NG = g}}}

SpaceOK(sp) ==
  LET m == RefRgbToXyz(sp, SpaceWhite(sp))
  IN /\ NearSeq(FxMatVec(m, Ones3), WP(SpaceWhite(sp)), SpaceTight(sp))
     /\ NearSeq(MatMul3T(m, Inv3T(m)), I3, Tight)
     /\ NearSeq(MatMul3T(Inv3T(m), m), I3, Tight)

MethodSet == {MethodNames[k] : k \in DOMAIN MethodNames}
KInit == [minv |-> [m \in MethodSet |-> Inv3T(Cone(m))]]
PairOK(a, b, mth) ==
  LET M == Cone(mth)
      Minv == K.minv[mth]
      ab == AdaptRef(WP(a), WP(b), M, Minv)
      ba == AdaptRef(WP(b), WP(a), M, Minv)
  IN /\ NearSeq(FxMatVec(ab, WP(a)), WP(b), Tight)
     /\ NearSeq(FxMatVec(ba, WP(b)), WP(a), Tight)
     /\ (a = b => NearSeq(ab, I3, Tight) /\ NearSeq(ba, I3, Tight))
     /\ NearSeq(MatMul3T(ba, ab), I3, Tight)
     /\ NearSeq(MatMul3T(ab, ba), I3, Tight)

ConeOK(mth) ==
  /\ NearSeq(K.minv[mth], T9(Inv3(Cone(mth))), Tight)                  \* the fast inverse is ColourMath's inverse
  /\ NearSeq(ConeInvPublished(mth), K.minv[mth], 24)                   \* 5e-8: correctly rounded to seven decimals
  /\ NearSeq(MatMul3T(ConeInvPublished(mth), Cone(mth)), I3, 21)       \* hence only Published7 close to the identity
  /\ (mth # "xyzscaling" => ~NearSeq(MatMul3T(ConeInvPublished(mth), Cone(mth)), I3, 40))

NegOK(n) ==
  CASE n = "white" ->      \* D50 with two digits of z transposed (0.82512) is not D50
         ~NearSeq(FxMatVec(Adapt("D65", "D50", "bradford"), WP("D65")), <<D5(96422), FxOne, D5(82512)>>, 20)
    [] n = "whitepair" ->  \* adapting with the gains inverted does not reach the destination
         ~NearSeq(FxMatVec(Adapt("D50", "D65", "bradford"), WP("D65")), WP("D50"), 10)
    [] n = "space" ->      \* Adobe RGB differs from sRGB only in the green primary: the matrices are told apart
         ~NearSeq(RefRgbToXyz("adobe", "D65"), RefRgbToXyz("srgb", "D65"), 5)
         /\ NearSeq(RefRgbToXyz("srgb", "D65"), SrgbToXyz, Tight)        \* ... and the construction is ColourMath's
    [] n = "method" ->     \* the methods differ between different white points
         ~NearSeq(Adapt("A", "D65", "bradford"), Adapt("A", "D65", "vonkries"), 6)
         /\ ~NearSeq(Adapt("A", "D65", "xyzscaling"), Adapt("A", "D65", "vonkries"), 6)
    [] n = "digit" ->      \* published sRGB and Adobe RGB entries (Lindbloom): seven decimals of the derived ones,
                           \* and a change in the sixth decimal is told apart at the Published7 entry tolerance
         LET s == RefRgbToXyz("srgb", "D65")  a == Inv3T(RefRgbToXyz("adobe", "D65"))
         IN /\ FxNear(s[1], FxDec(1, 0, <<4124, 5640>>), 24, 200) /\ FxNear(s[9], FxDec(1, 0, <<9503, 410>>), 24, 200)
            /\ FxNear(a[1], FxDec(1, 2, <<413, 6900>>), 24, 200)
            /\ MatBitsAbs(<<FxDec(1, 2, <<413, 6900>>)>>, <<a[1]>>) >= Need("space.hard=ref", "f64")
            /\ MatBitsAbs(<<FxDec(1, 2, <<413, 7900>>)>>, <<a[1]>>) < Need("space.hard=ref", "f64")

(* the publication class OkM1 of Adapt!Need: the cube of M2^-1 (1, 0, 0) equals M1 white only to the published
   precision of M1, for Ottosson's M1 and for the CSS Color 4 recalculation alike (bits printed for the record) *)
OkM1OK ==
  LET k == [okm2inv |-> Inv3T(OkM2)]
      a == OkCubeBits(k, FxMatVec(OkM1, WhiteD65), <<FxOne, FxZero, FxZero>>)
      b == OkCubeBits(k, FxMatVec(OkM1Css, WhiteD65), <<FxOne, FxZero, FxZero>>)
  IN PrintT(<<"okm1 bits", a, b>>) /\ a >= 10 /\ b >= 10 /\ a < 30 /\ b < 30

CaseOK(c) == CASE c[1] = "space" -> SpaceOK(c[2])
               [] c[1] = "pair" -> PairOK(c[2], c[3], c[4])
               [] c[1] = "cone" -> ConeOK(c[2])
               [] c[1] = "neg" /\ c[2] = "okm1" -> OkM1OK
               [] c[1] = "neg" -> NegOK(c[2])
               [] OTHER -> TRUE                      \* root and group states carry no claim

Init == case = Root /\ K = KInit
Next == /\ \/ case = Root /\ case' \in Groups
           \/ case[1] = "group" /\ \E g \in 0..(NG - 1) : ToString(g) = case[2] /\ case' \in CasesOfGroup(g)
        /\ UNCHANGED K
Spec == Init /\ [][Next]_<<case, K>>
Holds == IF CaseOK(case) THEN TRUE ELSE PrintT(<<"case fails", case>>) /\ FALSE
=============================================================================
