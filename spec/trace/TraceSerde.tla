----------------------------- MODULE TraceSerde -----------------------------
(* Trace validation for C20.  Every recorded observation of palette's serde   *)
(* support must be a step of Serde.tla with the same outcome.  Events are     *)
(* independent of each other (a rejected line does not affect the next one). *)
(*   ser     the data-model tree palette wrote for a colour / Alpha / PreAlpha *)
(*   rt      serialize, then deserialize (recording observer, compact stream,  *)
(*           serde_json, ron; struct, sequence and holder forms; helpers)      *)
(*   de      a tree emitted by TLC (MC_Serde) handed to palette's Deserialize  *)
(*   flat    Alpha around every tree shape (unit, newtype, tuple, map, ...)    *)
(*   flatrt  ... and back                                                      *)
(*   arr     palette::serde::as_array         uint   palette::serde::as_uint   *)
EXTENDS Serde, Json, IOUtils, TLC

Rec == ndJsonDeserialize(IOEnv.TRACE)

VARIABLES l,      \* next line of the recording
          skip    \* unused (events are stateless); kept for the common shape of trace specifications
tvars == <<vars, l, skip>>

TInit == Init /\ l = 1 /\ skip = FALSE

(***************************************************************************)
(* Tolerances and carve-outs (named, justified).                            *)
(***************************************************************************)
(* serde_json without its `float_roundtrip` feature does not parse f64 bit-exactly: measured on the pinned
   tree over 3 000 000 random finite f64 (uniform ranges and raw bit patterns): 15.7 % differ, largest
   deviation 2 ulp.  That last bit is the format crate's business, not palette's (palette hands the f64 to
   serialize_f64 unchanged, which the recording observer checks bit for bit).  8x margin over the maximum.
   f32 through serde_json, and everything through ron, the recording observer and the compact stream, is
   bit-exact (measured: 0 differences in 3 000 000 / 1 000 000 values) and is required to be. *)
JsonF64Ulps == 16
JsonFmts == {"json", "json_seq", "json_hold", "json_arr", "json_flat"}    \* json_flat: the colour under #[serde(flatten)] in a user struct
Lossy(fmt, prim) == fmt \in JsonFmts /\ prim = "f64"

(* Compact (non-self-describing) streams read a struct through a SeqAccess limited to the struct's own
   field count; palette's AlphaDeserializer cannot extend the static field list ("we just hope it works
   anyway", alpha_deserializer.rs), so Alpha/PreAlpha around a *keyed* colour (struct, map) does not come
   back from such a stream on the pinned tree ("missing field `alpha`").  The statement's quantifier is
   JSON and RON; the outcome is recorded and left open here.  Set to TRUE to demand it. *)
CompactKeyedAlphaRequired == TRUE
CompactFmts == {"compact", "compact_arr"}
CompactOpen(fmt, wrap) == fmt = "compact" /\ wrap # "plain" /\ ~CompactKeyedAlphaRequired

-----------------------------------------------------------------------------
Ev(k) == l <= Len(Rec) /\ Rec[l].ev = k
(* first failing clause of a list of <<name, holds>> pairs, "" if all hold *)
RECURSIVE FirstFail(_)
FirstFail(cs) == IF cs = <<>> THEN "" ELSE IF ~Head(cs)[2] THEN Head(cs)[1] ELSE FirstFail(Tail(cs))
Judge(why) == l' = l + 1 /\ UNCHANGED skip /\ (why = "" \/ PrintT(<<"REJECT", l, why>>))

ValueOf(e, wrap, alpha) == [ty |-> e.ty, prim |-> e.prim, wrap |-> wrap, comps |-> e.in, alpha |-> alpha]
KnownType(e) == e.ty \in TypeNames /\ e.prim \in Prims

(* which of the two accepted hue forms the tree uses, and the (free) name of the newtype *)
HueItem(t, d) == IF d.hue # 0 /\ t.k \in Keyed \cup Positional /\ Len(t.items) >= d.hue THEN t.items[d.hue] ELSE Unit
HF(t, d) == IF HueItem(t, d).k = "newtype" THEN "newtype" ELSE "bare"
HName(t, d) == IF HueItem(t, d).k = "newtype" THEN HueItem(t, d).name ELSE ""

(* ---- ser ---- *)
TSer ==
  /\ Ev("ser")
  /\ LET e == Rec[l] IN
     IF ~KnownType(e) THEN UNCHANGED vars /\ Judge("unknown-type") ELSE
     LET d == TypeTable[e.ty]
         v == ValueOf(e, e.wrap, e.ina)
         p == ValueOf(e, "plain", "")
     IN /\ SerializeValue(v, HF(e.tree, d), HName(e.tree, d))
        /\ Judge(FirstFail(<<
             <<"serialize-failed", e.ok = "ok">>,
             <<"declared-fields", e.decl = d.fields /\ e.hue = d.hue /\ Range(e.meta) = d.meta>>,
             <<"metadata-in-output", NoMeta(e.tree)>>,
             <<"nested", Flat(e.tree, e.prim) /\ Depth(e.tree) = 1>>,
             <<"announced-length", WellFormed(e.tree)>>,
             <<"colour-tree", e.base = Ser(p, HF(e.base, d), HName(e.base, d))>>,
             <<"alpha-not-flattened", e.wrap # "plain" => e.tree = AddAlpha(e.base, Num(e.prim, e.ina))>>,
             <<"tree", e.tree = tree'>> >>))

(* ---- rt ---- *)
OutMatches(e, exp) ==
  /\ e.ok = exp.ok
  /\ exp.ok = "ok" =>
       /\ Len(e.out) = Len(exp.comps)
       /\ \A i \in DOMAIN exp.comps :
            e.out[i] = exp.comps[i] \/ (Lossy(e.fmt, e.prim) /\ Len(e.ulp) >= i /\ e.ulp[i] <= JsonF64Ulps)
       /\ \/ e.outa = exp.alpha
          \/ /\ Lossy(e.fmt, e.prim) /\ e.sw = e.dw /\ e.outa # "" /\ exp.alpha # ""
             /\ Len(e.ulp) = Len(exp.comps) + 1 /\ e.ulp[Len(e.ulp)] <= JsonF64Ulps
JsonTextOK(e, d) ==
  LET want == Range(d.fields) \cup (IF e.dw = "plain" THEN {} ELSE {"alpha"}) IN
  /\ Range(e.keys) = want /\ Len(e.keys) = Cardinality(want)      \* the declared fields (+ alpha), nothing else
  /\ Range(e.keys) \cap MetaNames = {}
  /\ e.depth = 1                                                   \* one level: alpha beside the colour's fields
  /\ d.hue # 0 => e.huenum = 1                                     \* the hue is a bare JSON number
TRt ==
  /\ Ev("rt")
  /\ LET e == Rec[l] IN
     IF ~KnownType(e) THEN UNCHANGED vars /\ Judge("unknown-type") ELSE
     LET d == TypeTable[e.ty]
         v == ValueOf(e, e.sw, e.ina)
     IN /\ DeserializeValue(e.ty, e.prim, e.dw, e.opt = 1, Ser(v, "bare", ""))
        /\ Judge(IF CompactOpen(e.fmt, e.dw) THEN "" ELSE FirstFail(<<
             <<"roundtrip", OutMatches(e, res')>>,
             <<"json-text", (e.fmt \in {"json", "json_flat"} /\ e.sw = e.dw) => JsonTextOK(e, d)>>,
             <<"json-array-text", e.fmt = "json_arr" => e.depth = 2>> >>))

(* ---- de ---- *)
TDe ==
  /\ Ev("de")
  /\ LET e == Rec[l] IN
     IF ~KnownType(e) THEN UNCHANGED vars /\ Judge("unknown-type") ELSE
     /\ DeserializeValue(e.ty, e.prim, e.wrap, e.opt = 1, e.tree)
     /\ Judge(IF res'.ok = "open" \/ CompactOpen(e.fmt, e.wrap) THEN ""
              ELSE FirstFail(<<
                <<"outcome", e.ok = res'.ok>>,
                <<"value", res'.ok = "ok" => (e.out = res'.comps /\ e.outa = res'.alpha)>> >>))

(* ---- flat / flatrt ---- *)
TFlat ==
  /\ Ev("flat") /\ UNCHANGED vars
  /\ LET e == Rec[l] IN
     Judge(FirstFail(<<
       <<"serialize-failed", e.ok = "ok">>,
       <<"alpha-not-flattened", e.tree = AddAlpha(e.base, Num(e.prim, e.alpha))>>,
       <<"announced-length", WellFormed(e.tree)>>,
       <<"nested", Depth(e.tree) <= Max2(1, Depth(e.base))>> >>))
TFlatRt ==
  /\ Ev("flatrt") /\ UNCHANGED vars
  /\ LET e == Rec[l] IN
     Judge(IF e.basek = "map"   \* string-keyed maps are not colours; reading them back is outside the statement
              \/ (e.fmt = "compact" /\ e.basek \in Keyed /\ ~CompactKeyedAlphaRequired) THEN ""
           ELSE FirstFail(<< <<"roundtrip", e.ok = "ok" /\ e.tree2 = e.tree>> >>))

(* ---- helpers ---- *)
TArr ==
  /\ Ev("arr")
  /\ LET e == Rec[l] IN
     IF ~KnownType(e) THEN UNCHANGED vars /\ Judge("unknown-type") ELSE
     LET v == ValueOf(e, e.wrap, e.ina) IN
     /\ SerializeAsArray(v, IF e.tree.k = "seq" THEN "seq" ELSE "tuple")
     /\ Judge(FirstFail(<<
          <<"serialize-failed", e.ok = "ok">>,
          <<"declared-fields", e.decl = TypeTable[e.ty].fields>>,
          <<"cast-order", e.cast = CastArray(v)>>,
          <<"tree", e.tree = tree'>> >>))
TUint ==
  /\ Ev("uint")
  /\ LET e == Rec[l] IN
     /\ SerializeAsUint(e.uprim, e.order, e.ch)
     /\ Judge(FirstFail(<<
          <<"packing", e.cast = Packed(e.order, e.ch)>>,
          <<"tree", e.tree = tree'>>,
          <<"roundtrip", e.ok = "ok" /\ e.back = e.cast /\ e.ch2 = e.ch>> >>))

TOther == /\ l <= Len(Rec)
          /\ Rec[l].ev \notin {"ser", "rt", "de", "flat", "flatrt", "arr", "uint"}
          /\ UNCHANGED vars /\ Judge("unknown-event")

TNext == TSer \/ TRt \/ TDe \/ TFlat \/ TFlatRt \/ TArr \/ TUint \/ TOther
TSpec == TInit /\ [][TNext]_tvars

Consumed == TLCGet("stats").diameter = Len(Rec) + 1 \/ PrintT(<<"UNCONSUMED", TLCGet("stats").diameter>>)
TInv == WellFormed(tree) /\ l >= 1
=============================================================================
