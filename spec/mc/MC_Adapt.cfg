SPECIFICATION Spec
CONSTANT
  Full = FALSE
INVARIANT Holds
CHECK_DEADLOCK FALSE
