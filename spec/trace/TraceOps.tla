------------------------------ MODULE TraceOps ------------------------------
(* Trace validation for C10.  Recorded calls of palette's colour operators are judged against      *)
(* Ops.tla on the exact numbers the floats denote.                                                 *)
(*                                                                                                 *)
(* {"ev":"op","gid":n,"fam":<operator family>,"m":<by-value method>,"form":F,"node":..,"t":..,     *)
(*  "in":[..],"in2":[..],"args":[..],"out":[[..],..],"lo":[..],"hi":[..],"panic":0|1,"call":..}    *)
(*   fam   Mix Lighten Saturate ShiftHue WithHue Clamp Add Sub Mul Div Complementary               *)
(*         SplitComplementary Analogous Triadic Tetradic                                           *)
(*   form  val                 by value on the bare colour - opens a group (gid strictly larger)   *)
(*         assign, slice       the assigning trait on the colour / on a slice of three colours     *)
(*         alpha, alpha_assign       on Alpha<C, T>: "in", "in2", every colour of "out" carry the   *)
(*         prealpha, prealpha_assign on PreAlpha<C>:  transparency as an extra last component      *)
(*         blanket, blanket_assign, blanket_slice, blanket_alpha, blanket_alpha_assign             *)
(*                             Darken* / Desaturate* (blanket impls): "args" is the negated amount  *)
(*   in2   the second colour (Mix, colour-colour arithmetic), [] otherwise                         *)
(*   args  factor / amount / hue / scalar, [] when the operator takes none                         *)
(*   out   the returned colours (one; two or three for the colour schemes)                        *)
(*   lo,hi the type's own min_ / max_ accessor values per component, [] where it has none           *)
(* {"ev":"consts",...} the accessors against the documented table; {"ev":"caps",...} the operator  *)
(* families the harness was compiled with against Ops!Caps; {"ev":"reset"} ends a scenario (one     *)
(* colour's factor sweep) - recordings are cut into chunks in front of reset lines only.           *)
(*                                                                                                 *)
(* Every line is judged on its own (a rejected line is reported and the next one examined); the    *)
(* state is the machine of Ops.tla: the current group [gid, sig, ref, aref, pref] and the previous *)
(* reference result of the running sweep.                                                          *)
(*                                                                                                 *)
(* What the wrappers do with the transparency (alpha.rs, pre_alpha.rs), as required here:          *)
(*   Mix                      mixed linearly with the same clamped factor                         *)
(*   Lighten Saturate ShiftHue WithHue and the colour schemes     untouched, bit for bit           *)
(*   Clamp                    clamped to [0, 1]                                                    *)
(*   Add Sub Mul Div          the same operation applied to it (with the other colour's           *)
(*                            transparency, or with the scalar)                                    *)
(* and the colour part is bit-identical to the by-value result on the bare colour in every case.   *)
EXTENDS Ops, Json, IOUtils, TLC

Rec == ndJsonDeserialize(IOEnv.TRACE)
VARIABLE l
tvars == <<vars, l>>

DySeq(js) == [i \in DOMAIN js |-> Dy(js[i])]
BoundSeq(js) == [i \in DOMAIN js |-> IF js[i] = <<>> THEN <<>> ELSE Dy(js[i])]
N(e) == NComp(e.node)
Col(e, js) == IF Len(js) > N(e) THEN SubSeq(js, 1, N(e)) ELSE js
Cols(e, outs) == [k \in DOMAIN outs |-> Col(e, outs[k])]
NegNum(j) == IF Len(j) <= 2 THEN j ELSE <<-j[1]>> \o Tail(j)          \* exact negation of a logged finite number
NegArgs(a) == [i \in DOMAIN a |-> NegNum(a[i])]
Wrapped == {"alpha", "alpha_assign", "prealpha", "prealpha_assign", "blanket_alpha", "blanket_alpha_assign"}
Blanket == {"blanket", "blanket_assign", "blanket_slice", "blanket_alpha", "blanket_alpha_assign"}
Forms == {"val", "assign", "slice"} \cup Wrapped \cup Blanket
OutFin(e) == \A k \in DOMAIN e.out : AllFin(e.out[k])

(* ---- the by-value call on the bare colour against the model *)
Untouched(e, idx) == \A i \in 1..N(e) : i \notin idx => e.out[1][i] = e.in[i]

MixWhy(e) ==
  LET a == DySeq(e.in)  b == DySeq(e.in2)  f == Dy(e.args[1])  o == DySeq(e.out[1])
  IN IF ~MixOK(e.node, e.t, a, b, f, o) THEN "mix-value"
     ELSE IF ~Between(e.node, e.t, a, b, o) THEN "mix-not-between"
     ELSE "ok"

IncWhy(e) ==
  LET c == DySeq(e.in)  f == Dy(e.args[1])  o == DySeq(e.out[1])
      lo == BoundSeq(e.lo)  hi == BoundSeq(e.hi)
      sweep == prev # <<>> /\ prev[1] = SweepKey(e) /\ DyLt(Dy(prev[2]), f)
  IN IF ~Untouched(e, AffIdx(e.fam, e.node)) THEN "touched-other-component"
     ELSE IF ~IncreaseOK(e.fam, e.m, e.node, e.t, c, lo, hi, f, o) THEN "value"
     ELSE IF RangeApplies(e.node, c, lo, hi, f) /\ ~RangeOK(e.fam, e.node, lo, hi, o) THEN "leaves-range"
     ELSE IF sweep /\ ~MonoOK(e.fam, e.node, e.t, lo, hi, DySeq(prev[3][1]), o) THEN "not-monotone"
     ELSE "ok"

HueWhy(e) ==
  LET h == HueIdx(e.node)
  IN IF ~Untouched(e, {h}) THEN "touched-other-component"
     ELSE IF e.fam = "WithHue" THEN (IF e.out[1][h] = e.args[1] THEN "ok" ELSE "hue-not-set")
     ELSE IF ShiftHueOK(e.node, e.t, DySeq(e.in), Dy(e.args[1]), DySeq(e.out[1])) THEN "ok" ELSE "hue-shift-value"

SchemeWhy(e) ==
  LET c == DySeq(e.in)  h == HueIdx(e.node)
  IN IF Len(e.out) # SchemeLen(e.node, e.m) THEN "scheme-size"
     ELSE IF h # 0
     THEN IF \E k \in DOMAIN e.out : \E i \in 1..N(e) : i # h /\ e.out[k][i] # e.in[i] THEN "touched-other-component"
          ELSE IF \E k \in DOMAIN e.out : ~SchemeHueOK(e.node, e.t, c, e.m, k, DySeq(e.out[k])) THEN "scheme-hue"
          ELSE "ok"
     ELSE IF \E k \in DOMAIN e.out : \E i \in 1..N(e) : ~DyEq(Dy(e.out[k][i]), SchemeLab(e.node, c, e.m, k)[i]) THEN "scheme-lab"
          ELSE "ok"

ArithWhy(e) ==
  LET a == DySeq(e.in)  o == DySeq(e.out[1])
      y(i) == IF e.in2 # <<>> THEN Dy(e.in2[i]) ELSE Dy(e.args[1])
  IN IF \E i \in 1..N(e) : IsFin(e.out[1][i]) /\ ~ArithCompOK(e.fam, e.t, a[i], y(i), o[i]) THEN "arith-value"
     ELSE IF \E i \in 1..N(e) : ~IsFin(e.out[1][i]) /\ ~(e.fam = "Div" /\ DyIsZero(y(i))) THEN "non-finite"
     ELSE "ok"

RefWhy(e) ==
  IF e.gid <= grp.gid THEN "gid-not-increasing"
  ELSE IF Len(e.in) # N(e) \/ e.out = <<>> \/ (\E k \in DOMAIN e.out : Len(e.out[k]) # N(e)) THEN "shape"
  ELSE IF e.fam \notin Caps[e.node] THEN "operator-not-in-capability-table"
  ELSE IF e.fam \in ArithFams THEN ArithWhy(e)
  ELSE IF ~OutFin(e) THEN "non-finite"
  ELSE CASE e.fam = "Mix" -> MixWhy(e)
         [] e.fam \in FactorFams -> IncWhy(e)
         [] e.fam \in {"ShiftHue", "WithHue"} -> HueWhy(e)
         [] e.fam \in SchemeFams -> SchemeWhy(e)
         [] e.fam = "Clamp" -> "ok"            \* the value semantics of clamp is C03's (Bounds.tla); here: the forms agree

(* ---- a variant against the group's reference *)
AlphaIn(e) == e.in[N(e) + 1]
AlphaWhy(e) ==
  LET ai == Dy(AlphaIn(e))
      outs == [k \in DOMAIN e.out |-> e.out[k][N(e) + 1]]
      ao == Dy(outs[1])
  IN IF e.fam = "Mix"
     THEN LET bi == Dy(e.in2[N(e) + 1])  f == Dy(e.args[1])
          IN IF IsFin(outs[1]) /\ MixCompOK(e.t, ai, bi, f, ao) /\ BetweenComp(e.t, ai, bi, ao) THEN "ok" ELSE "alpha-not-mixed-linearly"
     ELSE IF e.fam = "Clamp" THEN (IF IsFin(outs[1]) /\ DyEq(ao, Clamp01(ai)) THEN "ok" ELSE "alpha-not-clamped")
     ELSE IF e.fam \in ArithFams
     THEN LET y == IF e.in2 # <<>> THEN Dy(e.in2[N(e) + 1]) ELSE Dy(e.args[1])
          IN IF ~IsFin(outs[1]) THEN (IF e.fam = "Div" /\ DyIsZero(y) THEN "ok" ELSE "alpha-non-finite")
             ELSE IF ArithCompOK(e.fam, e.t, ai, y, ao) THEN "ok" ELSE "alpha-arith-value"
     ELSE IF \A k \in DOMAIN outs : outs[k] = AlphaIn(e) THEN "ok" ELSE "alpha-touched"

VarWhy(e) ==
  IF e.gid # grp.gid THEN (IF e.gid > grp.gid THEN "group-not-opened-by-value" ELSE "gid-not-increasing")
  ELSE IF e.form \notin Forms THEN "unknown-form"
  ELSE LET sig == grp.sig
           wrapped == e.form \in Wrapped
           want == IF wrapped THEN N(e) + 1 ELSE N(e)
           args == IF e.form \in Blanket THEN NegArgs(e.args) ELSE e.args
           aw == AlphaWhy(e)
       IN IF Len(e.in) # want \/ (e.in2 # <<>> /\ Len(e.in2) # want) \/ (\E k \in DOMAIN e.out : Len(e.out[k]) # want) THEN "shape"
          ELSE IF <<e.fam, e.m, e.node, e.t, Col(e, e.in), Col(e, e.in2), args>> # sig THEN "inputs-differ-from-group"
          ELSE IF e.form \in Blanket /\ e.fam \notin FactorFams THEN "unknown-form"
          ELSE IF Cols(e, e.out) # grp.ref THEN "differs-from-by-value"
          ELSE IF wrapped /\ aw # "ok" THEN aw
          ELSE IF e.form = "alpha_assign" /\ grp.aref # <<>> /\ e.out # grp.aref THEN "alpha-assign-differs"
          ELSE IF e.form = "prealpha_assign" /\ grp.pref # <<>> /\ e.out # grp.pref THEN "prealpha-assign-differs"
          ELSE "ok"

(* ---- start-up events *)
ConstsWhy(e) ==
  IF Len(e.lo) # NComp(e.node) \/ Len(e.hi) # NComp(e.node) THEN "component-count"
  ELSE IF \E i \in DOMAIN e.lo : ~AccessorAgrees(DocBounds[e.node][i][1], e.lo[i], e.t) THEN "min-accessor-differs-from-documentation"
  ELSE IF \E i \in DOMAIN e.hi : ~AccessorAgrees(DocBounds[e.node][i][2], e.hi[i], e.t) THEN "max-accessor-differs-from-documentation"
  ELSE "ok"
CapsWhy(e) == IF {e.fams[i] : i \in DOMAIN e.fams} = Caps[e.node] THEN "ok" ELSE "capability-table-differs"

-----------------------------------------------------------------------------
TInit == Init /\ l = 1

Say(w) == IF w = "ok" THEN TRUE ELSE PrintT(<<"REJECT", l, w>>)
IsOp == l <= Len(Rec) /\ Rec[l].ev = "op"

TReset == /\ l <= Len(Rec) /\ Rec[l].ev = "reset"
          /\ Reset /\ l' = l + 1
TConsts == /\ l <= Len(Rec) /\ Rec[l].ev = "consts"
           /\ Say(ConstsWhy(Rec[l])) /\ UNCHANGED vars /\ l' = l + 1
TCaps == /\ l <= Len(Rec) /\ Rec[l].ev = "caps"
         /\ Say(CapsWhy(Rec[l])) /\ UNCHANGED vars /\ l' = l + 1
(* palette panicked: reported, the machine does not move *)
TPanic == /\ IsOp /\ Rec[l].panic # 0
          /\ Say("panic") /\ UNCHANGED vars /\ l' = l + 1
(* the by-value call: judged against the model, then it is the group's reference (also when it was rejected,
   so that its variants are still compared with it) *)
TOpen == /\ IsOp /\ Rec[l].panic = 0 /\ Rec[l].form = "val"
         /\ Say(RefWhy(Rec[l]))
         /\ IF Rec[l].gid > grp.gid THEN Open(Rec[l]) ELSE UNCHANGED vars
         /\ l' = l + 1
TVariant == /\ IsOp /\ Rec[l].panic = 0 /\ Rec[l].form # "val"
            /\ Say(VarWhy(Rec[l]))
            /\ IF Rec[l].gid = grp.gid THEN Join(Rec[l]) ELSE UNCHANGED vars
            /\ l' = l + 1

TNext == TReset \/ TConsts \/ TCaps \/ TPanic \/ TOpen \/ TVariant
TSpec == TInit /\ [][TNext]_tvars

Consumed == TLCGet("stats").diameter = Len(Rec) + 1 \/ PrintT(<<"UNCONSUMED", TLCGet("stats").diameter>>)
TInv == TypeOK
=============================================================================
