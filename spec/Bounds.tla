------------------------------- MODULE Bounds -------------------------------
(***************************************************************************)
(* C03 - one bounds contract for clamped, checked and unclamped conversion. *)
(*                                                                         *)
(* A colour is a sequence of exact dyadic numbers (module Fx), one per      *)
(* component in declared order, alpha last when present.  Its type gives,   *)
(* per component, a lower and an upper bound; an absent bound is <<>>.      *)
(* The HWB-like types (hue, whiteness, blackness) additionally require      *)
(* whiteness + blackness <= 1.                                              *)
(*                                                                         *)
(*   Within(c)  - the colour is inside the documented bounds                *)
(*   Clamp(c)   - component-wise selection of the nearest bound; for the    *)
(*                HWB-like types: both clamped to >= 0 and, if their sum    *)
(*                exceeds 1, both divided by the sum                        *)
(*   FromColor = Clamp o Unclamped                                         *)
(*   TryFromColor = Ok(u) if Within(u) else Err(u), u = Unclamped           *)
(***************************************************************************)
EXTENDS Fx, Sequences

Absent(b) == b = <<>>
DOne == DyFromInt(1)

CompWithin(x, lo, hi) == (Absent(lo) \/ DyLe(Dy(lo), x)) /\ (Absent(hi) \/ DyLe(x, Dy(hi)))
CompClamp(x, lo, hi) == IF ~Absent(lo) /\ DyLt(x, Dy(lo)) THEN Dy(lo)
                        ELSE IF ~Absent(hi) /\ DyLt(Dy(hi), x) THEN Dy(hi)
                        ELSE x

(* A component whose upper bound carries a documented slack 2^-sb (sb = 0: none): the effective upper
   bound is some value in [hi, hi + 2^-sb].  Three-valued judgement of a flag / a clamp result. *)
HiMax(hi, sb) == IF sb = 0 THEN Dy(hi) ELSE DyAdd(Dy(hi), DyPow2(-sb))
CompFlagOk(x, lo, hi, sb, flag) ==
  IF ~Absent(lo) /\ DyLt(x, Dy(lo)) THEN flag = 0
  ELSE IF Absent(hi) \/ DyLe(x, Dy(hi)) THEN flag = 1
  ELSE IF DyLt(HiMax(hi, sb), x) THEN flag = 0
  ELSE TRUE
CompClampOk(x, lo, hi, sb, out) ==
  IF ~Absent(lo) /\ DyLt(x, Dy(lo)) THEN out = Dy(lo)
  ELSE IF Absent(hi) \/ DyLe(x, Dy(hi)) THEN out = x
  ELSE IF DyLt(HiMax(hi, sb), x) THEN DyLe(Dy(hi), out) /\ DyLe(out, HiMax(hi, sb))
  ELSE out = x \/ (DyLe(Dy(hi), out) /\ DyLe(out, x))

(* c: sequence of Dy; lo, hi: sequences of logged bounds *)
BoxWithin(c, lo, hi) == \A i \in DOMAIN c : CompWithin(c[i], lo[i], hi[i])
BoxClamp(c, lo, hi) == [i \in DOMAIN c |-> CompClamp(c[i], lo[i], hi[i])]

IsHwbLike(node) == node \in {"hwb", "okhwb"}

(* HWB-like: components 2 and 3 are whiteness and blackness *)
HwbSum(c) == DyAdd(c[2], c[3])
HwbWithin(c, lo, hi) == BoxWithin(c, lo, hi) /\ DyLe(HwbSum(c), DOne)

(* exact result of the HWB clamp as numerators over a common denominator: <<wn, bn, d>> *)
HwbClampQ(w, b) == LET w0 == DyMax(w, DyZero)  b0 == DyMax(b, DyZero)  s == DyAdd(w0, b0)
                   IN IF DyLe(s, DOne) THEN <<w0, b0, DOne>> ELSE <<w0, b0, s>>
HwbWithinQ(q) == /\ DyLe(DyZero, q[1]) /\ DyLe(q[1], q[3])
                 /\ DyLe(DyZero, q[2]) /\ DyLe(q[2], q[3])
                 /\ DyLe(DyAdd(q[1], q[2]), q[3])
(* clamp applied to a rational colour (wn/d, bn/d), d > 0 *)
HwbClampQQ(q) == LET w0 == DyMax(q[1], DyZero)  b0 == DyMax(q[2], DyZero)  s == DyAdd(w0, b0)
                 IN IF DyLe(s, q[3]) THEN <<w0, b0, q[3]>> ELSE <<w0, b0, s>>
(* equality of rational pairs by cross-multiplication *)
QEq(p, q) == DyEq(DyMul(p[1], q[3]), DyMul(q[1], p[3])) /\ DyEq(DyMul(p[2], q[3]), DyMul(q[2], p[3]))

Within(node, c, lo, hi) == IF IsHwbLike(node) THEN HwbWithin(c, lo, hi) ELSE BoxWithin(c, lo, hi)

-----------------------------------------------------------------------------
(* Judging what the implementation returned (floating point): tolerance only where the contract
   divides (HWB) or adds (the w + b <= 1 test); everything else is a selection and must be exact. *)

(* relative slack of one floating point operation chain of the component type: 2^-RelBits(t) *)
RelBits(t) == IF t = "f32" THEN 20 ELSE 48
SumSlack(t) == DyPow2(-(RelBits(t) + 1))

DyNearRel(x, y, bits) == DyLe(DyAbs(DySub(x, y)), DyMulPow2(DyMax(DyAbs(x), DyAbs(y)), -bits))

(* definite membership, per component with slack bits sb: inside for sure / outside for sure *)
CompIn(x, lo, hi) == CompWithin(x, lo, hi)
CompOut(x, lo, hi, sbi) == (~Absent(lo) /\ DyLt(x, Dy(lo))) \/ (~Absent(hi) /\ DyLt(HiMax(hi, sbi), x))
BoxIn(c, lo, hi) == \A i \in DOMAIN c : CompIn(c[i], lo[i], hi[i])
BoxOut(c, lo, hi, sb) == \E i \in DOMAIN c : CompOut(c[i], lo[i], hi[i], sb[i])

(* is `flag` (0/1) an admissible answer of is_within_bounds for colour c?  sb: slack bits per component *)
WithinFlagOk(node, t, c, lo, hi, sb, flag) ==
  IF BoxOut(c, lo, hi, sb) THEN flag = 0
  ELSE IF ~IsHwbLike(node) THEN (BoxIn(c, lo, hi) => flag = 1)
  ELSE LET s == HwbSum(c)
       IN IF DyLt(DyAdd(DOne, SumSlack(t)), s) THEN flag = 0
          ELSE IF DyLe(s, DOne) /\ BoxIn(c, lo, hi) THEN flag = 1
          ELSE TRUE      \* the sum is within one rounding of 1: either answer

(* is `out` an admissible result of clamping `c`? *)
ClampOk(node, t, c, lo, hi, sb, out) ==
  IF ~IsHwbLike(node) THEN \A i \in DOMAIN c : CompClampOk(c[i], lo[i], hi[i], sb[i], out[i])
  ELSE LET w0 == DyMax(c[2], DyZero)  b0 == DyMax(c[3], DyZero)  s == DyAdd(w0, b0)
           rest == \A i \in DOMAIN c : i \notin {2, 3} => CompClampOk(c[i], lo[i], hi[i], sb[i], out[i])
       IN /\ rest
          /\ \/ DyLe(s, DyAdd(DOne, SumSlack(t))) /\ out[2] = w0 /\ out[3] = b0
             \/ /\ DyLt(DOne, s)
                /\ DyNearRel(DyMul(out[2], s), w0, RelBits(t))
                /\ DyNearRel(DyMul(out[3], s), b0, RelBits(t))
=============================================================================
