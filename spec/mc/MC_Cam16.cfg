SPECIFICATION Spec
CONSTANTS
  Emit = TRUE
INVARIANTS Holds EmitDone
CHECK_DEADLOCK FALSE
