#!/bin/sh
# usage: tools/try_seeded.sh <dir with patch.diff> <property id> [more ids...]
# Runs the quick checks of the given properties against a scratch worktree of /repo with the patch applied
# (sandbox, /repo itself is not touched) and prints their exit codes. Cleans up afterwards.
d=$(cd "$1" && pwd); shift
n="seed_$(basename "$d")_$$"
eval $(/verif/tools/mksandbox.sh "$n")
if ! git -C /tmp/pvsb/$n/repo apply "$d/patch.diff"; then echo "patch does not apply"; /verif/tools/rmsandbox.sh "$n"; exit 2; fi
for p in "$@"; do
  cd /verif && ./check "$p" > /tmp/pvsb/$n/out/$p.log 2>&1; rc=$?
  echo "RESULT $(basename "$d") $p exit=$rc $(grep -c '^VIOLATION' /tmp/pvsb/$n/out/$p.log) violation lines; $(grep -m1 '^  ' /tmp/pvsb/$n/out/$p.log | cut -c1-200)"
  [ $rc -eq 2 ] && tail -5 /tmp/pvsb/$n/out/$p.log
done
unset VERIF_HARNESS_DIR VERIF_OUT_DIR
/verif/tools/rmsandbox.sh "$n"
