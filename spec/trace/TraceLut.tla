------------------------------ MODULE TraceLut ------------------------------
(* Trace validation for C05.  Every recorded call of palette's encoders,      *)
(* decoders and float curves (harness/src/bin/lut.rs) is judged against       *)
(* Lut.tla (bit-exact integer model over the DUMPED tables, LUT_CONSTS) and   *)
(* Transfer.tla (the published curves).  A disagreement prints a REJECT line  *)
(* and the next line is examined.  Events are independent except the `curve`  *)
(* events, whose monotonicity is judged against the previous point of the     *)
(* same group (state `prev`, cleared by `reset`).  A panic is always rejected.*)
(*                                                                            *)
(* Events (every event has "panic": 0|1; an f32 input is [neg, mag]):         *)
(*  step  enc api mode first last code   maximal run of equal outputs of the  *)
(*        REAL encoder in real-number order: must be a maximal run of the     *)
(*        model with the same code; for the public API also |max f - code| <  *)
(*        0.6 at both ends                                                    *)
(*  nan   enc api n code      all NaN patterns gave code                      *)
(*  abort enc api why         the sweep gave up: rejected                     *)
(*  spec  enc api x code      one special input                               *)
(*  pts   enc api mags codes  a batch of positive inputs                      *)
(*  f64   enc x code          f64 input: rounded to f32 (nearest even), then  *)
(*        the model                                                           *)
(*  dec   enc k max x32 x64 back32 back64   decoders of code k                *)
(*  reset enc t dir / curve enc t dir x y back   float curves, sorted by x    *)
(*  form  what got want       Rgb / Luma forms = component-wise calls         *)
EXTENDS Lut, TLC

Rec == ndJsonDeserialize(IOEnv.TRACE)

VARIABLES l, skip
tvars == <<vars, l, skip>>

TInit == Init /\ l = 1 /\ skip = FALSE

Ev(kind) == l <= Len(Rec) /\ Rec[l].ev = kind

(* the verdict on the current line: a short reason (TLC wraps long tuples), "ok" accepts *)
Judge(op, why) ==
  /\ IF why = "ok" THEN TRUE ELSE PrintT(<<"REJECT", l, why>>)
  /\ last' = op /\ l' = l + 1 /\ skip' = FALSE

StepWhy(e) ==
  IF e.panic # 0 THEN "panic"
  ELSE IF ~IsEnc(e.enc) THEN "unknown-encoding"
  ELSE IF ~(PosOK(e.first) /\ PosOK(e.last) /\ PosLe(e.first, e.last)) THEN "malformed-run"
  ELSE IF Encode(e.enc, e.first[1], e.first[2]) # e.code \/ Encode(e.enc, e.last[1], e.last[2]) # e.code THEN "code-differs-from-model"
  ELSE IF ~RunConstant(e.enc, e.first, e.last, e.code) THEN "model-not-constant-on-run"
  ELSE IF ~RunMaximal(e.enc, e.first, e.last, e.code) THEN "run-not-maximal-in-model"
  ELSE IF e.api = "pub" /\ ~RunFaithful(e.enc, e.first, e.last, e.code) THEN "error-0.6-or-more"
  ELSE "ok"
TrStep == Ev("step") /\ Judge("from_linear_run", StepWhy(Rec[l])) /\ UNCHANGED prev

NanWhy(e) == IF e.panic # 0 THEN "panic"
             ELSE IF ~IsEnc(e.enc) THEN "unknown-encoding"
             ELSE IF Encode(e.enc, 0, INF + 1) # e.code \/ Encode(e.enc, 1, INF + 1) # e.code THEN "nan-code-differs-from-model"
             ELSE "ok"
TrNan == Ev("nan") /\ Judge("from_linear_int", NanWhy(Rec[l])) /\ UNCHANGED prev

TrAbort == Ev("abort") /\ Judge("from_linear_run", IF Rec[l].panic # 0 THEN "panic" ELSE "sweep-aborted") /\ UNCHANGED prev

SpecWhy(e) == IF e.panic # 0 THEN "panic"
              ELSE IF ~IsEnc(e.enc) THEN "unknown-encoding"
              ELSE IF Encode(e.enc, e.x[1], e.x[2]) # e.code THEN "code-differs-from-model"
              ELSE "ok"
TrSpec == Ev("spec") /\ Judge("from_linear_int", SpecWhy(Rec[l])) /\ UNCHANGED prev

PtsWhy(e) == IF e.panic # 0 THEN "panic"
             ELSE IF ~IsEnc(e.enc) \/ Len(e.mags) # Len(e.codes) THEN "unknown-encoding"
             ELSE IF \E j \in DOMAIN e.mags : Encode(e.enc, 0, e.mags[j]) # e.codes[j] THEN "code-differs-from-model"
             ELSE "ok"
TrPts == Ev("pts") /\ Judge("from_linear_int", PtsWhy(Rec[l])) /\ UNCHANGED prev

F64Why(e) == IF e.panic # 0 THEN "panic"
             ELSE IF ~IsEnc(e.enc) THEN "unknown-encoding"
             ELSE IF EncodeF64(e.enc, e.x) # e.code THEN "f64-code-differs-from-model"
             ELSE "ok"
TrF64 == Ev("f64") /\ Judge("from_linear_int_f64", F64Why(Rec[l])) /\ UNCHANGED prev

DecWhy(e) ==
  IF e.panic # 0 THEN "panic"
  ELSE IF ~IsEnc(e.enc) \/ e.max # MaxCode(e.enc) \/ e.k \notin 0..e.max THEN "unknown-encoding"
  ELSE IF ~(IsFin(e.x32) /\ IsFin(e.x64)) THEN "decoded-not-finite"
  ELSE IF e.back32 # e.k \/ e.back64 # e.k THEN "decode-then-encode-differs"
  ELSE IF ~DecodedOK(e.enc, e.k, Dy(e.x32), Dy(e.x64)) THEN "decoded-off-curve"
  ELSE "ok"
TrDec == Ev("dec") /\ Judge("into_linear_int", DecWhy(Rec[l])) /\ UNCHANGED prev

TrReset == Ev("reset") /\ StartCurve /\ l' = l + 1 /\ skip' = FALSE

CurveFinite(e) == IsFin(e.x) /\ IsFin(e.y) /\ IsFin(e.back) /\ Dy(e.x)[1] >= 0 /\ Dy(e.y)[1] >= 0
CurveWhy(e) ==
  IF e.panic # 0 THEN "panic"
  ELSE IF ~(e.enc \in Curves /\ e.t \in {"f32", "f64"} /\ e.dir \in {"enc", "dec"}) THEN "unknown-curve"
  ELSE IF ~CurveFinite(e) THEN "not-finite-or-negative"
  ELSE LET v == Dy(e.x)  w == Dy(e.y) IN
       IF ~(IF e.dir = "enc" THEN CurveOK(e.enc, e.t, v, w) ELSE CurveOK(e.enc, e.t, w, v)) THEN "off-the-published-curve"
       ELSE IF ~RoundTripOK(e.enc, e.t, e.dir, v, Dy(e.back)) THEN "not-mutually-inverse"
       ELSE IF Continues(e.enc, e.t, e.dir) /\ ~DyLe(prev[4], v) THEN "recording-not-sorted"
       ELSE IF Continues(e.enc, e.t, e.dir) /\ ~MonotoneOK(e.enc, e.t, e.dir, prev[4], prev[5], v, w) THEN "not-monotone"
       ELSE "ok"
TrCurve ==
  /\ Ev("curve")
  /\ LET e == Rec[l] IN
       /\ Judge("float_curve", CurveWhy(e))
       /\ prev' = IF e.panic = 0 /\ CurveFinite(e) THEN <<e.enc, e.t, e.dir, Dy(e.x), Dy(e.y)>> ELSE NoPrev

TrForm == /\ Ev("form")
          /\ Judge("form", IF Rec[l].panic # 0 THEN "panic" ELSE IF Rec[l].got # Rec[l].want THEN "form-differs-from-componentwise" ELSE "ok")
          /\ UNCHANGED prev

TNext == TrStep \/ TrNan \/ TrAbort \/ TrSpec \/ TrPts \/ TrF64 \/ TrDec \/ TrReset \/ TrCurve \/ TrForm
TSpec == TInit /\ [][TNext]_tvars

Consumed == TLCGet("stats").diameter = Len(Rec) + 1 \/ PrintT(<<"UNCONSUMED", TLCGet("stats").diameter>>)
TInv == TypeOK
=============================================================================
