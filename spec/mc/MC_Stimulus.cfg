SPECIFICATION MCSpec
CONSTANTS
  Emit = FALSE
  Stride = 1
INVARIANTS TypeOK IntCases RoundTrips FloatCases SpecialCases SweepCases EmitCase
CHECK_DEADLOCK FALSE
