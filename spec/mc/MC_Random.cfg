SPECIFICATION MCSpec
CONSTANTS
  LN = 2
  G = 2
  Emit = TRUE
  Full = TRUE
INVARIANTS TypeOK CellMeasure FineMonotone EmitDone
  PtExact PtCoordUniform PtEitherList PtHueOff PtHeightOff PtBounds
  UniExact UniOffArc UniHueMisplaced UniAlpha UniLowCorner UniBelowLow UniEqualEnds
CHECK_DEADLOCK FALSE
