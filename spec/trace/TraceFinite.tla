----------------------------- MODULE TraceFinite -----------------------------
(* Trace validation for C07: for every colour in the statement's domain -      *)
(* finite components inside the documented range, each exactly on a bound (or    *)
(* exactly zero) or at least a billionth of the range away from it - every call  *)
(* returns finite components and does not panic.  Event kinds: `walk` (one or    *)
(* more conversions), `bounds` (clamp family), `fin` (any other API call,        *)
(* pre-digested by the harness to: inputs, finite flag, panic flag).             *)
EXTENDS ColourEq, ConvGraph, Json, IOUtils, TLC

Rec == ndJsonDeserialize(IOEnv.TRACE)
VARIABLE l

Billionth(r) == FxDivInt(FxDivInt(FxDivInt(r, 1000), 1000), 1000)

(* x in [lo, hi] and on a bound, zero, or >= 1e-9 * range away from both bounds *)
CompInDomain(x, b) ==
  IF b[1] = NoB \/ b[2] = NoB THEN TRUE      \* no documented range (hue, Oklab a/b, open-ended chroma)
  ELSE LET lo == DocFx(b[1])  hi == DocFx(b[2])  m == Billionth(FxSub(hi, lo))
       IN /\ FxLe(lo, x) /\ FxLe(x, hi)
          /\ \/ x = lo \/ x = hi \/ FxIsZero(x)
             \/ (FxLe(FxAdd(lo, m), x) /\ FxLe(x, FxSub(hi, m)))

(* documented upper bounds are decimal; a float bound value such as f32(0.95047) counts as "on the bound" *)
OnBoundFloat(x, b, t) == b[2] # NoB /\ FxNear(x, DocFx(b[2]), 100, IF t = "f32" THEN 22 ELSE 50)

InDomain(node, t, vals) ==
  /\ AllFin(vals)
  /\ \A i \in 1..NComp(node) :
       LET x == FxOf(vals[i])  b == DocBounds[node][i]
       IN CompInDomain(x, b) \/ OnBoundFloat(x, b, t)
  /\ (node \in {"hwb", "okhwb"} => FxLe(FxAdd(FxOf(vals[2]), FxOf(vals[3])), FxOne))
  /\ (Len(vals) > NComp(node) =>      \* alpha in [0, 1]
        LET a == FxOf(vals[Len(vals)]) IN FxLe(FxZero, a) /\ FxLe(a, FxOne))

WalkWhy(e) ==
  IF ~InDomain(e.nodes[1], e.t, e.vals[1]) THEN "ok"          \* outside the statement's domain: not judged
  ELSE IF e.missing = 1 THEN "ok"
  ELSE IF e.panic = 1 THEN "panic"
  ELSE IF e.fin = 0 THEN "non-finite-result"
  ELSE "ok"

BoundsWhy(e) ==
  IF ~InDomain(e.node, e.t, e["in"]) THEN "ok"
  ELSE IF e.panic = 1 THEN "panic"
  ELSE IF ~(AllFin(e.clamp) /\ AllFin(e.clamp_assign)) THEN "non-finite-result"
  ELSE "ok"

(* generic pre-digested call: e.args = sequence of [node, vals] *)
FinWhy(e) ==
  IF \E i \in DOMAIN e.args : ~InDomain(e.args[i].node, e.t, e.args[i].vals) THEN "ok"
  ELSE IF e.panic = 1 THEN "panic"
  ELSE IF e.fin = 0 THEN "non-finite-result"
  ELSE "ok"

Why(e) == CASE e.ev = "walk" -> WalkWhy(e)
            [] e.ev = "bounds" -> BoundsWhy(e)
            [] e.ev = "fin" -> FinWhy(e)
            [] OTHER -> "ok"

TInit == l = 1
TNext == /\ l <= Len(Rec)
         /\ LET w == Why(Rec[l]) IN IF w = "ok" THEN TRUE ELSE PrintT(<<"REJECT", l, w>>)
         /\ l' = l + 1
TSpec == TInit /\ [][TNext]_l
Consumed == TLCGet("stats").diameter = Len(Rec) + 1 \/ PrintT(<<"UNCONSUMED", TLCGet("stats").diameter>>)
=============================================================================
