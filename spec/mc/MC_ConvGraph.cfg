SPECIFICATION Spec
INVARIANTS Terminates OnlyManualEdges Chains Short Emit
CHECK_DEADLOCK FALSE
