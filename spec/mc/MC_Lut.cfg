SPECIFICATION MCSpec
CONSTANTS
  Block = 256
  ClsStride = 1
  Stride8 = 1
  Stride16 = 64
  Emit = TRUE
INVARIANTS Inv
CHECK_DEADLOCK FALSE
