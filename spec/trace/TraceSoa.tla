------------------------------ MODULE TraceSoa ------------------------------
(* Trace validation for C18: every recorded call on a real palette          *)
(* struct-of-arrays collection must be a step of Soa.tla with the same      *)
(* reply, and the projected implementation state (every component           *)
(* collection, read back as tokens) must equal the reference vector.        *)
EXTENDS Soa, Json, IOUtils, TLC

Rec == ndJsonDeserialize(IOEnv.TRACE)

VARIABLES l,      \* next line of the recording
          skip    \* TRUE after a rejected line, until the next reset

tvars == <<vars, l, skip>>

TInit == Init /\ l = 1 /\ skip = FALSE

ModelStep(e) ==
  CASE e.op = "push" -> Push
    [] e.op = "pop" -> Pop
    [] e.op = "extend" -> Extend(e.a)
    [] e.op = "collect" -> Collect(e.a)
    [] e.op = "with_capacity" -> WithCapacity(e.a)
    [] e.op = "clear" -> Clear
    [] e.op = "drain" -> DrainK(e.k, e.a, e.b, e.c, e.d)
    [] e.op = "get" -> Get(e.a)
    [] e.op = "get_range" -> GetRangeK(e.k, e.a, e.b)
    [] e.op = "get_mut_write" -> GetMutWrite(e.a)
    [] e.op = "get_mut_range_write" -> GetMutRangeWriteK(e.k, e.a, e.b)
    [] e.op = "iter" -> Iter
    [] e.op = "iter_rev" -> IterRev
    [] e.op = "iter_mixed" -> IterMixed(e.a)
    [] e.op = "iter_mut_write" -> IterMutWrite
    [] e.op = "into_iter" -> IntoIter
    [] e.op = "len" -> LenOp

(* the observation of the implementation after the call agrees with the model's next state *)
Agrees(e) ==
  /\ e.ret = ret'
  /\ \A c \in DOMAIN e.comps : e.comps[c] = vec'
  /\ \A c \in DOMAIN e.lens : e.lens[c] = Len(vec')

TReset == /\ l <= Len(Rec) /\ Rec[l].ev = "reset"
          /\ vec' = <<>> /\ fresh' = 1 /\ ret' = <<>> /\ skip' = FALSE /\ l' = l + 1

TCall == /\ l <= Len(Rec) /\ Rec[l].ev = "soa" /\ ~skip
         /\ ModelStep(Rec[l])
         /\ IF Agrees(Rec[l]) THEN skip' = FALSE
            ELSE skip' = TRUE /\ PrintT(<<"REJECT", l, "model", ret', vec'>>)
         /\ l' = l + 1

TSkip == /\ l <= Len(Rec) /\ Rec[l].ev = "soa" /\ skip
         /\ UNCHANGED <<vars, skip>> /\ l' = l + 1

TNext == TReset \/ TCall \/ TSkip
TSpec == TInit /\ [][TNext]_tvars

(* every line was consumed *)
Consumed == TLCGet("stats").diameter = Len(Rec) + 1 \/ PrintT(<<"UNCONSUMED", TLCGet("stats").diameter>>)
(* the model's own invariants are evaluated at every step of the trace *)
TInv == Distinct /\ Known
=============================================================================
