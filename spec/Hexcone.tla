------------------------------- MODULE Hexcone -------------------------------
(***************************************************************************)
(* The hexcone colour models (Smith 1978; HWB: Smith & Lyons 1996) in exact  *)
(* integer arithmetic: every component is k/D for a fixed denominator D, the  *)
(* hue is a rational multiple of 60 degrees given as sector index 0..5 and a   *)
(* fraction f = fn/D.  For C15 the statement "in-bounds HSV/HSL/HWB map into   *)
(* [0,1]^3" is a THEOREM of this model, checked exhaustively by TLC            *)
(* (MC_Hexcone); the same definitions are the C02 reference for the RGB <->    *)
(* HSV/HSL/HWB edges.                                                        *)
(***************************************************************************)
EXTENDS Integers

CONSTANT D          \* common denominator of all lattice values

(* HSV -> RGB, all values scaled by D (results scaled by D^3 to stay integral):
   c = v*s, x = c*(1 - |h' mod 2 - 1|), m = v - c; with h' = sector + f *)
HsvToRgb3(sec, fn, s, v) ==
  LET c == v * s                      \* scale D^2
      \* |h' mod 2 - 1| with h' mod 2 = (sec % 2) + f: if sec even: 1 - f ... as numerator over D
      t == IF sec % 2 = 0 THEN D - fn ELSE fn          \* |h' mod 2 - 1| * D
      x == c * (D - t)                \* scale D^3
      c3 == c * D                     \* scale D^3
      m3 == (v * D - c) * D           \* (v - c) scaled D^3
      r == CASE sec = 0 -> c3 [] sec = 1 -> x [] sec = 2 -> 0 [] sec = 3 -> 0 [] sec = 4 -> x [] sec = 5 -> c3
      g == CASE sec = 0 -> x [] sec = 1 -> c3 [] sec = 2 -> c3 [] sec = 3 -> x [] sec = 4 -> 0 [] sec = 5 -> 0
      b == CASE sec = 0 -> 0 [] sec = 1 -> 0 [] sec = 2 -> x [] sec = 3 -> c3 [] sec = 4 -> c3 [] sec = 5 -> x
  IN <<r + m3, g + m3, b + m3>>       \* each in units of 1/D^3

InUnit3(rgb3) == \A i \in 1..3 : 0 <= rgb3[i] /\ rgb3[i] <= D * D * D

(* HWB -> HSV (w + b <= 1): v = 1 - b, s = 1 - w/v (0 when v = 0); as rationals over D:
   v = (D - b)/D, s = (v*D - w*D)/(v*D) ... we only need RGB: c = v*s = v - w *)
HwbToRgb3(sec, fn, w, b) ==
  LET v == D - b                       \* scale D
      c == v - w                       \* v*s = v - w, scale D (>= 0 iff w + b <= D)
      t == IF sec % 2 = 0 THEN D - fn ELSE fn
      x == c * (D - t) * D             \* scale D^3
      c3 == c * D * D
      m3 == w * D * D                  \* m = v - c = w
      r == CASE sec = 0 -> c3 [] sec = 1 -> x [] sec = 2 -> 0 [] sec = 3 -> 0 [] sec = 4 -> x [] sec = 5 -> c3
      g == CASE sec = 0 -> x [] sec = 1 -> c3 [] sec = 2 -> c3 [] sec = 3 -> x [] sec = 4 -> 0 [] sec = 5 -> 0
      bb == CASE sec = 0 -> 0 [] sec = 1 -> 0 [] sec = 2 -> x [] sec = 3 -> c3 [] sec = 4 -> c3 [] sec = 5 -> x
  IN <<r + m3, g + m3, bb + m3>>

(* HSL -> RGB: c = (1 - |2l - 1|)*s, m = l - c/2; scaled by 2*D^3 *)
HslToRgb3(sec, fn, s, lt) ==
  LET a == IF 2 * lt >= D THEN 2 * lt - D ELSE D - 2 * lt      \* |2l - 1| * D
      c == (D - a) * s                 \* scale D^2
      t == IF sec % 2 = 0 THEN D - fn ELSE fn
      x == 2 * c * (D - t)             \* scale 2*D^3
      c3 == 2 * c * D
      m3 == 2 * lt * D * D - c * D     \* (l - c/2) * 2 D^3
      r == CASE sec = 0 -> c3 [] sec = 1 -> x [] sec = 2 -> 0 [] sec = 3 -> 0 [] sec = 4 -> x [] sec = 5 -> c3
      g == CASE sec = 0 -> x [] sec = 1 -> c3 [] sec = 2 -> c3 [] sec = 3 -> x [] sec = 4 -> 0 [] sec = 5 -> 0
      b == CASE sec = 0 -> 0 [] sec = 1 -> 0 [] sec = 2 -> x [] sec = 3 -> c3 [] sec = 4 -> c3 [] sec = 5 -> x
  IN <<r + m3, g + m3, b + m3>>       \* units of 1/(2 D^3)
InUnit3L(rgb3) == \A i \in 1..3 : 0 <= rgb3[i] /\ rgb3[i] <= 2 * D * D * D
=============================================================================
