//! C12 driver: hexadecimal colour strings, packed integers, named colours.
//!
//! usage: hex --mode <m1,m2,...> --out-dir <dir> [--maxlen 7] [--cases <file>] [--threads n]
//!            [--thorough] [--named-src <palette/src/named/codegen.rs>]
//! Every mode writes <dir>/<mode>.ndjson (one event per line, validated by spec/trace/TraceHex.tla).
//!
//!   sweep  FULL-SPACE SWEEP of FromStr: every string over the 10-symbol abstract alphabet up to --maxlen
//!          symbols, for each of the ten parsable types, under pvh::catch.  Lossless compression: one
//!          `parse` event per ACCEPTED string (with its value), per-length `count` events
//!          (accepted / rejected / panicked), the first few panicking strings per type and length as
//!          `parse` events with r = -1, and the panicking strings themselves (a capped list) in
//!          <dir>/sweep.panics.txt.
//!   long   structured enumeration of the long forms: digit strings of the lengths around every
//!          documented digit count, with up to two positions replaced by non-digit symbols; every
//!          case is an individual `parse` event.
//!   cases  executes the cases emitted by TLC (MC_Hex / MC_Packed REPLAY lines, or a replay file):
//!          parse, fmt, pack, lpack, name.
//!   rt     parse(format(c)) over all 2^24 Rgb<u8> and seeded samples of the other integer types:
//!          `rtsweep` events (count, mismatches) and one `fmt` event per mismatch.
//!   pack   From<u32>/Into<u32> defaults on a lattice, luma orders over all 2^16 values, and a sweep of
//!          packed u32 values per order (all 2^32 with --thorough) against the byte positions given by
//!          the model (`order` lines of the cases file): `packsweep` events + `pack` events for mismatches.
//!   names  named::from_str on every keyword (model's and implementation's), case variants, every
//!          single-character deletion / substitution, the empty string; named::entries()/names()/colors();
//!          every pub const.
//!
//! Abstract alphabet <-> concrete characters: the token is the character itself except
//! "sp" = U+0020, "e2" = U+00E9 (2 UTF-8 bytes), "e3" = U+20AC (3 UTF-8 bytes).
//! Channel values of integer types are logged as their hexadecimal digits, most significant first
//! (exact at every width); float channels with the exact encoding of pvh::Ex.

use palette::cast::{ComponentOrder, Packed};
use palette::encoding;
use palette::luma::channels::{Al, La};
use palette::named;
use palette::rgb::channels::{Abgr, Argb, Bgra, Rgba as ORgba};
use palette::rgb::{Rgb, Rgba};
use palette::{Srgb, SrgbLumaa, Srgba};
use pvh::*;
use serde_json::{json, Value};
use std::io::Write;
use std::sync::atomic::{AtomicUsize, Ordering};
use std::sync::Mutex;

type S = encoding::Srgb;

const ALPHABET: [(&str, &str); 10] = [
    ("0", "0"), ("a", "a"), ("F", "F"), ("g", "g"), ("+", "+"), ("-", "-"), ("#", "#"),
    ("sp", " "), ("e2", "\u{e9}"), ("e3", "\u{20ac}"),
];
const PLUS: u8 = 4;
const MB2: u8 = 8;
const MB3: u8 = 9;

fn tok_str(t: &str) -> &str {
    match t {
        "sp" => " ",
        "e2" => "\u{e9}",
        "e3" => "\u{20ac}",
        _ => t,
    }
}
fn str_toks(s: &str) -> Vec<String> {
    s.chars()
        .map(|c| match c {
            ' ' => "sp".to_string(),
            '\u{e9}' => "e2".to_string(),
            '\u{20ac}' => "e3".to_string(),
            _ => c.to_string(),
        })
        .collect()
}
fn toks_string(t: &[String]) -> String { t.iter().map(|x| tok_str(x)).collect() }
fn ascii(s: &str) -> String { s.chars().map(|c| if c.is_ascii() && c != '"' && c != '\\' { c } else { '?' }).collect() }

/// hexadecimal digits of x at width cw, most significant first
fn nib(x: u64, cw: usize) -> Value {
    Value::Array((0..cw).map(|i| json!((x >> (4 * (cw - 1 - i))) & 15)).collect())
}
fn unnib(v: &Value) -> u64 { v.as_array().unwrap().iter().fold(0u64, |a, d| a * 16 + d.as_u64().unwrap()) }

// ------------------------------------------------------------------------------------------ types

trait HexTy: Sized + 'static {
    const NAME: &'static str;
    fn parse(s: &str) -> Option<Self>;
    fn via_from_hex(s: &str) -> Option<Self>;
    /// None when a component is not finite
    fn val(&self) -> Option<Value>;
}
trait IntTy: HexTy {
    const CW: usize;
    const NCH: usize;
    fn make(ch: &[u64]) -> Self;
    fn comps(&self) -> Vec<u64>;
    fn lo(&self) -> String;
    fn up(&self) -> String;
}

macro_rules! hex_int {
    ($name:literal, $t:ty, $cw:literal) => {
        impl HexTy for Rgb<S, $t> {
            const NAME: &'static str = concat!("rgb_", $name);
            fn parse(s: &str) -> Option<Self> { s.parse::<Self>().ok() }
            fn via_from_hex(s: &str) -> Option<Self> { Rgb::<S, $t>::from_hex(s).ok() }
            fn val(&self) -> Option<Value> {
                Some(json!([nib(self.red as u64, $cw), nib(self.green as u64, $cw), nib(self.blue as u64, $cw)]))
            }
        }
        impl IntTy for Rgb<S, $t> {
            const CW: usize = $cw;
            const NCH: usize = 3;
            fn make(ch: &[u64]) -> Self { Rgb::new(ch[0] as $t, ch[1] as $t, ch[2] as $t) }
            fn comps(&self) -> Vec<u64> { vec![self.red as u64, self.green as u64, self.blue as u64] }
            fn lo(&self) -> String { format!("{:x}", self) }
            fn up(&self) -> String { format!("{:X}", self) }
        }
        impl HexTy for Rgba<S, $t> {
            const NAME: &'static str = concat!("rgba_", $name);
            fn parse(s: &str) -> Option<Self> { s.parse::<Self>().ok() }
            fn via_from_hex(s: &str) -> Option<Self> { Rgba::<S, $t>::from_hex(s).ok() }
            fn val(&self) -> Option<Value> {
                Some(json!([nib(self.color.red as u64, $cw), nib(self.color.green as u64, $cw),
                            nib(self.color.blue as u64, $cw), nib(self.alpha as u64, $cw)]))
            }
        }
        impl IntTy for Rgba<S, $t> {
            const CW: usize = $cw;
            const NCH: usize = 4;
            fn make(ch: &[u64]) -> Self { Rgba::<S, $t>::new(ch[0] as $t, ch[1] as $t, ch[2] as $t, ch[3] as $t) }
            fn comps(&self) -> Vec<u64> {
                vec![self.color.red as u64, self.color.green as u64, self.color.blue as u64, self.alpha as u64]
            }
            fn lo(&self) -> String { format!("{:x}", self) }
            fn up(&self) -> String { format!("{:X}", self) }
        }
    };
}
hex_int!("u8", u8, 2);
hex_int!("u16", u16, 4);
hex_int!("u32", u32, 8);

macro_rules! hex_float {
    ($name:literal, $t:ty) => {
        impl HexTy for Rgb<S, $t> {
            const NAME: &'static str = concat!("rgb_", $name);
            fn parse(s: &str) -> Option<Self> { s.parse::<Self>().ok() }
            fn via_from_hex(s: &str) -> Option<Self> { Rgb::<S, $t>::from_hex(s).ok() }
            fn val(&self) -> Option<Value> {
                let c = [self.red, self.green, self.blue];
                if all_finite(&c) { Some(ex_arr(&c)) } else { None }
            }
        }
        impl HexTy for Rgba<S, $t> {
            const NAME: &'static str = concat!("rgba_", $name);
            fn parse(s: &str) -> Option<Self> { s.parse::<Self>().ok() }
            fn via_from_hex(s: &str) -> Option<Self> { Rgba::<S, $t>::from_hex(s).ok() }
            fn val(&self) -> Option<Value> {
                let c = [self.color.red, self.color.green, self.color.blue, self.alpha];
                if all_finite(&c) { Some(ex_arr(&c)) } else { None }
            }
        }
    };
}
hex_float!("f32", f32);
hex_float!("f64", f64);

/// r: 1 accepted, 0 rejected with an error, -1 panicked, -3 accepted with a non-finite component
fn outcome<T: HexTy>(r: Result<Option<T>, String>) -> (i64, Value, String) {
    match r {
        Ok(Some(c)) => match c.val() {
            Some(v) => (1, v, String::new()),
            None => (-3, json!([]), String::new()),
        },
        Ok(None) => (0, json!([]), String::new()),
        Err(m) => (-1, json!([]), ascii(&m)),
    }
}

fn parse_event<T: HexTy>(api: &str, toks: &[String]) -> Value {
    let s = toks_string(toks);
    let r = if api == "from_hex" { catch(|| T::via_from_hex(&s)) } else { catch(|| T::parse(&s)) };
    let (code, val, msg) = outcome(r);
    json!({"ev": "parse", "api": api, "ty": T::NAME, "sy": toks, "r": code, "val": val, "panic": msg})
}

type ParseEv = fn(&str, &[String]) -> Value;
fn parse_fns() -> Vec<(&'static str, ParseEv)> {
    vec![
        (<Rgb<S, u8>>::NAME, parse_event::<Rgb<S, u8>>),
        (<Rgba<S, u8>>::NAME, parse_event::<Rgba<S, u8>>),
        (<Rgb<S, u16>>::NAME, parse_event::<Rgb<S, u16>>),
        (<Rgba<S, u16>>::NAME, parse_event::<Rgba<S, u16>>),
        (<Rgb<S, u32>>::NAME, parse_event::<Rgb<S, u32>>),
        (<Rgba<S, u32>>::NAME, parse_event::<Rgba<S, u32>>),
        (<Rgb<S, f32>>::NAME, parse_event::<Rgb<S, f32>>),
        (<Rgba<S, f32>>::NAME, parse_event::<Rgba<S, f32>>),
        (<Rgb<S, f64>>::NAME, parse_event::<Rgb<S, f64>>),
        (<Rgba<S, f64>>::NAME, parse_event::<Rgba<S, f64>>),
    ]
}

// ------------------------------------------------------------------------------------------ sweep

const C_ACC: usize = 0;
const C_REJ: usize = 1;
const C_PAN: usize = 2;
const C_ACC_PLUS: usize = 3;
const C_PAN_MB: usize = 4;
const KEEP_PANICS_PER_LEN: usize = 3;
const SIDE_CAP_PER_TYPE: usize = 200_000;
const SIDE_CAP_PER_TASK: usize = 4_000;

struct SweepRes {
    counts: Vec<[u64; 5]>,
    acc: Vec<(Vec<u8>, i64, Value)>,
    pan: Vec<(Vec<u8>, String)>,
    pan_kept: Vec<usize>,
    side: String,
    side_lines: usize,
}

struct Sweeper<T: HexTy> {
    buf: String,
    syms: Vec<u8>,
    maxlen: usize,
    res: SweepRes,
    _t: std::marker::PhantomData<T>,
}

impl<T: HexTy> Sweeper<T> {
    fn test(&mut self) {
        let n = self.syms.len();
        let s: &str = &self.buf;
        match catch(|| T::parse(s)) {
            Ok(None) => self.res.counts[n][C_REJ] += 1,
            Ok(Some(c)) => {
                self.res.counts[n][C_ACC] += 1;
                if self.syms.contains(&PLUS) { self.res.counts[n][C_ACC_PLUS] += 1; }
                let (code, v) = match c.val() { Some(v) => (1, v), None => (-3, json!([])) };
                self.res.acc.push((self.syms.clone(), code, v));
            }
            Err(m) => {
                self.res.counts[n][C_PAN] += 1;
                if self.syms.contains(&MB2) || self.syms.contains(&MB3) { self.res.counts[n][C_PAN_MB] += 1; }
                if self.res.pan_kept[n] < KEEP_PANICS_PER_LEN {
                    self.res.pan_kept[n] += 1;
                    self.res.pan.push((self.syms.clone(), ascii(&m)));
                }
                if self.res.side_lines < SIDE_CAP_PER_TASK {
                    self.res.side_lines += 1;
                    self.res.side.push_str(T::NAME);
                    for &i in &self.syms { self.res.side.push(' '); self.res.side.push_str(ALPHABET[i as usize].0); }
                    self.res.side.push('\n');
                }
            }
        }
    }
    fn dfs(&mut self) {
        self.test();
        if self.syms.len() < self.maxlen {
            for i in 0..ALPHABET.len() {
                let keep = self.buf.len();
                self.buf.push_str(ALPHABET[i].1);
                self.syms.push(i as u8);
                self.dfs();
                self.syms.pop();
                self.buf.truncate(keep);
            }
        }
    }
}

/// all strings that extend `root` (descend) or `root` alone
fn sweep_task<T: HexTy>(root: &[u8], maxlen: usize, descend: bool) -> SweepRes {
    let mut sw = Sweeper::<T> {
        buf: root.iter().map(|&i| ALPHABET[i as usize].1).collect(),
        syms: root.to_vec(),
        maxlen,
        res: SweepRes { counts: vec![[0; 5]; maxlen + 1], acc: vec![], pan: vec![], pan_kept: vec![0; maxlen + 1], side: String::new(), side_lines: 0 },
        _t: std::marker::PhantomData,
    };
    if descend { sw.dfs() } else { sw.test() }
    sw.res
}

type SweepFn = fn(&[u8], usize, bool) -> SweepRes;
fn sweep_fns() -> Vec<(&'static str, SweepFn)> {
    vec![
        (<Rgb<S, u8>>::NAME, sweep_task::<Rgb<S, u8>>),
        (<Rgba<S, u8>>::NAME, sweep_task::<Rgba<S, u8>>),
        (<Rgb<S, u16>>::NAME, sweep_task::<Rgb<S, u16>>),
        (<Rgba<S, u16>>::NAME, sweep_task::<Rgba<S, u16>>),
        (<Rgb<S, u32>>::NAME, sweep_task::<Rgb<S, u32>>),
        (<Rgba<S, u32>>::NAME, sweep_task::<Rgba<S, u32>>),
        (<Rgb<S, f32>>::NAME, sweep_task::<Rgb<S, f32>>),
        (<Rgba<S, f32>>::NAME, sweep_task::<Rgba<S, f32>>),
        (<Rgb<S, f64>>::NAME, sweep_task::<Rgb<S, f64>>),
        (<Rgba<S, f64>>::NAME, sweep_task::<Rgba<S, f64>>),
    ]
}

fn n_threads() -> usize {
    arg("--threads").and_then(|s| s.parse().ok()).unwrap_or_else(|| {
        std::thread::available_parallelism().map(|n| n.get()).unwrap_or(8).min(16)
    })
}

/// run `n` independent jobs on the worker threads, results in job order
fn par_map<R: Send>(n: usize, f: impl Fn(usize) -> R + Sync) -> Vec<R> {
    let next = AtomicUsize::new(0);
    let out: Mutex<Vec<Option<R>>> = Mutex::new((0..n).map(|_| None).collect());
    std::thread::scope(|sc| {
        for _ in 0..n_threads().min(n.max(1)) {
            sc.spawn(|| loop {
                let i = next.fetch_add(1, Ordering::SeqCst);
                if i >= n { break; }
                let r = f(i);
                out.lock().unwrap()[i] = Some(r);
            });
        }
    });
    out.into_inner().unwrap().into_iter().map(|x| x.expect("job result")).collect()
}

fn mode_sweep(dir: &str, maxlen: usize) {
    let fns = sweep_fns();
    // roots: every string shorter than P on its own, every string of length P with all its extensions
    let p = maxlen.min(2);
    let mut roots: Vec<(Vec<u8>, bool)> = vec![];
    let mut level: Vec<Vec<u8>> = vec![vec![]];
    for d in 0..=p {
        for r in &level { roots.push((r.clone(), d == p)); }
        if d < p {
            level = level.iter().flat_map(|r| (0..ALPHABET.len() as u8).map(move |i| { let mut x = r.clone(); x.push(i); x })).collect();
        }
    }
    let jobs: Vec<(usize, usize)> = (0..fns.len()).flat_map(|t| (0..roots.len()).map(move |r| (t, r))).collect();
    let results = par_map(jobs.len(), |j| {
        let (t, r) = jobs[j];
        (fns[t].1)(&roots[r].0, maxlen, roots[r].1)
    });
    let mut rec = Rec::create(&format!("{}/sweep.ndjson", dir));
    let mut side = std::io::BufWriter::new(std::fs::File::create(format!("{}/sweep.panics.txt", dir)).expect("side file"));
    let alphabet: Vec<&str> = ALPHABET.iter().map(|a| a.0).collect();
    let mut total: u64 = 0;
    for (t, (name, _)) in fns.iter().enumerate() {
        let mut counts = vec![[0u64; 5]; maxlen + 1];
        let mut kept = vec![0usize; maxlen + 1];
        let (mut side_lines, mut side_cut) = (0usize, false);
        for (j, res) in results.iter().enumerate() {
            if jobs[j].0 != t { continue; }
            for (n, c) in res.counts.iter().enumerate() { for k in 0..5 { counts[n][k] += c[k]; } }
            for (syms, code, v) in &res.acc {
                let toks: Vec<&str> = syms.iter().map(|&i| ALPHABET[i as usize].0).collect();
                rec.ev(json!({"ev": "parse", "api": "parse", "ty": name, "sy": toks, "r": code, "val": v, "panic": ""}));
            }
            for (syms, m) in &res.pan {
                if kept[syms.len()] < KEEP_PANICS_PER_LEN {
                    kept[syms.len()] += 1;
                    let toks: Vec<&str> = syms.iter().map(|&i| ALPHABET[i as usize].0).collect();
                    rec.ev(json!({"ev": "parse", "api": "parse", "ty": name, "sy": toks, "r": -1, "val": [], "panic": m}));
                }
            }
            if side_lines < SIDE_CAP_PER_TYPE {
                side.write_all(res.side.as_bytes()).unwrap();
                side_lines += res.side_lines;
            } else if res.side_lines > 0 {
                side_cut = true;
            }
            if res.side_lines >= SIDE_CAP_PER_TASK { side_cut = true; }
        }
        if side_cut { writeln!(side, "# {}: list cut ({} panicking strings listed); the count events are complete", name, side_lines).unwrap(); }
        for (n, c) in counts.iter().enumerate() {
            total += c[C_ACC] + c[C_REJ] + c[C_PAN];
            rec.ev(json!({"ev": "count", "ty": name, "len": n, "alphabet": alphabet, "acc": c[C_ACC], "rej": c[C_REJ],
                          "pan": c[C_PAN], "acc_plus": c[C_ACC_PLUS], "pan_mb": c[C_PAN_MB]}));
        }
    }
    side.flush().unwrap();
    let n = rec.finish();
    eprintln!("hex sweep: maxlen {} x {} types: {} strings parsed, {} events", maxlen, fns.len(), total, n);
}

// ------------------------------------------------------------------------------------------ long forms

const NONDIGITS: [&str; 7] = ["g", "+", "-", "#", "sp", "e2", "e3"];

fn mode_long(dir: &str, thorough: bool) {
    let fns = parse_fns();
    // candidate digit counts: everything any type documents, and the next doubling (must be rejected everywhere)
    let ns: [usize; 10] = [3, 4, 6, 8, 12, 16, 24, 32, 48, 64];
    let pats: Vec<Vec<char>> = {
        let mut v = vec!["1a2B3c4D5e6F7089".chars().collect::<Vec<char>>()];
        if thorough {
            let mut rng = Sm64::new(seed_from_env() ^ 0xC12);
            let hexd: Vec<char> = "0123456789abcdefABCDEF".chars().collect();
            v.push((0..64).map(|_| *rng.pick(&hexd)).collect());
        }
        v
    };
    let pair_syms: Vec<(&str, &str)> = if thorough {
        let mut v: Vec<(&str, &str)> = NONDIGITS.iter().map(|&s| (s, s)).collect();
        v.extend([("+", "e2"), ("e3", "+")]);
        v
    } else {
        vec![("+", "+"), ("e2", "e2")]
    };
    let mut cases: Vec<Vec<String>> = vec![];
    for pat in &pats {
        for &nd in &ns {
            let lens: Vec<usize> = if nd >= 48 { vec![nd - 1, nd, nd + 1] } else { vec![nd - 2, nd - 1, nd, nd + 1] };
            for n in lens {
                for hash in [false, true] {
                    let mut base: Vec<String> = if hash { vec!["#".to_string()] } else { vec![] };
                    base.extend((0..n).map(|i| pat[i % pat.len()].to_string()));
                    cases.push(base.clone());
                    if nd < 6 { continue; } // the full-space sweep covers the short forms
                    for i in 0..base.len() {
                        for s in NONDIGITS {
                            let mut c = base.clone();
                            c[i] = s.to_string();
                            cases.push(c);
                        }
                    }
                    if nd >= 48 || (hash && !thorough) { continue; }
                    for i in 0..base.len() {
                        for j in (i + 1)..base.len() {
                            for (a, b) in &pair_syms {
                                let mut c = base.clone();
                                c[i] = a.to_string();
                                c[j] = b.to_string();
                                cases.push(c);
                            }
                        }
                    }
                }
            }
        }
    }
    let mut rec = Rec::create(&format!("{}/long.ndjson", dir));
    for (_, f) in &fns {
        for c in &cases { rec.ev(f("parse", c)); }
    }
    let n = rec.finish();
    eprintln!("hex long: {} structured strings x {} types, {} events", cases.len(), fns.len(), n);
}

// ------------------------------------------------------------------------------------------ formatting

fn back<T: HexTy>(s: &str) -> (i64, Value) {
    let (c, v, _) = outcome(catch(|| T::parse(s)));
    (c, v)
}

fn fmt_event<T: IntTy>(c: &T) -> Value {
    let lo = catch(|| c.lo());
    let up = catch(|| c.up());
    let (mut b, mut bv) = (vec![], vec![]);
    let forms: [Option<String>; 3] = [lo.clone().ok(), up.clone().ok(), lo.clone().ok().map(|s| format!("#{}", s))];
    for f in &forms {
        match f {
            Some(s) => { let (code, v) = back::<T>(s); b.push(code); bv.push(v); }
            None => { b.push(-1); bv.push(json!([])); }
        }
    }
    json!({"ev": "fmt", "ty": T::NAME, "val": c.val().unwrap(),
           "lo": lo.map(|s| str_toks(&s)).unwrap_or_default(), "up": up.map(|s| str_toks(&s)).unwrap_or_default(),
           "b": b, "bv": bv})
}

fn fmt_case<T: IntTy>(val: &Value) -> Value {
    let ch: Vec<u64> = val.as_array().unwrap().iter().map(unnib).collect();
    fmt_event(&T::make(&ch))
}

/// does parse(format(c)) return c for the three forms {:x}, {:X}, #{:x}?
fn rt_ok<T: IntTy>(c: &T) -> bool {
    let want = c.comps();
    let lo = c.lo();
    let up = c.up();
    let hashed = format!("#{}", lo);
    [lo.as_str(), up.as_str(), hashed.as_str()].iter().all(|s| match T::parse(s) {
        Some(p) => p.comps() == want,
        None => false,
    })
}

fn rt_sweep<T: IntTy>(rec: &mut Rec, full: bool, n: u64, seed: u64) {
    let mask = if T::CW >= 16 { u64::MAX } else { (1u64 << (4 * T::CW)) - 1 };
    let blocks = 256usize;
    let per = n / blocks as u64;
    let res = par_map(blocks, |b| {
        let mut bad: Vec<Vec<u64>> = vec![];
        let mut nbad = 0u64;
        let mut rng = Sm64::new(seed.wrapping_add(b as u64 * 7919));
        for i in 0..per {
            let ch: Vec<u64> = if full {
                let x = b as u64 * per + i; // all 2^24 colours of Rgb<u8>
                vec![(x >> 16) & 255, (x >> 8) & 255, x & 255]
            } else {
                (0..T::NCH).map(|_| rng.next() & mask).collect()
            };
            let c = T::make(&ch);
            let ok = catch(|| rt_ok(&c)).unwrap_or(false);
            if !ok {
                nbad += 1;
                if bad.len() < 4 { bad.push(ch); }
            }
        }
        (nbad, bad)
    });
    let mism: u64 = res.iter().map(|r| r.0).sum();
    let mut shown = 0;
    for (_, bad) in &res {
        for ch in bad {
            if shown < 12 { rec.ev(fmt_event(&T::make(ch))); shown += 1; }
        }
    }
    rec.ev(json!({"ev": "rtsweep", "ty": T::NAME, "full": if full { 1 } else { 0 }, "n": per * blocks as u64, "mism": mism}));
}

fn mode_rt(dir: &str, thorough: bool) {
    let mut rec = Rec::create(&format!("{}/rt.ndjson", dir));
    let seed = seed_from_env();
    let n: u64 = if thorough { 1 << 24 } else { 1 << 20 };
    rt_sweep::<Rgb<S, u8>>(&mut rec, true, 1 << 24, seed);
    rt_sweep::<Rgba<S, u8>>(&mut rec, false, n, seed + 1);
    rt_sweep::<Rgb<S, u16>>(&mut rec, false, n, seed + 2);
    rt_sweep::<Rgba<S, u16>>(&mut rec, false, n, seed + 3);
    rt_sweep::<Rgb<S, u32>>(&mut rec, false, n, seed + 4);
    rt_sweep::<Rgba<S, u32>>(&mut rec, false, n, seed + 5);
    let k = rec.finish();
    eprintln!("hex rt: 2^24 Rgb<u8> + 5 x {} sampled colours, 3 forms each, {} events", n, k);
}

// ------------------------------------------------------------------------------------------ packing

fn be4(x: u32) -> [u8; 4] { [(x >> 24) as u8, (x >> 16) as u8, (x >> 8) as u8, x as u8] }
fn from_be4(b: [u8; 4]) -> u32 { ((b[0] as u32) << 24) | ((b[1] as u32) << 16) | ((b[2] as u32) << 8) | b[3] as u32 }
fn rgba_arr(c: Srgba<u8>) -> [u8; 4] { [c.color.red, c.color.green, c.color.blue, c.alpha] }
fn rgb_arr(c: Srgb<u8>) -> [u8; 3] { [c.red, c.green, c.blue] }

/// a user-defined component order over plain bytes that keeps them as they are
struct KeepBytes;
impl<const N: usize> ComponentOrder<[u8; N], [u8; N]> for KeepBytes {
    fn pack(color: [u8; N]) -> [u8; N] { color }
    fn unpack(packed: [u8; N]) -> [u8; N] { packed }
}

/// pack the colour c and unpack the packed value c through every API form of order O
fn pack_event<O>(name: &str, c: [u8; 4]) -> Value
where
    O: ComponentOrder<Srgba<u8>, [u8; 4]> + ComponentOrder<Srgba<u8>, u32> + ComponentOrder<Srgba<u16>, [u16; 4]>
        + ComponentOrder<Srgba<u32>, [u32; 4]>,
{
    let r = catch(|| {
        let rgba = Srgba::<u8>::new(c[0], c[1], c[2], c[3]);
        let rgb = Srgb::<u8>::new(c[0], c[1], c[2]);
        let x = from_be4(c);
        let packs: Vec<[u8; 4]> = vec![
            Packed::<O, [u8; 4]>::pack(rgba).color,
            be4(Packed::<O, u32>::pack(rgba).color),
            be4(rgba.into_u32::<O>()),
            be4(Packed::<O, u32>::from(rgba).color),
        ];
        let packs_rgb: Vec<[u8; 4]> = vec![be4(rgb.into_u32::<O>()), be4(Packed::<O, u32>::from(rgb).color)];
        let unpacks: Vec<[u8; 4]> = vec![
            rgba_arr(Packed::<O, [u8; 4]> { color: c, channel_order: Default::default() }.unpack()),
            rgba_arr(Packed::<O, u32>::from(x).unpack()),
            rgba_arr(Srgba::<u8>::from_u32::<O>(x)),
            rgba_arr(Srgba::<u8>::from(Packed::<O, u32>::from(x))),
        ];
        let unpacks_rgb: Vec<[u8; 3]> = vec![rgb_arr(Srgb::<u8>::from_u32::<O>(x)), rgb_arr(Srgb::<u8>::from(Packed::<O, u32>::from(x)))];
        // 16-bit components: only positions are at stake
        let c16: [u16; 4] = [c[0] as u16 * 256 + 1, c[1] as u16 * 256 + 2, c[2] as u16 * 256 + 3, c[3] as u16 * 256 + 4];
        let arr16 = Packed::<O, [u16; 4]>::pack(Srgba::<u16>::new(c16[0], c16[1], c16[2], c16[3])).color;
        let u: Srgba<u16> = Packed::<O, [u16; 4]> { color: c16, channel_order: Default::default() }.unpack();
        let un16 = [u.color.red, u.color.green, u.color.blue, u.alpha];
        // 32-bit channels in an array: positions only
        let c32: [u32; 4] = [c16[0] as u32 + 65536, c16[1] as u32 + 2 * 65536, c16[2] as u32 + 3 * 65536, c16[3] as u32 + 4 * 65536];
        let u: Srgba<u32> = Packed::<O, [u32; 4]> { color: c32, channel_order: Default::default() }.unpack();
        let un32 = [u.color.red, u.color.green, u.color.blue, u.alpha];
        // the integer forms u8, u64 and u128 exist for any order over 1, 8 and 16 bytes (none is built in): a user-defined
        // order that keeps the bytes as they are shows the byte positions of the integer (first channel most significant)
        let b8: [u8; 8] = core::array::from_fn(|i| c[i % 4].wrapping_add((17 * i) as u8));
        let b16: [u8; 16] = core::array::from_fn(|i| c[i % 4].wrapping_add((29 * i) as u8));
        let w1 = [<KeepBytes as ComponentOrder<[u8; 1], u8>>::pack([c[0]])];
        let w1u = <KeepBytes as ComponentOrder<[u8; 1], u8>>::unpack(c[1]);
        let w8 = <KeepBytes as ComponentOrder<[u8; 8], u64>>::pack(b8).to_be_bytes();
        let w8u = <KeepBytes as ComponentOrder<[u8; 8], u64>>::unpack(u64::from_be_bytes(b8));
        let w16 = <KeepBytes as ComponentOrder<[u8; 16], u128>>::pack(b16).to_be_bytes();
        let w16u = <KeepBytes as ComponentOrder<[u8; 16], u128>>::unpack(u128::from_be_bytes(b16));
        let arr32 = Packed::<O, [u32; 4]>::pack(Srgba::<u32>::new(c32[0], c32[1], c32[2], c32[3])).color;
        json!({"ev": "pack", "order": name, "c": c, "packs": packs, "packs_rgb": packs_rgb, "unpacks": unpacks,
               "unpacks_rgb": unpacks_rgb, "c16": c16, "arr16": arr16, "un16": un16,
               "c32": c32, "arr32": arr32, "un32": un32,
               "wide_in": [vec![c[0]], vec![c[1]], b8.to_vec(), b8.to_vec(), b16.to_vec(), b16.to_vec()],
               "wide_out": [w1.to_vec(), w1u.to_vec(), w8.to_vec(), w8u.to_vec(), w16.to_vec(), w16u.to_vec()], "panic": 0})
    });
    r.unwrap_or_else(|_| json!({"ev": "pack", "order": name, "c": c, "packs": [], "packs_rgb": [], "unpacks": [],
                                "unpacks_rgb": [], "c16": [], "arr16": [], "un16": [], "c32": [], "arr32": [], "un32": [], "wide_in": [], "wide_out": [], "panic": 1}))
}

fn pack_by_name(name: &str, c: [u8; 4]) -> Value {
    match name {
        "rgba" => pack_event::<ORgba>(name, c),
        "argb" => pack_event::<Argb>(name, c),
        "bgra" => pack_event::<Bgra>(name, c),
        "abgr" => pack_event::<Abgr>(name, c),
        _ => panic!("order {} is not implemented by palette", name),
    }
}

fn lpack_event<O>(name: &str, c: [u8; 2]) -> Value
where
    O: ComponentOrder<SrgbLumaa<u8>, [u8; 2]> + ComponentOrder<SrgbLumaa<u8>, u16>,
{
    let r = catch(|| {
        let la = SrgbLumaa::<u8>::new(c[0], c[1]);
        let x = ((c[0] as u16) << 8) | c[1] as u16;
        let p16 = Packed::<O, u16>::pack(la).color;
        let be2 = |v: u16| -> [u8; 2] { [(v >> 8) as u8, v as u8] };
        let packs: Vec<[u8; 2]> = vec![Packed::<O, [u8; 2]>::pack(la).color, be2(p16), be2(la.into_u16::<O>())];
        // the opaque colour packs with alpha 255 and unpacks by dropping the alpha byte
        let packs_l: Vec<[u8; 2]> = vec![be2(palette::SrgbLuma::<u8>::new(c[0]).into_u16::<O>())];
        let u1: SrgbLumaa<u8> = Packed::<O, [u8; 2]> { color: c, channel_order: Default::default() }.unpack();
        let u2: SrgbLumaa<u8> = Packed::<O, u16>::from(x).unpack();
        let u3 = SrgbLumaa::<u8>::from_u16::<O>(x);
        let unpacks: Vec<[u8; 2]> = vec![[u1.color.luma, u1.alpha], [u2.color.luma, u2.alpha], [u3.color.luma, u3.alpha]];
        let unpacks_l: Vec<[u8; 1]> = vec![[palette::SrgbLuma::<u8>::from_u16::<O>(x).luma]];
        json!({"ev": "lpack", "order": name, "c": c, "packs": packs, "unpacks": unpacks, "packs_l": packs_l, "unpacks_l": unpacks_l, "panic": 0})
    });
    r.unwrap_or_else(|_| json!({"ev": "lpack", "order": name, "c": c, "packs": [], "unpacks": [], "packs_l": [], "unpacks_l": [], "panic": 1}))
}

fn lpack_by_name(name: &str, c: [u8; 2]) -> Value {
    match name {
        "la" => lpack_event::<La>(name, c),
        "al" => lpack_event::<Al>(name, c),
        _ => panic!("luma order {} is not implemented by palette", name),
    }
}

/// From<u32> / Into<u32>: pack colour c, unpack packed value c
fn packdef_event(c: [u8; 4]) -> Value {
    let r = catch(|| {
        let x = from_be4(c);
        let rgb_into = be4(u32::from(Srgb::<u8>::new(c[0], c[1], c[2])));
        let rgba_into = be4(u32::from(Srgba::<u8>::new(c[0], c[1], c[2], c[3])));
        let rgb_from = rgb_arr(Srgb::<u8>::from(x));
        let rgba_from = rgba_arr(Srgba::<u8>::from(x));
        json!({"ev": "packdef", "c": c, "rgb_into": rgb_into, "rgba_into": rgba_into, "rgb_from": rgb_from,
               "rgba_from": rgba_from, "panic": 0})
    });
    r.unwrap_or_else(|_| json!({"ev": "packdef", "c": c, "rgb_into": [], "rgba_into": [], "rgb_from": [], "rgba_from": [], "panic": 1}))
}

/// Sweep packed values x: unpack, compare every channel with the byte the MODEL's positions name, repack.
/// pos[k] (1-based, 1 = most significant byte) is the position of channel k of (r, g, b, a).
fn pack_sweep<O>(rec: &mut Rec, name: &str, pos: &[usize], full: bool)
where
    O: ComponentOrder<Srgba<u8>, [u8; 4]> + ComponentOrder<Srgba<u8>, u32> + ComponentOrder<Srgba<u16>, [u16; 4]>
        + ComponentOrder<Srgba<u32>, [u32; 4]>,
{
    let blocks: u64 = 256;
    let per: u64 = if full { (1u64 << 32) / blocks } else { (1u64 << 24) / blocks };
    let res = par_map(blocks as usize, |b| {
        let mut nbad = 0u64;
        let mut bad: Vec<u32> = vec![];
        for i in 0..per {
            let k = b as u64 * per + i;
            // full: every u32; otherwise 2^24 values spread by an odd multiplier (a bijection of u32)
            let x: u32 = if full { k as u32 } else { (k as u32).wrapping_mul(0x0100_0193).wrapping_add(0x9E37_79B9) };
            let by = be4(x);
            let c = Srgba::<u8>::from_u32::<O>(x);
            let a = rgba_arr(c);
            let rgb = rgb_arr(Srgb::<u8>::from_u32::<O>(x));
            let ok = (0..4).all(|ch| a[ch] == by[pos[ch] - 1])
                && (0..3).all(|ch| rgb[ch] == by[pos[ch] - 1])
                && c.into_u32::<O>() == x
                && Packed::<O, [u8; 4]>::pack(c).color == by;
            if !ok {
                nbad += 1;
                if bad.len() < 2 { bad.push(x); }
            }
        }
        (nbad, bad)
    });
    let mism: u64 = res.iter().map(|r| r.0).sum();
    let mut shown = 0;
    for (_, bad) in &res {
        for &x in bad {
            if shown < 8 { rec.ev(pack_event::<O>(name, be4(x))); shown += 1; }
        }
    }
    let n = per * blocks;
    rec.ev(json!({"ev": "packsweep", "order": name, "pos": pos, "full": if full { 1 } else { 0 },
                  "n_hi": n >> 16, "n_lo": n & 0xffff, "mism": mism}));
}

fn luma_sweep<O>(rec: &mut Rec, name: &str, pos: &[usize])
where
    O: ComponentOrder<SrgbLumaa<u8>, [u8; 2]> + ComponentOrder<SrgbLumaa<u8>, u16>,
{
    let mut mism = 0u64;
    for x in 0..=u16::MAX {
        let by = [(x >> 8) as u8, x as u8];
        let c: SrgbLumaa<u8> = Packed::<O, u16>::from(x).unpack();
        let a = [c.color.luma, c.alpha];
        let ok = (0..2).all(|ch| a[ch] == by[pos[ch] - 1])
            && Packed::<O, u16>::pack(c).color == x
            && Packed::<O, [u8; 2]>::pack(c).color == by;
        if !ok {
            mism += 1;
            if mism <= 8 { rec.ev(lpack_event::<O>(name, by)); }
        }
    }
    rec.ev(json!({"ev": "lpacksweep", "order": name, "pos": pos, "n": 65536, "mism": mism}));
}

const LATTICE: [u8; 8] = [0x00, 0x01, 0x0f, 0x10, 0x7f, 0x80, 0xab, 0xff];

fn mode_pack(dir: &str, cases: &[Value], thorough: bool) {
    let mut rec = Rec::create(&format!("{}/pack.ndjson", dir));
    for &r in &LATTICE { for &g in &LATTICE { for &b in &LATTICE { for &a in &LATTICE {
        rec.ev(packdef_event([r, g, b, a]));
    } } } }
    let mut norders = 0;
    for c in cases {
        if c["k"] != "order" { continue; }
        let name = c["name"].as_str().unwrap();
        let pos: Vec<usize> = c["pos"].as_array().unwrap().iter().map(|x| x.as_u64().unwrap() as usize).collect();
        norders += 1;
        match name {
            "rgba" => pack_sweep::<ORgba>(&mut rec, name, &pos, thorough),
            "argb" => pack_sweep::<Argb>(&mut rec, name, &pos, thorough),
            "bgra" => pack_sweep::<Bgra>(&mut rec, name, &pos, thorough),
            "abgr" => pack_sweep::<Abgr>(&mut rec, name, &pos, thorough),
            "la" => luma_sweep::<La>(&mut rec, name, &pos),
            "al" => luma_sweep::<Al>(&mut rec, name, &pos),
            _ => panic!("order {} is not implemented by palette", name),
        }
    }
    if norders == 0 { panic!("pack mode needs the model's `order` lines in --cases"); }
    let n = rec.finish();
    eprintln!("hex pack: {} orders swept ({}), {} events", norders, if thorough { "all 2^32" } else { "2^24 spread" }, n);
}

// ------------------------------------------------------------------------------------------ TLC cases

fn arr_u8<const N: usize>(v: &Value) -> [u8; N] {
    let a = v.as_array().expect("array");
    let mut out = [0u8; N];
    for i in 0..N { out[i] = a[i].as_u64().unwrap() as u8; }
    out
}

fn name_event(q: &str) -> Value {
    match catch(|| named::from_str(q)) {
        Ok(Some(c)) => json!({"ev": "name", "q": q, "found": 1, "val": [c.red, c.green, c.blue]}),
        Ok(None) => json!({"ev": "name", "q": q, "found": 0, "val": []}),
        Err(_) => json!({"ev": "name", "q": q, "found": -1, "val": []}),
    }
}

fn mode_cases(dir: &str, cases: &[Value]) {
    let mut rec = Rec::create(&format!("{}/cases.ndjson", dir));
    let pf = parse_fns();
    for c in cases {
        match c["k"].as_str().unwrap_or("") {
            "parse" => {
                let toks: Vec<String> = c["sy"].as_array().unwrap().iter().map(|x| x.as_str().unwrap().to_string()).collect();
                for (name, f) in &pf {
                    if c.get("ty").map_or(true, |t| t == name) {
                        rec.ev(f("parse", &toks));
                        rec.ev(f("from_hex", &toks));
                    }
                }
            }
            "fmt" => {
                let v = &c["val"];
                rec.ev(match c["ty"].as_str().unwrap() {
                    "rgb_u8" => fmt_case::<Rgb<S, u8>>(v),
                    "rgba_u8" => fmt_case::<Rgba<S, u8>>(v),
                    "rgb_u16" => fmt_case::<Rgb<S, u16>>(v),
                    "rgba_u16" => fmt_case::<Rgba<S, u16>>(v),
                    "rgb_u32" => fmt_case::<Rgb<S, u32>>(v),
                    "rgba_u32" => fmt_case::<Rgba<S, u32>>(v),
                    t => panic!("no hexadecimal formatting case for {}", t),
                });
            }
            "pack" => rec.ev(pack_by_name(c["order"].as_str().unwrap(), arr_u8::<4>(&c["c"]))),
            "lpack" => rec.ev(lpack_by_name(c["order"].as_str().unwrap(), arr_u8::<2>(&c["c"]))),
            "packdef" => rec.ev(packdef_event(arr_u8::<4>(&c["c"]))),
            "name" => rec.ev(name_event(c["q"].as_str().unwrap())),
            _ => {}
        }
    }
    let n = rec.finish();
    eprintln!("hex cases: {} cases, {} events", cases.len(), n);
}

// ------------------------------------------------------------------------------------------ names

macro_rules! named_consts {
    ($($c:ident),* $(,)?) => { vec![$((stringify!($c), named::$c)),*] };
}

/// every pub const the documentation promises (the CSS keyword list, upper case); a constant missing
/// from the tree under test is a build error naming it
fn consts() -> Vec<(&'static str, Srgb<u8>)> {
    named_consts![
        ALICEBLUE, ANTIQUEWHITE, AQUA, AQUAMARINE, AZURE, BEIGE, BISQUE, BLACK, BLANCHEDALMOND, BLUE, BLUEVIOLET,
        BROWN, BURLYWOOD, CADETBLUE, CHARTREUSE, CHOCOLATE, CORAL, CORNFLOWERBLUE, CORNSILK, CRIMSON, CYAN,
        DARKBLUE, DARKCYAN, DARKGOLDENROD, DARKGRAY, DARKGREEN, DARKGREY, DARKKHAKI, DARKMAGENTA, DARKOLIVEGREEN,
        DARKORANGE, DARKORCHID, DARKRED, DARKSALMON, DARKSEAGREEN, DARKSLATEBLUE, DARKSLATEGRAY, DARKSLATEGREY,
        DARKTURQUOISE, DARKVIOLET, DEEPPINK, DEEPSKYBLUE, DIMGRAY, DIMGREY, DODGERBLUE, FIREBRICK, FLORALWHITE,
        FORESTGREEN, FUCHSIA, GAINSBORO, GHOSTWHITE, GOLD, GOLDENROD, GRAY, GREEN, GREENYELLOW, GREY, HONEYDEW,
        HOTPINK, INDIANRED, INDIGO, IVORY, KHAKI, LAVENDER, LAVENDERBLUSH, LAWNGREEN, LEMONCHIFFON, LIGHTBLUE,
        LIGHTCORAL, LIGHTCYAN, LIGHTGOLDENRODYELLOW, LIGHTGRAY, LIGHTGREEN, LIGHTGREY, LIGHTPINK, LIGHTSALMON,
        LIGHTSEAGREEN, LIGHTSKYBLUE, LIGHTSLATEGRAY, LIGHTSLATEGREY, LIGHTSTEELBLUE, LIGHTYELLOW, LIME, LIMEGREEN,
        LINEN, MAGENTA, MAROON, MEDIUMAQUAMARINE, MEDIUMBLUE, MEDIUMORCHID, MEDIUMPURPLE, MEDIUMSEAGREEN,
        MEDIUMSLATEBLUE, MEDIUMSPRINGGREEN, MEDIUMTURQUOISE, MEDIUMVIOLETRED, MIDNIGHTBLUE, MINTCREAM, MISTYROSE,
        MOCCASIN, NAVAJOWHITE, NAVY, OLDLACE, OLIVE, OLIVEDRAB, ORANGE, ORANGERED, ORCHID, PALEGOLDENROD,
        PALEGREEN, PALETURQUOISE, PALEVIOLETRED, PAPAYAWHIP, PEACHPUFF, PERU, PINK, PLUM, POWDERBLUE, PURPLE,
        REBECCAPURPLE, RED, ROSYBROWN, ROYALBLUE, SADDLEBROWN, SALMON, SANDYBROWN, SEAGREEN, SEASHELL, SIENNA,
        SILVER, SKYBLUE, SLATEBLUE, SLATEGRAY, SLATEGREY, SNOW, SPRINGGREEN, STEELBLUE, TAN, TEAL, THISTLE,
        TOMATO, TURQUOISE, VIOLET, WHEAT, WHITE, WHITESMOKE, YELLOW, YELLOWGREEN,
    ]
}

fn mode_names(dir: &str, cases: &[Value], named_src: Option<String>) {
    let mut rec = Rec::create(&format!("{}/names.ndjson", dir));
    // keywords: the model's list (from the cases file) and whatever the implementation enumerates
    let mut keys: Vec<String> = vec![];
    for c in cases {
        if c["k"] == "name" { keys.push(c["q"].as_str().unwrap().to_string()); }
    }
    if keys.is_empty() { panic!("names mode needs the model's `name` lines in --cases"); }
    keys.extend(named::names().map(|s| s.to_string()));
    keys.sort();
    keys.dedup();
    let mut queries: Vec<String> = vec![String::new(), " ".into(), "#ff0000".into(), "ff0000".into(), "transparent".into(),
                                        "currentcolor".into(), "none".into()];
    for k in &keys {
        queries.push(k.clone());
        queries.push(k.to_ascii_uppercase());
        let mut cap = k.clone();
        cap[..1].make_ascii_uppercase();
        queries.push(cap);
        queries.push(format!(" {}", k));
        queries.push(format!("{} ", k));
        queries.push(format!("{}{}", k, k));
        let ch: Vec<char> = k.chars().collect();
        for i in 0..ch.len() {
            let del: String = ch.iter().enumerate().filter(|(j, _)| *j != i).map(|(_, c)| *c).collect();
            queries.push(del);
            let next = if ch[i] == 'z' { 'a' } else { ((ch[i] as u8) + 1) as char };
            for r in [next, ch[i].to_ascii_uppercase(), '_', ' ', '0', '\u{e9}'] {
                let mut s = ch.clone();
                s[i] = r;
                queries.push(s.into_iter().collect());
            }
        }
    }
    for q in &queries { rec.ev(name_event(q)); }
    // the map as a set
    // each iterator is consumed from both ends alternately (next, next_back, ...): every item exactly once
    fn both_ends<I: DoubleEndedIterator>(mut it: I) -> Vec<I::Item> {
        let mut out = vec![];
        loop {
            match it.next() { Some(x) => out.push(x), None => break }
            match it.next_back() { Some(x) => out.push(x), None => break }
        }
        out
    }
    let mut e: Vec<(String, [u8; 3])> = both_ends(named::entries()).into_iter().map(|(n, c)| (n.to_string(), [c.red, c.green, c.blue])).collect();
    e.sort();
    let mut n: Vec<String> = both_ends(named::names()).into_iter().map(|s| s.to_string()).collect();
    n.sort();
    let mut cols: Vec<[u8; 3]> = both_ends(named::colors()).into_iter().map(|c| [c.red, c.green, c.blue]).collect();
    cols.sort();
    // forwards only must give the same multiset
    let mut e2: Vec<(String, [u8; 3])> = named::entries().map(|(n, c)| (n.to_string(), [c.red, c.green, c.blue])).collect();
    e2.sort();
    if e2 != e { e.push(("<forward and two-ended iteration disagree>".to_string(), [0, 0, 0])); }
    rec.ev(json!({"ev": "entries", "names": e.iter().map(|x| x.0.clone()).collect::<Vec<_>>(),
                  "vals": e.iter().map(|x| x.1).collect::<Vec<_>>(), "names_iter": n, "colors_iter": cols,
                  "len": named::entries().len()}));
    // the constants
    for (name, c) in consts() {
        let lower = name.to_ascii_lowercase();
        let f = named::from_str(&lower);
        rec.ev(json!({"ev": "const", "name": name, "lower": lower, "val": [c.red, c.green, c.blue],
                      "found": if f.is_some() { 1 } else { 0 },
                      "fval": f.map(|c| vec![c.red, c.green, c.blue]).unwrap_or_default()}));
    }
    // the set of pub consts in the working tree's source (a constant ADDED to the tree shows up here)
    if let Some(p) = named_src {
        let text = std::fs::read_to_string(&p).unwrap_or_else(|e| panic!("cannot read {}: {}", p, e));
        let mut found: Vec<String> = vec![];
        for part in text.split("pub const ").skip(1) {
            let id: String = part.chars().take_while(|c| c.is_ascii_alphanumeric() || *c == '_').collect();
            if part[id.len()..].trim_start().starts_with(':') { found.push(id.to_ascii_lowercase()); }
        }
        found.sort();
        rec.ev(json!({"ev": "constset", "names": found}));
    }
    let k = rec.finish();
    eprintln!("hex names: {} keywords, {} queries, {} events", keys.len(), queries.len(), k);
}

// ------------------------------------------------------------------------------------------ main

fn main() {
    let dir = arg_or("--out-dir", ".");
    let modes = arg_or("--mode", "sweep,long,rt,names");
    let thorough = flag("--thorough");
    let maxlen: usize = arg_or("--maxlen", "7").parse().expect("--maxlen");
    let cases: Vec<Value> = match arg("--cases") {
        Some(p) => std::fs::read_to_string(&p)
            .unwrap_or_else(|e| panic!("cannot read {}: {}", p, e))
            .lines()
            .filter(|l| !l.trim().is_empty())
            .map(|l| serde_json::from_str(l).expect("case json"))
            .collect(),
        None => vec![],
    };
    for m in modes.split(',') {
        match m {
            "sweep" => mode_sweep(&dir, maxlen),
            "long" => mode_long(&dir, thorough),
            "cases" => mode_cases(&dir, &cases),
            "rt" => mode_rt(&dir, thorough),
            "pack" => mode_pack(&dir, &cases, thorough),
            "names" => mode_names(&dir, &cases, arg("--named-src")),
            _ => panic!("unknown mode {}", m),
        }
    }
}
