------------------------------ MODULE TraceDiff ------------------------------
(* Trace validation for C09.  Every recorded call of a colour difference measure   *)
(* or of the WCAG contrast API must satisfy the laws and the defining formula of    *)
(* Diff.tla on the exact values the floats denote.  Events are independent of each   *)
(* other, so a rejected line never hides the following ones.                         *)
(*                                                                                  *)
(* {"ev":"diff","m":measure,"ty":type,"t":"f32"|"f64","c1":[x..],"c2":[x..],            *)
(*  "out":[d(c1,c2), d(c2,c1)],"aux":[..],"r1":[..],"r2":[..],"rect":[..],"panic":0|1}   *)
(*    m:  dist2 distance_squared | dist distance | de delta_e | ide improved_delta_e     *)
(*        hyab hybrid_distance | de00 Ciede2000::difference | ide00 improved_difference   *)
(*    ty: lab luv oklab jab srgb linsrgb srgbluma linluma (rectangular), lch jmh (polar)   *)
(*    aux: de00 - the deprecated ColorDifference::get_color_difference for both orders;     *)
(*         ide00 - the plain Ciede2000::difference for both orders; else empty               *)
(*    polar types: r1, r2 = the colours converted by palette to Lab / Jab, rect = the same    *)
(*         measure on r1, r2 (one value); rectangular types: empty                            *)
(* {"ev":"wcag","api":"new"|"old","ty":..,"t":..,"c1":[..],"c2":[..],"lum":[l1,l2],              *)
(*  "ratio":[r12,r21],"p12":[5 x 0|1],"p21":[..],"panic":0|1}                                    *)
(*    api new = Wcag21RelativeContrast, old = the deprecated RelativeContrast                    *)
(*    p: has_min_contrast_text, .._large_text, has_enhanced_contrast_text, .._large_text,          *)
(*       has_min_contrast_graphics                                                              *)
(* With CALIB=1 in the environment the measured bits of agreement are printed as NOTE lines        *)
(* and no threshold is applied (the laws still are).                                             *)
EXTENDS Diff, Json, IOUtils, TLC

Rec == ndJsonDeserialize(IOEnv.TRACE)
Calib == "CALIB" \in DOMAIN IOEnv /\ IOEnv.CALIB = "1"
VARIABLES l, K

DySeq(js) == [i \in DOMAIN js |-> Dy(js[i])]
Polar == {"lch", "jmh"}
Prec(t) == IF t = "f32" THEN 24 ELSE 53

(* ---- tolerances ------------------------------------------------------------------------------
   Bits of agreement required, per class and component type.  Calibrated on the pinned tree (C09_CALIB=1 ./check C09,
   both tiers: 540k events, 31k of them CIEDE2000; worst case over model, structured hue, achromatic, near, identical and
   random pairs); every threshold leaves at least 4 bits (16x) below the worst agreement observed:
     algebraic closed forms relative to the result (dist2, dist, de, hyab): observed >= 51 (f64), 22 (f32)
     power laws (ide, ide00: powf of the libm):                              observed >= 50 (f64), 22 (f32)
     CIEDE2000 against the Sharma reference, relative to the coordinates:     observed >= 49 (f64), 20 (f32)
        in every hue case (before the fix of the mean hue, commit 8a05af4 of /repo, the case |dh'| > 180,
        h'1 + h'2 >= 360 reached only 19 bits in f64)
     polar vs rectangular on converted colours, conversions:                  observed >= 50 (f64), 21 (f32)
     symmetry: every measure was bit-symmetric (200)
     WCAG ratio relation:                                                   observed >= 51 (f64), 23 (f32) *)
Thr(class, t) ==
  CASE class = "algebraic" -> IF t = "f32" THEN 18 ELSE 46
    [] class = "power" -> IF t = "f32" THEN 17 ELSE 45
    [] class = "de00" -> IF t = "f32" THEN 16 ELSE 44
    [] class = "polar" -> IF t = "f32" THEN 16 ELSE 44
    [] class = "wcag" -> IF t = "f32" THEN 18 ELSE 46
(* "within rounding" of the two jumps of CIEDE2000: the code's h' carries a few ulps of 360 (2^-15 degrees in f32,
   2^-44 in f64); 16 ulps *)
Band(t) == IF t = "f32" THEN QEps(11) ELSE QEps(40)
(* the range clause 1 <= ratio <= 21 allows this many ulps above 21 (the quotient of two rounded sums) *)
RangeUlps == 4

(* a measured agreement passes its threshold (within 4 bits of it, it is also printed, for the evidence file);
   in calibration mode it is printed and passes *)
Pass(e, kind, bits, class) ==
  IF Calib THEN PrintT(<<"NOTE", e.m, e.ty, e.t, kind, bits, l>>)
  ELSE IF bits >= Thr(class, e.t) + 4 THEN TRUE
  ELSE PrintT(<<"NOTE", e.m, e.ty, e.t, kind, bits, l>>) /\ bits >= Thr(class, e.t)

(* domain in which the formulas are judged (the laws are judged everywhere): magnitudes up to 2^10, and
   a chroma that is either exactly zero or at least 2^-10 (the fixed-point reference resolves 2^-104) *)
Small(d) == DyIsZero(d) \/ DyLog2(d) < 10
NotTiny(d) == DyIsZero(d) \/ DyLog2(d) >= -10
InDomainRect(c) == \A i \in DOMAIN c : Small(c[i])
ChromaOK(a, b) == (DyIsZero(a) /\ DyIsZero(b)) \/ ~(DyLog2(DyMax(DyAbs(a), DyAbs(b))) < -10)
InDomain00(ty, c) == IF ty \in Polar THEN Small(c[1]) /\ Small(c[2]) /\ c[2][1] >= 0 /\ NotTiny(c[2]) /\ DyLog2(DyAdd(DyAbs(c[3]), DyOne)) < 12
                     ELSE InDomainRect(c) /\ ChromaOK(c[2], c[3])

(* closed form of measure m on rectangular coordinates (sequences of Dy), bits relative to the result *)
RectFormBits(m, ty, out, c1, c2) ==
  CASE m = "dist2" -> DistSqBits(out, c1, c2)
    [] m \in {"dist", "de"} -> RootBits(out, c1, c2)
    [] m = "hyab" -> HyabBits(out, c1, c2)
    [] m = "ide" -> IF ty \in {"jab", "jmh"} THEN ImprovedCam16Bits(K, out, c1, c2) ELSE ImprovedLabBits(K, out, c1, c2)
    [] OTHER -> 200
FormClass(m) == IF m \in {"ide", "ide00"} THEN "power" ELSE "algebraic"

(* agreement of two results relative to the larger of them and `floor` (Q numbers) *)
PairBits(x, y, floor) == QAgreeBits(x, y, QMax(QMax(x, y), floor))
QOf(d) == QOfFx(FxOfDy(d))

WhyDiff(e) ==
  IF e.panic = 1 THEN "panic"
  ELSE IF ~AllFin(e.c1) \/ ~AllFin(e.c2) THEN "ok"                 \* not in the quantifier's domain
  ELSE IF ~AllFin(e.out) \/ ~AllFin(e.aux) \/ ~AllFin(e.rect) \/ ~AllFin(e.r1) \/ ~AllFin(e.r2) THEN "not finite"
  ELSE
  LET c1 == DySeq(e.c1)  c2 == DySeq(e.c2)
      o12 == Dy(e.out[1])  o21 == Dy(e.out[2])
      polar == e.ty \in Polar
      heavy == e.m \in {"de00", "ide00"}
      dom == IF heavy \/ polar THEN InDomain00(e.ty, c1) /\ InDomain00(e.ty, c2) ELSE InDomainRect(c1) /\ InDomainRect(c2)
      (* coordinate magnitude (Q): lightness and chroma / radius *)
      mag == IF ~dom THEN QOne
             ELSE IF polar THEN QAtLeast(QMax(QMax(QAbs(QOf(c1[1])), QAbs(QOf(c2[1]))), QMax(QOf(c1[2]), QOf(c2[2]))), 10)
             ELSE IF Len(c1) = 3 THEN CoordScale(QSeq(c1), QSeq(c2)) ELSE QOne
      (* symmetry: relative to the result for the well-conditioned closed forms, to the coordinates otherwise *)
      symbits == IF ~dom THEN (IF o12 = o21 THEN 200 ELSE 0)
                 ELSE IF heavy \/ polar THEN PairBits(QOf(o12), QOf(o21), mag) ELSE RelBits(o12, o21)
  IN IF ~NonNegative(e.out[1]) \/ ~NonNegative(e.out[2]) THEN "negative"
     ELSE IF ~ZeroOnIdentical(e.c1, e.c2, e.out[1]) \/ ~ZeroOnIdentical(e.c1, e.c2, e.out[2]) THEN "identical colours, not 0"
     ELSE IF ~dom THEN (IF symbits = 200 THEN "ok" ELSE "asymmetric")
     ELSE IF ~Pass(e, "sym", symbits, IF e.m = "de00" THEN "de00" ELSE IF polar THEN "polar" ELSE FormClass(e.m)) THEN "asymmetric"
     ELSE IF e.m = "ide00"
          THEN (* improved CIEDE2000 relative to the recorded plain value, for both orders *)
               IF ~Pass(e, "form", IF e.out[1] = e.out[2] /\ e.aux[1] = e.aux[2] THEN Improved00Bits(K, o12, Dy(e.aux[1]))
                                    ELSE MinI(Improved00Bits(K, o12, Dy(e.aux[1])), Improved00Bits(K, o21, Dy(e.aux[2]))), "power")
               THEN "improved dE00 # 1.43 dE00^0.7" ELSE "ok"
     ELSE IF e.m = "de00"
          THEN LET q1 == IF polar THEN PolarToRect(K, QSeq(c1)) ELSE QSeq(c1)
                   q2 == IF polar THEN PolarToRect(K, QSeq(c2)) ELSE QSeq(c2)
                   outs == <<QOf(o12), QOf(o21)>> \o QSeq(DySeq(e.aux))     \* the deprecated trait is the same function
               IN IF ~Pass(e, "form", De00Bits(K, q1, q2, outs, Band(e.t)), "de00") THEN "dE00 differs from the Sharma reference"
                  ELSE IF polar /\ ~Pass(e, "rect", PairBits(QOf(o12), QOf(Dy(e.rect[1])), mag), "polar") THEN "polar # rectangular"
                  ELSE "ok"
     ELSE IF polar
          THEN (* polar = rectangular on the converted colours; the conversion is the polar form; the rectangular
                  result satisfies the closed form *)
               LET r1 == DySeq(e.r1)  r2 == DySeq(e.r2)  rect == Dy(e.rect[1])
               IN IF ~Pass(e, "conv", MinI(ConvBits(K, QSeq(c1), QSeq(r1)), ConvBits(K, QSeq(c2), QSeq(r2))), "polar") THEN "conversion"
                  ELSE IF ~Pass(e, "rect", PairBits(QOf(o12), QOf(rect), QEps(60)), "polar") THEN "polar # rectangular"
                  ELSE IF ~Pass(e, "form", RectFormBits(e.m, e.ty, rect, r1, r2), FormClass(e.m)) THEN "closed form"
                  ELSE "ok"
     ELSE IF ~Pass(e, "form", IF e.out[1] = e.out[2] THEN RectFormBits(e.m, e.ty, o12, c1, c2)          \* (the same value: judged once)
                              ELSE MinI(RectFormBits(e.m, e.ty, o12, c1, c2), RectFormBits(e.m, e.ty, o21, c1, c2)), FormClass(e.m)) THEN "closed form"
     ELSE "ok"

WhyWcag(e) ==
  IF e.panic = 1 THEN "panic"
  ELSE IF ~AllFin(e.c1) \/ ~AllFin(e.c2) THEN "ok"
  ELSE IF ~AllFin(e.ratio) \/ ~AllFin(e.lum) THEN "not finite"
  ELSE
  LET r12 == Dy(e.ratio[1])  r21 == Dy(e.ratio[2])
      l1 == Dy(e.lum[1])  l2 == Dy(e.lum[2])
      gamut == InGamut(DySeq(e.c1)) /\ InGamut(DySeq(e.c2))
      ev == [m |-> e.api, ty |-> e.ty, t |-> e.t]
  IN IF e.ratio[1] # e.ratio[2] \/ e.p12 # e.p21 THEN "asymmetric"
     ELSE IF ~PredicatesAgree(r12, e.p12) THEN "predicate # ratio >= constant"
     ELSE IF e.c1 = e.c2 /\ ~DyEq(r12, DyOne) THEN "identical colours, ratio # 1"
     ELSE IF gamut /\ e.api = "new" /\ ~(LumInRange(l1) /\ LumInRange(l2)) THEN "luminance outside [0, 1]"
     ELSE IF gamut /\ ~RatioInRange(r12, Prec(e.t), RangeUlps) THEN "ratio outside [1, 21]"
     ELSE IF l1[1] < 0 \/ l2[1] < 0 \/ ~Small(l1) \/ ~Small(l2) THEN "ok"          \* out of gamut: the laws only
     ELSE IF ~Pass(ev, "ratio", ContrastBits(QOf(r12), QOf(l1), QOf(l2)), "wcag") THEN "ratio # (Lmax+0.05)/(Lmin+0.05)"
     ELSE "ok"

Why(e) == IF e.ev = "diff" THEN WhyDiff(e) ELSE IF e.ev = "wcag" THEN WhyWcag(e) ELSE "unknown event"

TInit == l = 1 /\ K = DiffConsts
TNext == /\ l <= Len(Rec)
         /\ LET w == Why(Rec[l]) IN IF w = "ok" THEN TRUE ELSE PrintT(<<"REJECT", l, w>>)
         /\ l' = l + 1 /\ UNCHANGED K
TSpec == TInit /\ [][TNext]_<<l, K>>
Consumed == TLCGet("stats").diameter = Len(Rec) + 1 \/ PrintT(<<"UNCONSUMED", TLCGet("stats").diameter>>)
=============================================================================
