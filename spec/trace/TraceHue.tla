------------------------------ MODULE TraceHue ------------------------------
(* Trace validation for C11.  Every recorded call of palette's hue API must   *)
(* satisfy the relation Hue.tla gives for that operation, on the exact values *)
(* the floats denote.  Events are independent of each other (a hue library    *)
(* has no state), so a rejected line never hides the following ones.          *)
(*                                                                            *)
(* Event: {"ev":"hue","op":..,"ty":<hue type>,"t":"f32"|"f64","m":<mode>,     *)
(*         "in":[exact..],"out":[exact..],"n":int,"k":int}                    *)
(*   signed    in [x]       out [y]          y = into_degrees()               *)
(*   unsigned  in [x]       out [y]          y = into_positive_degrees()      *)
(*   eq        in [x1,x2]   n = 1/0          hue(x1) == hue(x2) (m "hh") or hue(x1) == x2 (m "hs") *)
(*   radians   in [x]       out [deg,rad]    m signed | positive | raw | from *)
(*   cartesian in [a,b]     out [h,a2,b2]    from_cartesian(a,b) = h, then into_cartesian *)
(*   to_u8     in [x]       n = code                                          *)
(*   from_u8   k = code     out [y]  n = the code obtained by converting y back *)
(*   add, sub  in [x1,x2]   out [z]          m hh | hs | sh ; z = raw degrees of the result *)
EXTENDS Hue, Json, IOUtils, TLC

Rec == ndJsonDeserialize(IOEnv.TRACE)

VARIABLES l, skip
tvars == <<vars, l, skip>>

TInit == Init /\ l = 1 /\ skip = FALSE

IsOp(op) == /\ l <= Len(Rec) /\ Rec[l].ev = "hue" /\ Rec[l].op = op
            /\ Rec[l].t \in FloatTypes /\ Rec[l].ty \in HueTypes

(* an event is judged; a disagreement is reported and the next line is examined.
   The reason must stay short: TLC wraps printed tuples wider than 80 columns over several lines. *)
Judge(op, ok, why) ==
  /\ IF ok THEN TRUE ELSE PrintT(<<"REJECT", l, why>>)
  /\ last' = <<op, Rec[l].t>> /\ l' = l + 1 /\ skip' = FALSE

Fin(e) == AllFin(e.in) /\ AllFin(e.out)
In(e, i) == Dy(e.in[i])
Out(e, i) == Dy(e.out[i])
AllInDomain(e) == \A i \in DOMAIN e.in : InDomain(Dy(e.in[i]))

TrSigned ==
  /\ IsOp("signed")
  /\ LET e == Rec[l]
         \* mode "fromx": From<Hue<f32>> for f64 / From<Hue<f64>> for f32 - one side is f32, judged at f32 precision
         tt == IF e.m = "fromx" THEN "f32" ELSE e.t
     IN Judge("signed", Fin(e) /\ (AllInDomain(e) => SignedOK(tt, In(e, 1), Out(e, 1))),
              "signed: range or congruence")

TrUnsigned ==
  /\ IsOp("unsigned")
  /\ LET e == Rec[l]
     IN Judge("unsigned", Fin(e) /\ (AllInDomain(e) => UnsignedOK(e.t, In(e, 1), Out(e, 1))),
              "unsigned: range or congruence")

TrEq ==
  /\ IsOp("eq")
  /\ LET e == Rec[l]
     IN Judge("eq", Fin(e) /\ (AllInDomain(e) => EqOK(e.t, In(e, 1), In(e, 2), e.n)),
              "eq: disagrees with congruence mod 360")

(* degrees/radians: the pair (deg, rad) must be consistent, and deg must be what the mode says *)
TrRadians ==
  /\ IsOp("radians")
  /\ LET e == Rec[l]
         x == In(e, 1)  deg == Out(e, 1)  rad == Out(e, 2)
         link == CASE e.m = "signed" -> (InDomain(x) => SignedOK(e.t, x, deg))
                   [] e.m = "positive" -> (InDomain(x) => UnsignedOK(e.t, x, deg))
                   [] e.m = "raw" -> DyEq(x, deg)
                   [] e.m = "from" -> DyEq(x, rad)
                   [] OTHER -> FALSE
     IN Judge("radians", Fin(e) /\ link /\ RadOK(e.t, deg, rad),
              "radians: inconsistent with degrees")

TrCartesian ==
  /\ IsOp("cartesian")
  /\ LET e == Rec[l]
     IN Judge("cartesian", Fin(e) /\ CartOK(e.t, In(e, 1), In(e, 2), Out(e, 2), Out(e, 3)),
              "cartesian: direction or unit length")

TrToU8 ==
  /\ IsOp("to_u8")
  /\ LET e == Rec[l]
     IN Judge("to_u8", Fin(e) /\ (AllInDomain(e) => ToU8OK(e.t, In(e, 1), e.n)),
              "to_u8: not round(r*256/360) mod 256")

TrFromU8 ==
  /\ IsOp("from_u8")
  /\ LET e == Rec[l]
     IN Judge("from_u8", Fin(e) /\ FromU8OK(e.k, Out(e, 1)) /\ e.n = e.k,
              "from_u8: not k*360/256 or no round trip")

TrAdd ==
  /\ IsOp("add")
  /\ LET e == Rec[l]
     IN Judge("add", Fin(e) /\ (AllInDomain(e) => AddOK(e.t, In(e, 1), In(e, 2), Out(e, 1))),
              "add: not congruent to the exact sum")

TrSub ==
  /\ IsOp("sub")
  /\ LET e == Rec[l]
     IN Judge("sub", Fin(e) /\ (AllInDomain(e) => SubOK(e.t, In(e, 1), In(e, 2), Out(e, 1))),
              "sub: not congruent to the exact difference")

(* a reset line (not needed by stateless recordings, accepted for uniformity) *)
TReset == /\ l <= Len(Rec) /\ Rec[l].ev = "reset"
          /\ UNCHANGED last /\ skip' = FALSE /\ l' = l + 1

TNext == TReset \/ TrSigned \/ TrUnsigned \/ TrEq \/ TrRadians \/ TrCartesian \/ TrToU8 \/ TrFromU8
         \/ TrAdd \/ TrSub
TSpec == TInit /\ [][TNext]_tvars

Consumed == TLCGet("stats").diameter = Len(Rec) + 1 \/ PrintT(<<"UNCONSUMED", TLCGet("stats").diameter>>)
TInv == TypeOK
=============================================================================
