// `cast --ctor`: positional construction and destructuring.  Every colour type is built through each positional API
// (`new`, `new_const`, `new_srgb*`, `from_components`, `From<tuple>`, the `Alpha` forms of the same) from distinct
// tokens and then read BY FIELD NAME; and built by field name and read through `into_components` / `Into<tuple>`.
// One event per call: {"ev":"ctor","base","wrap","k","form","names":[..],"args":[tokens],"read":[tokens]} where
// `args` are the tokens in call (or tuple) position and `read` the tokens found in the fields listed by `names`
// (for the destructuring forms: `args` are the tokens stored in the fields `names`, `read` the tuple positions).
// TraceCtor.tla: names = Declared(base, wrap) and read = args.

thread_local! { static CTOR_SEEN: std::cell::RefCell<std::collections::BTreeSet<(String, String, String)>> = Default::default(); }
fn ctor_ev(rec: &mut Rec, base: &str, wrap: &str, k: &str, form: &str, names: &[&str], args: &[i64], read: &[i64]) {
    CTOR_SEEN.with(|s| s.borrow_mut().insert((base.to_string(), wrap.to_string(), form.to_string())));
    rec.ev(json!({"ev": "ctor", "base": base, "wrap": wrap, "k": k, "form": form, "names": names, "args": args, "read": read}));
}

macro_rules! ctor_if { (yes, $b:block) => { $b }; (no, $b:block) => {}; }
macro_rules! ctor_common {
    ($tf:ident, $rec:ident, $base:literal, $ty:ty, $k:ty, $mk:ident, $rd:ident, $nm:ident,
     |$a:ident, $b:ident, $c:ident| $tup:expr, |$x:ident| $untup:expr, $tupty:ty, $atupty:ty) => {{
        let t = |i: i64| <$k as Comp>::enc(i);
        let kn = <$k as Comp>::NAME;
        let names = $nm();
        let mut an = $nm(); an.push("alpha");
        let rd3 = |c: &$ty| { let r: [$k; 3] = $rd(c); [r[0].dec(), r[1].dec(), r[2].dec()] };
        let rd4 = |c: &Alpha<$ty, $k>| { let r: [$k; 3] = $rd(&c.color); [r[0].dec(), r[1].dec(), r[2].dec(), c.alpha.dec()] };
        // from_components / From<tuple>
        { let ($a, $b, $c) = (t(4), t(5), t(6)); let c = <$ty>::from_components($tup); ctor_ev($rec, $base, "none", kn, "from_components", &names, &[4, 5, 6], &rd3(&c)); }
        ctor_if!($tf, { let ($a, $b, $c) = (t(7), t(8), t(9)); let c: $ty = <$ty as From<$tupty>>::from($tup); ctor_ev($rec, $base, "none", kn, "from_tuple", &names, &[7, 8, 9], &rd3(&c)); });
        // into_components / Into<tuple>
        { let c: $ty = $mk([t(10), t(11), t(12)]); let $x = c.into_components(); let r: [$k; 3] = $untup; ctor_ev($rec, $base, "none", kn, "into_components", &names, &[10, 11, 12], &[r[0].dec(), r[1].dec(), r[2].dec()]); }
        ctor_if!($tf, { let c: $ty = $mk([t(13), t(14), t(15)]); let $x: $tupty = c.into(); let r: [$k; 3] = $untup; ctor_ev($rec, $base, "none", kn, "into_tuple", &names, &[13, 14, 15], &[r[0].dec(), r[1].dec(), r[2].dec()]); });
        // the Alpha forms
        { let ($a, $b, $c) = (t(4), t(5), t(6)); let (x0, x1, x2) = $tup; let c = <Alpha<$ty, $k>>::from_components((x0, x1, x2, t(16))); ctor_ev($rec, $base, "alpha", kn, "from_components", &an, &[4, 5, 6, 16], &rd4(&c)); }
        ctor_if!($tf, { let ($a, $b, $c) = (t(7), t(8), t(9)); let (x0, x1, x2) = $tup; let c: Alpha<$ty, $k> = <Alpha<$ty, $k> as From<$atupty>>::from((x0, x1, x2, t(17))); ctor_ev($rec, $base, "alpha", kn, "from_tuple", &an, &[7, 8, 9, 17], &rd4(&c)); });
        { let c: Alpha<$ty, $k> = Alpha { color: $mk([t(10), t(11), t(12)]), alpha: t(18) }; let (x0, x1, x2, al) = c.into_components(); let $x = (x0, x1, x2); let r: [$k; 3] = $untup;
          ctor_ev($rec, $base, "alpha", kn, "into_components", &an, &[10, 11, 12, 18], &[r[0].dec(), r[1].dec(), r[2].dec(), al.dec()]); }
        ctor_if!($tf, { let c: Alpha<$ty, $k> = Alpha { color: $mk([t(13), t(14), t(15)]), alpha: t(19) }; let (x0, x1, x2, al): $atupty = c.into(); let $x = (x0, x1, x2); let r: [$k; 3] = $untup;
          ctor_ev($rec, $base, "alpha", kn, "into_tuple", &an, &[13, 14, 15, 19], &[r[0].dec(), r[1].dec(), r[2].dec(), al.dec()]); });
        (names, an, rd3, rd4, t, kn)
    }};
}

/// three components of the scalar type
macro_rules! ctor_plain {
    ($rec:ident, $base:literal, $ty:ty, $k:ty, $mk:ident, $rd:ident, $nm:ident) => {{
        let (names, an, rd3, rd4, t, kn) = ctor_common!(yes, $rec, $base, $ty, $k, $mk, $rd, $nm, |a, b, c| (a, b, c), |x| [x.0, x.1, x.2], ($k, $k, $k), ($k, $k, $k, $k));
        let c = <$ty>::new(t(1), t(2), t(3)); ctor_ev($rec, $base, "none", kn, "new", &names, &[1, 2, 3], &rd3(&c));
        let c = <Alpha<$ty, $k>>::new(t(1), t(2), t(3), t(20)); ctor_ev($rec, $base, "alpha", kn, "new", &an, &[1, 2, 3, 20], &rd4(&c));
    }};
}
/// hue first: (Hue, T, T)
macro_rules! ctor_hue0 {
    ($rec:ident, $base:literal, $ty:ty, $k:ty, $hue:ident, $mk:ident, $rd:ident, $nm:ident, $tf:ident $(, $srgb:ident)?) => {{
        let (names, an, rd3, rd4, t, kn) = ctor_common!($tf, $rec, $base, $ty, $k, $mk, $rd, $nm, |a, b, c| ($hue::new(a), b, c), |x| [x.0.into_inner(), x.1, x.2], ($hue<$k>, $k, $k), ($hue<$k>, $k, $k, $k));
        let c = <$ty>::new(t(1), t(2), t(3)); ctor_ev($rec, $base, "none", kn, "new", &names, &[1, 2, 3], &rd3(&c));
        let c = <$ty>::new($hue::new(t(21)), t(22), t(23)); ctor_ev($rec, $base, "none", kn, "new_hue", &names, &[21, 22, 23], &rd3(&c));
        let c = <$ty>::new_const($hue::new(t(24)), t(25), t(26)); ctor_ev($rec, $base, "none", kn, "new_const", &names, &[24, 25, 26], &rd3(&c));
        let c = <Alpha<$ty, $k>>::new(t(1), t(2), t(3), t(20)); ctor_ev($rec, $base, "alpha", kn, "new", &an, &[1, 2, 3, 20], &rd4(&c));
        let c = <Alpha<$ty, $k>>::new_const($hue::new(t(24)), t(25), t(26), t(27)); ctor_ev($rec, $base, "alpha", kn, "new_const", &an, &[24, 25, 26, 27], &rd4(&c));
        $(
            let _ = stringify!($srgb);
            let c = <$ty>::new_srgb(t(28), t(29), t(30)); ctor_ev($rec, $base, "none", kn, "new_srgb", &names, &[28, 29, 30], &rd3(&c));
            let c = <$ty>::new_srgb_const($hue::new(t(31)), t(32), t(33)); ctor_ev($rec, $base, "none", kn, "new_srgb_const", &names, &[31, 32, 33], &rd3(&c));
            let c = <Alpha<$ty, $k>>::new_srgb(t(28), t(29), t(30), t(34)); ctor_ev($rec, $base, "alpha", kn, "new_srgb", &an, &[28, 29, 30, 34], &rd4(&c));
            let c = <Alpha<$ty, $k>>::new_srgb_const($hue::new(t(31)), t(32), t(33), t(35)); ctor_ev($rec, $base, "alpha", kn, "new_srgb_const", &an, &[31, 32, 33, 35], &rd4(&c));
        )?
    }};
}
/// hue last: (T, T, Hue)
macro_rules! ctor_hue2 {
    ($rec:ident, $base:literal, $ty:ty, $k:ty, $hue:ident, $mk:ident, $rd:ident, $nm:ident) => {{
        let (names, an, rd3, rd4, t, kn) = ctor_common!(yes, $rec, $base, $ty, $k, $mk, $rd, $nm, |a, b, c| (a, b, $hue::new(c)), |x| [x.0, x.1, x.2.into_inner()], ($k, $k, $hue<$k>), ($k, $k, $hue<$k>, $k));
        let c = <$ty>::new(t(1), t(2), t(3)); ctor_ev($rec, $base, "none", kn, "new", &names, &[1, 2, 3], &rd3(&c));
        let c = <$ty>::new(t(21), t(22), $hue::new(t(23))); ctor_ev($rec, $base, "none", kn, "new_hue", &names, &[21, 22, 23], &rd3(&c));
        let c = <$ty>::new_const(t(24), t(25), $hue::new(t(26))); ctor_ev($rec, $base, "none", kn, "new_const", &names, &[24, 25, 26], &rd3(&c));
        let c = <Alpha<$ty, $k>>::new(t(1), t(2), t(3), t(20)); ctor_ev($rec, $base, "alpha", kn, "new", &an, &[1, 2, 3, 20], &rd4(&c));
        let c = <Alpha<$ty, $k>>::new_const(t(24), t(25), $hue::new(t(26)), t(27)); ctor_ev($rec, $base, "alpha", kn, "new_const", &an, &[24, 25, 26, 27], &rd4(&c));
    }};
}

macro_rules! both_k {
    ($m:ident, $rec:ident, $base:literal, [$($pre:ty),*], $ty:ident, $($rest:tt)*) => {
        $m!($rec, $base, $ty<$($pre,)* f32>, f32, $($rest)*);
        $m!($rec, $base, $ty<$($pre,)* f64>, f64, $($rest)*);
    };
}

fn run_ctor(rec: &mut Rec) {
    both_k!(ctor_plain, rec, "Rgb", [SrgbStd], Rgb, mk_rgb, rd_rgb, nm_rgb);
    both_k!(ctor_plain, rec, "Lab", [D65], Lab, mk_lab, rd_lab, nm_lab);
    both_k!(ctor_plain, rec, "Luv", [D65], Luv, mk_luv, rd_luv, nm_luv);
    both_k!(ctor_plain, rec, "Xyz", [D65], Xyz, mk_xyz, rd_xyz, nm_xyz);
    both_k!(ctor_plain, rec, "Yxy", [D65], Yxy, mk_yxy, rd_yxy, nm_yxy);
    both_k!(ctor_plain, rec, "Lms", [()], Lms, mk_lms, rd_lms, nm_lms);
    both_k!(ctor_plain, rec, "Oklab", [], Oklab, mk_oklab, rd_oklab, nm_oklab);
    both_k!(ctor_plain, rec, "Cam16UcsJab", [], Cam16UcsJab, mk_ucsjab, rd_ucsjab, nm_ucsjab);
    both_k!(ctor_hue0, rec, "Hsl", [SrgbStd], Hsl, RgbHue, mk_hsl, rd_hsl, nm_hsl, yes, srgb);
    both_k!(ctor_hue0, rec, "Hsv", [SrgbStd], Hsv, RgbHue, mk_hsv, rd_hsv, nm_hsv, yes, srgb);
    both_k!(ctor_hue0, rec, "Hwb", [SrgbStd], Hwb, RgbHue, mk_hwb, rd_hwb, nm_hwb, yes, srgb);
    both_k!(ctor_hue0, rec, "Hsluv", [D65], Hsluv, LuvHue, mk_hsluv, rd_hsluv, nm_hsluv, yes);
    both_k!(ctor_hue0, rec, "Okhsl", [], Okhsl, OklabHue, mk_okhsl, rd_okhsl, nm_okhsl, no);
    both_k!(ctor_hue0, rec, "Okhsv", [], Okhsv, OklabHue, mk_okhsv, rd_okhsv, nm_okhsv, yes);
    both_k!(ctor_hue0, rec, "Okhwb", [], Okhwb, OklabHue, mk_okhwb, rd_okhwb, nm_okhwb, no);
    both_k!(ctor_hue2, rec, "Lch", [D65], Lch, LabHue, mk_lch, rd_lch, nm_lch);
    both_k!(ctor_hue2, rec, "Lchuv", [D65], Lchuv, LuvHue, mk_lchuv, rd_lchuv, nm_lchuv);
    both_k!(ctor_hue2, rec, "Oklch", [], Oklch, OklabHue, mk_oklch, rd_oklch, nm_oklch);
    both_k!(ctor_hue2, rec, "Cam16UcsJmh", [], Cam16UcsJmh, Cam16Hue, mk_ucsjmh, rd_ucsjmh, nm_ucsjmh);
    both_k!(ctor_hue2, rec, "Cam16Jch", [], Cam16Jch, Cam16Hue, mk_jch, rd_jch, nm_jch);
    both_k!(ctor_hue2, rec, "Cam16Jmh", [], Cam16Jmh, Cam16Hue, mk_jmh, rd_jmh, nm_jmh);
    both_k!(ctor_hue2, rec, "Cam16Jsh", [], Cam16Jsh, Cam16Hue, mk_jsh, rd_jsh, nm_jsh);
    both_k!(ctor_hue2, rec, "Cam16Qch", [], Cam16Qch, Cam16Hue, mk_qch, rd_qch, nm_qch);
    both_k!(ctor_hue2, rec, "Cam16Qmh", [], Cam16Qmh, Cam16Hue, mk_qmh, rd_qmh, nm_qmh);
    both_k!(ctor_hue2, rec, "Cam16Qsh", [], Cam16Qsh, Cam16Hue, mk_qsh, rd_qsh, nm_qsh);
    // one component
    macro_rules! luma1 { ($k:ty) => {{
        let t = |i: i64| <$k as Comp>::enc(i);
        let kn = <$k as Comp>::NAME;
        let c = Luma::<SrgbStd, $k>::new(t(1)); ctor_ev(rec, "Luma", "none", kn, "new", &["luma"], &[1], &[c.luma.dec()]);
        let c = Luma::<SrgbStd, $k>::from_components((t(2),)); ctor_ev(rec, "Luma", "none", kn, "from_components", &["luma"], &[2], &[c.luma.dec()]);
        let c: Luma<SrgbStd, $k> = (t(3),).into(); ctor_ev(rec, "Luma", "none", kn, "from_tuple", &["luma"], &[3], &[c.luma.dec()]);
        let (l,) = mk_luma::<$k>([t(4)]).into_components(); ctor_ev(rec, "Luma", "none", kn, "into_components", &["luma"], &[4], &[l.dec()]);
        let c = Alpha::<Luma<SrgbStd, $k>, $k>::new(t(5), t(6)); ctor_ev(rec, "Luma", "alpha", kn, "new", &["luma", "alpha"], &[5, 6], &[c.color.luma.dec(), c.alpha.dec()]);
        let c = Alpha::<Luma<SrgbStd, $k>, $k>::from_components((t(7), t(8))); ctor_ev(rec, "Luma", "alpha", kn, "from_components", &["luma", "alpha"], &[7, 8], &[c.color.luma.dec(), c.alpha.dec()]);
        let c: Alpha<Luma<SrgbStd, $k>, $k> = Alpha { color: mk_luma([t(9)]), alpha: t(10) };
        let (l, a) = c.into_components(); ctor_ev(rec, "Luma", "alpha", kn, "into_components", &["luma", "alpha"], &[9, 10], &[l.dec(), a.dec()]);
    }}; }
    luma1!(u8); luma1!(u16); luma1!(f32); luma1!(f64);
    // the phantom parameter can be replaced without touching the components
    {
        let t = |i: i64| <f32 as Comp>::enc(i);
        let c: Xyz<palette::white_point::D50, f32> = mk_xyz::<f32>([t(1), t(2), t(3)]).with_white_point();
        ctor_ev(rec, "Xyz", "none", "f32", "with_white_point", &nm_xyz(), &[1, 2, 3], &[c.x.dec(), c.y.dec(), c.z.dec()]);
        let c: Alpha<Xyz<palette::white_point::D50, f32>, f32> = Alpha { color: mk_xyz::<f32>([t(1), t(2), t(3)]), alpha: t(4) }.with_white_point();
        let mut an = nm_xyz(); an.push("alpha");
        ctor_ev(rec, "Xyz", "alpha", "f32", "with_white_point", &an, &[1, 2, 3, 4], &[c.color.x.dec(), c.color.y.dec(), c.color.z.dec(), c.alpha.dec()]);
        let c: Lms<palette::lms::matrix::VonKries, f32> = mk_lms::<f32>([t(1), t(2), t(3)]).with_meta();
        ctor_ev(rec, "Lms", "none", "f32", "with_meta", &nm_lms(), &[1, 2, 3], &[c.long.dec(), c.medium.dec(), c.short.dec()]);
    }
    let seen: Vec<Value> = CTOR_SEEN.with(|s| s.borrow().iter().map(|(b, w, f)| json!([b, w, f])).collect());
    rec.ev(json!({"ev": "ctor_summary", "seen": seen}));
}
