SPECIFICATION TSpec
POSTCONDITION Consumed
CHECK_DEADLOCK FALSE
