------------------------------- MODULE Blend -------------------------------
(***************************************************************************)
(* C08 - blending and compositing follow the W3C formulas and the           *)
(* Porter-Duff identities.                                                  *)
(*                                                                         *)
(* Reference: W3C "Compositing and Blending Level 1"                        *)
(* (https://www.w3.org/TR/compositing-1/), cited below by section.          *)
(*                                                                         *)
(* All numbers are exact dyadics (`Dy` of Fx.tla): the inputs the harness   *)
(* uses are k/4, k/8 or k/256, so every polynomial blend function, the      *)
(* compositing equation and the Porter-Duff operators are computed without  *)
(* any rounding.  Three things are not polynomials:                         *)
(*   - color-dodge and color-burn divide: their value is a rational n/d;    *)
(*   - un-premultiplication divides: judged by cross-multiplication;        *)
(*   - soft-light takes sqrt(cb) for cb > 1/4: the value is kept in the     *)
(*     form (n + k*sqrt(r))/d and every comparison with it is squared.      *)
(* A model value is therefore a record Q = [n, d, k, r] (all Dy, d > 0,     *)
(* k >= 0) denoting (n + k*sqrt(r)) / d.                                    *)
(*                                                                         *)
(* Per-channel arguments: cs, cb straight (non-premultiplied) source and    *)
(* backdrop colour, as, ab their alphas; Cs = cs*as, Cb = cb*ab.            *)
(***************************************************************************)
EXTENDS Fx, Sequences

D0 == DyZero
D1 == DyFromInt(1)
D2 == DyFromInt(2)
Om(x) == DySub(D1, x)                  \* one minus x
In01(x) == DyLe(D0, x) /\ DyLe(x, D1)

BlendModes == {"multiply", "screen", "overlay", "darken", "lighten", "dodge", "burn",
               "hard_light", "soft_light", "difference", "exclusion"}
ComposeOps == {"over", "inside", "outside", "atop", "xor", "plus"}
SymmetricModes == {"multiply", "screen", "darken", "lighten", "difference", "exclusion"}
SymmetricOps == {"plus", "xor"}
Forms == {"opaque", "alpha", "pre"}
FloatTypes == {"f32", "f64"}

-----------------------------------------------------------------------------
(* model values (n + k*sqrt(r)) / d *)

QOf(x) == [n |-> x, d |-> D1, k |-> D0, r |-> D0]
QRat(n, d) == [n |-> n, d |-> d, k |-> D0, r |-> D0]
QIsPlain(q) == DyIsZero(q.k) /\ DyEq(q.d, D1)

(* a rational bracket of sqrt(r) for r in [0, 1]: r <= sqrt(r) <= 1 (used for the range theorems only) *)
QLo(q) == DyAdd(q.n, DyMul(q.k, q.r))          \* times 1/d: a lower bound of the value
QHi(q) == DyAdd(q.n, q.k)                      \* times 1/d: an upper bound of the value

(* lo <= q and q <= hi, decided exactly (no bracket): k*sqrt(r) compared by squaring *)
LOCAL KSqrtGe(q, x) == DySign(x) <= 0 \/ DyLe(DyMul(x, x), DyMul(DyMul(q.k, q.k), q.r))   \* k*sqrt(r) >= x
LOCAL KSqrtLe(q, x) == DySign(x) >= 0 /\ DyLe(DyMul(DyMul(q.k, q.k), q.r), DyMul(x, x))   \* k*sqrt(r) <= x
QGe(q, lo) == KSqrtGe(q, DySub(DyMul(lo, q.d), q.n))          \* q >= lo
QLe(q, hi) == KSqrtLe(q, DySub(DyMul(hi, q.d), q.n))          \* q <= hi
(* equality of two model values with the same radicand (or none) *)
QEq(p, q) == /\ DyEq(DyMul(p.n, q.d), DyMul(q.n, p.d))
             /\ DyEq(DyMul(p.k, q.d), DyMul(q.k, p.d))
             /\ (DyIsZero(p.k) \/ DyEq(p.r, q.r))

-----------------------------------------------------------------------------
(* W3C compositing-1, section 10.1 "Separable blend modes": B(cb, cs).      *)
(* Arguments here in palette's order (source first).                        *)

Multiply(cs, cb) == DyMul(cs, cb)                                         \* 10.1.2  B = cb x cs
Screen(cs, cb) == DySub(DyAdd(cs, cb), DyMul(cs, cb))                     \* 10.1.3  B = cb + cs - (cb x cs)
(* 10.1.10 hard-light: if (cs <= 0.5) B = multiply(cb, 2 x cs) else B = screen(cb, 2 x cs - 1) *)
HardLight(cs, cb) == LET t == DyAdd(cs, cs)
                     IN IF DyLe(t, D1) THEN Multiply(t, cb) ELSE Screen(DySub(t, D1), cb)
Overlay(cs, cb) == HardLight(cb, cs)                                      \* 10.1.4  B = hard-light(cs, cb) swapped
Darken(cs, cb) == DyMin(cs, cb)                                           \* 10.1.5
Lighten(cs, cb) == DyMax(cs, cb)                                          \* 10.1.6
Difference(cs, cb) == DyAbs(DySub(cb, cs))                                \* 10.1.12 B = | cb - cs |
Exclusion(cs, cb) == DySub(DyAdd(cb, cs), DyMul(D2, DyMul(cb, cs)))       \* 10.1.13 B = cb + cs - 2 x cb x cs

(* 10.1.7 color-dodge: if (cb == 0) B = 0 else if (cs == 1) B = 1 else B = min(1, cb / (1 - cs)) *)
Dodge(cs, cb) == IF DyLe(cb, D0) THEN QOf(D0)
                 ELSE IF DyLe(D1, cs) THEN QOf(D1)
                 ELSE IF DyLe(Om(cs), cb) THEN QOf(D1)
                 ELSE QRat(cb, Om(cs))
(* 10.1.8 color-burn: if (cb == 1) B = 1 else if (cs == 0) B = 0 else B = 1 - min(1, (1 - cb) / cs) *)
Burn(cs, cb) == IF DyLe(D1, cb) THEN QOf(D1)
                ELSE IF DyLe(cs, D0) THEN QOf(D0)
                ELSE IF DyLe(cs, Om(cb)) THEN QOf(D0)
                ELSE QRat(DySub(cs, Om(cb)), cs)

(* 10.1.11 soft-light:
     if (cs <= 0.5) B = cb - (1 - 2 x cs) x cb x (1 - cb)
     else           B = cb + (2 x cs - 1) x (D(cb) - cb)
     with D(cb) = ((16 x cb - 12) x cb + 4) x cb  if (cb <= 0.25), sqrt(cb) otherwise *)
SoftD(cb) == DyMul(DyAdd(DyMul(DySub(DyMulInt(cb, 16), DyFromInt(12)), cb), DyFromInt(4)), cb)
SoftLight(cs, cb) ==
  LET t == DyAdd(cs, cs)
  IN IF DyLe(t, D1) THEN QOf(DySub(cb, DyMul(DyMul(Om(t), cb), Om(cb))))
     ELSE IF DyLe(DyMulInt(cb, 4), D1) THEN QOf(DyAdd(cb, DyMul(DySub(t, D1), DySub(SoftD(cb), cb))))
     ELSE (* cb + (2cs-1)(sqrt(cb) - cb) = cb (2 - 2cs) + (2cs-1) sqrt(cb) *)
          [n |-> DyMul(cb, DySub(D2, t)), d |-> D1, k |-> DySub(t, D1), r |-> cb]

BlendFn(mode, cs, cb) ==
  CASE mode = "multiply"   -> QOf(Multiply(cs, cb))
    [] mode = "screen"     -> QOf(Screen(cs, cb))
    [] mode = "overlay"    -> QOf(Overlay(cs, cb))
    [] mode = "darken"     -> QOf(Darken(cs, cb))
    [] mode = "lighten"    -> QOf(Lighten(cs, cb))
    [] mode = "dodge"      -> Dodge(cs, cb)
    [] mode = "burn"       -> Burn(cs, cb)
    [] mode = "hard_light" -> QOf(HardLight(cs, cb))
    [] mode = "soft_light" -> SoftLight(cs, cb)
    [] mode = "difference" -> QOf(Difference(cs, cb))
    [] mode = "exclusion"  -> QOf(Exclusion(cs, cb))

(* Section 10 "Blending" + 5.1 "Simple alpha compositing", premultiplied form:
     co = Cs x (1 - ab) + B(cb, cs) x as x ab + (1 - as) x Cb          [= palette's blend_separable]
     ao = as + ab - as x ab *)
BlendPre(mode, cs, cb, as, ab) ==
  LET b == BlendFn(mode, cs, cb)
      rest == DyAdd(DyMul(DyMul(cs, as), Om(ab)), DyMul(Om(as), DyMul(cb, ab)))
      m == DyMul(as, ab)
  IN [n |-> DyAdd(DyMul(rest, b.d), DyMul(b.n, m)), d |-> b.d, k |-> DyMul(b.k, m), r |-> b.r]
OverAlpha(as, ab) == DySub(DyAdd(as, ab), DyMul(as, ab))

(* Section 9.1 "Porter Duff compositing operators": co = as x Fa x Cs + ab x Fb x Cb, ao = as x Fa + ab x Fb.
     over    = 9.1.4  source-over   Fa = 1       Fb = 1 - as
     inside  = 9.1.6  source-in     Fa = ab      Fb = 0
     outside = 9.1.8  source-out    Fa = 1 - ab  Fb = 0
     atop    = 9.1.10 source-atop   Fa = ab      Fb = 1 - as
     xor     = 9.1.12 xor           Fa = 1 - ab  Fb = 1 - as
     plus    = 9.1.13 lighter       Fa = 1       Fb = 1 *)
Fa(op, as, ab) == CASE op \in {"over", "plus"} -> D1 [] op \in {"inside", "atop"} -> ab [] op \in {"outside", "xor"} -> Om(ab)
Fb(op, as, ab) == CASE op \in {"over", "atop", "xor"} -> Om(as) [] op \in {"inside", "outside"} -> D0 [] op = "plus" -> D1
(* Cs, Cb premultiplied *)
ComposePre(op, Cs, Cb, as, ab) == DyAdd(DyMul(Cs, Fa(op, as, ab)), DyMul(Cb, Fb(op, as, ab)))
ComposeAlphaRaw(op, as, ab) == DyAdd(DyMul(as, Fa(op, as, ab)), DyMul(ab, Fb(op, as, ab)))
(* `lighter`: as + ab exceeds 1 (for as + ab > 1) - the formula itself leaves the range the statement demands
   (MC_Blend reports it as a model finding).  A coverage cannot exceed 1, so the alpha of the result saturates. *)
ComposeAlpha(op, as, ab) == DyMin(D1, ComposeAlphaRaw(op, as, ab))

-----------------------------------------------------------------------------
(* OpenGL-style equations of palette::blend::Equations - the second small model, transcribed from the doc
   comments of palette/src/blend/equations.rs:
     "a blend function can be written as e(sp * S, dp * D). e is the equation (like s + d), sp and dp are the
      source and destination parameters, and S and D are the source and destination colors."
     Equation::Add "sp * S + dp * D", Subtract "sp * S - dp * D", ReverseSubtract "dp * D - sp * S",
     Min / Max "component wise min / max. The parameters are ignored."
     Parameter::One "A simple 1", Zero "A simple 0", SourceColor "The source color, or alpha",
     OneMinusSourceColor "One minus the source color, or alpha", DestinationColor, OneMinusDestinationColor likewise,
     SourceAlpha "The source alpha", OneMinusSourceAlpha, DestinationAlpha, OneMinusDestinationAlpha.
   S and D are the PREMULTIPLIED colours with alpha as last component; component i of the result uses the colour
   equation and parameters for i <= n and the alpha ones for i = n + 1. *)
Equations == {"Add", "Subtract", "ReverseSubtract", "Min", "Max"}
Parameters == {"One", "Zero", "SourceColor", "OneMinusSourceColor", "DestinationColor", "OneMinusDestinationColor",
               "SourceAlpha", "OneMinusSourceAlpha", "DestinationAlpha", "OneMinusDestinationAlpha"}
ParamVal(p, S, D, i) ==
  CASE p = "One" -> D1
    [] p = "Zero" -> D0
    [] p = "SourceColor" -> S[i]
    [] p = "OneMinusSourceColor" -> Om(S[i])
    [] p = "DestinationColor" -> D[i]
    [] p = "OneMinusDestinationColor" -> Om(D[i])
    [] p = "SourceAlpha" -> S[Len(S)]
    [] p = "OneMinusSourceAlpha" -> Om(S[Len(S)])
    [] p = "DestinationAlpha" -> D[Len(D)]
    [] p = "OneMinusDestinationAlpha" -> Om(D[Len(D)])
EqnComp(eq, sp, dp, S, D, i) ==
  LET s == DyMul(ParamVal(sp, S, D, i), S[i])
      d == DyMul(ParamVal(dp, S, D, i), D[i])
  IN CASE eq = "Add" -> DyAdd(s, d)
       [] eq = "Subtract" -> DySub(s, d)
       [] eq = "ReverseSubtract" -> DySub(d, s)
       [] eq = "Min" -> DyMin(S[i], D[i])
       [] eq = "Max" -> DyMax(S[i], D[i])
(* q = [ceq, cps, cpd, aeq, aps, apd] *)
EqnPre(q, S, D) == [i \in 1..Len(S) |-> IF i < Len(S) THEN EqnComp(q.ceq, q.cps, q.cpd, S, D, i)
                                                       ELSE EqnComp(q.aeq, q.aps, q.apd, S, D, i)]
(* the custom blend function the harness passes to BlendWith::blend_with (asymmetric, rotates the channels of the
   destination so that argument order and channel order are both visible):
     colour[i] = S[i]/2 + D[(i mod n) + 1]/4,  alpha = Sa/2 + Da/4 *)
CustomPre(S, D) == LET n == Len(S) - 1
                   IN [i \in 1..Len(S) |-> IF i <= n THEN DyAdd(DyMulPow2(S[i], -1), DyMulPow2(D[(i % n) + 1], -2))
                                                     ELSE DyAdd(DyMulPow2(S[i], -1), DyMulPow2(D[i], -2))]

-----------------------------------------------------------------------------
(* Judging what the implementation returned (floating point). *)

Prec(t) == IF t = "f32" THEN 24 ELSE 53
MinExp(t) == IF t = "f32" THEN -149 ELSE -1074

(* TOLERANCE Arith(8): eight roundings, budgeted at one ulp of the largest term each:
   2^-RelBits(t) = 8 * 2^-(Prec-1), relative to `scale` = the larger of |value| and the largest term of the sum.
   Roundings on the longest path (Alpha form, soft-light): premultiply (1), the blend function (<= 5: 16cb-12 is
   exact on the grid, *cb, +4, *cb, -cb, *(2cs-1), +cb), two products and two sums of the compositing equation,
   the division of un-premultiplication (1) - about 10 half-ulps of terms that are mostly well below `scale`.
   Calibration on the pinned tree (evidence: max_deviation_observed, in units of this tolerance): the largest
   deviation over all 1 026 774 events of a thorough run is 0.1201 (premultiply/unpremultiply round trip, f32;
   0.1169 for soft-light in the Alpha form) - a margin of 8.3x; it must stay <= 1/8.
   The absolute part is tiny (2^-120, below every non-zero value the harness can produce: inputs are
   multiples of 2^-8 or at least 2^-20, so no result underflows); it is not 2^-1070 because aligning every
   number of an event to such an exponent makes the exact arithmetic forty times slower. *)
RelBits(t) == Prec(t) - 4
AbsTol(t) == DyPow2(-120)

(* |x*w*d - n - k*sqrt(r)| <= 2^-RelBits * max(scale*d, |n| + k) + abs*d   for the recorded component x:
   x times the divisor w equals the model value q (w = 1: premultiplied result; w = the recorded result alpha:
   straight result, cross-multiplied instead of divided). *)
NearQ(t, x, w, q, scale) ==
  LET X == DySub(DyMul(DyMul(x, w), q.d), q.n)
      T == DyAdd(DyMulPow2(DyMax(DyMul(scale, q.d), DyAdd(DyAbs(q.n), q.k)), -RelBits(t)), DyMul(AbsTol(t), q.d))
  IN IF DyIsZero(q.k) THEN DyLe(DyAbs(X), T)
     ELSE LET L == DySub(X, T)  U == DyAdd(X, T)  kk == DyMul(DyMul(q.k, q.k), q.r)
          IN /\ (DySign(L) <= 0 \/ DyLe(DyMul(L, L), kk))             \* X - T <= k*sqrt(r)
             /\ DySign(U) >= 0 /\ DyLe(kk, DyMul(U, U))               \* k*sqrt(r) <= X + T
NearDy(t, x, y, scale) == NearQ(t, x, D1, QOf(y), scale)

(* the range clause "in [0, 1] up to rounding" *)
RangeTol(t) == DyPow2(-RelBits(t))
InRange(t, x) == DyLe(DyNeg(RangeTol(t)), x) /\ DyLe(x, DyAdd(D1, RangeTol(t)))

-----------------------------------------------------------------------------
(* The machine: blending has no state; `last` records the last call the model accepted.  One action per
   public operation, enabled iff the recorded result is admissible. *)
VARIABLE last
vars == <<last>>
Init == last = "none"

(* one colour channel of Blend::<mode> / Compose::<op> in premultiplied form: x is the returned channel *)
BlendChannel(t, mode, cs, cb, as, ab, x) ==
  /\ mode \in BlendModes
  /\ NearQ(t, x, D1, BlendPre(mode, cs, cb, as, ab), DyMax(as, ab))
  /\ last' = "blend"
ComposeChannel(t, op, Cs, Cb, as, ab, x) ==
  /\ op \in ComposeOps
  /\ NearDy(t, x, ComposePre(op, Cs, Cb, as, ab), DyMax(as, ab))
  /\ last' = "compose"
(* Premultiply::premultiply: p = c * a *)
PremultiplyChannel(t, c, a, p) == NearDy(t, p, DyMul(c, a), D0) /\ last' = "premul"
(* Premultiply::unpremultiply: c = p / a, or 0 when a = 0 *)
UnpremultiplyChannel(t, p, a, c) ==
  /\ IF DyIsZero(a) THEN DyIsZero(c) ELSE NearDy(t, DyMul(c, a), p, D0)
  /\ last' = "unpremul"
TypeOK == last \in {"none", "blend", "compose", "premul", "unpremul"}
=============================================================================
