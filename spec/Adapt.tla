-------------------------------- MODULE Adapt --------------------------------
(***************************************************************************)
(* C14 - white stays white and neutrals stay neutral across spaces and      *)
(* adaptations.                                                            *)
(*                                                                         *)
(* PUBLISHED constants are written here with their source and never read    *)
(* from the code: white point tristimulus values, chromaticities of the      *)
(* primaries of the RGB spaces, cone response matrices.  From them the        *)
(* module derives, in 104-bit fixed point (Fx) with the exact 3x3 algebra of   *)
(* ColourMath (Det3, Adj3, Inv3, MatMul3, RgbToXyzFrom):                       *)
(*   RefRgbToXyz(sp, wp)   the RGB -> XYZ matrix of primaries sp and white wp   *)
(*   AdaptRef(ws, wd, M, Minv) = Minv diag(M wd / M ws) M   the one-step        *)
(*                         (von Kries) chromatic adaptation matrix             *)
(* and states every clause of the property as a RELATION between exact          *)
(* values the code consumed and produced, returning the number of bits of        *)
(* agreement (AgreeBits); Need(class, t) is the number of bits each clause        *)
(* must reach (the tolerance classes, with justification and calibration).        *)
(*                                                                         *)
(* MC_Adapt checks the publication facts on the model before any code is     *)
(* consulted; TraceAdapt judges the recorded events of harness/src/bin/adapt.rs *)
(***************************************************************************)
EXTENDS ColourMath

D3(p) == FxRat(p, 1000)          \* p / 10^3
D4(p) == FxRat(p, 10000)         \* p / 10^4
D5(p) == FxRat(p, 100000)        \* p / 10^5   (|p| < 2^31, 10^5 < 2^17)
I3 == <<FxOne, FxZero, FxZero, FxZero, FxOne, FxZero, FxZero, FxZero, FxOne>>
Ones3 == <<FxOne, FxOne, FxOne>>
(* ColourMath's Inv3 and MatMul3 return function constructors, which TLC keeps symbolic and re-evaluates at every
   application; T9/T3 enumerate them once into tuples (same values).  Inv3T is the same adjugate inverse with ONE
   Newton reciprocal of the determinant instead of nine quotients (a quotient costs fifteen multiplications in TLC);
   MC_Adapt checks it against ColourMath's Inv3. *)
T3(f) == <<f[1], f[2], f[3]>>
T9(f) == <<f[1], f[2], f[3], f[4], f[5], f[6], f[7], f[8], f[9]>>
FxRecip(x) == FxDiv(FxOne, x)
Inv3T(m) == LET r == FxRecip(Det3(m))  a == Adj3(m)
            IN <<FxMul(a[1], r), FxMul(a[2], r), FxMul(a[3], r), FxMul(a[4], r), FxMul(a[5], r),
                 FxMul(a[6], r), FxMul(a[7], r), FxMul(a[8], r), FxMul(a[9], r)>>
MatMul3T(a, b) == T9(MatMul3(a, b))

-----------------------------------------------------------------------------
(* White points: tristimulus values normalised to Y = 1.
   CIE standard illuminants for the CIE 1931 2 degree observer, ASTM E308-01 table 5 (as tabulated by
   B. Lindbloom, "Chromatic adaptation", reference whites) - five decimals;
   CIE 1964 10 degree observer daylight illuminants, the same ASTM table rounded to four decimals
   (E308: D50 0.96720/0.81427, D55 0.95799/0.90926, D65 0.94811/1.07304, D75 0.94416/1.20641 - palette and
   this table carry the four-decimal forms; the x of D75 is given to five);
   DCI white: SMPTE RP 431-2 chromaticity x = 0.314, y = 0.351, i.e. X = x/y, Z = (1 - x - y)/y. *)
WhiteNames == << "A", "B", "C", "D50", "D55", "D65", "D75", "E", "F2", "F7", "F11",
                 "D50_10", "D55_10", "D65_10", "D75_10", "DCI" >>
WP(n) ==
  CASE n = "A"      -> <<D5(109850), FxOne, D5(35585)>>
    [] n = "B"      -> <<D5(99072),  FxOne, D5(85223)>>
    [] n = "C"      -> <<D5(98074),  FxOne, D5(118232)>>
    [] n = "D50"    -> <<D5(96422),  FxOne, D5(82521)>>
    [] n = "D55"    -> <<D5(95682),  FxOne, D5(92149)>>
    [] n = "D65"    -> <<D5(95047),  FxOne, D5(108883)>>
    [] n = "D75"    -> <<D5(94972),  FxOne, D5(122638)>>
    [] n = "E"      -> <<FxOne,      FxOne, FxOne>>
    [] n = "F2"     -> <<D5(99186),  FxOne, D5(67393)>>
    [] n = "F7"     -> <<D5(95041),  FxOne, D5(108747)>>
    [] n = "F11"    -> <<D5(100962), FxOne, D5(64350)>>
    [] n = "D50_10" -> <<D4(9672),   FxOne, D4(8143)>>
    [] n = "D55_10" -> <<D4(9580),   FxOne, D4(9093)>>
    [] n = "D65_10" -> <<D4(9481),   FxOne, D4(10730)>>
    [] n = "D75_10" -> <<D5(94416),  FxOne, D4(12064)>>
    [] n = "DCI"    -> <<FxRat(314, 351), FxOne, FxRat(335, 351)>>
IsWhiteName(n) == \E i \in DOMAIN WhiteNames : WhiteNames[i] = n

(* Primaries <<xr, yr, xg, yg, xb, yb>> and native white point of the RGB spaces palette defines:
   srgb       IEC 61966-2-1 = ITU-R BT.709-6 (Rec. 709 shares space and white)          D65
   adobe      Adobe RGB (1998) Color Image Encoding, 4.3.1.1                             D65
   displayp3  Apple Display P3: the DCI-P3 primaries (SMPTE RP 431-2) with D65           D65
   dcip3      SMPTE RP 431-2 (DCI-P3), theatrical white 0.314/0.351                      DCI
   dcip3plus  Canon DCI-P3+ (as documented in palette/src/encoding/p3.rs), DCI white     DCI
   rec2020    ITU-R BT.2020-2, table 3                                                   D65
   prophoto   ROMM RGB, ANSI/I3A IT10.7666:2003 (ISO 22028-2)                            D50 *)
SpaceNames == << "srgb", "adobe", "displayp3", "dcip3", "dcip3plus", "rec2020", "prophoto" >>
Primaries(sp) ==
  CASE sp = "srgb"      -> <<D4(6400), D4(3300), D4(3000), D4(6000), D4(1500), D4(600)>>
    [] sp = "adobe"     -> <<D4(6400), D4(3300), D4(2100), D4(7100), D4(1500), D4(600)>>
    [] sp = "displayp3" -> <<D3(680),  D3(320),  D3(265),  D3(690),  D3(150),  D3(60)>>
    [] sp = "dcip3"     -> <<D3(680),  D3(320),  D3(265),  D3(690),  D3(150),  D3(60)>>
    [] sp = "dcip3plus" -> <<D3(740),  D3(270),  D3(220),  D3(780),  D3(90),   D3(-90)>>
    [] sp = "rec2020"   -> <<D3(708),  D3(292),  D3(170),  D3(797),  D3(131),  D3(46)>>
    [] sp = "prophoto"  -> <<D4(7347), D4(2653), D4(1596), D4(8404), D4(366),  D4(1)>>
SpaceWhite(sp) == CASE sp \in {"srgb", "adobe", "displayp3", "rec2020"} -> "D65"
                    [] sp \in {"dcip3", "dcip3plus"} -> "DCI"
                    [] sp = "prophoto" -> "D50"
IsSpaceName(sp) == \E i \in DOMAIN SpaceNames : SpaceNames[i] = sp

(* the RGB -> XYZ matrix of a set of primaries and a white point: columns are the XYZ of the primaries scaled
   so that RGB (1, 1, 1) is the white point (SMPTE RP 177; Lindbloom, "RGB/XYZ matrices") *)
PrimariesMatrix(p) ==
  LET col(x, y) == LET ry == FxRecip(y) IN <<FxMul(x, ry), FxOne, FxMul(FxSub(FxSub(FxOne, x), y), ry)>>
      r == col(p[1], p[2])  g == col(p[3], p[4])  b == col(p[5], p[6])
  IN <<r[1], g[1], b[1], r[2], g[2], b[2], r[3], g[3], b[3]>>
RefRgbToXyzOf(p, white) ==
  LET q == PrimariesMatrix(p)
      s == FxMatVec(Inv3T(q), white)
  IN <<FxMul(q[1], s[1]), FxMul(q[2], s[2]), FxMul(q[3], s[3]),
       FxMul(q[4], s[1]), FxMul(q[5], s[2]), FxMul(q[6], s[3]),
       FxMul(q[7], s[1]), FxMul(q[8], s[2]), FxMul(q[9], s[3])>>
(* the same construction as ColourMath!RgbToXyzFrom (MC_Adapt checks that they agree), with reciprocals *)
RefRgbToXyz(sp, wp) == RefRgbToXyzOf(Primaries(sp), WP(wp))

(* Cone response matrices of the adaptation methods (XYZ -> LMS):
   bradford    Lam 1985 / CIECAM97s, as in ICC.1 annex E and on Lindbloom's "Chromatic adaptation" page
   vonkries    Hunt-Pointer-Estevez matrix normalised to D65, as on Lindbloom's page (cited by lms/matrix.rs)
   xyzscaling  the unit matrix ("wrong von Kries")
   Both pages publish the inverse matrix as well, to seven decimals: ConeInvPublished. *)
MethodNames == << "bradford", "vonkries", "xyzscaling" >>
Cone(m) ==
  CASE m = "bradford" -> ConeBradford         \* ColourMath.tla (shared with the Xyz <-> Lms edges of C02)
    [] m = "vonkries" -> ConeVonKries
    [] m = "xyzscaling" -> I3
ConeInvPublished(m) ==
  CASE m = "bradford" -> << FxDec(1, 0, <<9869, 9290>>),  FxDec(-1, 0, <<1470, 5430>>), FxDec(1, 0, <<1599, 6270>>),
                            FxDec(1, 0, <<4323, 530>>),   FxDec(1, 0, <<5183, 6030>>),  FxDec(1, 0, <<492, 9120>>),
                            FxDec(-1, 0, <<85, 2870>>),   FxDec(1, 0, <<400, 4280>>),   FxDec(1, 0, <<9684, 8670>>) >>
    [] m = "vonkries" -> << FxDec(1, 1, <<8599, 3640>>),  FxDec(-1, 1, <<1293, 8160>>), FxDec(1, 0, <<2198, 9740>>),
                            FxDec(1, 0, <<3611, 9140>>),  FxDec(1, 0, <<6388, 1250>>),  FxDec(-1, 0, <<0, 640>>),
                            FxZero,                       FxZero,                       FxDec(1, 1, <<890, 6360>>) >>
    [] m = "xyzscaling" -> I3
IsMethodName(m) == \E i \in DOMAIN MethodNames : MethodNames[i] = m

(* one-step von Kries adaptation: to cone space, scale each cone by destination white / source white, back *)
AdaptRef(ws, wd, M, Minv) ==
  LET ls == FxMatVec(M, ws)
      ld == FxMatVec(M, wd)
      g == <<FxDiv(ld[1], ls[1]), FxDiv(ld[2], ls[2]), FxDiv(ld[3], ls[3])>>
      DM == << FxMul(g[1], M[1]), FxMul(g[1], M[2]), FxMul(g[1], M[3]),
               FxMul(g[2], M[4]), FxMul(g[2], M[5]), FxMul(g[2], M[6]),
               FxMul(g[3], M[7]), FxMul(g[3], M[8]), FxMul(g[3], M[9]) >>
  IN MatMul3T(Minv, DM)
Adapt(src, dst, m) == AdaptRef(WP(src), WP(dst), Cone(m), Inv3T(Cone(m)))

-----------------------------------------------------------------------------
(* agreement of vectors and matrices, in bits relative to `scale` *)
RECURSIVE MinBitsFrom(_, _, _, _)
MinBitsFrom(a, b, scale, i) == IF i > Len(a) THEN 200
                               ELSE Min2i(AgreeBits(a[i], b[i], scale), MinBitsFrom(a, b, scale, i + 1))
SeqBits(a, b, scale) == IF Len(a) # Len(b) THEN -999 ELSE MinBitsFrom(a, b, scale, 1)
RECURSIVE MagFrom(_, _)
MagFrom(a, i) == IF i > Len(a) THEN FxZero ELSE FxMax(FxAbs(a[i]), MagFrom(a, i + 1))
MagSeq(a) == MagFrom(a, 1)
AtLeastOne(s) == FxMax(s, FxOne)
(* entries compared on the absolute scale of the larger of 1 and the largest reference entry *)
MatBitsAbs(m, ref) == SeqBits(m, ref, AtLeastOne(MagSeq(ref)))
ZeroBits(x) == AgreeBits(x, FxZero, FxOne)                     \* -log2 |x|
Min4i(a, b, c, d) == Min2i(Min2i(a, b), Min2i(c, d))

(* neutrality in XYZ: (X, Y, Z) = Y * white *)
NeutralXyzBits(xyz, w) ==
  LET s == AtLeast(FxAbs(xyz[2]), 30)
  IN Min2i(AgreeBits(xyz[1], FxMul(xyz[2], w[1]), s), AgreeBits(xyz[3], FxMul(xyz[2], w[3]), s))
(* equal components, relative to their size (absolute below 2^-20) *)
SpreadBits(rgb) == LET hi == Max3(rgb)  lo == Min3(rgb) IN AgreeBits(hi, lo, AtLeast(FxMax(FxAbs(hi), FxAbs(lo)), 20))
(* out = M in, relative to the larger of |in|, |out| (absolute below 2^-30) *)
ApplyBits(m, in, out) == MatBits(m, in, out)
(* two results of the same adaptation *)
SameBits(a, b) == SeqBits(a, b, AtLeast(FxMax(MagSeq(a), MagSeq(b)), 30))

-----------------------------------------------------------------------------
(* Tolerance classes: the bits of agreement each clause must reach, by component type of the code under test.
   AgreeBits counts whole bits, so `n` bits means a deviation below 2^(1-n) of the scale.
   Calibrated on the pinned tree (quick and thorough tier, seed 1; checks/c14.py writes the observed minimum per class
   into the evidence file, `calibration`); each threshold leaves at least 3 bits (8x) below the smallest agreement
   observed - except the publication class OkM1 - and is never tighter than the principled bound given here.

   Exact:      the value is a published decimal converted to the component type: half an ulp (53 / 24 bits).
   Published7: palette's RGB and cone matrix pairs are PUBLISHED to seven decimals (Lindbloom; Cottrell's
               calculator): a hard-coded entry is within 5e-8 of the exact one (25 bits), a forward * inverse
               product within 1.4e-7 of the identity, a row sum within 1e-7 of the white point (23 bits), and
               everything that crosses such a pair inherits 1e-7 relative.  f32 adds its own rounding (2^-24 per
               operation).  These are absolute precisions of a publication, not rounding.
   Derived:    the code derives the matrix itself from primaries and white point (Yxy -> XYZ, 3x3 inverse): a
               dozen roundings amplified by the condition of the primaries matrix (ProPhoto's blue primary has
               y = 0.0001: condition ~1e4).
   Amplified:  L*a*b* / L*u*v* chroma of a neutral: a* = 500 (f(X/Xn) - f(Y)), so a relative XYZ error d becomes
               500 d / 3 (b*: 200 d / 3, u*, v*: 13 L* 0.2 d): Published7 gives 1.7e-5, f32 about 1e-4 (cbrt).
   OkM1:       palette's XYZ -> Oklab matrix is the CSS Color 4 recalculation of Ottosson's M1 for the D65 chromaticity
               0.3127/0.3290, while palette's D65 is (0.95047, 1, 1.08883): the white of a D65 standard that goes
               through XYZ maps to L = 1.000001, a = 1.2e-5, b = 3.7e-5 (sRGB uses Ottosson's direct matrix: 1e-8).
               Either published M1 maps (0.95047, 1, 1.08883) to the cone response of (1, 0, 0) only to 12..13 bits
               (MC_Adapt, case okm1): the published precision of M1 is the tolerance, 1e-4 (14 bits) on L, a, b, a
               publication class without the 8x rule.  *)
Need(class, t) ==
  LET f64 == t = "f64" IN
  CASE (* Exact: observed 54..55 / 25..26 *)
       class \in {"white.table", "space.prim", "space.white", "cone.fwd"} -> IF f64 THEN 50 ELSE 21
       (* Published7, entries of the f64 constants in the code (the same for every t): observed 25 *)
    [] class \in {"space.hard=ref", "cone.inv=ref"} -> 22
       (* Published7, forward * inverse of the hard-coded pairs: observed 23 (RGB), 24 (cone) *)
    [] class \in {"space.hard.inv", "cone.inv"} -> 20
       (* Derived: observed 52 / 23; principled 2^-53 (2^-24) times the condition 10^4 of ProPhoto's primaries *)
    [] class = "space.der=ref" -> IF f64 THEN 40 ELSE 12
       (* Published7 through Xyz::matrix_from_rgb / Rgb::matrix_from_xyz: observed 25, 25, 23, 24 / 23, 22, 23, 22 *)
    [] class \in {"space.mfr=ref", "space.mfx=ref"} -> IF f64 THEN 22 ELSE 19
    [] class = "space.mfr.mfx" -> IF f64 THEN 20 ELSE 19
    [] class = "space.white.map" -> IF f64 THEN 20 ELSE 18
       (* Published7 through a conversion: observed 24, 23, 23, 23 / 22, 21, 22, 21 *)
    [] class \in {"conv.white.xyz", "conv.grey.xyz", "conv.grey.y", "conv.luma"} -> IF f64 THEN 20 ELSE 17
       (* L* = 100 relative to 128: observed 25 (3.9e-6 = 116/3 * 1e-7) / exact *)
    [] class \in {"conv.white.L", "conv.white.luvL"} -> IF f64 THEN 21 ELSE 16
       (* Amplified: observed 16 (a* = 1.75e-5, C*uv = 2.6e-5) / 15 (Lab), 13 (Luv: 1.3e-4) *)
    [] class \in {"conv.lab", "conv.lch"} -> IF f64 THEN 13 ELSE 12
    [] class \in {"conv.luv", "conv.lchuv"} -> IF f64 THEN 13 ELSE 10
       (* OkM1, a publication class: 2^-13 = 1.2e-4; observed 15 (b = 3.7e-5), L: 20 (1.0e-6) *)
    [] class \in {"conv.oklab", "conv.oklch", "conv.white.okL"} -> 14
       (* hexcone spaces of the same standard: a grey has saturation exactly 0; whiteness + blackness = 1 to an ulp *)
    [] class \in {"conv.hsv", "conv.hsl", "conv.hwb"} -> IF f64 THEN 44 ELSE 17
       (* HSLuv saturation (0..100, relative to 128) = 100 C*uv / Cmax(L*, h): the Amplified chroma divided by the chroma
          bound, which shrinks towards white: observed 14 / 13 over the grey axis below white (0.01 / 0.02 of 100) *)
    [] class = "conv.hsluv" -> IF f64 THEN 11 ELSE 10
       (* equal components after the way back, relative: observed 21 (4.3e-7: Display P3 there and back) / 18 *)
    [] class = "conv.back" -> IF f64 THEN 18 ELSE 15
       (* J = 100 relative to 128: observed 25 / 22 *)
    [] class = "conv.cam16.J" -> IF f64 THEN 21 ELSE 18
       (* Published7 through the cone matrix pair: observed 24 / 21..23 *)
    [] class \in {"adapt.mat", "adapt.old", "adapt.ident", "adapt.white"} -> IF f64 THEN 20 ELSE 18
       (* ... applied to colours, relative to the colour: observed 23, 21 (twice through the pair), 23 / 20, 20, 22 *)
    [] class \in {"adapt.fwd", "adapt.forms.same"} -> IF f64 THEN 19 ELSE 17
    [] class = "adapt.back" -> IF f64 THEN 18 ELSE 17
       (* the same adaptation computed by another entry point: observed bit-identical; Arith: a 3x3 product and a
          matrix-vector product are 6 roundings *)
    [] class \in {"adapt.new=old", "adapt.forms"} -> IF f64 THEN 44 ELSE 17
       (* Arith: observed 51 / 22 on seeded well-conditioned matrices *)
    [] class \in {"mat3.then", "mat3.conv", "mat3.inv"} -> IF f64 THEN 44 ELSE 17
    [] class = "mat3.ident" -> 200                       \* exactly the unit / diagonal matrix
    [] class = "space.native" -> 0                       \* a yes/no clause: 200 or -999
    [] OTHER -> 999
(* every class, for the calibration report *)
Classes == << "white.table", "cone.fwd", "cone.inv=ref", "cone.inv", "space.prim", "space.white", "space.hard=ref",
              "space.hard.inv", "space.der=ref", "space.mfr=ref", "space.mfx=ref", "space.mfr.mfx", "space.white.map",
              "conv.white.xyz", "conv.grey.xyz", "conv.grey.y", "conv.white.L", "conv.white.luvL", "conv.white.okL",
              "conv.lab", "conv.luv", "conv.lch", "conv.lchuv", "conv.oklab", "conv.oklch", "conv.hsv", "conv.hsl",
              "conv.hwb", "conv.hsluv", "conv.luma", "conv.back", "conv.cam16.J", "adapt.mat", "adapt.old",
              "adapt.ident", "adapt.white", "adapt.fwd", "adapt.back", "adapt.new=old", "adapt.forms",
              "adapt.forms.same", "mat3.then", "mat3.conv", "mat3.inv", "mat3.ident" >>
=============================================================================
