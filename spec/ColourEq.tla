------------------------------ MODULE ColourEq ------------------------------
(***************************************************************************)
(* When do two coordinate tuples describe the same colour?                  *)
(*                                                                         *)
(* Colours are compared (a) through their image in CIE XYZ computed by the  *)
(* code's own direct conversion ("hub" image: the abstraction function of    *)
(* C01) and (b) in their own coordinates, hue modulo 360 and ignored where   *)
(* the chroma-like component makes it ill-conditioned.                      *)
(*                                                                         *)
(* Tolerance classes (bits: tolerance = 2^-bits absolute on XYZ in [0,1.1], *)
(* plus the same relative), from a calibration on the pinned tree           *)
(* (DESIGN.md C01): f64 routes that never cross a hard-coded 7-digit RGB     *)
(* matrix deviate <= 4e-15, routes that do <= 8.7e-8 (the published          *)
(* forward/inverse matrices multiply to I only within 1.4e-7); f32 <= 1.6e-6.*)
(***************************************************************************)
EXTENDS Fx, Types

Family(n) == CASE n \in {"linsrgb", "srgb", "hsl", "hsv", "hwb", "adobe", "linadobe", "p3", "linp3", "rec2020", "linrec2020", "rec709",
                      "hsv_adobe", "hsl_p3", "hwb_rec2020", "prophoto", "linprophoto", "hsv_prophoto", "dcip3", "lindcip3", "dcip3plus", "lindcip3plus",
                      "hsv_linsrgb", "hsl_linsrgb", "hwb_rec709"} -> "rgb"
               [] n \in {"oklab", "oklch", "okhsl", "okhsv", "okhwb"} -> "ok"
               [] OTHER -> "cie"
IsLuma(n) == n \in {"linluma", "srgbluma"}

(* the primaries (hard-coded matrix pair) behind an RGB-family node *)
RgbSpaceOf(n) == CASE n \in {"adobe", "linadobe", "hsv_adobe"} -> "adobe"
                   [] n \in {"p3", "linp3", "hsl_p3"} -> "p3"
                   [] n \in {"rec2020", "linrec2020", "hwb_rec2020"} -> "rec2020"
                   [] n \in {"prophoto", "linprophoto", "hsv_prophoto"} -> "prophoto"
                   [] n \in {"dcip3", "lindcip3"} -> "dci"
                   [] n \in {"dcip3plus", "lindcip3plus"} -> "dciplus"
                   [] OTHER -> "srgb"            \* srgb, linsrgb, rec709 and their hexcone forms share the BT.709 primaries
(* does the walk cross a hard-coded RGB <-> XYZ matrix pair (values or hub images)?  Yes when it mixes RGB-family
   nodes with others, or RGB-family nodes of different primaries. *)
IsLms(n) == n \in {"lmsvk", "lmsbfd"}
(* the XYZ <-> LMS matrix pairs (von Kries / Hunt-Pointer-Estevez, Bradford) are published to seven decimals as well:
   the value of an LMS node and its hub image are one such pair apart *)
CrossesRgbMatrix(nodes) == \/ (\E i \in DOMAIN nodes : Family(nodes[i]) = "rgb")
                              /\ ((\E i \in DOMAIN nodes : Family(nodes[i]) # "rgb")
                                  \/ (\E i, j \in DOMAIN nodes : Family(nodes[i]) = "rgb" /\ Family(nodes[j]) = "rgb"
                                                                 /\ RgbSpaceOf(nodes[i]) # RgbSpaceOf(nodes[j])))
                           \/ \E i \in DOMAIN nodes : IsLms(nodes[i])

(* relative to the magnitude of the XYZ vector (errors of matrices and of the cube scale with it);
   calibration, relative: f64 crossing 1.3e-7, not crossing 2.6e-15; f32 3.6e-6 *)
HubBits(t, nodes) == IF t = "f32" THEN 15
                     ELSE IF CrossesRgbMatrix(nodes) THEN 19 ELSE 40

VecMag(h1, h2) == FxMax(FxMax(FxAbs(FxOf(h1[1])), FxAbs(FxOf(h1[2]))),
                        FxMax(FxMax(FxAbs(FxOf(h1[3])), FxAbs(FxOf(h2[1]))),
                              FxMax(FxAbs(FxOf(h2[2])), FxAbs(FxOf(h2[3])))))
HubTol(h1, h2, bits) == FxAdd(FxShr(VecMag(h1, h2), bits), FxEps(60))
HubNear(h1, h2, bits) == LET tol == HubTol(h1, h2, bits)
                         IN \A i \in 1..3 : FxNearAbs(FxOf(h1[i]), FxOf(h2[i]), tol)
(* through a single-channel luma stage only luminance survives *)
HubNearY(h1, h2, bits) == FxNearAbs(FxOf(h1[2]), FxOf(h2[2]), HubTol(h1, h2, bits))

(* own coordinates: tolerance relative to the component's documented range (1 for free components) *)
OwnBits(t) == IF t = "f32" THEN 12 ELSE 15      \* 2.4e-4 / 3e-5 of the range; calibration: 1.7e-5 / 3.4e-6
RangeOf(node, i) == LET b == DocBounds[node][i]
                    IN IF b[1] = NoB \/ b[2] = NoB THEN FxOne
                       ELSE FxSub(DocFx(b[2]), DocFx(b[1]))
(* index of the chroma-like component that conditions the hue (0: none) *)
ChromaIdx(node) == CASE node \in {"lch", "lchuv", "oklch", "lch50"} -> 2
                     [] node \in {"hsluv", "okhsl", "okhsv", "hsl", "hsv", "hsv_adobe", "hsl_p3", "hsv_prophoto", "hsv_linsrgb", "hsl_linsrgb"} -> 2
                     [] OTHER -> 0
Fx360 == FxInt(360)
(* circular distance of two angles in degrees *)
HueDist(a, b) == LET d == FxAbs(FxSub(a, b))
                     k == IMk(1, Div(d[2], Fx360[2]))                   \* floor(d / 360) as an integer
                     r == FxSub(d, IMul(k, Fx360))
                 IN FxMin(r, FxSub(Fx360, r))
OwnNear(node, t, v1, v2) ==
  \A i \in DOMAIN v1 :
    IF i = HueIdx(node)
    THEN (* hue: only where the chroma-like component is at least 5% of its range; 0.5 / 0.05 degrees *)
         LET ci == ChromaIdx(node)
             wellcond == node \notin {"hwb", "okhwb", "hwb_rec2020", "hwb_rec709"} /\ ci # 0 /\
                         FxLe(FxDivInt(RangeOf(node, ci), 20), FxMin(FxOf(v1[ci]), FxOf(v2[ci])))
         IN wellcond => FxLe(HueDist(FxOf(v1[i]), FxOf(v2[i])), IF t = "f32" THEN FxRat(1, 2) ELSE FxRat(1, 20))
    ELSE FxLe(FxAbs(FxSub(FxOf(v1[i]), FxOf(v2[i]))), FxShr(RangeOf(node, i), OwnBits(t)))
=============================================================================
