----------------------------- MODULE TraceSimd -----------------------------
(* Trace validation for C17 (stateless: every event carries the reference form  *)
(* next to the form under test, DESIGN.md 3.4).                                 *)
(*   lane   one lane of ONE SIMD conversion call vs the scalar call on that lane's *)
(*          input: LaneAgree (Simd.tla)                                          *)
(*   pack   array of scalar colours -> SIMD colour -> array: the component vectors *)
(*          are the transposition of the array and it comes back bit for bit,      *)
(*          lane order preserved (values are compared as bit patterns)            *)
(*   mask   comparison / select / lazy_select / & | ^ ! / is_true / is_false per    *)
(*          lane vs the scalar operation on that lane AND vs the model: exact       *)
(*   op     operators available on wide types, lane vs scalar: colours by          *)
(*          LaneAgree, numbers by NumsNear, masks (is_within_bounds, ..) exact      *)
(*   prec   the f32 result vs the f64 result of the same scalar conversion          *)
(*   caps   the compile-time existence matrices (informational)                    *)
EXTENDS Simd, Json, IOUtils, TLC

Rec == ndJsonDeserialize(IOEnv.TRACE)
VARIABLE l

Ones(t) == IF t = "f32" THEN "ffffffff" ELSE "ffffffffffffffff"
Zeros(t) == IF t = "f32" THEN "00000000" ELSE "0000000000000000"
WellFormed(t, bits) == \A i \in DOMAIN bits : bits[i] \in {Ones(t), Zeros(t)}
MaskOf(t, bits) == [i \in DOMAIN bits |-> bits[i] = Ones(t)]
ToB(q) == [i \in DOMAIN q |-> q[i] = 1]

PanicWhy(a, b) == IF a = b THEN "ok" ELSE "panic-differs"

LaneWhy(e) ==
  IF e.sp = 1 \/ e.cp = 1 THEN PanicWhy(e.sp, e.cp)
  ELSE IF LaneAgree(e.to, e.t, e.simd, e.scalar, e.hs, e.hc) THEN "ok" ELSE "lane-differs"

PackWhy(e) ==
  IF e.panic = 1 THEN "panic"
  ELSE IF Len(e.in) # e.n \/ Len(e.back) # e.n THEN "lane-count"
  ELSE IF e.comps # Pack(e.in) THEN "pack-not-lane-wise"
  ELSE IF Unpack(e.comps) # e.back THEN "unpack-not-lane-wise"
  ELSE IF e.back # e.in THEN "round-trip-differs"
  ELSE "ok"

MaskWhy(e) ==
  IF e.panic = 1 THEN "panic"
  ELSE IF ~WellFormed(e.t, e.out) /\ e.op \notin {"select", "lazy_select"} THEN "mask-malformed"
  ELSE IF e.op \in CmpOps THEN
         LET m == MaskOf(e.t, e.out)
         IN IF m # ToB(e.sm) THEN "mask-differs-from-scalar"
            ELSE IF m # CmpLanes(e.op, e.a, e.b) THEN "mask-differs-from-model"
            ELSE "ok"
  ELSE IF e.op \in {"select", "lazy_select"} THEN
         LET want == Select(ToB(e.m1), e.abits, e.bbits)
         IN IF e.out # want THEN "select-not-lane-wise"
            ELSE IF e.sv # want THEN "scalar-select-differs"
            ELSE "ok"
  ELSE IF e.op \in BitOps THEN
         LET m == MaskOf(e.t, e.out)
         IN IF m # ToB(e.sm) THEN "mask-differs-from-scalar"
            ELSE IF m # MaskOp(e.op, ToB(e.m1), ToB(e.m2)) THEN "mask-differs-from-model"
            ELSE "ok"
  ELSE IF e.op \in {"is_true", "is_false"} THEN
         LET m == MaskOf(e.t, e.out)
         IN IF m # ToB(e.m1) THEN "mask-differs-from-scalar"
            ELSE IF (e.flag = 1) # (IF e.op = "is_true" THEN IsTrue(m) ELSE IsFalse(m)) THEN "reduction-differs-from-model"
            ELSE "ok"
  ELSE "unknown-mask-op"

OpWhy(e) ==
  IF e.sp = 1 \/ e.cp = 1 THEN PanicWhy(e.sp, e.cp)
  ELSE IF e.kind = "mask" THEN
         (IF e.mb \notin {Ones(e.t), Zeros(e.t)} THEN "mask-malformed"
          ELSE IF e.simd # e.scalar THEN "mask-differs-from-scalar"
          ELSE IF (e.mb = Ones(e.t)) # (e.simd[1][1] = 1) THEN "mask-malformed"
          ELSE "ok")
  ELSE IF e.kind = "num" THEN (IF NumsNear(LaneBits(e.t), e.simd, e.scalar) THEN "ok" ELSE "lane-differs")
  ELSE IF LaneAgree(e.node, e.t, e.simd, e.scalar, e.hs, e.hc) THEN "ok" ELSE "lane-differs"

PrecWhy(e) ==
  IF e.p32 = 1 \/ e.p64 = 1 THEN PanicWhy(e.p32, e.p64)
  ELSE IF PrecAgree(e.from, e.to, e.o32, e.o64, e.h32, e.h64) THEN "ok" ELSE "f32-f64-differ"

Why(e) == CASE e.ev = "lane" -> LaneWhy(e)
            [] e.ev = "pack" -> PackWhy(e)
            [] e.ev = "mask" -> MaskWhy(e)
            [] e.ev = "op" -> OpWhy(e)
            [] e.ev = "prec" -> PrecWhy(e)
            [] e.ev = "caps" -> "ok"

TInit == l = 1
TNext == /\ l <= Len(Rec)
         /\ LET w == Why(Rec[l]) IN IF w = "ok" THEN TRUE ELSE PrintT(<<"REJECT", l, w>>)
         /\ l' = l + 1
TSpec == TInit /\ [][TNext]_l
Consumed == TLCGet("stats").diameter = Len(Rec) + 1 \/ PrintT(<<"UNCONSUMED", TLCGet("stats").diameter>>)
=============================================================================
