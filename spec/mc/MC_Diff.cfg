SPECIFICATION Spec
CONSTANTS
  Scales = {1}
  Emit = TRUE
INVARIANTS NonNegative00 Symmetric00 Identical00 SharmaOK ElemOK EmitDone
CHECK_DEADLOCK FALSE
