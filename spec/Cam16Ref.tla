------------------------------ MODULE Cam16Ref ------------------------------
(***************************************************************************)
(* C16 - "the forward model agrees with the published CAM16 equations".     *)
(*                                                                         *)
(* The forward model of Li, Li, Wang, Zu, Luo, Cui, Melgosa, Brill, Pointer, *)
(* "Comprehensive color solutions: CAM16, CAT16, and CAM16-UCS" (Color Res.  *)
(* Appl. 2017), in the algebraically equivalent arrangement palette's          *)
(* documentation cites (the offsets +0.1 of the adapted responses cancel in     *)
(* a and b and are folded into the constant 0.305 of t and out of A), written   *)
(* step by step in fixed point with real powers x^y = exp(y ln x) of module     *)
(* LnExp.  fl is the number of fractional limbs (5: 65 bits).                         *)
(*                                                                         *)
(*   viewing conditions -> c, F = N_c, F_L, n, z, N_bb = N_cb, D, D_RGB, A_w  *)
(*   XYZ -> cone responses (M16) -> adapted, compressed responses            *)
(*       -> a, b -> A, J, Q, t, C, M, s                                     *)
(*                                                                         *)
(* The hue is not recomputed (no arctangent): the logged hue h must point     *)
(* in the direction (a, b), a sin h = b cos h with a cos h + b sin h > 0,     *)
(* and the eccentricity e_t is evaluated at the logged hue.                  *)
(***************************************************************************)
EXTENDS Cam16

PR(p, q, fl) == PRat(p, q, fl)
PAdd3(a, b, c) == IAdd(a, IAdd(b, c))
PPow(x, y, fl) == IF x[1] <= 0 THEN IZero ELSE ExpP(PMul(y, LnP(x, fl), fl), fl)
PSqrt(x, fl) == PPow(x, PR(1, 2, fl), fl)
(* sqrt(a^2 + b^2) of possibly tiny a, b: scaled into [1/2, 1) before squaring (fixed point has absolute precision) *)
PHypot2(a, b, k, fl) == PScale2(PSqrt(IAdd(PSqr(PScale2(a, k), fl), PSqr(PScale2(b, k), fl)), fl), -k)
PHypot(a, b, fl) == IF a[1] = 0 /\ b[1] = 0 THEN IZero
                    ELSE PHypot2(a, b, LIMB_BITS * fl - BitLen(IMax(IAbs(a), IAbs(b))[2]), fl)
PLerp(a, b, t, fl) == IAdd(a, PMul(t, ISub(b, a), fl))
PClamp(x, lo, hi) == IF ILt(x, lo) THEN lo ELSE IF ILt(hi, x) THEN hi ELSE x
PDyn(j, fl) == POfDy(Dy(j), fl)

(* the adopted white (Y = 1): ASTM E308 D65 and D50, the equal-energy white, or the logged custom one *)
RefWhite(vc, fl) ==
  CASE vc.wk = "D65" -> <<PR(95047, 100000, fl), POne(fl), PR(108883, 100000, fl)>>
    [] vc.wk = "D50" -> <<PR(96422, 100000, fl), POne(fl), PR(82521, 100000, fl)>>
    [] vc.wk = "E" -> <<POne(fl), POne(fl), POne(fl)>>
    [] OTHER -> <<PDyn(vc.wx, fl), POne(fl), PDyn(vc.wz, fl)>>

(* M16 (CAT16) applied to a vector of P-numbers *)
M16C(k, fl) == PDivInt(PDivInt(PInt(M16E6[k], fl), 1000), 1000)            \* the published six decimals
M16Row(x, i, fl) == PAdd3(PMul(M16C(3 * i - 2, fl), x[1], fl), PMul(M16C(3 * i - 1, fl), x[2], fl), PMul(M16C(3 * i, fl), x[3], fl))
M16P(x, fl) == <<M16Row(x, 1, fl), M16Row(x, 2, fl), M16Row(x, 3, fl)>>

(* post-adaptation compression: sign(x) 400 (F_L |x| / 100)^0.42 / ((F_L |x| / 100)^0.42 + 27.13) *)
Adapt1(p, fl) == PDiv(PMul(PInt(400, fl), p, fl), IAdd(p, PR(2713, 100, fl)), fl)
AdaptP(fL, x, fl) == IF x[1] = 0 THEN IZero
                     ELSE IMk(x[1], Adapt1(PPow(PDivInt(PMul(fL, IAbs(x), fl), 100), PR(42, 100, fl), fl), fl)[2])

(* everything that depends on the viewing conditions only *)
RefParams3(c, f, fL, n, z, nbb, drgb, rgbw, fl) ==
  [ c |-> c, nc |-> f, fL |-> fL, fl4 |-> PPow(fL, PR(1, 4, fl), fl), n |-> n, z |-> z, nbb |-> nbb, drgb |-> drgb,
    aw |-> PMul(nbb, PAdd3(IShl(AdaptP(fL, PMul(rgbw[1], drgb[1], fl), fl), 1), AdaptP(fL, PMul(rgbw[2], drgb[2], fl), fl),
                           PDivInt(AdaptP(fL, PMul(rgbw[3], drgb[3], fl), fl), 20)), fl) ]
RefParams2(c, f, la, n, d, yw, rgbw, fl) ==
  RefParams3(c, f,
             (* F_L = k^4 L_A + 0.1 (1 - k^4)^2 (5 L_A)^(1/3), k = 1 / (5 L_A + 1) *)
             LET k == PDiv(POne(fl), IAdd(IMulSmall(la, 5), POne(fl)), fl)
                 k4 == PSqr(PSqr(k, fl), fl)
             IN IAdd(PMul(k4, la, fl), PMul(PDivInt(PSqr(ISub(POne(fl), k4), fl), 10), PPow(IMulSmall(la, 5), PR(1, 3, fl), fl), fl)),
             n, IAdd(PR(148, 100, fl), PSqrt(n, fl)), PMul(PR(725, 1000, fl), PPow(n, PR(-2, 10, fl), fl), fl),
             [i \in 1..3 |-> PLerp(POne(fl), PDiv(yw, rgbw[i], fl), d, fl)], rgbw, fl)
RefParams1(vc, la, sur, white, fl) ==
  LET c == IF ILe(POne(fl), sur) THEN PLerp(PR(59, 100, fl), PR(69, 100, fl), ISub(sur, POne(fl)), fl)
           ELSE PLerp(PR(525, 1000, fl), PR(59, 100, fl), sur, fl)
      f == IF ILe(PR(59, 100, fl), c) THEN PLerp(PR(9, 10, fl), POne(fl), PDiv(ISub(c, PR(59, 100, fl)), PR(1, 10, fl), fl), fl)
           ELSE PLerp(PR(8, 10, fl), PR(9, 10, fl), PDiv(ISub(c, PR(525, 1000, fl)), PR(65, 1000, fl), fl), fl)
      (* degree of adaptation: D = F (1 - 1/3.6 exp((-L_A - 42) / 92)) unless given, clipped to [0, 1] *)
      d == PClamp(IF vc.dk = "auto"
                  THEN PMul(f, ISub(POne(fl), PDiv(ExpP(PDivInt(INeg(IAdd(la, PInt(42, fl))), 92), fl), PR(36, 10, fl), fl)), fl)
                  ELSE PDyn(vc.dv, fl), IZero, POne(fl))
  IN RefParams2(c, f, la, PDiv(PDyn(vc.yb, fl), white[2], fl), d, IMulSmall(white[2], 100),
                M16P([i \in 1..3 |-> IMulSmall(white[i], 100)], fl), fl)
RefParams(vc, fl) == RefParams1(vc, PDyn(vc.la, fl), PDivInt(PClamp(PDyn(vc.sp, fl), IZero, PInt(20, fl)), 10), RefWhite(vc, fl), fl)

(* the forward model: <<J, C, Q, M, s, a, b, |R_a| + |G_a| + |B_a|>> of the colour x (Y of white = 1) at the logged hue hdeg *)
RefForward3(p, ra, ga, ba, a, b, cosh2, fl) ==
  LET et == PDivInt(IAdd(cosh2, PR(38, 10, fl)), 4)
      A == PMul(p.nbb, PAdd3(IShl(ra, 1), ga, PDivInt(ba, 20)), fl)
      jroot == PPow(PDiv(A, p.aw, fl), PDivInt(PMul(p.c, p.z, fl), 2), fl)
      t == PDiv(PMul(PMul(PMul(PR(50000, 13, fl), PMul(p.nc, p.nbb, fl), fl), et, fl), PHypot(a, b, fl), fl),
                IAdd(PAdd3(ra, ga, PMul(PR(105, 100, fl), ba, fl)), PR(305, 1000, fl)), fl)
      alpha == PMul(PPow(t, PR(9, 10, fl), fl), PPow(ISub(PR(164, 100, fl), PPow(PR(29, 100, fl), p.n, fl)), PR(73, 100, fl), fl), fl)
      C == PMul(jroot, alpha, fl)
  IN << IMulSmall(PSqr(jroot, fl), 100), C,
        PMul(PMul(PDiv(PInt(4, fl), p.c, fl), jroot, fl), PMul(IAdd(p.aw, PInt(4, fl)), p.fl4, fl), fl),
        PMul(p.fl4, C, fl),
        IMulSmall(PSqrt(PDiv(PMul(p.c, alpha, fl), IAdd(p.aw, PInt(4, fl)), fl), fl), 50), a, b,
        PAdd3(IAbs(ra), IAbs(ga), IAbs(ba)) >>
RefForward2(p, ra, ga, ba, hdeg, fl) ==
  RefForward3(p, ra, ga, ba,
              IAdd(ra, PDivInt(IAdd(IMulSmall(ga, -12), ba), 11)),               \* a = R_a - 12 G_a / 11 + B_a / 11
              PDivInt(ISub(IAdd(ra, ga), IShl(ba, 1)), 9),                        \* b = (R_a + G_a - 2 B_a) / 9
              SinCosP(IAdd(hdeg, PDiv(PInt(360, fl), POfFx(PiFxP, fl), fl)), fl)[2], fl)   \* cos(h + 2 rad), 2 rad = 360 / pi degrees
RefForward1(p, rgb, hdeg, fl) ==
  RefForward2(p, AdaptP(p.fL, PMul(rgb[1], p.drgb[1], fl), fl), AdaptP(p.fL, PMul(rgb[2], p.drgb[2], fl), fl),
              AdaptP(p.fL, PMul(rgb[3], p.drgb[3], fl), fl), hdeg, fl)
RefForward(p, x, hdeg, fl) == RefForward1(p, M16P([i \in 1..3 |-> IMulSmall(x[i], 100)], fl), hdeg, fl)

(* agreement of the logged attributes (J, C, h, Q, M, s) with the reference, in bits; magnitudes relative to
   max(reference, logged, 1), the hue as the sine of the angle between (cos h, sin h) and (a, b) *)
RelBitsP(r, v, fl) == AgreeBits(r, v, IMax(IMax(IAbs(r), IAbs(v)), POne(fl)))
HueBitsP(a, b, sc, fl) ==
  LET cross == ISub(PMul(a, sc[1], fl), PMul(b, sc[2], fl))           \* a sin h - b cos h
      dot == IAdd(PMul(a, sc[2], fl), PMul(b, sc[1], fl))
      mag == IAdd(IAbs(a), IAbs(b))
  IN IF ILt(mag, PEps(20, fl)) THEN 200                                \* (almost) achromatic: no direction to agree with
     ELSE IF dot[1] <= 0 THEN 0
     ELSE AgreeBits(cross, IZero, mag)
(* a and b are differences of the three responses: their rounding noise is that of the responses (a few units of the last
   place of |R_a| + |G_a| + |B_a|), so the chroma, colourfulness, saturation and hue of a nearly achromatic colour cannot be
   more accurate than that noise relative to |a| + |b|.  Loss = log2 of (|R_a| + |G_a| + |B_a|) / (|a| + |b|); the first
   Free(t) bits of loss are covered by the margin of the threshold, every further bit of loss is credited to the chromatic
   attributes (an achromatic colour, |a| + |b| = 0, is not judged on them at all); lightness and brightness always count *)
Loss(r) == IF r[6][1] = 0 /\ r[7][1] = 0 THEN 999 ELSE BitLen(r[8][2]) - BitLen(IAdd(IAbs(r[6]), IAbs(r[7]))[2])
Free(t) == IF t = "f32" THEN 5 ELSE 9
Credit(r, t) == IF Loss(r) > Free(t) THEN Loss(r) - Free(t) ELSE 0
RefBits3(r, full, sc, cr, fl) ==
  [ j |-> RelBitsP(r[1], full[1], fl), q |-> RelBitsP(r[3], full[4], fl),
    c |-> RelBitsP(r[2], full[2], fl) + cr, m |-> RelBitsP(r[4], full[5], fl) + cr,
    s |-> RelBitsP(r[5], full[6], fl) + cr, h |-> HueBitsP(r[6], r[7], sc, fl) + cr ]
RefBits2(r, full, sc, t, fl) == RefBits3(r, full, sc, Credit(r, t), fl)
RefBits1(e, hdeg, fl) ==
  RefBits2(RefForward(RefParams(e.vc, fl), [i \in 1..3 |-> PDyn(e.x[i], fl)], hdeg, fl),
           [i \in 1..6 |-> PDyn(e.full[i], fl)], SinCosP(hdeg, fl), e.t, fl)
(* Fixed point has absolute, not relative precision: every event is evaluated with 65 fractional bits (the f32 ones too),
   and colours darker than 2^-16 of the white are left to the round-trip relations of Cam16.tla (RefDomain) *)
RefFl == 5
RefBits(e) == RefBits1(e, PDyn(e.full[3], RefFl), RefFl)
RefDomain(e) == DyLe(DyPow2(-16), DyMag3(DyV(e.x)))
RefMin(b) == Min3i(Min3i(b.j, b.c, b.q), Min3i(b.m, b.s, b.h), 999)
(* calibration on the pinned tree (DESIGN.md 11): see RefThr in TraceCam16Ref.tla *)
=============================================================================
