//! D65 / sRGB family conversion universe with f32 components (see ../convlib.rs).
type T = f32;
const TNAME: &str = "f32";
include!("../convlib.rs");
fn main() { convmain() }
