------------------------------ MODULE Equality ------------------------------
(***************************************************************************)
(* Comparing colours: `==` / `!=` and the three approximate comparisons of  *)
(* the `approx` crate (absolute difference, relative difference, units in   *)
(* the last place) that palette implements for every colour type, for the   *)
(* hue types and for `Alpha`.                                               *)
(*                                                                         *)
(* A colour is compared COMPONENT BY COMPONENT: two colours are equal iff   *)
(* every pair of corresponding components is (hue components as angles on   *)
(* the circle - C11 -, all others as numbers, the transparency like any     *)
(* other component), and every "not equal" form is the negation of its      *)
(* "equal" form.  The model speaks about the exact dyadic each float        *)
(* denotes; a comparison of two floats that involves a rounded difference   *)
(* is judged three-valued: MUST hold, MUST fail, or - inside the rounding   *)
(* band of the threshold - either.                                          *)
(*                                                                         *)
(* Which property: the hue clause of `==` inside a colour is C11 ("a hue    *)
(* compares equal to itself shifted by whole turns ... hues that differ by  *)
(* more than rounding error compare unequal"); the rest of this module is   *)
(* behaviour of the library no listed property states, reported as notes.   *)
(***************************************************************************)
EXTENDS Hue, Types

(* a colour value: a sequence of Dy, in declared order, transparency last; hi = index of the hue component or 0 *)

LOCAL IsHue(hi, i) == hi # 0 /\ i = hi
LOCAL AbsD(x, y) == DyAbs(DySub(x, y))
(* guard band around a float threshold: the implementation compares a ROUNDED difference (and, for the relative
   form, a rounded product) with the threshold; 2^-(Prec-2) relative covers two roundings.  *)
LOCAL Widen(t, v) == DyAdd(v, DyMulPow2(DyAbs(v), -(Prec(t) - 2)))

-----------------------------------------------------------------------------
(* ==  *)
CompMustEq(hi, i, x, y) == IF IsHue(hi, i) THEN Congruent(x, y) ELSE DyEq(x, y)
CompMustNe(hi, i, t, x, y) ==
  IF IsHue(hi, i) THEN InDomain(x) /\ InDomain(y) /\ MustNe(t, x, y) ELSE ~DyEq(x, y)

AllMustEq(hi, a, b) == \A i \in DOMAIN a : CompMustEq(hi, i, a[i], b[i])
SomeMustNe(hi, t, a, b) == \E i \in DOMAIN a : CompMustNe(hi, i, t, a[i], b[i])
HuesInDomain(hi, a, b) == hi = 0 \/ (InDomain(a[hi]) /\ InDomain(b[hi]))

(* r = 1: compared equal *)
PartialEqOK(hi, t, a, b, r) ==
  /\ r \in {0, 1} /\ Len(a) = Len(b)
  /\ ((AllMustEq(hi, a, b) /\ HuesInDomain(hi, a, b)) => r = 1)
  /\ (SomeMustNe(hi, t, a, b) => r = 0)

(* does the verdict hinge on the hue component (every other component exactly equal)?  Then it is C11's clause. *)
OnlyHueDecides(hi, a, b) == hi # 0 /\ \A i \in DOMAIN a : i = hi \/ DyEq(a[i], b[i])

-----------------------------------------------------------------------------
(* absolute difference:  |x - y| <= eps  *)
(* plain components *)
LinAbsMustT(x, y, eps) == DyLe(AbsD(x, y), eps)
LinAbsMustF(t, x, y, eps) == DyLt(Widen(t, eps), AbsD(x, y))
(* hue components are compared through their signed normal forms in degrees ("for hues, angles in (normalized)
   degrees are compared"): the linear distance of two normal forms is never below the distance on the circle, so
   a circular distance beyond eps MUST fail; it MUST hold when the exact normal forms are within eps of each other
   and neither sits within rounding error of the +-180 seam (where the normal form may come out on either side). *)
LOCAL Slack(t, x, y) == DyAdd(Eps(t, x), Eps(t, y))
LOCAL OffSeam(t, x) == DyLt(DyAdd(DyAbs(CanonSigned(x)), Eps(t, x)), D180)
HueAbsMustF(t, x, y, eps) == DyLt(DyAdd(Widen(t, eps), Slack(t, x, y)), CircDist(DySub(x, y)))
HueAbsMustT(t, x, y, eps) ==
  \/ DyEq(x, y)                          \* the same stored angle has the same normal form, whatever that is
  \/ /\ OffSeam(t, x) /\ OffSeam(t, y)
     /\ DyLe(DyAdd(AbsD(CanonSigned(x), CanonSigned(y)), Slack(t, x, y)), eps)

CompAbsMustT(hi, i, t, x, y, eps) == IF IsHue(hi, i) THEN InDomain(x) /\ InDomain(y) /\ HueAbsMustT(t, x, y, eps)
                                     ELSE LinAbsMustT(x, y, eps)
CompAbsMustF(hi, i, t, x, y, eps) == IF IsHue(hi, i) THEN InDomain(x) /\ InDomain(y) /\ HueAbsMustF(t, x, y, eps)
                                     ELSE LinAbsMustF(t, x, y, eps)

AbsDiffOK(hi, t, a, b, eps, r) ==
  /\ r \in {0, 1} /\ Len(a) = Len(b)
  /\ ((\A i \in DOMAIN a : CompAbsMustT(hi, i, t, a[i], b[i], eps)) => r = 1)
  /\ ((\E i \in DOMAIN a : CompAbsMustF(hi, i, t, a[i], b[i], eps)) => r = 0)

-----------------------------------------------------------------------------
(* relative difference (approx::RelativeEq for floats):
     x == y  \/  |x - y| <= eps  \/  |x - y| <= max(|x|, |y|) * maxrel                       *)
LOCAL Largest(x, y) == DyMax(DyAbs(x), DyAbs(y))
LinRelMustT(x, y, eps, mr) == DyLe(AbsD(x, y), eps) \/ DyLe(AbsD(x, y), DyMul(Largest(x, y), mr))
LinRelMustF(t, x, y, eps, mr) ==
  /\ DyLt(Widen(t, eps), AbsD(x, y))
  /\ DyLt(Widen(t, DyMul(Largest(x, y), mr)), AbsD(x, y))
(* hues: the same on the normal forms, whose magnitude is at most 180 (+ rounding) *)
LOCAL D181 == DyFromInt(181)
HueRelMustF(t, x, y, eps, mr) ==
  /\ HueAbsMustF(t, x, y, eps)
  /\ DyLt(DyAdd(Widen(t, DyMul(D181, mr)), Slack(t, x, y)), CircDist(DySub(x, y)))
HueRelMustT(t, x, y, eps, mr) == HueAbsMustT(t, x, y, eps)

CompRelMustT(hi, i, t, x, y, eps, mr) == IF IsHue(hi, i) THEN InDomain(x) /\ InDomain(y) /\ HueRelMustT(t, x, y, eps, mr)
                                         ELSE LinRelMustT(x, y, eps, mr)
CompRelMustF(hi, i, t, x, y, eps, mr) == IF IsHue(hi, i) THEN InDomain(x) /\ InDomain(y) /\ HueRelMustF(t, x, y, eps, mr)
                                         ELSE LinRelMustF(t, x, y, eps, mr)

RelativeOK(hi, t, a, b, eps, mr, r) ==
  /\ r \in {0, 1} /\ Len(a) = Len(b)
  /\ ((\A i \in DOMAIN a : CompRelMustT(hi, i, t, a[i], b[i], eps, mr)) => r = 1)
  /\ ((\E i \in DOMAIN a : CompRelMustF(hi, i, t, a[i], b[i], eps, mr)) => r = 0)

-----------------------------------------------------------------------------
(* units in the last place (approx::UlpsEq for floats):
     |x - y| <= eps  \/  (same sign  /\  the floats are at most k representable values apart)
   k steps starting at the smaller magnitude cover at least k ulp(smaller) and at most k ulp(larger). *)
LOCAL UlpOf(t, v) == IF DyIsZero(v) THEN DyPow2(MinExp(t)) ELSE DyPow2(UlpExp(t, v))
LOCAL Smaller(x, y) == DyMin(DyAbs(x), DyAbs(y))
LinUlpsMustT(t, x, y, eps, k) ==
  \/ DyLe(AbsD(x, y), eps)
  \/ /\ DySign(x) = DySign(y) /\ DySign(x) # 0
     /\ DyLe(AbsD(x, y), DyMulInt(UlpOf(t, Smaller(x, y)), k))
LinUlpsMustF(t, x, y, eps, k) ==
  /\ DyLt(Widen(t, eps), AbsD(x, y))
  /\ \/ DySign(x) * DySign(y) = -1
     \/ DyLt(DyMulInt(UlpOf(t, Largest(x, y)), k), AbsD(x, y))
(* hues: only the part that does not depend on how the normal forms round *)
HueUlpsMustT(t, x, y, eps, k) == HueAbsMustT(t, x, y, eps)
HueUlpsMustF(t, x, y, eps, k) ==
  /\ HueAbsMustF(t, x, y, eps)
  /\ DyLt(DyAdd(DyMulInt(UlpOf(t, D181), k), Slack(t, x, y)), CircDist(DySub(x, y)))

CompUlpsMustT(hi, i, t, x, y, eps, k) == IF IsHue(hi, i) THEN InDomain(x) /\ InDomain(y) /\ HueUlpsMustT(t, x, y, eps, k)
                                         ELSE LinUlpsMustT(t, x, y, eps, k)
CompUlpsMustF(hi, i, t, x, y, eps, k) == IF IsHue(hi, i) THEN InDomain(x) /\ InDomain(y) /\ HueUlpsMustF(t, x, y, eps, k)
                                         ELSE LinUlpsMustF(t, x, y, eps, k)

UlpsOK(hi, t, a, b, eps, k, r) ==
  /\ r \in {0, 1} /\ Len(a) = Len(b)
  /\ ((\A i \in DOMAIN a : CompUlpsMustT(hi, i, t, a[i], b[i], eps, k)) => r = 1)
  /\ ((\E i \in DOMAIN a : CompUlpsMustF(hi, i, t, a[i], b[i], eps, k)) => r = 0)

-----------------------------------------------------------------------------
(* The machine: comparisons have no state; `lastc` records the last comparison the model accepted.  One action
   per public comparison, enabled iff the relation holds.  r is the answer of the "equal" form, nr the answer of
   the "not equal" form of the same call: they must be complementary. *)
VARIABLE lastc
evars == <<last, lastc>>

EInit == Init /\ lastc = "none"

Complement(r, nr) == r \in {0, 1} /\ nr = 1 - r
ColourEq(hi, t, a, b, r, nr)            == PartialEqOK(hi, t, a, b, r) /\ Complement(r, nr) /\ lastc' = "eq" /\ UNCHANGED last
ColourAbsDiffEq(hi, t, a, b, eps, r, nr)   == AbsDiffOK(hi, t, a, b, eps, r) /\ Complement(r, nr) /\ lastc' = "abs" /\ UNCHANGED last
ColourRelativeEq(hi, t, a, b, eps, mr, r, nr) == RelativeOK(hi, t, a, b, eps, mr, r) /\ Complement(r, nr) /\ lastc' = "rel" /\ UNCHANGED last
ColourUlpsEq(hi, t, a, b, eps, k, r, nr)   == UlpsOK(hi, t, a, b, eps, k, r) /\ Complement(r, nr) /\ lastc' = "ulps" /\ UNCHANGED last

ETypeOK == TypeOK /\ lastc \in {"none", "eq", "abs", "rel", "ulps"}
=============================================================================
