------------------------------ MODULE TraceCam16 ------------------------------
(* Trace validation for C16: every recorded event of harness/src/bin/cam16.rs is judged by the verdict      *)
(* operators of Cam16.tla (stateless: one event per line, each self-contained; the viewing conditions are an  *)
(* opaque `params` id).  The variable `mn` only keeps book: per component type and relation the smallest      *)
(* number of bits of agreement seen among the judged events, and the number of events per kind (keys n.*;     *)
(* "n.skip": recorded but outside the domain of the specification).  It is printed as NOTE lines after the    *)
(* last event so that every run records its margin to the thresholds; it never influences a verdict.  With    *)
(* CALIB=1 in the environment the bits of every judged event are printed as well.                            *)
EXTENDS Cam16, Json, IOUtils, TLC

Rec == ndJsonDeserialize(IOEnv.TRACE)
Calib == "CALIB" \in DOMAIN IOEnv /\ IOEnv.CALIB = "1"
VARIABLES l, mn

Keys == {"rt", "rtc", "pp", "ef", "sat", "wj", "pair", "fj", "fm", "pol", "ij", "im", "urt"}
Counts == {"n.conv", "n.collar", "n.black", "n.white", "n.pair", "n.ucs", "n.skip"}
Types == {"f32", "f64"}
Lower(m, t, k, v) == [m EXCEPT ![t][k] = IF v < @ THEN v ELSE @]
Count(m, t, k) == [m EXCEPT ![t][k] = @ + 1]

Reject(w) == IF w = "ok" THEN TRUE ELSE PrintT(<<"REJECT", l, w>>)

ConvMin(e, b, col) == Lower(Lower(Lower(Lower(Lower(mn, e.t, IF col = 1 THEN "rtc" ELSE "rt", Min2i(b.rtf, b.rtp)),
                                              e.t, "pp", b.pp), e.t, "ef", b.ef), e.t, "sat", b.sat), e.t, "wj", b.wj)
StepConv2(e, b, col) == /\ mn' = Count(ConvMin(e, b, col), e.t, IF e.w = 1 THEN "n.white" ELSE IF col = 1 THEN "n.collar" ELSE "n.conv")
                        /\ Calib => PrintT(<<"NOTE", "conv", e.t, e.pk, e.params, col, b.rtf, b.rtp, b.pp, b.ef, b.sat, b.wj, l>>)
StepConv(e, b) == /\ Reject(ConvWhyB(e, b))
                  /\ IF ConvJudged(e) THEN StepConv2(e, b, IF InCollar(DyV(e.x)) THEN 1 ELSE 0)
                     ELSE mn' = Count(mn, e.t, IF e.panic = 0 /\ AllFin(e.x) /\ IsZeroV(e.x) THEN "n.black" ELSE "n.skip")
StepPair(e, b) == /\ Reject(PairWhyB(e, b))
                  /\ IF PairJudged(e) THEN /\ mn' = Count(Lower(mn, e.t, "pair", b), e.t, "n.pair")
                                           /\ Calib => PrintT(<<"NOTE", "pair", e.t, e.params, b, l>>)
                     ELSE mn' = Count(mn, e.t, "n.skip")
UcsMin(e, b) == Lower(Lower(Lower(Lower(Lower(Lower(mn, e.t, "fj", b.fj), e.t, "fm", b.fm), e.t, "pol", b.pol),
                                  e.t, "ij", b.ij), e.t, "im", b.im), e.t, "urt", b.rt)
StepUcs(e, b) == /\ Reject(UcsWhyB(e, b))
                 /\ IF UcsJudged(e) THEN /\ mn' = Count(UcsMin(e, b), e.t, "n.ucs")
                                         /\ Calib => PrintT(<<"NOTE", "ucs", e.t, b.fj, b.fm, b.pol, b.ij, b.im, b.rt, l>>)
                    ELSE mn' = Count(mn, e.t, "n.skip")

Step(e) == CASE e.ev = "conv" -> StepConv(e, ConvBits(e))
             [] e.ev = "pair" -> StepPair(e, PairBits(DyV(e.f1), DyV(e.f2)))
             [] e.ev = "ucs" -> StepUcs(e, UcsBits(e))

TInit == l = 1 /\ mn = [t \in Types |-> [k \in Keys \cup Counts |-> IF k \in Keys THEN 999 ELSE 0]]
TNext == /\ l <= Len(Rec)
         /\ Rec[l].ev \in {"conv", "pair", "ucs"}
         /\ Step(Rec[l])
         /\ l' = l + 1
         /\ (l = Len(Rec) => \A t \in Types : \A k \in Keys \cup Counts : PrintT(<<"NOTE", "min", t, k, mn'[t][k]>>))
TSpec == TInit /\ [][TNext]_<<l, mn>>
Consumed == TLCGet("stats").diameter = Len(Rec) + 1 \/ PrintT(<<"UNCONSUMED", TLCGet("stats").diameter>>)
=============================================================================
