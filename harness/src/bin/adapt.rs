//! C14 driver: white points, RGB <-> XYZ matrices, neutrals through every colorimetric space, chromatic
//! adaptation and Matrix3 algebra of palette, recorded as NDJSON events with exact numbers. Nothing here
//! decides the property: spec/trace/TraceAdapt.tla judges every event against the published constants and the
//! exact 3x3 algebra of spec/Adapt.tla.
//!
//! usage: adapt --tier quick|thorough --out trace.ndjson        (VERIF_SEED)
//!        adapt --only <kind>:<key> --out trace.ndjson          (replay: re-record the events with that key)
//!
//! Events (every number is an exact `[s, q, limbs..]`; absent things are empty arrays; "panic":1 if palette panicked):
//!  white  {t, wp, xyz}                              WhitePoint::get_xyz of every white point type
//!  cone   {t, m, fwd, inv, fwd2, inv2}              XyzToLms / LmsToXyz matrices; the deprecated ConeResponseMatrices
//!  space  {t, sp, wp, hard, prim, white, fwd, inv, der, mfr, mfx, wmap}
//!         hard-coded RgbSpace::{rgb_to_xyz_matrix, xyz_to_rgb_matrix} (f64 constants, [] if None), the matrix the code
//!         derives (palette::matrix::rgb_to_xyz_matrix), Xyz::matrix_from_rgb / Rgb::matrix_from_xyz, the primaries
//!         (x, y pairs) and white point the code reports, matrix_from_rgb applied to (1, 1, 1)
//!  conv   {t, std, sp, wp, lin, ok, k, n, g, white, xyz, lab, luv, lch, lchuv, hsluv, hsv, hsl, hwb, luma, oklab,
//!          oklch, camj, back, bnames}
//!         one grey level g = k/n of one RGB standard converted (unclamped) into every space and each result back
//!  adapt  {t, src, dst, m, mat, matd, old, wdst, pts, fwd, forms, fnames, back, backf}
//!         adaptation_matrix (static and dynamic white points), the deprecated generate_transform_matrix, the matrix
//!         applied to the source white and to XYZ points, every trait form on the same points, and the way back
//!  mat3   {t, a, b, then, inva, ident, scale, v, av, tv, bav}     Matrix3::{then, invert, identity, scale, convert}
#![allow(deprecated)]

use palette::cam16::{Cam16, Parameters, StaticWp, Surround};
use palette::chromatic_adaptation::{
    adaptation_matrix, AdaptFrom, AdaptFromUnclamped, AdaptInto, AdaptIntoUnclamped, Method, TransformMatrix,
};
use palette::convert::{Convert, FromColorUnclamped, Matrix3};
use palette::encoding::{self as enc, Linear};
use palette::lms::matrix::{Bradford, LmsToXyz, UnitMatrix, VonKries, XyzToLms};
use palette::luma::Luma;
use palette::matrix::{multiply_3x3_and_vec3, rgb_to_xyz_matrix};
use palette::rgb::{Primaries, Rgb, RgbSpace, RgbStandard};
use palette::white_point::{self as wp, Any, WhitePoint};
use palette::xyz::meta::HasXyzMeta;
use palette::{Hsl, Hsluv, Hsv, Hwb, Lab, Lch, Lchuv, Luv, Oklab, Oklch, Xyz, Yxy};
use pvh::*;
use serde_json::{json, Map, Value};

// ------------------------------------------------------------------------------------------ names

/// name of a white point type as the specification spells it
trait Wn: 'static {
    const NAME: &'static str;
}
macro_rules! wn {
    ($($t:ty => $n:expr),* $(,)?) => {$( impl Wn for $t { const NAME: &'static str = $n; } )*};
}
wn!(wp::A => "A", wp::B => "B", wp::C => "C", wp::D50 => "D50", wp::D55 => "D55", wp::D65 => "D65", wp::D75 => "D75",
    wp::E => "E", wp::F2 => "F2", wp::F7 => "F7", wp::F11 => "F11", wp::D50Degree10 => "D50_10",
    wp::D55Degree10 => "D55_10", wp::D65Degree10 => "D65_10", wp::D75Degree10 => "D75_10", enc::DciP3 => "DCI");

/// white points usable with the deprecated API (any WhitePoint) ...
trait WpOld: Wn + WhitePoint<f32> + WhitePoint<f64> + Sized {}
impl<W: Wn + WhitePoint<f32> + WhitePoint<f64>> WpOld for W {}
/// ... and with adaptation_matrix / AdaptFromUnclamped (the white point is its own XYZ meta type)
trait WpNew: WpOld + HasXyzMeta<XyzMeta = Self> {}
impl<W: WpOld + HasXyzMeta<XyzMeta = W>> WpNew for W {}

trait Mn {
    const NAME: &'static str;
    fn old() -> Method;
}
impl Mn for Bradford {
    const NAME: &'static str = "bradford";
    fn old() -> Method { Method::Bradford }
}
impl Mn for VonKries {
    const NAME: &'static str = "vonkries";
    fn old() -> Method { Method::VonKries }
}
impl Mn for UnitMatrix {
    const NAME: &'static str = "xyzscaling";
    fn old() -> Method { Method::XyzScaling }
}

pub struct Cfg {
    quick: bool,
    only: Option<(String, String)>,
    seed: u64,
}
impl Cfg {
    fn want(&self, kind: &str, key: &str) -> bool {
        match &self.only {
            None => true,
            Some((k, v)) => k == kind && (v == key || v == "*"),
        }
    }
}

fn panic_event(mut base: Map<String, Value>, msg: String, empties: &[&str]) -> Value {
    for k in empties {
        base.insert(k.to_string(), json!([]));
    }
    base.insert("panic".into(), json!(1));
    base.insert("msg".into(), json!(msg));
    Value::Object(base)
}

/// XYZ points of the adaptation round trip: a lattice, the axes, black, and seeded random points
fn xyz_points(cfg: &Cfg, salt: u64) -> Vec<[f64; 3]> {
    let mut v = Vec::new();
    let mut r = Sm64::new(cfg.seed ^ salt.wrapping_mul(0x9E37_79B9));
    if cfg.quick {
        let lat = [0.0, 0.18, 0.5, 1.0];
        for _ in 0..3 {
            v.push([*r.pick(&lat), *r.pick(&lat), *r.pick(&lat)]);
        }
        v.push([r.range(0.0, 1.1), r.range(0.0, 1.0), r.range(0.0, 1.3)]);
        v.push([r.range(0.0, 0.05), r.range(0.0, 0.05), r.range(0.0, 0.05)]);
    } else {
        for &x in &[0.0, 1.0] {
            for &y in &[0.0, 1.0] {
                for &z in &[0.0, 1.0] {
                    v.push([x, y, z]);
                }
            }
        }
        v.push([0.4, 0.4, 0.4]);
        for _ in 0..3 {
            v.push([r.range(0.0, 1.1), r.range(0.0, 1.0), r.range(0.0, 1.3)]);
        }
        v.push([r.range(0.0, 0.01), r.range(0.0, 0.01), r.range(0.0, 0.01)]);
    }
    v
}

// ------------------------------------------------------------------------------------------ macros over type lists
// (expanded inside the per-component-type module below: T, base, put, t, v3, m9, ... resolve there)

macro_rules! space {
    ($rec:expr, $cfg:expr, $name:expr, $S:ty) => {{
        type S = $S;
        type W = <S as RgbSpace>::WhitePoint;
        type P = <S as RgbSpace>::Primaries;
        let key = format!("{}/{}", $name, <W as Wn>::NAME);
        if $cfg.want("space", &key) {
            let hard = <S as RgbSpace>::rgb_to_xyz_matrix().is_some() as u8;
            let b = base("space", &[("sp", json!($name)), ("wp", json!(<W as Wn>::NAME)), ("hard", json!(hard))]);
            let r = catch(|| {
                let (pr, pg, pb) = (<P as Primaries<T>>::red(), <P as Primaries<T>>::green(), <P as Primaries<T>>::blue());
                let mfr = Xyz::<W, T>::matrix_from_rgb::<Linear<S>>();
                let mfx = Rgb::<Linear<S>, T>::matrix_from_xyz();
                let wmap: Xyz<W, T> = mfr.convert(Rgb::<Linear<S>, T>::new(t(1.0), t(1.0), t(1.0)));
                vec![
                    ("prim", json!([[pr.x.ex(), pr.y.ex()], [pg.x.ex(), pg.y.ex()], [pb.x.ex(), pb.y.ex()]])),
                    ("white", v3(<W as WhitePoint<T>>::get_xyz())),
                    ("fwd", <S as RgbSpace>::rgb_to_xyz_matrix().map_or(json!([]), |m| ex_arr(&m))),
                    ("inv", <S as RgbSpace>::xyz_to_rgb_matrix().map_or(json!([]), |m| ex_arr(&m))),
                    ("der", m9(rgb_to_xyz_matrix::<S, T>())),
                    ("mfr", m9(mfr.into_array())),
                    ("mfx", m9(mfx.into_array())),
                    ("wmap", v3(wmap)),
                ]
            });
            $rec.ev(match r {
                Ok(x) => put(b, x),
                Err(m) => panic_event(b, m, &["prim", "white", "fwd", "inv", "der", "mfr", "mfx", "wmap"]),
            });
        }
    }};
}

macro_rules! col3 {
    ($c:expr, $a:ident, $b:ident, $d:ident) => { json!([$c.$a.ex(), $c.$b.ex(), $c.$d.ex()]) };
}

macro_rules! hue3 {
    ($c:expr, $a:ident, $b:ident) => { json!([$c.hue.into_inner().ex(), $c.$a.ex(), $c.$b.ex()]) };
}

macro_rules! rgb3 {
    ($S:ty, $c:expr) => {{ let r = Rgb::<$S, T>::from_color_unclamped($c); json!([r.red.ex(), r.green.ex(), r.blue.ex()]) }};
}

macro_rules! ok_part {
    (yes, $S:ty, $rgb:expr, $out:expr, $back:expr, $bn:expr) => {{
        let oklab = Oklab::<T>::from_color_unclamped($rgb);
        let oklch = Oklch::<T>::from_color_unclamped($rgb);
        $out.push(("oklab", col3!(oklab, l, a, b)));
        $out.push(("oklch", json!([oklch.l.ex(), oklch.chroma.ex(), oklch.hue.into_inner().ex()])));
        $back.push(rgb3!($S, oklab)); $bn.push("oklab");
        $back.push(rgb3!($S, oklch)); $bn.push("oklch");
    }};
    (no, $S:ty, $rgb:expr, $out:expr, $back:expr, $bn:expr) => {{
        $out.push(("oklab", json!([])));
        $out.push(("oklch", json!([])));
    }};
}

macro_rules! okflag { (yes) => { 1 }; (no) => { 0 }; }

/// one RGB standard: $S the RgbStandard, $L the LumaStandard of the same white point and transfer function
macro_rules! standard {
    ($rec:expr, $cfg:expr, $levels:expr, $name:expr, $sp:expr, $lin:expr, $ok:ident, $S:ty, $L:ty) => {{
        type S = $S;
        type W = <<S as RgbStandard>::Space as RgbSpace>::WhitePoint;
        if $cfg.want("conv", $name) {
            let n = $levels;
            for k in 0..=n {
                let g: T = t(k as f64 / n as f64);
                let is_white = (k == n) as u8;
                let b = base("conv", &[("std", json!($name)), ("sp", json!($sp)), ("wp", json!(<W as Wn>::NAME)), ("lin", json!($lin)),
                                       ("ok", json!(okflag!($ok))), ("k", json!(k)), ("n", json!(n)), ("g", g.ex()), ("white", json!(is_white))]);
                let r = catch(|| {
                    let rgb = Rgb::<S, T>::new(g, g, g);
                    let mut out: Vec<(&str, Value)> = Vec::new();
                    let mut back: Vec<Value> = Vec::new();
                    let mut bn: Vec<&str> = Vec::new();
                    let xyz = Xyz::<W, T>::from_color_unclamped(rgb);
                    let lab = Lab::<W, T>::from_color_unclamped(rgb);
                    let luv = Luv::<W, T>::from_color_unclamped(rgb);
                    let lch = Lch::<W, T>::from_color_unclamped(rgb);
                    let lchuv = Lchuv::<W, T>::from_color_unclamped(rgb);
                    let hsluv = Hsluv::<W, T>::from_color_unclamped(rgb);
                    let hsv = Hsv::<S, T>::from_color_unclamped(rgb);
                    let hsl = Hsl::<S, T>::from_color_unclamped(rgb);
                    let hwb = Hwb::<S, T>::from_color_unclamped(rgb);
                    let luma = Luma::<$L, T>::from_color_unclamped(rgb);
                    out.push(("xyz", v3(xyz)));
                    out.push(("lab", col3!(lab, l, a, b)));
                    out.push(("luv", col3!(luv, l, u, v)));
                    out.push(("lch", json!([lch.l.ex(), lch.chroma.ex(), lch.hue.into_inner().ex()])));
                    out.push(("lchuv", json!([lchuv.l.ex(), lchuv.chroma.ex(), lchuv.hue.into_inner().ex()])));
                    out.push(("hsluv", hue3!(hsluv, saturation, l)));
                    out.push(("hsv", hue3!(hsv, saturation, value)));
                    out.push(("hsl", hue3!(hsl, saturation, lightness)));
                    out.push(("hwb", hue3!(hwb, whiteness, blackness)));
                    out.push(("luma", json!([luma.luma.ex()])));
                    back.push(rgb3!(S, xyz)); bn.push("xyz");
                    back.push(rgb3!(S, lab)); bn.push("lab");
                    back.push(rgb3!(S, luv)); bn.push("luv");
                    back.push(rgb3!(S, lch)); bn.push("lch");
                    back.push(rgb3!(S, lchuv)); bn.push("lchuv");
                    back.push(rgb3!(S, hsluv)); bn.push("hsluv");
                    back.push(rgb3!(S, hsv)); bn.push("hsv");
                    back.push(rgb3!(S, hsl)); bn.push("hsl");
                    back.push(rgb3!(S, hwb)); bn.push("hwb");
                    back.push(rgb3!(S, luma)); bn.push("luma");
                    // the grey as single-channel luma into xyY (takes the chromaticity of the white from the type) and on
                    let yxy_l = Yxy::<W, T>::from_color_unclamped(luma);
                    let yxy = Yxy::<W, T>::from_color_unclamped(rgb);
                    back.push(rgb3!(S, yxy_l)); bn.push("luma>yxy");
                    back.push(rgb3!(S, yxy)); bn.push("yxy");
                    { let x = Xyz::<W, T>::from_color_unclamped(yxy_l); back.push(rgb3!(S, Lab::<W, T>::from_color_unclamped(x))); bn.push("luma>yxy>xyz>lab"); }
                    // a grey that arrives in RGB through another space is equal only up to rounding; on through the hexcone forms
                    macro_rules! via_hex { ($c:expr, $n1:expr, $n2:expr, $n3:expr) => {{
                        let r0 = Rgb::<S, T>::from_color_unclamped($c);
                        back.push(rgb3!(S, Hsl::<S, T>::from_color_unclamped(r0))); bn.push($n1);
                        back.push(rgb3!(S, Hsv::<S, T>::from_color_unclamped(r0))); bn.push($n2);
                        back.push(rgb3!(S, Hwb::<S, T>::from_color_unclamped(r0))); bn.push($n3);
                    }}; }
                    via_hex!(luv, "luv>rgb>hsl", "luv>rgb>hsv", "luv>rgb>hwb");
                    via_hex!(lab, "lab>rgb>hsl", "lab>rgb>hsv", "lab>rgb>hwb");
                    via_hex!(lchuv, "lchuv>rgb>hsl", "lchuv>rgb>hsv", "lchuv>rgb>hwb");
                    via_hex!(yxy, "yxy>rgb>hsl", "yxy>rgb>hsv", "yxy>rgb>hwb");
                    via_hex!(xyz, "xyz>rgb>hsl", "xyz>rgb>hsv", "xyz>rgb>hwb");
                    ok_part!($ok, S, rgb, out, back, bn);
                    // CAM16 lightness of the white when it is the adopted white, under several viewing conditions
                    let mut camj: Vec<Value> = Vec::new();
                    if is_white == 1 {
                        let wxyz: Xyz<W, T> = <W as WhitePoint<T>>::get_xyz().with_white_point();
                        for (la, sur) in [(40.0, 0), (4.0, 1), (400.0, 2), (100.0, 3)] {
                            let mut p = Parameters::<StaticWp<W>, T>::default_static_wp(t(la));
                            p.surround = match sur { 0 => Surround::Average, 1 => Surround::Dim, 2 => Surround::Dark, _ => Surround::Percent(t(5.0)) };
                            camj.push(Cam16::<T>::from_xyz(xyz, p).lightness.ex());
                            camj.push(Cam16::<T>::from_xyz(wxyz, p).lightness.ex());
                        }
                        let pd = Parameters::default_dynamic_wp(<W as WhitePoint<T>>::get_xyz(), t(40.0));
                        camj.push(Cam16::<T>::from_xyz(<W as WhitePoint<T>>::get_xyz(), pd).lightness.ex());
                    }
                    out.push(("camj", Value::Array(camj)));
                    out.push(("back", Value::Array(back)));
                    out.push(("bnames", json!(bn)));
                    out
                });
                $rec.ev(match r {
                    Ok(x) => put(b, x),
                    Err(m) => panic_event(b, m, &["xyz", "lab", "luv", "lch", "lchuv", "hsluv", "hsv", "hsl", "hwb", "luma", "oklab", "oklch", "camj", "back", "bnames"]),
                });
            }
        }
    }};
}

macro_rules! pairs_new {
    ($rec:expr, $cfg:expr; $($a:ident)*) => {{
        let names: Vec<&str> = vec![$(<wp::$a as Wn>::NAME),*];
        let mut i = 0usize;
        $( pairs_new!(@row $rec, $cfg, names, i, $a; A B C D50 D55 D65 D75 E F2 F7 F11 D50Degree10 D55Degree10 D65Degree10 D75Degree10); i += 1; )*
        let _ = i;
    }};
    (@row $rec:expr, $cfg:expr, $names:expr, $i:expr, $a:ident; $($b:ident)*) => {{
        let mut j = 0usize;
        $( if selected($cfg, $i, j, $names.len(), $names[$i], $names[j]) { new3::<wp::$a, wp::$b>($rec, $cfg); } j += 1; )*
        let _ = j;
    }};
}

macro_rules! pairs_dci {
    ($rec:expr, $cfg:expr; $($a:ident)*) => {{
        $( old3::<wp::$a, enc::DciP3>($rec, $cfg); old3::<enc::DciP3, wp::$a>($rec, $cfg); )*
        old3::<enc::DciP3, enc::DciP3>($rec, $cfg);
    }};
}

macro_rules! all_whites {
    ($rec:expr, $cfg:expr; $($a:ident)*) => {{ $( white::<wp::$a>($rec, $cfg); )* white::<enc::DciP3>($rec, $cfg); }};
}

// ------------------------------------------------------------------------------------------ per component type

macro_rules! driver {
    ($modname:ident, $T:ty) => {
        pub mod $modname {
            use super::*;
            type T = $T;
            const TN: &str = <T as Ex>::NAME;
            fn t(x: f64) -> T { x as T }
            fn v3<W>(c: Xyz<W, T>) -> Value { json!([c.x.ex(), c.y.ex(), c.z.ex()]) }
            fn a3(a: [T; 3]) -> Value { ex_arr(&a) }
            fn m9(a: [T; 9]) -> Value { ex_arr(&a) }
            fn base(ev: &str, pairs: &[(&str, Value)]) -> Map<String, Value> {
                let mut m = Map::new();
                m.insert("ev".into(), json!(ev));
                m.insert("t".into(), json!(TN));
                for (k, v) in pairs {
                    m.insert(k.to_string(), v.clone());
                }
                m
            }
            fn put(mut b: Map<String, Value>, more: Vec<(&str, Value)>) -> Value {
                for (k, v) in more {
                    b.insert(k.to_string(), v);
                }
                b.insert("panic".into(), json!(0));
                Value::Object(b)
            }

            // -------------------------------------------------------------------------------- white points
            fn white<W: WpOld>(rec: &mut Rec, cfg: &Cfg) {
                if !cfg.want("white", W::NAME) { return; }
                let b = base("white", &[("wp", json!(W::NAME))]);
                let r = catch(|| v3(<W as WhitePoint<T>>::get_xyz()));
                rec.ev(match r {
                    Ok(x) => put(b, vec![("xyz", x)]),
                    Err(m) => panic_event(b, m, &["xyz"]),
                });
            }

            // -------------------------------------------------------------------------------- cone matrices
            fn cone<M: Mn + XyzToLms<T> + LmsToXyz<T>>(rec: &mut Rec, cfg: &Cfg) {
                if !cfg.want("cone", M::NAME) { return; }
                let b = base("cone", &[("m", json!(M::NAME))]);
                let r = catch(|| {
                    let c = <Method as TransformMatrix<T>>::get_cone_response(&M::old());
                    vec![("fwd", m9(<M as XyzToLms<T>>::xyz_to_lms_matrix())), ("inv", m9(<M as LmsToXyz<T>>::lms_to_xyz_matrix())),
                         ("fwd2", m9(c.ma)), ("inv2", m9(c.inv_ma))]
                });
                rec.ev(match r {
                    Ok(x) => put(b, x),
                    Err(m) => panic_event(b, m, &["fwd", "inv", "fwd2", "inv2"]),
                });
            }

            // -------------------------------------------------------------------------------- RGB spaces
            fn spaces(rec: &mut Rec, cfg: &Cfg) {
                space!(rec, cfg, "srgb", enc::Srgb);
                space!(rec, cfg, "adobe", enc::AdobeRgb);
                space!(rec, cfg, "displayp3", enc::DisplayP3);
                space!(rec, cfg, "dcip3", enc::DciP3);
                space!(rec, cfg, "dcip3plus", enc::DciP3Plus<enc::P3Gamma>);
                space!(rec, cfg, "rec2020", enc::Rec2020);
                space!(rec, cfg, "prophoto", enc::ProPhotoRgb);
                // spaces without hard-coded matrices: other white points for the same primaries (everything derived)
                space!(rec, cfg, "srgb", (enc::Srgb, wp::D50));
                space!(rec, cfg, "srgb", (enc::Srgb, wp::E));
                space!(rec, cfg, "adobe", (enc::AdobeRgb, wp::D50));
                space!(rec, cfg, "rec2020", (enc::Rec2020, wp::E));
                space!(rec, cfg, "prophoto", (enc::ProPhotoRgb, wp::D65));
                space!(rec, cfg, "displayp3", (enc::DisplayP3, enc::DciP3));
                space!(rec, cfg, "dcip3", (enc::DciP3, wp::D65));
            }

            // -------------------------------------------------------------------------------- neutrals
            fn neutrals(rec: &mut Rec, cfg: &Cfg) {
                let n: u32 = if cfg.quick { 32 } else { 255 };
                type P3p = enc::DciP3Plus<enc::P3Gamma>;
                standard!(rec, cfg, n, "srgb", "srgb", 0, yes, enc::Srgb, enc::Srgb);
                standard!(rec, cfg, n, "linsrgb", "srgb", 1, yes, Linear<enc::Srgb>, Linear<wp::D65>);
                standard!(rec, cfg, n, "rec709", "srgb", 0, yes, enc::Rec709, enc::Rec709);
                standard!(rec, cfg, n, "adobe", "adobe", 0, yes, enc::AdobeRgb, enc::AdobeRgb);
                standard!(rec, cfg, n, "linadobe", "adobe", 1, yes, Linear<enc::AdobeRgb>, Linear<wp::D65>);
                standard!(rec, cfg, n, "displayp3", "displayp3", 0, yes, enc::DisplayP3, enc::DisplayP3);
                standard!(rec, cfg, n, "lindisplayp3", "displayp3", 1, yes, Linear<enc::DisplayP3>, Linear<wp::D65>);
                standard!(rec, cfg, n, "dcip3", "dcip3", 0, no, enc::DciP3, enc::DciP3);
                standard!(rec, cfg, n, "lindcip3", "dcip3", 1, no, Linear<enc::DciP3>, Linear<enc::DciP3>);
                standard!(rec, cfg, n, "dcip3plus", "dcip3plus", 0, no, P3p, P3p);
                standard!(rec, cfg, n, "lindcip3plus", "dcip3plus", 1, no, Linear<P3p>, Linear<enc::DciP3>);
                standard!(rec, cfg, n, "rec2020", "rec2020", 0, yes, enc::Rec2020, enc::Rec2020);
                standard!(rec, cfg, n, "linrec2020", "rec2020", 1, yes, Linear<enc::Rec2020>, Linear<wp::D65>);
                standard!(rec, cfg, n, "prophoto", "prophoto", 0, no, enc::ProPhotoRgb, enc::ProPhotoRgb);
                standard!(rec, cfg, n, "linprophoto", "prophoto", 1, no, Linear<enc::ProPhotoRgb>, Linear<wp::D50>);
                // standards built from a tuple (primaries, white point[, transfer function]): no hard-coded matrices
                standard!(rec, cfg, n, "linsrgb@D50", "srgb", 1, no, Linear<(enc::Srgb, wp::D50)>, Linear<wp::D50>);
                standard!(rec, cfg, n, "rec2020@E+srgbfn", "rec2020", 0, no, ((enc::Rec2020, wp::E), enc::Srgb), (wp::E, enc::Srgb));
            }

            // -------------------------------------------------------------------------------- adaptation
            // The (source, destination, method) triples are types: 16 x 16 x 3 instances per component type. Only the
            // small kernels below are generic; recording is shared.
            #[derive(Default)]
            pub struct Raw {
                mat: Vec<T>, matd: Vec<T>, matds: Vec<T>, old: Vec<T>, wdst: Vec<T>,
                pts: Vec<[T; 3]>, fwd: Vec<[T; 3]>, forms: Vec<Vec<[T; 3]>>, fnames: Vec<&'static str>,
                back: Vec<[T; 3]>, backf: Vec<[T; 3]>, backo: Vec<[T; 3]>,
            }
            fn arr<W>(c: Xyz<W, T>) -> [T; 3] { [c.x, c.y, c.z] }
            const ADAPT_FIELDS: [&str; 12] = ["mat", "matd", "matds", "old", "wdst", "pts", "fwd", "forms", "fnames", "back", "backf", "backo"];
            fn rows(v: &[[T; 3]]) -> Value { Value::Array(v.iter().map(|p| ex_arr(p)).collect()) }

            /// white points that are their own XYZ meta type: adaptation_matrix, the *Unclamped traits and the deprecated API
            #[inline(never)]
            fn kernel_new<I: WpNew, O: WpNew, M: Mn + XyzToLms<T> + LmsToXyz<T>>(pts: &[[T; 3]], r: &mut Raw) {
                let wi: Xyz<I, T> = <I as WhitePoint<T>>::get_xyz().with_white_point();
                let wo: Xyz<O, T> = <O as WhitePoint<T>>::get_xyz().with_white_point();
                let fm = adaptation_matrix::<T, I, O, M>(None, None);
                let bm = adaptation_matrix::<T, O, I, M>(None, None);
                let dm = adaptation_matrix::<T, I, O, M>(Some(wi), Some(wo));
                // the same white points given at other luminances (Y = 0.75 and Y = 0.5): "the white points are normalized"
                let dms = adaptation_matrix::<T, I, O, M>(Some(wi * t(0.75)), Some(wo * t(0.5)));
                let old = M::old().generate_transform_matrix(<I as WhitePoint<T>>::get_xyz(), <O as WhitePoint<T>>::get_xyz());
                let oldb = M::old().generate_transform_matrix(<O as WhitePoint<T>>::get_xyz(), <I as WhitePoint<T>>::get_xyz());
                r.mat = fm.into_array().to_vec();
                r.matd = dm.into_array().to_vec();
                r.matds = dms.into_array().to_vec();
                r.old = old.to_vec();
                r.wdst = arr::<O>(fm.convert(wi)).to_vec();
                let brad = M::NAME == "bradford";   // the default method of every trait is Bradford
                r.fnames = vec!["adapt_from_unclamped_with", "adapt_into_unclamped_with", "adapt_from_using", "adapt_into_using",
                                "adaptation_matrix(Some,Some).convert"];
                if brad { r.fnames.extend(["adapt_from_unclamped", "adapt_into_unclamped", "adapt_from", "adapt_into"]); }
                r.forms = vec![Vec::new(); r.fnames.len()];
                for p in pts {
                    let x = Xyz::<I, T>::new(p[0], p[1], p[2]);
                    let f: Xyz<O, T> = fm.convert(x);
                    r.pts.push(*p);
                    r.fwd.push(arr(f));
                    r.back.push(arr::<I>(bm.convert(f)));
                    let f1 = Xyz::<O, T>::adapt_from_unclamped_with::<M>(x);
                    let f3 = <Xyz<O, T> as AdaptFrom<Xyz<I, T>, I, O, T>>::adapt_from_using(x, M::old());
                    r.forms[0].push(arr(f1));
                    r.forms[1].push(arr(AdaptIntoUnclamped::<Xyz<O, T>>::adapt_into_unclamped_with::<M>(x)));
                    r.forms[2].push(arr(f3));
                    r.forms[3].push(arr(<Xyz<I, T> as AdaptInto<Xyz<O, T>, I, O, T>>::adapt_into_using(x, M::old())));
                    r.forms[4].push(arr::<O>(dm.convert(x)));
                    if brad {
                        r.forms[5].push(arr(Xyz::<O, T>::adapt_from_unclamped(x)));
                        r.forms[6].push(arr(AdaptIntoUnclamped::<Xyz<O, T>>::adapt_into_unclamped(x)));
                        r.forms[7].push(arr(<Xyz<O, T> as AdaptFrom<Xyz<I, T>, I, O, T>>::adapt_from(x)));
                        r.forms[8].push(arr(<Xyz<I, T> as AdaptInto<Xyz<O, T>, I, O, T>>::adapt_into(x)));
                    }
                    r.backf.push(arr(Xyz::<I, T>::adapt_from_unclamped_with::<M>(f1)));
                    r.backo.push(multiply_3x3_and_vec3(oldb, f3.into()));
                }
            }

            /// any white point (the DCI white is not an XYZ meta type): only the deprecated API applies
            #[inline(never)]
            fn kernel_old<I: WpOld, O: WpOld, M: Mn>(pts: &[[T; 3]], r: &mut Raw) {
                let wi = <I as WhitePoint<T>>::get_xyz();
                let wo = <O as WhitePoint<T>>::get_xyz();
                let old = M::old().generate_transform_matrix(wi, wo);
                let oldb = M::old().generate_transform_matrix(wo, wi);
                r.old = old.to_vec();
                r.wdst = arr(<Xyz<O, T> as AdaptFrom<Xyz<I, T>, I, O, T>>::adapt_from_using(wi.with_white_point(), M::old())).to_vec();
                let brad = M::NAME == "bradford";
                r.fnames = vec!["adapt_from_using", "adapt_into_using"];
                if brad { r.fnames.push("adapt_from"); }
                r.forms = vec![Vec::new(); r.fnames.len()];
                for p in pts {
                    let x = Xyz::<I, T>::new(p[0], p[1], p[2]);
                    let f = multiply_3x3_and_vec3(old, *p);
                    r.pts.push(*p);
                    r.fwd.push(f);
                    r.back.push(multiply_3x3_and_vec3(oldb, f));
                    let f3 = <Xyz<O, T> as AdaptFrom<Xyz<I, T>, I, O, T>>::adapt_from_using(x, M::old());
                    r.forms[0].push(arr(f3));
                    r.forms[1].push(arr(<Xyz<I, T> as AdaptInto<Xyz<O, T>, I, O, T>>::adapt_into_using(x, M::old())));
                    if brad { r.forms[2].push(arr(<Xyz<O, T> as AdaptFrom<Xyz<I, T>, I, O, T>>::adapt_from(x))); }
                    r.backo.push(arr(<Xyz<I, T> as AdaptFrom<Xyz<O, T>, O, I, T>>::adapt_from_using(f3, M::old())));
                }
            }

            fn record_adapt(rec: &mut Rec, cfg: &Cfg, src: &str, dst: &str, m: &str, api: &str, kernel: fn(&[[T; 3]], &mut Raw)) {
                let key = format!("{}/{}/{}", src, dst, m);
                if !cfg.want("adapt", &key) { return; }
                let b = base("adapt", &[("src", json!(src)), ("dst", json!(dst)), ("m", json!(m)), ("api", json!(api))]);
                let pts: Vec<[T; 3]> = xyz_points(cfg, key.bytes().fold(7u64, |a, c| a.wrapping_mul(131).wrapping_add(c as u64)))
                    .iter().map(|p| [t(p[0]), t(p[1]), t(p[2])]).collect();
                let res = catch(|| { let mut r = Raw::default(); kernel(&pts, &mut r); r });
                rec.ev(match res {
                    Ok(r) => put(b, vec![
                        ("mat", ex_arr(&r.mat)), ("matd", ex_arr(&r.matd)), ("matds", ex_arr(&r.matds)), ("old", ex_arr(&r.old)), ("wdst", ex_arr(&r.wdst)),
                        ("pts", rows(&r.pts)), ("fwd", rows(&r.fwd)), ("forms", Value::Array(r.forms.iter().map(|f| rows(f)).collect())),
                        ("fnames", json!(r.fnames)), ("back", rows(&r.back)), ("backf", rows(&r.backf)), ("backo", rows(&r.backo)),
                    ]),
                    Err(msg) => panic_event(b, msg, &ADAPT_FIELDS),
                });
            }
            fn adapt_new<I: WpNew, O: WpNew, M: Mn + XyzToLms<T> + LmsToXyz<T>>(rec: &mut Rec, cfg: &Cfg) {
                record_adapt(rec, cfg, I::NAME, O::NAME, M::NAME, "new", kernel_new::<I, O, M>);
            }
            fn adapt_old<I: WpOld, O: WpOld, M: Mn>(rec: &mut Rec, cfg: &Cfg) {
                record_adapt(rec, cfg, I::NAME, O::NAME, M::NAME, "old", kernel_old::<I, O, M>);
            }

            fn new3<I: WpNew, O: WpNew>(rec: &mut Rec, cfg: &Cfg) {
                adapt_new::<I, O, Bradford>(rec, cfg);
                adapt_new::<I, O, VonKries>(rec, cfg);
                adapt_new::<I, O, UnitMatrix>(rec, cfg);
            }
            fn old3<I: WpOld, O: WpOld>(rec: &mut Rec, cfg: &Cfg) {
                adapt_old::<I, O, Bradford>(rec, cfg);
                adapt_old::<I, O, VonKries>(rec, cfg);
                adapt_old::<I, O, UnitMatrix>(rec, cfg);
            }
            /// quick tier: all pairs with D65 or D50 on one side and the diagonal
            fn selected(cfg: &Cfg, i: usize, j: usize, n: usize, a: &str, b: &str) -> bool {
                let _ = n;
    !cfg.quick || cfg.only.is_some() || i == j || ["D65", "D50"].contains(&a) || ["D65", "D50"].contains(&b)
            }
            fn adaptations(rec: &mut Rec, cfg: &Cfg) {
                pairs_new!(rec, cfg; A B C D50 D55 D65 D75 E F2 F7 F11 D50Degree10 D55Degree10 D65Degree10 D75Degree10);
                if cfg.quick && cfg.only.is_none() {
                    old3::<wp::D65, enc::DciP3>(rec, cfg); old3::<enc::DciP3, wp::D65>(rec, cfg);
                    old3::<wp::D50, enc::DciP3>(rec, cfg); old3::<enc::DciP3, wp::D50>(rec, cfg);
                    old3::<wp::D75Degree10, enc::DciP3>(rec, cfg); old3::<enc::DciP3, wp::A>(rec, cfg);
                    old3::<enc::DciP3, enc::DciP3>(rec, cfg);
                } else {
                    pairs_dci!(rec, cfg; A B C D50 D55 D65 D75 E F2 F7 F11 D50Degree10 D55Degree10 D65Degree10 D75Degree10);
                }
            }

            // -------------------------------------------------------------------------------- Matrix3
            fn mat3(rec: &mut Rec, cfg: &Cfg) {
                let srgb = enc::Srgb::rgb_to_xyz_matrix().unwrap().map(|x| x as T);
                let brad = <Bradford as XyzToLms<T>>::xyz_to_lms_matrix();
                let vk = <VonKries as LmsToXyz<T>>::lms_to_xyz_matrix();
                let mut mats: Vec<[T; 9]> = vec![
                    srgb, brad, vk,
                    [t(1.0), t(0.0), t(0.0), t(0.0), t(1.0), t(0.0), t(0.0), t(0.0), t(1.0)],
                    [t(2.0), t(0.0), t(0.0), t(0.0), t(0.5), t(0.0), t(0.0), t(0.0), t(-3.0)],
                    [t(3.0), t(0.0), t(2.0), t(2.0), t(0.0), t(-2.0), t(0.0), t(1.0), t(1.0)],
                    [t(0.0), t(1.0), t(0.0), t(0.0), t(0.0), t(1.0), t(1.0), t(0.0), t(0.0)],
                ];
                let mut r = Sm64::new(cfg.seed ^ 0x3a73);
                for _ in 0..(if cfg.quick { 3 } else { 12 }) {
                    // diagonally dominant, hence well conditioned
                    let mut m = [t(0.0); 9];
                    for (i, e) in m.iter_mut().enumerate() {
                        *e = t(if i % 4 == 0 { r.range(1.5, 3.0) * if r.coin() { 1.0 } else { -1.0 } } else { r.range(-0.6, 0.6) });
                    }
                    mats.push(m);
                }
                let n = mats.len();
                for i in 0..n {
                    for d in [1usize, 3] {
                        let j = (i + d) % n;
                        let key = format!("{}.{}", i, j);
                        let v = [t(r.range(-1.0, 1.0)), t(r.range(0.0, 1.0)), t(r.range(0.0, 2.0))];
                        if !cfg.want("mat3", &key) { continue; }
                        let (a, bm) = (mats[i], mats[j]);
                        let b = base("mat3", &[("key", json!(key)), ("a", m9(a)), ("b", m9(bm)), ("v", a3(v))]);
                        let res = catch(|| {
                            type X = Xyz<Any, T>;
                            let ma = Matrix3::<X, X>::from_array(a);
                            let mb = Matrix3::<X, X>::from_array(bm);
                            let th = ma.then(mb);
                            let x = X::new(v[0], v[1], v[2]);
                            let av: X = ma.convert(x);
                            let bav: X = mb.convert(av);
                            let tv: X = th.convert(x);
                            vec![("then", m9(th.into_array())), ("inva", m9(ma.invert().into_array())),
                                 ("ident", m9(Matrix3::<X, X>::identity().into_array())),
                                 ("scale", m9(Matrix3::<X, X>::scale(v[0], v[1], v[2]).into_array())),
                                 ("av", v3(av)), ("tv", v3(tv)), ("bav", v3(bav))]
                        });
                        rec.ev(match res {
                            Ok(x) => put(b, x),
                            Err(m) => panic_event(b, m, &["then", "inva", "ident", "scale", "av", "tv", "bav"]),
                        });
                    }
                }
            }

            pub fn run(rec: &mut Rec, cfg: &Cfg) {
                all_whites!(rec, cfg; A B C D50 D55 D65 D75 E F2 F7 F11 D50Degree10 D55Degree10 D65Degree10 D75Degree10);
                cone::<Bradford>(rec, cfg);
                cone::<VonKries>(rec, cfg);
                cone::<UnitMatrix>(rec, cfg);
                spaces(rec, cfg);
                mat3(rec, cfg);
                neutrals(rec, cfg);
                adaptations(rec, cfg);
            }
        }
    };
}
driver!(m64, f64);
driver!(m32, f32);

fn main() {
    let tier = arg_or("--tier", "quick");
    let out = arg_or("--out", "-");
    let only = arg("--only").map(|s| {
        let (k, v) = s.split_once(':').expect("--only kind:key");
        (k.to_string(), v.to_string())
    });
    let tsel = arg("--t");
    let cfg = Cfg { quick: tier != "thorough", only, seed: seed_from_env() };
    let mut rec = Rec::create(&out);
    if tsel.as_deref() != Some("f32") { m64::run(&mut rec, &cfg); }
    if tsel.as_deref() != Some("f64") { m32::run(&mut rec, &cfg); }
    let n = rec.finish();
    eprintln!("{{\"events\":{}}}", n);
}
