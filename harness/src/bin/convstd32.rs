//! Conversion universe of the non-sRGB standards and white points, f32 components (see ../convstdlib.rs).
type T = f32;
const TNAME: &str = "f32";
include!("../convstdlib.rs");
fn main() { convmain() }
