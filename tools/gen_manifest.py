#!/usr/bin/env python3
"""Regenerates MANIFEST.json from the table below (single source of truth for the interface)."""
import json, os, subprocess
V = os.path.dirname(os.path.dirname(os.path.abspath(__file__)))
props = [json.loads(l)["id"] for l in open(os.path.join(V, "properties.jsonl"))]

TRUST = "TLC and the JVM; rustc; the Rust harness' recording code (events are what the real API returned); the pure-TLA+ number library spec/lib (unit-tested by TLC against Python integers)"

CHECKS = {
 "C01": dict(
    technique="TLA+ conversion graph with the derive macro's routing algorithm transcribed (ConvGraph.tla) checked by TLC for all ordered pairs; walks replayed on the real conversions; TLC trace validation of the invariance of the abstract colour (ColourEq.tla, exact fixed-point arithmetic)",
    category="model_checking",
    text="TLC proves on the model that each of the 324 ordered pairs of colour types has a terminating route made of hand-written edges (the search of find_nearest_color is transcribed step by step) and predicts which typed pairs exist; the prediction is compared with the compile-time existence matrix of the harness. All ordered pairs of 19 typed nodes (f32 and f64) are then executed as round trips A->B->A, as triangles A->C versus A->B->C through five hub spaces, and with alpha attached; TLC requires the XYZ image of the colour to be invariant under every hop (tolerance relative to the vector, 2^-40 in f64 for routes that avoid the 7-digit RGB matrices, 2^-19 otherwise, 2^-15 in f32), the round trip to return the start coordinates, alpha and colour to be bit-identical with and without alpha.",
    ref="DESIGN.md section 4 C01",
    note=TRUST + "; the code's own direct conversion to Xyz is the abstraction function (a defect common to all routes is C02's business); start colours are inside the sRGB gamut by a margin for walks through gamut-bounded spaces; other RGB standards and white points than sRGB/D65 are not yet driven; known finding C01-oklab-direct-vs-xyz-route"),
 "C02": dict(
    technique="published definitions as exact relations in TLA+ (ColourMath.tla, reference constants with citations, 104-bit fixed point, cube instead of cube root, cross-multiplication, series only for sine/cosine); TLC self-check of the reference (MC_ColourMath); TLC trace validation of every recorded conversion along a hand-written edge (TraceMath.tla)",
    category="model_checking",
    text="34 directed hand-written edges - XYZ<->LMS (von Kries and Bradford cone matrices), linear sRGB<->XYZ (matrix derived in the spec from the IEC primaries and D65), XYZ<->L*a*b*, L*u*v*, xyY, Oklab (Ottosson's M1/M2 and the direct linear-sRGB matrices; CSS Color 4's recalculated M1 also accepted), the three polar forms, RGB<->HSV/HSL, HSV<->HSL, HSV<->HWB, Okhsv<->Okhwb, XYZ<->luma - are run on lattices, on points straddling every piecewise threshold (the join of f(t) per channel, L*=8, hue sector edges, RGB ties) and on random points for f32 and f64; TLC measures on the exact recorded values how many bits input and output agree with the defining equation and requires 44 bits in f64 (17 in f32) for the exact formulas, 19 bits across palette's 7-digit RGB matrices and 18 for Oklab (limits of the publications).",
    ref="DESIGN.md section 4 C02 and section 5",
    note=TRUST + "; reference constants and formulas in spec/ColourMath.tla; thresholds in TraceMath.tla (calibrated, >= 16x margin); not decided here: Oklab<->Okhsl/Okhsv against Ottosson's numerical procedure, Lchuv<->HSLuv bounds, transfer curves (decided by C05's Transfer relation), other RGB standards and white points than sRGB/D65, CAM16 (C16)"),
 "C03": dict(
    technique="TLA+ bounds contract (Bounds.tla, documented table in Types.tla); TLC proves the contract on a lattice model; TLC trace validation of clamp / clamp_assign / slice / is_within_bounds / from_color / try_from_color events with exact dyadic arithmetic",
    category="model_checking",
    text="MC_Bounds proves Within(Clamp(c)), idempotence and identity-on-in-bounds exhaustively on a lattice for every component kind and for the HWB coupling in exact rational arithmetic. Every real API result on lattices that put each component independently far below / just below / inside / just above / far above its range (19 colour types, f32 and f64, plain and Alpha, slices; 18 conversion pairs through the unclamped, clamping and checked APIs) is judged by TLC against the model, bit-exactly wherever the contract is a selection and with a one-rounding allowance where it divides or adds; the min/max accessors are compared with the documented table.",
    ref="DESIGN.md section 4 C03",
    note=TRUST + "; documented bounds table in spec/Types.tla (Lch::max_chroma documented as advisory, Okhsv's documented 1e-6 slack); Alpha<C,T>::is_within_bounds cannot be instantiated for float T on the pinned tree (its where-clause asks T: IsWithinBounds), so the Alpha within-flag is composed from the colour's flag and the alpha range"),
 "C04": dict(
    technique="TLA+ buffer model [form, unit, n, len, cap, data, addr] with one action per cast family and the call style as an argument (Cast.tla); TLC enumerates every chain of casts from every small buffer and checks conservation/identity/rejection invariants; each chain replayed on 97 real palette types built by field name; TLC trace validation of every call (TraceCast.tla) against the model and the specification's declared-field-order table; thorough: Miri as execution monitor on a sample",
    category="model_checking",
    text="Every chain of up to 2 (thorough: 3) casts - into/from array, component and uint; free functions, From*/Into*/Try* traits, borrowing As* traits, mirrored traits and the traits on &holder; by value, ref, mut, Box, [C;2], slice, mutable slice, boxed slice and Vec; map_vec_in_place / map_slice_box_in_place - from every buffer with n in 1..4, up to 8 components and Vec capacities up to 10 including non-multiples (8 313 / 82 911 / 760 617 chains) is executed on Luma, Lumaa, all 26 colour structs, Alpha, PreAlpha and Packed with u8/u16/u32/f32/f64 (u64/u128 for uint casts). After every call TLC requires the flat contents (bit-exact tokens written by field name, declared order, alpha last), length, observed capacity, address identity, size_of/align_of, error kind (length vs capacity vs panic) and the handed-back buffer to equal the model's next state.",
    ref="DESIGN.md section 4 C04",
    note=TRUST + "; Vec::capacity/as_ptr/size_of/align_of as observations; layout soundness is observed (values, addresses, sizes, alignments, std's debug precondition checks, Miri on sampled scenarios in the thorough tier), not proved - the specification does not model provenance; by-value component arrays only for 2n and 2n+1 elements; a cast that kills the process is located by rerunning with --crashlog and reported as a violation; Vec capacities are whatever the allocator gave"),
 "C05": dict(
    technique="bit-exact TLA+ integer model of the float->u8/u16 lookup-table encoders over the tables dumped from the compiled code (Lut.tla), published transfer curves as relations between integer powers (Transfer.tla); TLC exhaustive over all table classes/segments/code boundaries; real encoders swept over all 2^32 f32 patterns (thorough) and recorded as runs; TLC trace validation (TraceLut.tla)",
    category="model_checking",
    text="TLC proves on the dumped tables that every clamped input indexes inside its table, the code is monotone, saturates at 0 and max, every code is produced, the error against the standard curve is below 0.6 code at every code boundary (compared by integer powers, 2^-60 margin), and decode-then-encode reproduces every code (all 8-bit classes and codes; all 16-bit segments, every 64th/8th 16-bit code). The real FromLinear<f32,u8/u16> of every encoding is swept (quick: both ends and a representative of every class; thorough: all 2^32 bit patterns, NaN included) and its step function must equal the model's run by run and stay within 0.6 at both ends of every run; model-predicted boundaries are executed on the real code; f64 inputs around breakpoints (exact round-to-nearest-even model), all decoders (on the curve within 128 u f32 / 512 u f64, re-encode to the code), generic float curves (on the curve, mutually inverse, monotone except < 1e-6 at the join) for 6 curves x f32/f64, and Rgb/Rgba/Luma/Lumaa forms bit-identical to component-wise calls.",
    ref="DESIGN.md section 4 C05",
    note=TRUST + "; hooks H1/H2 (palette::encoding::__verif, index assertion) are how the tables are read and an index overrun becomes a panic; published constants as written in Transfer.tla (sRGB with 1.055 or the continuous 1.0549999686, Rec with exact or three-digit constants, either accepted); monotonicity inside a 16-bit segment/toe by construction; vacuity by TAKEN witnesses because TLC -coverage runs out of memory on this spec; Gamma/F2p2 (deprecated) not covered; a table change that keeps every clause (e.g. scale +1) is deliberately not a violation"),
 "C06": dict(
    technique="explicit TLA+ contract on exact values (Stimulus.tla: limb integers, exact dyadics); TLC model run (satisfiable, implies the round trips, rejects wrong answers) with emitted lattice cases; TLC trace validation of recorded palette calls; thorough: exhaustive run-length sweeps",
    category="model_checking",
    text="Stimulus.tla decides saturation (0 / MAX incl. NaN, +-inf), nearest-integer rounding within one rounding of value x MAX (53 significant bits for u64/u128), exact ends, exact widening (bit replication), narrowing within one rounding, monotonicity and the statement's round trips by integer arithmetic. TLC checks the contract on all u8, lattices of u16...u128 and of floats and validates every recorded call for all 49 ordered format pairs plus Rgb/Rgba/Luma/Lumaa into_format/from_format (77k events + 4.8k model-emitted cases in quick). Thorough: f32->u8/u16 over all 2^32 bit patterns and u32->u8/u16 over all 2^32 codes as runs judged at both ends and linked.",
    ref="DESIGN.md section 4 C06",
    note=TRUST + "; f64/u64/u128 inputs and u32->{u32,u64,u128,f32,f64} are sampled (boundaries, powers of two, ties, random), not exhaustive; that all inputs inside a recorded sweep run gave the recorded code; tolerances half step + 4 ulp (float->int), half step + 16 ulp (narrowing), 16u (int->float), observed maxima 0.5 ulp / 0.5 ulp / 1.66u"),
 "C07": dict(
    technique="invariant `every call on a colour of the statement's domain returns finite components and does not panic` judged by TLC trace validation (TraceFinite.tla decides domain membership from the documented bounds in Types.tla with exact arithmetic) over the boundary lattice x API surface",
    category="model_checking",
    text="Every ordered conversion pair of 21 typed nodes (the two LMS cone spaces included) (f32 and f64, with and without alpha), the clamp family, every operator form of the C10 driver (196 operator/type pairs) and every blend / compositing / BlendWith call of the C08 driver are run on the boundary lattice of each space: every component at min, max, zero, a billionth of the range inside either bound and at quarter points, hues at every sector edge and at +-180/360. TLC decides from the documented bounds whether the recorded input is in the statement's domain (on a bound, zero, or at least 1e-9 of the range away) and then requires a finite, panic-free result.",
    ref="DESIGN.md section 4 C07",
    note=TRUST + "; documented bounds table in spec/Types.tla; component-wise division by a colour or scalar with a zero component is not judged (no finite value exists); colour differences and CAM16 are judged for finiteness by their own checks' relations (a non-finite result cannot satisfy them), not re-run here"),
 "C08": dict(
    technique="TLA+ model of the W3C Compositing and Blending Level 1 formulas in exact dyadic/rational arithmetic (Blend.tla; sqrt only as a squared relation) plus palette's documented Equations table; TLC proves the identities exhaustively on a grid (MC_Blend); the harness enumerates the same grid through the real API; TLC trace validation of every call (TraceBlend.tla)",
    category="model_checking",
    text="Identities of the statement proved by TLC on every per-channel case of {0,1/4,...,1}^4 (thorough 1/8) x 11 modes x 6 operators: 0 <= co <= ao <= 1, opaque inputs reduce to B(cs,cb), transparent source over backdrop is the backdrop, opaque source over anything is the source, the eight commutative modes/operators are symmetric (and the others are not), premultiply/unpremultiply round trip. Every recorded call of Blend / Compose / BlendWith (custom function and the 5x100 Equations combinations) / Premultiply (LinSrgb, Xyz, LinLuma fully; six more Premultiply types sampled; opaque, Alpha and PreAlpha forms; f32/f64; 79 k quick / 1.03 M thorough events) must equal the model value within Arith(8) and lie in [0,1]; Alpha results are judged as the un-premultiplied PreAlpha results.",
    ref="DESIGN.md section 4 C08",
    note=TRUST + "; the range clause is false for `plus` on the W3C formulas themselves (TLC counterexample in the evidence); palette returns the unclamped colour sum with clamped alpha: known finding C08-plus-colour-unclamped; inputs are dyadic (k/4, k/8, k/256), non-dyadic inputs only for premultiply/unpremultiply; TLC does not emit the cases, the harness enumerates the same grid and the counts are compared"),
 "C09": dict(
    technique="published formulas as exact relations in TLA+ (Diff.tla: laws, integer-power closed forms, the complete CIEDE2000 formula of Sharma/Wu/Dalal 2005 with its hue case analysis, evaluated by TLC in 104-bit fixed point with series for atan2/sin/cos/exp and Newton sqrt/quotient, ExpSeries.tla); TLC self-validation of the reference (MC_Diff: 34 published pairs, hue-case lattice, metric laws); TLC trace validation of every recorded call (TraceDiff.tla)",
    category="model_checking",
    text="MC_Diff reproduces the 34 Sharma pairs to 4 decimals, proves the reference symmetric, non-negative and zero on identical colours on a grid inhabiting all 14 feasible hue-logic classes, and emits the pairs; palette's EuclideanDistance, DeltaE, ImprovedDeltaE, HyAb, Ciede2000, ImprovedCiede2000, ColorDifference, Wcag21RelativeContrast and RelativeContrast are called on these plus hue-discontinuity, achromatic, near, identical and random pairs for Lab/Lch/Luv/Oklab/Cam16UcsJab/Jmh/Srgb/LinSrgb/Luma x f32/f64 (27k events quick, 540k thorough, 31k of them CIEDE2000); TLC requires the laws exactly, closed forms to 46/18 bits, CIEDE2000 = reference to 44/16 bits relative to the coordinates, predicates = (returned ratio >= constant) exactly.",
    ref="DESIGN.md section 4 C09",
    note=TRUST + "; the CIEDE2000 transcription in Diff.tla (validated against Sharma's table); pairs within 2^-40 degrees (f64) / 2^-11 degrees (f32) of a 180 degree hue difference or of a mean hue of 0/360 may be on either side of the formula's jump; formulas judged for |coords| < 2^10 and chroma 0 or >= 2^-10; palette has no DeltaE for Luv; Xyz/Yxy/Lms distances and SIMD not driven"),
 "C10": dict(
    technique="exact dyadic operator semantics in TLA+ (Ops.tla: mix, lighten/saturate relative and fixed, HWB forms, hue shift/set, component arithmetic, colour schemes; capability table); TLC proves the operator algebra exhaustively on a component x factor grid (MC_Ops); TLC trace validation of every recorded call with the adjacent-group 'same call, same result' machine (TraceOps.tla)",
    category="model_checking",
    text="MC_Ops proves on the model, for every grid case x factors {-1,-1/2,0,1/4,1/2,1,3/2,2}: end points, factor saturation, betweenness, shorter way round, monotone toward and reaching the limit, range preservation, untouched components, darken = lighten(-f), scheme rotation algebra. All 196 (operator family, colour type) pairs of 19 types x f32/f64 are executed in every existing form (by value, assign, slice of three, Alpha by value and assign, PreAlpha, blanket Darken/Desaturate): the by-value result is compared with the exact model within Arith(16) plus range, untouched, betweenness and monotone-sweep clauses; every other form must be bit-identical, with transparency per the wrapper's rule. Quick 106 k calls, thorough 2.3 M.",
    ref="DESIGN.md section 4 C10",
    note=TRUST + "; the harness' macro table (compared with Ops!Caps by TLC); bit identity ignores the sign of zero; Clamp's value semantics is decided by C03; the quick tier deals lattice colours alternately to f32/f64; amounts outside [-1,1] on the HWB types are judged for agreement of forms only"),
 "C11": dict(
    technique="explicit TLA+ model of hues (Hue.tla: exact arithmetic modulo 360 on the dyadic each float denotes, no trigonometry) checked exhaustively by TLC on integer angles and all 8-bit hues; TLC trace validation of recorded calls of the hue API on exact values",
    category="model_checking",
    text="TLC checks Hue.tla on all integer angles in +-2000 (thorough +-100000) and all 256 8-bit hues: normal forms exist and are unique up to the ends, equality is an equivalence compatible with whole turns, the 8-bit map is onto with wrap-around, and every relation rejects wrong answers (one turn off, one degree off, wrong radian factor). Every recorded call of the hue API (five hue types x f32/f64: signed/unsigned normal form, PartialEq incl. whole-turn shifts, radians, cartesian round trip, 8-bit conversion both ways, Add/Sub; 51k events quick, 546k thorough incl. a 19M-pattern f32 sweep compressed losslessly for the range clause) is validated by TLC against the model on the exact values.",
    ref="DESIGN.md section 4 C11",
    note=TRUST + "; exhaustive for integer angles x whole-turn shifts and all 256 codes, boundary/ulp neighbours of multiples of 180, powers of two and subnormals, seeded random elsewhere; tolerance 8 ulp of the stored angle (largest deviation on the pinned tree: 1 ulp); f32 cannot reveal degree/radian factor errors below 2^-20; SIMD hues belong to C17"),
 "C12": dict(
    technique="TLA+ grammar/permutation/table models (Hex.tla, Packed.tla, Named.tla); TLC exhaustive on small constants with case emission; full-space sweep of the real parser with lossless compression; TLC trace validation of every recorded event (TraceHex.tla)",
    category="model_checking",
    text="Parser: every string of <= 7 (quick) / <= 9 (thorough) symbols over a 10-symbol abstract alphabet (hex digits, non-hex, +, -, #, space, 2- and 3-byte characters) for all ten FromStr types is run through str::parse; the recording (every accepted string with its value, every panic, per-length counts) must be set-equal to the model's accepting set with equal values and no panic; structured long forms of 12-64 digits; formatting on lattices; all 2^24 Rgb<u8> format/parse round trips; all 4 RGBA + 2 luma channel orders on lattices and (thorough) all 2^32 packed values with each channel in the model's byte position; all 148 names, case variants and single-character edits against the reference table written in Named.tla.",
    ref="DESIGN.md section 4 C12",
    note=TRUST + "; exhaustive only within the stated alphabet and length bound (long forms are structured enumeration); other integer types than u8 are sampled for the format round trip; the named-colour reference table was written from the W3C list and cross-checked against svg_colors.txt and X11 rgb.txt"),
 "C13": dict(
    technique="TLA+ guard stack machine over symbolic conversion terms (InPlace.tla); TLC enumerates all guard programs, replayed on real buffers; TLC trace validation (in-place arrays bit-identical to the term evaluated out of place)",
    category="model_checking",
    text="Every guard program up to depth 4 (thorough: 5) over 3-4 layout-compatible colour types - nested guards, then_into chains, clamped/unclamped flips, writes through the guard, restore, drop, forget, owned Vec/Box conversion - plus long simulated programs is executed on Vec, Box<[T]> and single values. After every operation TLC requires the raw arrays to be bit-identical to the specification's term evaluated with the ordinary conversion API, and address, length and capacity to be unchanged.",
    ref="DESIGN.md section 4 C13",
    note=TRUST + "; the out-of-place API is the meaning of a conversion step; absence of undefined behaviour inside the unsafe blocks as such is not decided (values, addresses, lengths only)"),
 "C14": dict(
    technique="published white points, primaries and cone matrices written in TLA+ (Adapt.tla) with exact 3x3 algebra in 104-bit fixed point; TLC checks the publication against itself (MC_Adapt); TLC trace validation (TraceAdapt.tla) of recorded palette constants, matrices, grey-axis conversions, CAM16 of the adopted white, adaptation matrices and trait forms, Matrix3 algebra, f32 and f64",
    category="model_checking",
    text="MC_Adapt: for 7 RGB spaces the derived matrix maps (1,1,1) to the white point (2^-90; ProPhoto 2^-86) and inverts; for all pairs of 16 white points x Bradford/von Kries/XYZ scaling (quick: D65/D50 hubs and diagonal) the reference adaptation maps white onto white, is the identity between equal whites, and there-and-back = I at 2^-86. Every white point type, hard-coded and code-derived RGB<->XYZ matrix of 14 spaces, the grey axis (33 / 256 levels) and white of 17 RGB standards through Xyz, Lab, Luv, Lch, Lchuv, Oklab, Oklch, Hsv, Hsl, Hwb, Hsluv, Luma and back, CAM16 J of the adopted white, adaptation_matrix and all trait forms on XYZ points there and back (quick 76 ordered white point pairs, thorough all 256), and Matrix3 then/invert/identity are judged by TLC against the published constants.",
    ref="DESIGN.md section 4 C14",
    note=TRUST + "; published constants as written in spec/Adapt.tla (ASTM E308 values cross-checked against palette's doc comments only); tolerance classes Need(class,t) calibrated with >= 8x margin (Oklab 1e-4 publication class because palette's M1 was recalculated for the CSS D65 chromaticity); the DCI white is reachable only through the deprecated adaptation API; known finding C14-hsluv-white-saturation"),
 "C15": dict(
    technique="exact integer hexcone model (Hexcone.tla) with containment proved by TLC on a lattice; TLC trace validation of containment, bound preservation and round trip (TraceGamut.tla) on recorded conversions of the cylinder and RGB lattices",
    category="model_checking",
    text="For HSV/HSL/HWB the containment is a theorem of the integer hexcone model, checked by TLC for every sector, sector boundary and lattice value (one state per point). For all seven spaces the real conversions of a cylinder lattice (hues every 15 degrees - 3 in thorough - plus sector edges and the Oklab hues of the sRGB primaries and secondaries; saturation/value/lightness/whiteness/blackness including the bounds and a billionth inside) to sRGB, and of an RGB lattice plus random and boundary colours into each space and back, are judged by TLC: components in [-tol, 1+tol], bounds kept up to the slack, round trip within 2^-16 (f64) / 2^-13 (f32). Tolerances are named in TraceGamut.tla (rounding only for the hexcone spaces; about twice the pinned tree's approximation error for Ok* and HSLuv) and the evidence reports the largest excursion seen.",
    ref="DESIGN.md section 4 C15",
    note=TRUST + "; tolerance table of TraceGamut.tla; known findings C15-hsluv-white-saturation and C15-f32-ok-blue-edge"),
 "C19": dict(
    technique="explicit TLA+ model of the samplers (Random.tla: containment on exact dyadics with arithmetic modulo 360; the volume clause as the deterministic inverse-CDF relation of the cone / bicone volume measure between the raw variates the sampler consumed and the sample, for some assignment of variates to coordinates) checked by TLC on a 4^3 grid in exact arithmetic with case emission (MC_Random); TLC trace validation of every recorded sample (TraceRandom.tla)",
    category="model_checking",
    text="TLC proves on the model that the height CDF equals the normalised integral of the cross-section area so that each of the 64 grid cells has pre-image measure volume/total (never true for the coordinate-uniform sampler), that the CDFs are increasing bijections (cone v^3, bicone 4l^3 / 1-4(1-l)^3), and that the relation accepts the exact inverse and rejects coordinate-uniform, wrong-hue, off-arc and out-of-range events. All 81 (thorough 625) grid variate tuples emitted by TLC are fed to the real samplers through a scripted generator, next to 40 (200) seeded streams: Standard and Uniform::new/new_inclusive for 20 colour types x f32/f64, plain and Alpha-wrapped, ends from a lattice (whole range, equal ends, narrow boxes, 16 hue arcs incl. wrapping ones, HWB ends crossing in value/saturation); 23 k events quick, 279 k thorough. TLC requires bounds / betweenness (HWB on the HSV image) / hue on the arc on exact values, and for hsv, okhsv, hsl, okhsl, hwb, okhwb the inverse-CDF relation.",
    ref="DESIGN.md section 4 C19 and section 5",
    note=TRUST + "; rand 0.8's scalar Standard/Uniform distributions are uniform and draw one generator output per scalar (variates re-drawn from clones of the generator); distributional uniformity is replaced by the deterministic inverse-CDF relation; volume clause only for the six spaces the statement names (cylinders and HSLuv: containment only); -coverage unusable for MC_Random (cost model out of memory), vacuity by exact state count; low.raw > high.raw, arcs > 360 degrees, HWB ends with value < 1/4 not driven; known finding C19-f32-bicone-top-collision"),
 "C20": dict(
    technique="TLA+ model of the serde data model as a tree type (Serde.tla: Ser from a type table, the alpha-flattening rule per tree shape, De as partial inverse, as_array/as_uint); TLC checks De(Ser(v))=v, permutation invariance, flatness and absence of metadata exhaustively and emits every deserializer case, replayed into palette through a recording Deserializer, serde_json, ron and a compact stream; TLC trace validation of every recorded tree, JSON text shape and round trip",
    category="model_checking",
    text="All 20 serializable colour structs (plus 3 harness structs of other arities) x plain/Alpha/PreAlpha x f32/f64 (u8/u16 for Rgb, Luma). Extremes in every position plus random finite values are serialized through a recording serializer (exact data-model calls incl. announced lengths), serde_json and ron (struct, named, array and holder forms). TLC requires the tree to equal Ser of the type table with alpha flattened at the same level, the JSON key set = declared fields (+alpha), depth 1, hue a bare number, no standard/white_point/meta, and bit-identical round trips (serde_json+f64: 16 ulp). Every TLC-enumerated case (all field permutations, map/seq/tuple forms, missing alpha, missing field, wrong arity, unknown field; with/without the optional-alpha helper) must end as De prescribes. as_array/as_uint must equal the cast array / packed integer. Quick: 2.6 k cases + 54 k events; thorough: 18 k cases + 1.35 M events.",
    ref="DESIGN.md section 4 C20",
    note=TRUST + "; the harness' recording Serializer/Deserializer and compact token stream as faithful serde formats; serde/serde_json/ron as the meaning of 'the format'; harness-computed ulp distance; unknown extra fields, surplus sequence elements, duplicate keys and string-keyed maps under Alpha are left open; known finding C20-alpha-struct-compact-stream"),
 "C16": dict(
    technique="explicit TLA+ specification of the CAM16 relations (Cam16.tla, LnExp.tla: viewing conditions as an opaque token, exact dyadic products, ln/exp/sin/cos series); TLC enumerates the lattice of viewing conditions x partial types and checks the reference against itself (MC_Cam16); TLC trace validation of recorded palette conversions (TraceCam16.tla)",
    category="model_checking",
    text="TLC enumerates the lattice of 4320 viewing conditions x 6 partial types (emitted for replay) and checks the reference against itself: UCS relations and published inverses mutually inverse on a grid, series against tabulated values, published attribute definitions imply the parameter-free invariants, every verdict accepts exact and rejects perturbed events. Recorded palette conversions for f32/f64 (16.8k events quick, 318k thorough) are judged by TLC on exact values: XYZ round trips through Cam16 and the six partial types relative to the XYZ magnitude (2^-42 f64 / 2^-13 f32); black to black exactly; from_full is the bit-identical projection, from_xyz and into_full agree with the full colour; s^2 Q = 10^4 M and the two-colour ratio invariants M1 C2 = M2 C1, Q1^2 J2 = Q2^2 J1; adopted white J = 100; CAM16-UCS forward and inverse relations (J' rational, M' by ln/exp series, polar by sin/cos) and round trips.",
    ref="DESIGN.md section 4 C16 and section 5",
    note=TRUST + "; not decided: agreement of the forward model (J, C, h from XYZ) with Li et al.'s equations, whose exponents are computed real numbers; judged domain: non-negative CAT16 cone responses, or one negative response <= 1/16 of the smaller of the other two (other inputs, e.g. negative luminance where CAM16 is undefined, are recorded and only checked for panics); the harness flag marking the adopted white"),
 "C17": dict(
    technique="TLA+ lane model (Simd.tla: SIMD colour = function lane -> scalar colour, Pack/Unpack as transposition, lifted operations, masks as functions lane -> BOOLEAN, named agreement relation); TLC checks pack/unpack, select, De Morgan and IEEE comparison laws for 2/4/8 lanes and enumerates the lane groupings (all class pairs for 2 lanes, Latin squares for 4 and 8), replayed on the real wide conversions; TLC trace validation of every lane, pack, mask, operator and f32-vs-f64 event",
    category="model_checking",
    text="For the 19 colour types of the D65/sRGB family and wide::{f32x4, f32x8, f64x2, f64x4} the existence of every conversion (170 pairs per vector type) and operator (194 impls per vector type) is decided at compile time. TLC enumerates 1267 lane groupings over 10 families of branch classes (max channel and ties, transfer-function segment, join of f(t) per channel, zero chroma and hue quadrant, hue sector, grey/black/white, luma segment), so the lanes of one SIMD call take different branches. Each group is run as ONE SIMD call (packed with From<[Color<T>;N]>, unpacked with Into) plus one scalar call per lane. TLC requires each lane to agree with the scalar result in own coordinates, conditioning-aware, at 2^-16 for f32 and 2^-40 for f64, the XYZ image deciding where coordinates are ill-conditioned. Packing, unpacking, the six comparisons, select, lazy_select, & | ^ !, is_true/is_false and mask-valued operators must be bit-identical and equal to the model. f32 against f64 is judged on the scalar universe with a per-pair calibrated tolerance (2^-12..2^-19). Quick: 24 k events; thorough: 417 k.",
    ref="DESIGN.md section 4 C17",
    note=TRUST + "; the scalar implementation is the reference of each lane (what it must compute is C02's); tolerances LaneBits/LaneHubBits/PrecTable of spec/Simd.tla (calibrated, >= 8x margin); the code's own f64 conversion to Xyz as abstraction function; PreAlpha packing and *Assign operator forms are not driven on wide types; Round::round on wide types (ties to even) is unreachable from colour code and not asserted"),
 "C18": dict(
    technique="TLA+ reference machine (Soa.tla); TLC enumerates all operation histories, replayed on the real collections; TLC trace validation of every recorded call",
    category="model_checking",
    text="Every operation history of the Vec-of-colours reference machine up to depth 3 (thorough: 4) plus long simulated histories is executed on palette's struct-of-arrays types (with hue and alpha collections); each call's reply, every component collection read back, and every component length must equal the model's next state. That decides the property for all interleavings up to the bound and samples it beyond.",
    ref="DESIGN.md section 4 C18",
    note=TRUST + "; token<->colour mapping of the harness; histories longer than the bound are sampled, not exhausted; mem::forget of a drain is excluded (std leaves it unspecified)"),
}

def hook_commits():
    try:
        out = subprocess.run(["git", "-C", "/repo", "log", "--format=%H %s"], capture_output=True, text=True).stdout
        return [l.split()[0] for l in out.splitlines() if " verif-hook:" in " " + l]
    except Exception:
        return []

m = {
 "version": 1,
 "setup_cmd": "cd /verif && ./setup.sh",
 "hooks": {
   "guard": "palette_verif",
   "enable": "rustc --cfg palette_verif, set for the harness only by /verif/harness/.cargo/config.toml (build.rustflags); /repo's own builds never see it",
   "baseline_off_cmd": "cd /repo && cargo test --workspace --no-fail-fast --offline",
   "source_commits": hook_commits(),
   "add_only": True,
 },
 "engines": [
   {"name": "tlc", "path": "/verif/spec", "serves_properties": sorted(CHECKS), "kind_free_text": "explicit TLA+ specification (spec/*.tla), exhaustive small-constant configurations (spec/mc), trace specifications (spec/trace) run by TLC"},
   {"name": "harness", "path": "/verif/harness", "serves_properties": sorted(CHECKS), "kind_free_text": "Rust crate with a path dependency on /repo/palette: replays TLC-generated behaviours into the real code and records NDJSON traces (exact number encoding) for TLC to validate"},
 ],
 "checks": [],
 "notes": "All checks: ./check <ID> --tier quick|thorough; exit 0 held / 1 VIOLATION / 2 tool error. Known findings: /verif/known_findings.json. See DESIGN.md.",
 "not_applicable": [],
}
for p in props:
    if p in CHECKS:
        c = CHECKS[p]
        m["checks"].append({
          "property_id": p,
          "quick_cmd": "cd /verif && ./check %s --tier quick" % p,
          "thorough_cmd": "cd /verif && ./check %s --tier thorough" % p,
          "evidence_file": "/verif/evidence/%s.json" % p,
          "replay_cmd_template": "cd /verif && ./check %s --replay {path}" % p,
          "engine": "tlc",
          "level_claimed": {"category": c["category"], "text": c["text"], "design_ref": c["ref"]},
          "level_note": c["note"],
          "technique": c["technique"],
        })
    else:
        m["not_applicable"].append({"property_id": p, "reason": "check under construction in this build round (design in DESIGN.md section 4); not claimed until its TLA+ model, harness driver and trace specification are committed and green"})
json.dump(m, open(os.path.join(V, "MANIFEST.json"), "w"), indent=1)
print("checks:", [c["property_id"] for c in m["checks"]])
