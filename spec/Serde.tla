------------------------------- MODULE Serde -------------------------------
(***************************************************************************)
(* C20 - serialized colours deserialize to the same colour in a stable      *)
(* shape.                                                                   *)
(*                                                                         *)
(* The serde data model as a tree type.  A node is always a record          *)
(*   [k, name, num, items, keys, len]                                       *)
(* (uniformly typed so that TLC can compare any two nodes):                 *)
(*   Num(prim, bits)        k = "num", name = primitive type, num = bits    *)
(*   Seq / Tuple(items)     k = "seq" / "tuple"                             *)
(*   TupleStruct(name, items), Struct(name, keys, items), Map(keys, items)  *)
(*   Newtype(name, v), Unit, UnitStruct(name)                               *)
(* `len` is the length announced to the serializer, which must be the       *)
(* number of items actually written (a compact format writes or trusts it). *)
(* Numbers are opaque bit patterns (lowercase hex strings); the model never *)
(* computes with them, it only moves them around.                           *)
(*                                                                         *)
(* The machine: `val` is a colour value, `tree` the last tree written or     *)
(* handed to a deserializer, `res` the last deserialization result.         *)
(* One action per public operation: SerializeValue, DeserializeValue (Alpha, *)
(* PreAlpha and the optional-alpha helper are arguments), SerializeAsArray, *)
(* SerializeAsUint.                                                         *)
(***************************************************************************)
EXTENDS Integers, Sequences, FiniteSets

Node(k, name, num, items, keys, len) ==
  [k |-> k, name |-> name, num |-> num, items |-> items, keys |-> keys, len |-> len]
Num(prim, bits)         == Node("num", prim, bits, <<>>, <<>>, 0)
SeqN(items)             == Node("seq", "", "", items, <<>>, Len(items))
Tuple(items)            == Node("tuple", "", "", items, <<>>, Len(items))
TupleStruct(name, items) == Node("tuple_struct", name, "", items, <<>>, Len(items))
Struct(name, keys, items) == Node("struct", name, "", items, keys, Len(items))
MapN(keys, items)       == Node("map", "", "", items, keys, Len(items))
Newtype(name, v)        == Node("newtype", name, "", <<v>>, <<>>, 1)
Unit                    == Node("unit", "", "", <<>>, <<>>, 0)
UnitStruct(name)        == Node("unit_struct", name, "", <<>>, <<>>, 0)
Unsupported             == Node("unsupported", "", "", <<>>, <<>>, 0)

Keyed      == {"struct", "map"}
Positional == {"seq", "tuple", "tuple_struct"}
Range(s)   == {s[i] : i \in DOMAIN s}

-----------------------------------------------------------------------------
(* The type table: every serializable colour struct of palette with its     *)
(* declared component fields in declaration order (the public field names   *)
(* of the struct), the 1-based position of the hue field (0: none), the     *)
(* type-level metadata fields (PhantomData markers for the RGB standard,    *)
(* the white point, the LMS matrix), and whether PreAlpha exists for it.    *)
(* `name` is the struct's name.                                             *)
T(name, fields, hue, meta, pre) == [name |-> name, fields |-> fields, hue |-> hue, meta |-> meta, pre |-> pre]

TypeTable == [
  Rgb         |-> T("Rgb", <<"red", "green", "blue">>, 0, {"standard"}, TRUE),
  Luma        |-> T("Luma", <<"luma">>, 0, {"standard"}, TRUE),
  Hsl         |-> T("Hsl", <<"hue", "saturation", "lightness">>, 1, {"standard"}, FALSE),
  Hsv         |-> T("Hsv", <<"hue", "saturation", "value">>, 1, {"standard"}, FALSE),
  Hwb         |-> T("Hwb", <<"hue", "whiteness", "blackness">>, 1, {"standard"}, FALSE),
  Hsluv       |-> T("Hsluv", <<"hue", "saturation", "l">>, 1, {"white_point"}, FALSE),
  Lab         |-> T("Lab", <<"l", "a", "b">>, 0, {"white_point"}, TRUE),
  Lch         |-> T("Lch", <<"l", "chroma", "hue">>, 3, {"white_point"}, FALSE),
  Luv         |-> T("Luv", <<"l", "u", "v">>, 0, {"white_point"}, TRUE),
  Lchuv       |-> T("Lchuv", <<"l", "chroma", "hue">>, 3, {"white_point"}, FALSE),
  Xyz         |-> T("Xyz", <<"x", "y", "z">>, 0, {"white_point"}, TRUE),
  Yxy         |-> T("Yxy", <<"x", "y", "luma">>, 0, {"white_point"}, TRUE),
  Oklab       |-> T("Oklab", <<"l", "a", "b">>, 0, {}, TRUE),
  Oklch       |-> T("Oklch", <<"l", "chroma", "hue">>, 3, {}, FALSE),
  Okhsl       |-> T("Okhsl", <<"hue", "saturation", "lightness">>, 1, {}, FALSE),
  Okhsv       |-> T("Okhsv", <<"hue", "saturation", "value">>, 1, {}, FALSE),
  Okhwb       |-> T("Okhwb", <<"hue", "whiteness", "blackness">>, 1, {}, FALSE),
  Lms         |-> T("Lms", <<"long", "medium", "short">>, 0, {"meta"}, TRUE),
  Cam16UcsJab |-> T("Cam16UcsJab", <<"lightness", "a", "b">>, 0, {}, TRUE),
  Cam16UcsJmh |-> T("Cam16UcsJmh", <<"lightness", "colorfulness", "hue">>, 3, {}, FALSE),
  (* colour-like structs of the harness (arities and hue positions that no palette struct has),
     used only under palette's Alpha to exercise the flattening *)
  M2          |-> T("M2", <<"x", "y">>, 0, {}, FALSE),
  M4          |-> T("M4", <<"c1", "c2", "c3", "c4">>, 0, {}, FALSE),
  M4h         |-> T("M4h", <<"c1", "hue", "c3", "c4">>, 2, {}, FALSE)
]
TypeNames == DOMAIN TypeTable
(* names that denote type-level metadata anywhere in palette; none may appear in any output *)
MetaNames == {"standard", "white_point", "meta"}

Wraps == {"plain", "alpha", "prealpha"}

(* Full opacity (Stimulus::max_intensity) of each component type, as a bit pattern:
   1.0 in IEEE 754 binary32 / binary64, all ones for the unsigned integers. *)
FullOpacity == [f32 |-> "3f800000", f64 |-> "3ff0000000000000", u8 |-> "ff", u16 |-> "ffff"]
Prims == DOMAIN FullOpacity

-----------------------------------------------------------------------------
(* Ser: a colour struct is written as a struct of its declared fields in     *)
(* declaration order, nothing else.  A hue is a bare number or a newtype     *)
(* around one (hf = "bare" / "newtype"); either is accepted, the newtype's   *)
(* name is free.                                                             *)
HueNode(prim, bits, hf, hname) == IF hf = "bare" THEN Num(prim, bits) ELSE Newtype(hname, Num(prim, bits))

SerColour(d, prim, comps, hf, hname) ==
  Struct(d.name, d.fields,
         [i \in 1..Len(d.fields) |-> IF i = d.hue THEN HueNode(prim, comps[i], hf, hname) ELSE Num(prim, comps[i])])

(* The flattening rule: the colour's own tree with one more field "alpha" /  *)
(* one more element, at the same level, for every tree shape.               *)
AddAlpha(t, a) ==
  CASE t.k = "struct"       -> Struct(t.name, Append(t.keys, "alpha"), Append(t.items, a))
    [] t.k = "map"          -> MapN(Append(t.keys, "alpha"), Append(t.items, a))
    [] t.k = "seq"          -> SeqN(Append(t.items, a))
    [] t.k = "tuple"        -> Tuple(Append(t.items, a))
    [] t.k = "tuple_struct" -> TupleStruct(t.name, Append(t.items, a))
    [] t.k = "newtype"      -> TupleStruct(t.name, <<t.items[1], a>>)
    [] t.k = "unit_struct"  -> Newtype(t.name, a)
    [] t.k = "unit"         -> Tuple(<<a>>)
    [] OTHER                -> Unsupported      \* a bare number has no level to add a field to

(* the inverse on shapes: what is the colour's tree and what the alpha, given the colour's own kind *)
StripAlpha(basek, t) ==
  LET n == Len(t.items) IN
  CASE basek \in {"struct", "map"} /\ t.k = basek /\ n > 0 /\ t.keys[n] = "alpha" ->
         <<Node(t.k, t.name, "", SubSeq(t.items, 1, n - 1), SubSeq(t.keys, 1, n - 1), n - 1), t.items[n]>>
    [] basek \in Positional /\ t.k = basek /\ n > 0 ->
         <<Node(t.k, t.name, "", SubSeq(t.items, 1, n - 1), <<>>, n - 1), t.items[n]>>
    [] basek = "newtype" /\ t.k = "tuple_struct" /\ n = 2 -> <<Newtype(t.name, t.items[1]), t.items[2]>>
    [] basek = "unit_struct" /\ t.k = "newtype" -> <<UnitStruct(t.name), t.items[1]>>
    [] basek = "unit" /\ t.k = "tuple" /\ n = 1 -> <<Unit, t.items[1]>>
    [] OTHER -> <<Unsupported, Unsupported>>

(* a value: [ty, prim, wrap, comps, alpha]; alpha = "" for plain colours *)
Ser(v, hf, hname) ==
  LET c == SerColour(TypeTable[v.ty], v.prim, v.comps, hf, hname)
  IN IF v.wrap = "plain" THEN c ELSE AddAlpha(c, Num(v.prim, v.alpha))

-----------------------------------------------------------------------------
(* shape predicates *)
IsScalar(x, prim) == x.k = "num" /\ x.name = prim
IsHueNode(x, prim) == IsScalar(x, prim) \/ (x.k = "newtype" /\ Len(x.items) = 1 /\ IsScalar(x.items[1], prim))
Bits(x) == IF x.k = "num" THEN x.num ELSE x.items[1].num

RECURSIVE Depth(_)
Max2(a, b) == IF a >= b THEN a ELSE b
MaxOver(s) == IF s = {} THEN 0 ELSE CHOOSE m \in s : \A x \in s : x <= m
Depth(t) == IF t.k = "num" THEN 0
            ELSE IF t.k = "newtype" THEN Depth(t.items[1])      \* a newtype is transparent in text formats
            ELSE 1 + MaxOver({Depth(t.items[i]) : i \in DOMAIN t.items})

RECURSIVE WellFormed(_)
WellFormed(t) == /\ (t.len = Len(t.items) \/ (t.k \in {"seq", "map"} /\ t.len = -1))
                 /\ (t.k \in Keyed => Len(t.keys) = Len(t.items))
                 /\ \A i \in DOMAIN t.items : WellFormed(t.items[i])

(* the flattening never nests: every child of the top-level node is a number (or a hue newtype around one) *)
Flat(t, prim) == \A i \in DOMAIN t.items : IsHueNode(t.items[i], prim)
(* no type-level metadata in the output *)
NoMeta(t) == t.k \in Keyed => Range(t.keys) \cap MetaNames = {}
NoDupKeys(t) == \A i, j \in DOMAIN t.keys : i # j => t.keys[i] # t.keys[j]

-----------------------------------------------------------------------------
(* De: the partial inverse.  Results: ok (with components and alpha), err    *)
(* (the input lacks something and nothing may be invented), open (outside   *)
(* the statement: unknown extra fields, surplus elements, duplicate keys,   *)
(* malformed items).                                                        *)
OK(c, a) == [ok |-> "ok", comps |-> c, alpha |-> a]
ERR      == [ok |-> "err", comps |-> <<>>, alpha |-> ""]
OPEN     == [ok |-> "open", comps |-> <<>>, alpha |-> ""]

FieldOK(d, prim, i, x) == IF i = d.hue THEN IsHueNode(x, prim) ELSE IsScalar(x, prim)

(* alpha is required unless the optional-alpha helper is used, in which case a missing alpha is full opacity *)
AlphaOrDefault(present, a, prim, wrap, opt, comps) ==
  IF wrap = "plain" THEN OK(comps, "")
  ELSE IF present THEN OK(comps, a)
  ELSE IF opt THEN OK(comps, FullOpacity[prim])
  ELSE ERR

(* self-describing input: fields in any order *)
DeKeyed(d, prim, wrap, opt, t) ==
  LET K == t.keys
      n == Len(d.fields)
      allowed == Range(d.fields) \cup (IF wrap = "plain" THEN {} ELSE {"alpha"})
      Has(key) == \E i \in DOMAIN K : K[i] = key
      At(key) == t.items[CHOOSE i \in DOMAIN K : K[i] = key]
  IN IF ~NoDupKeys(t) \/ Len(K) # Len(t.items) THEN OPEN
     ELSE IF \E i \in DOMAIN K : K[i] \notin allowed THEN OPEN
     ELSE IF \E i \in 1..n : ~Has(d.fields[i]) THEN ERR
     ELSE IF \E i \in 1..n : ~FieldOK(d, prim, i, At(d.fields[i])) THEN OPEN
     ELSE IF Has("alpha") /\ ~IsScalar(At("alpha"), prim) THEN OPEN
     ELSE AlphaOrDefault(Has("alpha"), IF Has("alpha") THEN At("alpha").num ELSE "", prim, wrap, opt,
                         [i \in 1..n |-> Bits(At(d.fields[i]))])

(* sequence input: declared order, alpha last *)
DeSeq(d, prim, wrap, opt, t) ==
  LET n == Len(d.fields)
      m == Len(t.items)
      want == IF wrap = "plain" THEN n ELSE n + 1
  IN IF m < n THEN ERR
     ELSE IF m > want THEN OPEN
     ELSE IF \E i \in 1..n : ~FieldOK(d, prim, i, t.items[i]) THEN OPEN
     ELSE IF m = n + 1 /\ ~IsScalar(t.items[m], prim) THEN OPEN
     ELSE AlphaOrDefault(m = n + 1, IF m = n + 1 THEN t.items[m].num ELSE "", prim, wrap, opt,
                         [i \in 1..n |-> Bits(t.items[i])])

De(ty, prim, wrap, opt, t) ==
  IF t.k \in Keyed THEN DeKeyed(TypeTable[ty], prim, wrap, opt, t)
  ELSE IF t.k \in Positional THEN DeSeq(TypeTable[ty], prim, wrap, opt, t)
  ELSE OPEN

-----------------------------------------------------------------------------
(* Helpers.  as_array: the sequence of the cast array, which is the declared *)
(* fields in order, then alpha (C04's order); a hue is its raw number.       *)
CastArray(v) == IF v.wrap = "plain" THEN v.comps ELSE Append(v.comps, v.alpha)
AsArray(v, kind) == Node(kind, "", "", [i \in 1..Len(CastArray(v)) |-> Num(v.prim, CastArray(v)[i])], <<>>, Len(CastArray(v)))

(* as_uint: the packed integer, most significant byte first in channel order (C12's packing);
   bit patterns are fixed-width hex strings, so packing is concatenation *)
ChannelOrder == [Rgba |-> <<"r", "g", "b", "a">>, Argb |-> <<"a", "r", "g", "b">>,
                 Bgra |-> <<"b", "g", "r", "a">>, Abgr |-> <<"a", "b", "g", "r">>,
                 La |-> <<"l", "a">>, Al |-> <<"a", "l">>, L |-> <<"l">>]
RECURSIVE Concat(_)
Concat(s) == IF s = <<>> THEN "" ELSE Head(s) \o Concat(Tail(s))
Packed(order, ch) == Concat([i \in 1..Len(ChannelOrder[order]) |-> ch[ChannelOrder[order][i]]])
AsUint(uprim, order, ch) == Num(uprim, Packed(order, ch))

-----------------------------------------------------------------------------
VARIABLES val, tree, res
vars == <<val, tree, res>>

NoVal == [ty |-> "", prim |-> "", wrap |-> "", comps |-> <<>>, alpha |-> ""]
Init == val = NoVal /\ tree = Unit /\ res = OPEN

(* Serialize::serialize of a colour, Alpha<colour> or PreAlpha<colour> *)
SerializeValue(v, hf, hname) == val' = v /\ tree' = Ser(v, hf, hname) /\ UNCHANGED res
(* Deserialize::deserialize / deserialize_with_optional_alpha / ..._pre_alpha of the tree t *)
DeserializeValue(ty, prim, wrap, opt, t) == tree' = t /\ res' = De(ty, prim, wrap, opt, t) /\ UNCHANGED val
(* palette::serde::serialize_as_array / serialize_as_uint *)
SerializeAsArray(v, kind) == val' = v /\ tree' = AsArray(v, kind) /\ UNCHANGED res
SerializeAsUint(uprim, order, ch) == tree' = AsUint(uprim, order, ch) /\ UNCHANGED <<val, res>>

(* what a round trip has to give back *)
Same(v) == OK(v.comps, v.alpha)
=============================================================================
