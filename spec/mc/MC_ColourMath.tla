--------------------------- MODULE MC_ColourMath ---------------------------
(* The reference of C02 checked against itself before any code is consulted:   *)
(* derived matrices hit the white point and invert, the two branches of f(t)     *)
(* meet at the join, each relation accepts known exact points of the publication  *)
(* and rejects perturbed ones (so that no relation is vacuous).  One state per     *)
(* case.                                                                       *)
EXTENDS ColourMath, TLC

VARIABLE case
K == Consts
I3 == <<FxOne, FxZero, FxZero, FxZero, FxOne, FxZero, FxZero, FxZero, FxOne>>
NearMat(a, b, bits) == \A i \in 1..9 : FxNear(a[i], b[i], bits, 200)
V3(a, b, c) == <<a, b, c>>
Ones == V3(FxOne, FxOne, FxOne)
Pert(x) == FxAdd(x, FxEps(30))                    \* a perturbation of 1e-9
Good == 80                                        \* bits an exact point must reach
Bad == 36                                         \* bits a 2^-30 perturbation must stay below

Cases == <<
  (* 1 *) FxNear(FxMatVec(K.rgb2xyz, Ones)[1], WhiteD65[1], 90, 200) /\ FxNear(FxMatVec(K.rgb2xyz, Ones)[3], WhiteD65[3], 90, 200),
  (* 2 *) NearMat(MatMul3(K.rgb2xyz, K.xyz2rgb), I3, 90),
  (* 3 *) NearMat(MatMul3(OkM2, K.okm2inv), I3, 90),
  (* 4: published sRGB matrix entry 0.4124564 (IEC 61966-2-1 / Lindbloom) within 7 digits of the derived one *)
          FxNear(K.rgb2xyz[1], FxDec(1, 0, <<4124, 5640>>), 22, 200) /\ FxNear(K.rgb2xyz[5], FxDec(1, 0, <<7151, 5220>>), 22, 200),
  (* 5: the branches of f meet at the join: (6/29)^3 -> 6/29 *)
          LabF(LabEps, FxRat(6, 29)) >= Good,
  (* 6: white -> L*a*b* (100, 0, 0) and L*u*v* (100, 0, 0) *)
          LabBits(WhiteD65, V3(FxInt(100), FxZero, FxZero)) >= Good /\ LuvBits(WhiteD65, V3(FxInt(100), FxZero, FxZero)) >= Good,
  (* 7: ... and a perturbed a* is rejected *)
          LabBits(WhiteD65, V3(FxInt(100), FxEps(20), FxZero)) < Bad,
  (* 8: Y = 0.5: L* = 116 cbrt(0.5) - 16 = 76.06926101415557 *)
          LabBits(V3(FxMul(FxRat(1, 2), WhiteD65[1]), FxRat(1, 2), FxMul(FxRat(1, 2), WhiteD65[3])), V3(FxDec(1, 76, <<692, 6101, 4155, 7000>>), FxZero, FxZero)) >= 44,
  (* 9: the linear toe: Y = 0.001 -> L* = 903.2962962... * 0.001 = 0.9032962962962963 *)
          LabBits(V3(FxMul(FxRat(1, 1000), WhiteD65[1]), FxRat(1, 1000), FxMul(FxRat(1, 1000), WhiteD65[3])), V3(FxDiv(FxRat(24389, 27000), FxOne), FxZero, FxZero)) >= Good,
  (* 10: xyY of the white point: x = 0.31272..., accepted exactly by construction *)
          YxyBits(WhiteD65, V3(FxDiv(WhiteD65[1], FxAdd(WhiteD65[1], FxAdd(FxOne, WhiteD65[3]))), FxDiv(FxOne, FxAdd(WhiteD65[1], FxAdd(FxOne, WhiteD65[3]))), FxOne)) >= Good,
  (* 11: polar form of (50, 3, 4): C = 5, and a rotated hue is rejected *)
          LET h == FxDec(1, 53, <<1301, 235, 4155, 9800>>) IN PolarBits(V3(FxInt(50), FxInt(3), FxInt(4)), V3(FxInt(50), FxInt(5), h)) >= 44
                                                     /\ PolarBits(V3(FxInt(50), FxInt(3), FxInt(4)), V3(FxInt(50), FxInt(5), FxAdd(h, FxRat(1, 1000)))) < Bad,
  (* 12: hexcone: pure red, yellow, a tie, a grey *)
          HsvBits(V3(FxOne, FxZero, FxZero), V3(FxZero, FxOne, FxOne)) >= Good /\ HsvBits(V3(FxOne, FxOne, FxZero), V3(FxInt(60), FxOne, FxOne)) >= Good
          /\ HsvBits(V3(FxRat(1, 2), FxRat(1, 2), FxRat(1, 2)), V3(FxInt(123), FxZero, FxRat(1, 2))) >= Good,
  (* 13: (0.25, 0.5, 0.75): H = 210, S_v = 2/3, V = 3/4; S_l = 1/2, L = 1/2; W = 1/4, B = 1/4 *)
          HsvBits(V3(FxRat(1, 4), FxRat(1, 2), FxRat(3, 4)), V3(FxInt(210), FxRat(2, 3), FxRat(3, 4))) >= Good
          /\ HslBits(V3(FxRat(1, 4), FxRat(1, 2), FxRat(3, 4)), V3(FxInt(210), FxRat(1, 2), FxRat(1, 2))) >= Good
          /\ HwbFromHsvBits(V3(FxInt(210), FxRat(2, 3), FxRat(3, 4)), V3(FxInt(210), FxRat(1, 4), FxRat(1, 4))) >= Good
          /\ HsvHslBits(V3(FxInt(210), FxRat(2, 3), FxRat(3, 4)), V3(FxInt(210), FxRat(1, 2), FxRat(1, 2))) >= Good,
  (* 14: ... hue one sector off, saturation or value off: rejected *)
          HsvBits(V3(FxRat(1, 4), FxRat(1, 2), FxRat(3, 4)), V3(FxInt(270), FxRat(2, 3), FxRat(3, 4))) < Bad
          /\ HsvBits(V3(FxRat(1, 4), FxRat(1, 2), FxRat(3, 4)), V3(FxInt(210), Pert(FxRat(2, 3)), FxRat(3, 4))) < Bad
          /\ HslBits(V3(FxRat(1, 4), FxRat(1, 2), FxRat(3, 4)), V3(FxInt(210), FxRat(1, 2), Pert(FxRat(1, 2)))) < Bad,
  (* 15: Oklab of the D65 white through Ottosson's M1 is (1, 0, 0) to his published precision *)
          OklabFromXyzBits(K, WhiteD65, V3(FxOne, FxZero, FxZero)) >= 13,
  (* 16: the direct linear-sRGB matrix maps white to (1, 0, 0) *)
          OklabFromRgbBits(K, Ones, V3(FxOne, FxZero, FxZero)) >= 22,
  (* 17: luma *)
          XyzFromLumaBits(<<FxRat(1, 2)>>, V3(FxMul(FxRat(1, 2), WhiteD65[1]), FxRat(1, 2), FxMul(FxRat(1, 2), WhiteD65[3]))) >= Good
>>

Init == case \in DOMAIN Cases
Next == UNCHANGED case
Spec == Init /\ [][Next]_case
Holds == Cases[case] \/ (PrintT(<<"case fails", case>>) /\ FALSE)
=============================================================================
