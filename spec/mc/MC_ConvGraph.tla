---------------------------- MODULE MC_ConvGraph ----------------------------
(* Every ordered pair of colour types of the XYZ group has a terminating route  *)
(* made of hand-written edges; every hand-written edge is used; each state is    *)
(* one ordered pair, emitted with its route.                                    *)
EXTENDS ConvGraph, TLC, Json

VARIABLES x, c
Init == x \in Names /\ c \in Names
Next == UNCHANGED <<x, c>>
Spec == Init /\ [][Next]_<<x, c>>

Terminates == Routable(x, c)
OnlyManualEdges == \A h \in DOMAIN RouteOf(x, c) : RouteOf(x, c)[h][2] \in Skip[RouteOf(x, c)[h][1]]
Chains == LET r == RouteOf(x, c)
          IN r[1][2] = c /\ r[Len(r)][1] = x /\ \A h \in 2..Len(r) : r[h][2] = r[h - 1][1]
Short == Len(RouteOf(x, c)) <= 6
Emit == PrintT(<<"REPLAY", ToJson(<<x, c, RouteOf(x, c)>>)>>)
=============================================================================
