------------------------------- MODULE Palette -------------------------------
(***************************************************************************)
(* The abstract machine of Ogeon/palette, composed from the subsystem        *)
(* specifications, and the index of the twenty properties of                 *)
(* properties.jsonl: which module and which named definition decides each.   *)
(*                                                                         *)
(* palette is a sequential library.  Its state lives in a handful of         *)
(* objects a client holds - struct-of-arrays collections (Soa), buffers       *)
(* under conversion guards (InPlace), buffers being cast (Cast) - and        *)
(* everything else is a relation between the exact inputs and outputs of     *)
(* one call (the modules without variables below, which the trace            *)
(* specifications evaluate on recorded calls).  The machine is the           *)
(* interleaving of the three stateful subsystems; they share nothing, so     *)
(* every step changes the variables of exactly one of them.                  *)
(*                                                                         *)
(* This module is parsed by SANY (tools/sany_all.sh); it is not itself model  *)
(* checked - each subsystem has its own exhaustive configuration under mc/    *)
(* and its own trace specification under trace/.                             *)
(***************************************************************************)
EXTENDS Integers, Sequences

CONSTANT NT                                   \* number of layout-compatible colour types of InPlace

VARIABLES vec, fresh, sret,                   \* Soa: collection contents, next token, last reply
          base, cells, guards, forgotten,     \* InPlace: buffer type, cell terms, guard stack, history flag
          fam, buf, orig, maps, cret          \* Cast: family, buffer, original buffer, map count, last outcome

S == INSTANCE Soa WITH ret <- sret
G == INSTANCE InPlace
C == INSTANCE Cast WITH ret <- cret

svars == <<vec, fresh, sret>>
gvars == <<base, cells, guards, forgotten>>
cvars == <<fam, buf, orig, maps, cret>>

Init == /\ S!Init
        /\ \E n \in 0..3, t0 \in 0..(NT - 1) : G!InitWith(n, t0)
        /\ \E f \in {"arr", "uint"}, n \in 1..4, form \in C!Single \cup C!Multi, unit \in C!Units, len \in 0..8, cap \in 0..10 :
              C!InitWith(f, n, form, unit, len, cap)

(* one public operation of a struct-of-arrays collection *)
SoaStep ==
  \/ S!Push \/ S!Pop \/ S!Clear \/ S!Iter \/ S!IterRev \/ S!IterMutWrite \/ S!IntoIter \/ S!LenOp
  \/ \E n \in 0..4 : S!Extend(n) \/ S!Collect(n) \/ S!WithCapacity(n) \/ S!IterMixed(n)
  \/ \E a, b \in 0..(Len(vec) + 1), nf, nb \in 0..3 : S!Drain(a, b, nf, nb)
  \/ \E i \in 0..Len(vec) : S!Get(i) \/ S!GetMutWrite(i)
  \/ \E a, b \in 0..(Len(vec) + 1) : S!GetRange(a, b) \/ S!GetMutRangeWrite(a, b)

(* one operation on a buffer under in-place conversion *)
GuardStep ==
  \/ \E t \in 0..(NT - 1), cl \in {0, 1} : G!NewGuard(t, cl) \/ G!ThenInto(t, cl) \/ G!OwnedConv(t, cl)
  \/ G!Flip \/ G!Restore \/ G!DropGuard \/ G!Forget
  \/ \E i \in DOMAIN cells : G!Write(i, 1)

(* one cast of a buffer *)
CastStep ==
  \/ \E api \in 0..4, m \in {0, 1} :
        \/ C!IntoArray(api, m) \/ C!FromArray(api, m) \/ C!IntoComponent(api, m)
        \/ C!TryFromComponent(api, m) \/ C!FromComponent(api, m) \/ C!IntoUint(api, m) \/ C!FromUint(api, m)
  \/ C!MapInPlace \/ C!RefAsSlice \/ C!TrySliceAsRef

Next == \/ SoaStep /\ UNCHANGED <<gvars, cvars>>
        \/ GuardStep /\ UNCHANGED <<svars, cvars>>
        \/ CastStep /\ UNCHANGED <<svars, gvars>>

Spec == Init /\ [][Next]_<<svars, gvars, cvars>>

-----------------------------------------------------------------------------
(* The relational subsystems (no state of their own). *)
Gr  == INSTANCE ConvGraph       \* C01: conversion graph and derive routing
Eq  == INSTANCE ColourEq        \* C01, C15, C17: when two tuples are the same colour
Cm  == INSTANCE ColourMath      \* C02: published definitions as relations
Bd  == INSTANCE Bounds          \* C03: the bounds contract
Tr  == INSTANCE Transfer        \* C05: transfer curves as relations
St  == INSTANCE Stimulus WITH last <- sret       \* C06 (its `last` tag is irrelevant here)
Bl  == INSTANCE Blend WITH last <- sret          \* C08
Df  == INSTANCE Diff            \* C09
Hu  == INSTANCE Hue WITH last <- sret            \* C11
Ce  == INSTANCE Equality WITH last <- sret, lastc <- sret   \* comparing colours: ==, !=, abs_diff, relative, ulps (hue clause of == is C11)
Hx  == INSTANCE Hex             \* C12
Pk  == INSTANCE Packed          \* C12
Nm  == INSTANCE Named           \* C12
Ad  == INSTANCE Adapt           \* C14
Hc  == INSTANCE Hexcone WITH D <- 8               \* C15 (exact hexcone model)
Ca  == INSTANCE Cam16           \* C16
Cr  == INSTANCE Cam16Ref        \* C16: the published forward model (viewing conditions -> attributes), real powers by series
Ok  == INSTANCE OkColour        \* C02: Ottosson's Okhsv / Okhsl procedures, transcribed
Hs  == INSTANCE HsluvRef        \* C02: the HSLuv reference (gamut lines, maximum chroma), transcribed
Sd  == INSTANCE Simd            \* C17
Rn  == INSTANCE Random WITH last <- sret         \* C19

-----------------------------------------------------------------------------
(* The properties.  Each definition names what decides the property; the     *)
(* configurations that check it are listed in DESIGN.md section 11.2.        *)

(* C18: the collection machine IS a vector; its invariants hold in every state, and every recorded call
   is a step of it with the same reply and projected contents (trace/TraceSoa.tla) *)
C18 == S!TypeOK /\ S!Distinct /\ S!Known
(* C13: typing invariants of the guard stack; in-place arrays equal the term evaluated out of place (TraceInPlace) *)
C13 == G!WellTyped /\ G!StackChain /\ G!TermChain /\ G!ClosedWalk
(* C04: conservation, identity, round trip and exact rejection for every chain of casts (TraceCast) *)
C04 == C!CastInv
(* C01: every ordered pair routes through hand-written edges; the abstract colour is invariant (TraceWalk) *)
C01(x, c) == Gr!Routable(x, c)
(* C02: bits of agreement of a recorded conversion with the published definition (TraceMath) *)
C02Lab(xyz, lab) == Cm!LabBits(xyz, lab)
(* C02, procedures: a cylinder colour and an Oklab colour agree with the published procedure under either seed selection *)
C02Okhsv(hsv, lab) == Ok!OkhsvBits(hsv, lab)
C02Okhsl(hsl, lab) == Ok!OkhslBits(hsl, lab)
C02Hsluv(lchuv, hsluv) == Hs!HsluvBits(lchuv, hsluv)
(* C16, forward model: bits of agreement of the six attributes of a recorded Cam16::from_xyz with the published equations *)
C16Forward(e) == Cr!RefMin(Cr!RefBits(e))
(* C03: admissible answers of is_within_bounds and clamp (TraceBounds) *)
C03(node, t, c, lo, hi, sb, flag, out) == Bd!WithinFlagOk(node, t, c, lo, hi, sb, flag) /\ Bd!ClampOk(node, t, c, lo, hi, sb, out)
(* C15: in-bounds hexcone colours map into the unit cube (MC_Hexcone); Ok* and HSLuv by TraceGamut *)
C15Hsv(sec, fn, s, v) == Hc!InUnit3(Hc!HsvToRgb3(sec, fn, s, v))
=============================================================================
