"""C20 - serialized colours deserialize to the same colour in a stable shape.
Spec: spec/Serde.tla (the serde data model as a tree type, Ser from the type table, the alpha flattening rule per
tree shape, De as the partial inverse, the as_array / as_uint helpers). TLC enumerates every deserializer case
(MC_Serde: field permutations, map / sequence / tuple forms, missing alpha, missing field, wrong arity, unknown
field, with and without the optional-alpha helper), checks the model-level invariants and emits the trees; the
harness (serdeh) replays them into palette's Deserialize impls through a recording deserializer, serde_json, ron and
a compact token stream, and sweeps every serializable colour type x plain/Alpha/PreAlpha x f32/f64/u8/u16 through a
recording serializer and the real formats; TraceSerde.tla validates every recorded observation."""
import json, os
from common import *

QUICK_TYPES = ["Luma", "Rgb", "Hsv", "Lch", "M2", "M4h"]
ALL_TYPES = ["Rgb", "Luma", "Hsl", "Hsv", "Hwb", "Hsluv", "Lab", "Lch", "Luv", "Lchuv", "Xyz", "Yxy", "Oklab", "Oklch", "Okhsl",
             "Okhsv", "Okhwb", "Lms", "Cam16UcsJab", "Cam16UcsJmh", "M2", "M4", "M4h"]
LABELS = {"exact", "permuted", "map", "positional", "missing_alpha", "missing_field", "short", "extra_field", "too_long"}
EXPLAIN = {
    "serialize-failed": "serialization failed or panicked",
    "declared-fields": "the struct's declared component / metadata fields are not those of the specification's type table",
    "metadata-in-output": "type-level metadata (standard / white_point / meta) is part of the output",
    "nested": "the output is not one flat level of numbers (a hue must be a bare number or a newtype around one; alpha must sit beside the colour's fields)",
    "announced-length": "the length announced to the serializer is not the number of fields / elements written",
    "colour-tree": "the colour's own tree is not Ser of the type table (declared fields in order, nothing else)",
    "alpha-not-flattened": "the tree of the colour with alpha is not the colour's own tree plus one more field `alpha` / one more last element at the same level",
    "tree": "the written data-model tree is not the one the specification prescribes",
    "roundtrip": "deserializing what was serialized does not give the value the specification prescribes (equal colour; missing alpha -> error, or full opacity through the helper)",
    "json-text": "the JSON text's top-level key set is not the declared fields (+ alpha), or it is nested, or the hue is not a bare number",
    "json-array-text": "the as_array JSON text is not a flat array of numbers",
    "outcome": "deserializing the tree ended differently (ok / error / panic) from the specification",
    "value": "deserializing the tree gave other components / alpha than the specification",
    "cast-order": "the array the cast function gives is not the declared fields in order followed by alpha",
    "packing": "the unsigned integer the cast function gives is not the channels packed in the stated order",
    "unknown-type": "the harness drove a type the specification's type table does not know",
    "unknown-event": "unknown event kind",
}


def sfmt(types):
    return "{" + ", ".join('"%s"' % t for t in types) + "}"


def cases(ctx, types, prims, tag):
    r = tlc_mc(ctx, "MC_Serde", constants={"Types": sfmt(types), "PrimSet": sfmt(prims)}, tag=tag, workers=6)
    cs = extract_prints(r.out_path, "REPLAY")
    zero = coverage_zero_actions(r.out_path, {"Serde", "MC_Serde"})
    if zero:
        raise ToolError("vacuity: actions never taken in %s: %s" % (tag, zero))
    seen = {json.loads(c)["label"] for c in cs}
    if seen != LABELS:
        raise ToolError("vacuity: deserializer case kinds never emitted in %s: %s" % (tag, sorted(LABELS - seen)))
    return cs


def describe(ev, why):
    k = ev.get("ev")
    head = EXPLAIN.get(why, why or "rejected")
    if k == "ser":
        return "%s<%s> %s, components %s alpha %s: %s; tree written: %s" % (
            ev["ty"], ev["prim"], ev["wrap"], ev["in"], ev["ina"] or "-", head, json.dumps(ev["tree"])[:600])
    if k == "rt":
        return "%s<%s> serialized as %s, read as %s%s through %s: in %s/%s -> %s %s/%s (ulp %s, json keys %s depth %s hue-is-number %s) %s: %s" % (
            ev["ty"], ev["prim"], ev["sw"], ev["dw"], " with the optional-alpha helper" if ev["opt"] else "", ev["fmt"], ev["in"],
            ev["ina"] or "-", ev["ok"], ev["out"], ev["outa"] or "-", ev["ulp"], ev["keys"], ev["depth"], ev["huenum"],
            (ev["text"] or ev["msg"])[:200], head)
    if k == "de":
        return "%s<%s> %s%s from the TLC case '%s' through %s: %s %s/%s (%s): %s; tree %s" % (
            ev["ty"], ev["prim"], ev["wrap"], " with the optional-alpha helper" if ev["opt"] else "", ev["label"], ev["fmt"], ev["ok"],
            ev["out"], ev["outa"] or "-", ev["msg"][:120], head, json.dumps(ev["tree"])[:500])
    if k in ("flat", "flatrt"):
        return "Alpha around a %s-shaped value%s: %s; tree %s" % (ev["shape"], " through " + ev["fmt"] if "fmt" in ev else "", head,
                                                                 json.dumps(ev["tree"])[:500])
    if k == "arr":
        return "as_array of %s<%s> %s: cast array %s, tree %s: %s" % (ev["ty"], ev["prim"], ev["wrap"], ev["cast"], json.dumps(ev["tree"])[:400], head)
    if k == "uint":
        return "as_uint, channel order %s, channels %s: cast gives %s, tree %s, back through %s: %s %s %s: %s" % (
            ev["order"], ev["ch"], ev["cast"], json.dumps(ev["tree"])[:200], ev["fmt"], ev["ok"], ev["back"], ev["ch2"], head)
    return "%s: %s" % (head, json.dumps(ev)[:400])


def judge(ctx, tp, tag, how, per_key):
    res = validate_trace(ctx, "TraceSerde", tp, stateless=True, tag=tag, chunk_events=20000 if ctx.quick else 40000)
    ctx.cov["traces_validated_against_impl"] += res.events - len(res.rejected)
    for (line, ev, info, scen) in res.rejected:
        why = info.strip().strip('"')
        coords = {"kind": ev.get("ev"), "reason": why, "ty": ev.get("ty", ev.get("shape", ev.get("order", ""))),
                  "prim": ev.get("prim", ev.get("uprim", "")), "wrap": ev.get("wrap", ev.get("dw", "")), "fmt": ev.get("fmt", "")}
        key = (coords["kind"], why, coords["ty"], coords["wrap"], coords["fmt"])
        per_key[key] = per_key.get(key, 0) + 1
        if per_key[key] > 2:       # at most two replay files per kind of disagreement; all are counted
            ctx.cov["suppressed_duplicates"] = ctx.cov.get("suppressed_duplicates", 0) + 1
            continue
        rp = dict(how, bin="serdeh", rejected_event=ev, trace_line=line, reason=why, how="./check C20 --replay <this file>")
        report(ctx, coords, describe(ev, why), rp)
    return res


def compact_observations(paths):
    """Outcomes that the specification leaves open (documented in TraceSerde.tla): Alpha/PreAlpha around a keyed colour
    through the compact (bincode-like) stream."""
    n, bad, sample = 0, 0, None
    for p in paths:
        with open(p) as f:
            for line in f:
                if '"fmt":"compact"' not in line:
                    continue
                e = json.loads(line)
                w = e.get("dw", e.get("wrap", "plain"))
                if e["ev"] in ("rt", "de") and w != "plain" and (e["ev"] == "de" or e["sw"] == e["dw"]):
                    if e["ev"] == "de" and e["label"] != "positional":
                        continue
                    n += 1
                    if e["ok"] != "ok":
                        bad += 1
                        sample = sample or {k: e[k] for k in ("ev", "ty", "prim", "ok", "msg") if k in e}
    return {"alpha_struct_roundtrips_attempted": n, "failed": bad, "sample": sample}


def build():
    # the driver instantiates ~120 concrete colour types x 4 serializers/deserializers; it is front-end and LLVM bound
    # (83 s at the harness' opt-level 2, 16 s at 0) and runs for seconds, so it is built unoptimised
    os.environ.setdefault("CARGO_PROFILE_RELEASE_OPT_LEVEL", "0")
    return cargo_build(["serdeh"])["serdeh"]


def run(ctx):
    exe = build()
    if ctx.quick:
        cs = cases(ctx, QUICK_TYPES, ["f32"], "serde_cases")
        n = 16
    else:
        cs = cases(ctx, ALL_TYPES, ["f32", "f64", "u8"], "serde_cases")
        n = 1000
    hp = ctx.p("cases.hist")
    with open(hp, "w") as f:
        f.write("\n".join(cs) + "\n")
    per_key = {}
    sp = ctx.p("sweep.ndjson")
    run_bin(exe, ["--sweep", "--n", n, "--out", sp])
    judge(ctx, sp, "sweep", {"mode": "sweep", "n": n}, per_key)
    add_samples(ctx, sp, n=3, every=20011)
    dp = ctx.p("de.ndjson")
    run_bin(exe, ["--hist", hp, "--out", dp])
    judge(ctx, dp, "de", {"mode": "hist"}, per_key)
    add_samples(ctx, dp, n=1, every=1009)

    def key(e):
        return json.dumps([e.get(k) for k in ("ev", "fmt", "ty", "shape", "order", "prim", "wrap", "sw", "dw", "opt", "label", "in", "ina",
                                              "ch", "alpha")] + ([e["tree"]] if e["ev"] in ("de", "flat") else []))

    def nontrivial(e):
        return (e.get("wrap", e.get("dw", "plain")) != "plain" or e["ev"] in ("flat", "flatrt", "arr", "uint")
                or e.get("label", "exact") != "exact" or (e.get("ty") in HUE_TYPES))
    ctx.cov["distinct_nontrivial"] = count_distinct(dp, key, nontrivial) + count_distinct(sp, key, nontrivial)
    comp = compact_observations([dp, sp])
    ctx.assumptions.append("left open by the specification (TraceSerde.tla, CompactKeyedAlphaRequired): Alpha/PreAlpha around a struct "
                           "colour read back from a compact non-self-describing stream - %d of %d such round trips failed this run"
                           % (comp["failed"], comp["alpha_struct_roundtrips_attempted"]))
    return finish(ctx, "model_checking",
                  rule="an evaluation is one recorded observation (a tree written, a round trip through one format, one TLC-emitted "
                       "tree deserialized through one format, one helper call); distinct by kind, type, component type, wrapper(s), "
                       "format, helper flag and exact input bits / input tree; non-trivial when an alpha wrapper, a hue, a helper, "
                       "a generic tree shape or a case other than the unmodified tree is involved",
                  explanation="TLC checks the model-level invariants of Serde.tla (De(Ser(v)) = v for every shape and field permutation, "
                              "missing alpha, flattening never nests, no metadata) exhaustively over the configured types and emits every "
                              "deserializer case; the harness replays them into palette and sweeps all serializable colour types through "
                              "a recording serializer/deserializer, serde_json and ron; TLC (TraceSerde.tla) validates every event: tree "
                              "= Ser of the type table, alpha flattened, JSON key set / depth / bare hue, bit-identical round trips "
                              "(serde_json+f64: within JsonF64Ulps), helpers equal to the cast functions.",
                  trusted=["the harness' recording Serializer/Deserializer and compact stream (serdeh.rs) as faithful serde formats",
                           "serde, serde_json, ron as the meaning of 'the format'", "the harness' ulp distance of two bit patterns",
                           "struct literals in the harness as the witness of the declared field names", "TLC, JVM, rustc"],
                  extra={"tlc_cases_replayed": len(cs), "values_per_type": n, "compact_stream_observations": comp})


HUE_TYPES = {"Hsl", "Hsv", "Hwb", "Hsluv", "Lch", "Lchuv", "Oklch", "Okhsl", "Okhsv", "Okhwb", "Cam16UcsJmh", "M4h"}


def same_event(a, b):
    ks = ("ev", "fmt", "ty", "shape", "order", "prim", "wrap", "sw", "dw", "opt", "label", "in", "ina", "ch", "alpha")
    return all(a.get(k) == b.get(k) for k in ks) and (a.get("ev") != "de" or a.get("tree") == b.get("tree"))


def replay(ctx, path):
    doc = json.load(open(path))
    rp = doc["replay"]
    ev = rp["rejected_event"]
    exe = build()
    tp = ctx.p("replay.ndjson")
    env = {"VERIF_SEED": doc.get("seed", ctx.seed)}
    if rp.get("mode") == "hist":
        hp = ctx.p("replay.hist")
        case = {"ty": ev["ty"], "prim": ev["prim"], "wrap": ev["wrap"], "opt": bool(ev["opt"]), "label": ev["label"], "tree": ev["tree"]}
        open(hp, "w").write(json.dumps(case) + "\n")
        run_bin(exe, ["--hist", hp, "--out", tp], env=env)
    else:
        args = ["--sweep", "--n", rp.get("n", 16), "--out", tp]
        if ev["ev"] in ("ser", "rt") and not ev.get("fmt", "").endswith("_arr"):
            args += ["--types", ev["ty"]]
        run_bin(exe, args, env=env)
    res = validate_trace(ctx, "TraceSerde", tp, stateless=True, tag="replay")
    still = [(l, e, i) for (l, e, i, s) in res.rejected if same_event(e, ev)]
    if still:
        print("VIOLATION property=C20 replay=%s" % path)
        print("  still rejected (%s): %s" % (still[0][2], describe(still[0][1], still[0][2].strip().strip('"'))[:600]))
        return 1
    found = False
    with open(tp) as f:
        for line in f:
            if same_event(json.loads(line), ev):
                found = True
                break
    if not found:
        raise ToolError("the replayed run did not reproduce the recorded input (different seed or n?)")
    print("replay accepted: the observation is now a step of the specification")
    return 0
