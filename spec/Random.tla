------------------------------- MODULE Random -------------------------------
(***************************************************************************)
(* C19 - random colour sampling respects the requested range and volume.   *)
(*                                                                         *)
(* One event:  sample(dist, type, low?, high?, variates, out)              *)
(*   dist      "standard" (rng.gen()) or "uniform" (Uniform::new /         *)
(*             new_inclusive between two colours `low` and `high`)         *)
(*   variates  the raw uniform numbers in [0, 1) the sampler consumed from *)
(*             its generator (exact dyadics), in the order drawn           *)
(*   out       the sampled colour, components in declared order, alpha     *)
(*             last when present; every number is the EXACT dyadic the     *)
(*             float denotes (Fx.tla)                                      *)
(*                                                                         *)
(* CONTAINMENT.  A standard sample lies within the documented bounds of    *)
(* its space (Types!DocBounds).  A uniform sample has every non-hue        *)
(* component between the corresponding components of the two ends and its  *)
(* hue on the arc from the low hue to the high hue:                        *)
(*     (h - low) mod 360  <=  high - low          (exact arithmetic)       *)
(* for low <= high (rand's own precondition).  The HWB forms are judged on *)
(* their HSV image  v = 1 - b,  s = 1 - w / v.                             *)
(*                                                                         *)
(* VOLUME.  The cone and bicone shaped spaces are sampled uniformly with   *)
(* respect to the volume of the solid.  Stated deterministically: the      *)
(* sampler is the inverse of the cumulative distribution functions of the  *)
(* volume measure, applied to independent uniform variates.  The solid has *)
(* a height coordinate x in [0,1] (value / lightness) at which its cross   *)
(* section is a disc of radius R(x) (Radius below: the geometry, nothing   *)
(* else is assumed); a point of the disc is (relative radius s = the       *)
(* saturation, angle h = the hue), i.e. it has chroma s R(x).  The volume  *)
(* element is therefore  s R(x)^2 ds dx dh : the three coordinates are     *)
(* independent with                                                        *)
(*     P(height <= x) = HeightCdf(x) = int_0^x R^2 / int_0^1 R^2           *)
(*     P(sat <= s)    = SatCdf(s)    = s^2                                 *)
(*     P(hue <= h)    = h / 360                                            *)
(* (MC_Random checks HeightCdf against the integral of R^2 cell by cell).  *)
(* For a uniform sampler between two ends the same on the interval between *)
(* the ends' CDF values.  The relation                                     *)
(*     Cdf(coordinate) ~ Cdf(lo) + r (Cdf(hi) - Cdf(lo))                   *)
(* must hold for SOME assignment of distinct logged variates r to the      *)
(* three coordinates (which variate feeds which coordinate is the one      *)
(* thing not observed).  rand's scalar Standard / Uniform distributions    *)
(* are trusted to be uniform.                                              *)
(*                                                                         *)
(* The statement lists HSV, HSL, HWB and their Ok counterparts for the     *)
(* volume clause: hsv, okhsv (cone), hsl, okhsl (bicone), hwb, okhwb (cone *)
(* through the HSV image).  Every other sampled type - boxes, the          *)
(* cylinders Lch, Lchuv, Oklch, Cam16UcsJmh and HSLuv (whose solid the     *)
(* statement does not name) - gets the containment clauses only.           *)
(*                                                                         *)
(* Where rounding slack is measured.  Components that are stored as drawn  *)
(* (boxes, cylinder heights, alpha) must lie in the closed interval        *)
(* exactly - rand's float sampler guarantees that in floating point.       *)
(* Components that pass through the cone / bicone sampler are compared     *)
(* with the ends in CDF space (the CDFs are monotone, so "between" means   *)
(* the same thing there), because that is where the sampler's roundings    *)
(* happen: one ulp of the CDF value.  Near the top of a bicone this is a   *)
(* large step of the lightness in f32 (at l = 0.998 one ulp of the CDF is  *)
(* 5e-4 of lightness); the model accepts such a sample, and a panic of the *)
(* constructor because two distinct ends collide in CDF space is rejected. *)
(***************************************************************************)
EXTENDS Fx, Sequences

TY == INSTANCE Types
BD == INSTANCE Bounds
HU == INSTANCE Hue WITH last <- <<"none", "f32">>      \* exact arithmetic modulo 360 (Mod360, CircDist)

FloatTypes == {"f32", "f64"}
Prec(t) == IF t = "f32" THEN 24 ELSE 53                \* significand bits of the component type

-----------------------------------------------------------------------------
(* the sampled types *)

(* documented component ranges of the sampled types that Types.tla does not list (field documentation
   of palette::lms::Lms, cam16::Cam16UcsJab, cam16::Cam16UcsJmh): "doesn't have an actual upper bound",
   "ranges from 0.0 to 100.0", a'/b'/colourfulness "unbounded" *)
ExtraBounds ==
  [ lms         |-> << <<<<0, 1>>, <<>>>>, <<<<0, 1>>, <<>>>>, <<<<0, 1>>, <<>>>> >>,
    cam16ucsjab |-> << <<<<0, 1>>, <<100, 1>>>>, <<<<>>, <<>>>>, <<<<>>, <<>>>> >>,
    cam16ucsjmh |-> << <<<<0, 1>>, <<100, 1>>>>, <<<<0, 1>>, <<>>>>, <<<<>>, <<>>>> >> ]

Nodes == TY!NodeNames \cup DOMAIN ExtraBounds
DocB(node) == IF node \in DOMAIN ExtraBounds THEN ExtraBounds[node] ELSE TY!DocBounds[node]
NComp(node) == Len(DocB(node))
HueIdx(node) == IF node = "cam16ucsjmh" THEN 3 ELSE IF node \in DOMAIN ExtraBounds THEN 0 ELSE TY!HueIdx(node)

ConeNodes   == {"hsv", "okhsv"}        \* (hue, saturation, value)
BiconeNodes == {"hsl", "okhsl"}        \* (hue, saturation, lightness)
HwbNodes    == {"hwb", "okhwb"}        \* (hue, whiteness, blackness): the HSV cone in other coordinates
VolumeNodes == ConeNodes \cup BiconeNodes \cup HwbNodes
(* HSLuv (hue, saturation, l in 0..100) is sampled by palette like a bicone.  The statement does not name its solid,
   so it gets no volume clause; but "between the ends" is judged like the bicones', in CDF space (a monotone
   change of coordinates, which only decides where rounding slack is measured: near l = 100 the sampler's
   arithmetic has an absolute error in 1 - CDF, not in l). *)
FramedNodes == VolumeNodes \cup {"hsluv"}
ShapeOf(node) == IF node \in BiconeNodes \cup {"hsluv"} THEN "bicone" ELSE "cone"

(* components that reach the caller through a square and its root (cylinder radius: sqrt of a uniform
   square): between the ends up to rounding, see CoordBits *)
RootedComps == { <<"lch", 2>>, <<"lchuv", 2>>, <<"oklch", 2>>, <<"cam16ucsjmh", 2>> }

-----------------------------------------------------------------------------
(* geometry and the cumulative distribution functions of the volume measure (Fx numbers) *)

(* FxMul with the low zero limbs of both factors stripped before the schoolbook product (a float has at most
   24 / 53 significant bits, most limbs of its 104-bit fixed point form are zero).  Same result as FxMul, bit
   for bit (MC_Random checks it); several times cheaper for TLC. *)
RECURSIVE LowZeros(_, _)
LowZeros(m, i) == IF i > Len(m) \/ m[i] # 0 THEN i - 1 ELSE LowZeros(m, i + 1)
FxMulZ(x, y) ==
  IF x[1] = 0 \/ y[1] = 0 THEN IZero
  ELSE LET kx == LowZeros(x[2], 1)  ky == LowZeros(y[2], 1)
           p == Mul(SubSeq(x[2], kx + 1, Len(x[2])), SubSeq(y[2], ky + 1, Len(y[2])))
       IN IMk(x[1] * y[1], ShiftLimbs(p, kx + ky - FL))
FxSqrZ(x) == FxMulZ(x, x)
FxCubeZ(x) == FxMulZ(x, FxSqrZ(x))

FxHalfC == <<1, <<0, 0, 0, 0, 0, 0, 0, 4096>>>>          \* 1/2 (MC_Random: = FxRat(1, 2))

(* radius of the cross-section at height x: the HSV cone has its apex at value 0 and its base at value 1;
   the HSL bicone has apexes at lightness 0 and 1 and its widest disc at lightness 1/2 *)
Radius(shape, x) == IF shape = "bicone"
                    THEN (IF FxLe(x, FxHalfC) THEN FxShl(x, 1) ELSE FxShl(FxSub(FxOne, x), 1))
                    ELSE x

(* int_0^x R^2 / int_0^1 R^2 :  cone  x^3 ;  bicone  4 x^3  below 1/2,  1 - 4 (1 - x)^3  above *)
HeightCdf(shape, x) == IF shape = "bicone"
                       THEN (IF FxLe(x, FxHalfC) THEN FxShl(FxCubeZ(x), 2)
                             ELSE FxSub(FxOne, FxShl(FxCubeZ(FxSub(FxOne, x)), 2)))
                       ELSE FxCubeZ(x)
SatCdf(s) == FxSqrZ(s)

(* A cone-like colour as its HSV image: height v and saturation as a fraction cn / cd (so that the HWB forms
   need no division: s = 1 - w / v = (v - w) / v).  x: the components as Fx numbers. *)
Img(node, x) == IF node \in HwbNodes
                THEN LET v == FxSub(FxOne, x[3]) IN [v |-> v, cn |-> FxSub(v, x[2]), cd |-> v]
                ELSE IF node = "hsluv" THEN [v |-> FxDivInt(x[3], 100), cn |-> FxDivInt(x[2], 100), cd |-> FxOne]
                ELSE [v |-> x[3], cn |-> x[2], cd |-> FxOne]
(* the whole solid as a pair of ends *)
Bottom == [v |-> FxZero, cn |-> FxZero, cd |-> FxOne]
Top    == [v |-> FxOne,  cn |-> FxOne,  cd |-> FxOne]

-----------------------------------------------------------------------------
(* tolerances *)

(* TOLERANCE RelBits: every relation below is stated in CDF space, where the sampler does its arithmetic:
   Cdf(end) by two or three multiplications (powi), scale = hi - lo, r * scale + lo, then cbrt / sqrt and the
   spec's own exact power of the result: about 3 (cbrt, < 1 ulp) * 3 + 6 half-ulps, all relative to the CDF
   value.  For the upper half of the bicone the sampler works on 1 - r (absolute error one ulp of 1), which a
   relative tolerance of a value in [1/2, 1] covers.  2^-(Prec-6) = 64 u; calibration (evidence:
   max_deviation_over_tolerance) stays below 1/8 of it. *)
RelBits(t) == Prec(t) - 6
Tiny == <<1, <<256>>>>                  \* 2^-96: truncation of the Fx products themselves (MC_Random: = FxEps(96))
Tol(a, b, t, abs) == IAdd(IAdd(FxShr(IMax(IAbs(a), IAbs(b)), RelBits(t)), abs), Tiny)

(* TOLERANCE HwbAbs: the HWB forms store b = 1 - v and w = (1 - s) v, so the image v = 1 - b carries an ABSOLUTE
   error of half an ulp of 1 however small v is, and the chroma v - w one ulp of 1; the ends' images are
   recomputed by the code with the same absolute errors.  v^3: 3 v^2 * (u/2) per end and for the sample,
   < 5 u in total; 2^-(Prec-5) = 32 u (largest seen: 1.6 u). *)
HwbHeightAbs(node, t) == IF node \in HwbNodes THEN FxEps(Prec(t) - 5) ELSE FxZero
(* chroma^2 against v^2 * (...): 2 * chroma * (2 u) <= 4 u v for the sample, plus the ends' saturation
   (s = 1 - w / v: absolute error about 2 u / v_end, ends are driven with v_end >= 1/4, i.e. 8 u): 2^-(Prec-6)
   = 64 u, times the denominators (largest seen: 1.8 u). *)
HwbSatAbs(node, t) == IF node \in HwbNodes THEN FxEps(Prec(t) - 6) ELSE FxZero

(* TOLERANCE HueTol: the sampler normalises the low end into [0, 360) (C11: within a few ulps of 360),
   computes scale = high - low, r * scale + low (values up to 720: ulp 2^(10-Prec)); the standard sampler
   computes r * 360.  16 ulps of the range [512, 1024). *)
HueTol(t) == DyPow2(14 - Prec(t))
D360 == DyFromInt(360)
(* hue relations are stated for ends of moderate magnitude and arcs of at most one turn *)
HueDomain(lo, hi) == /\ DyLe(lo, hi) /\ DyLe(DySub(hi, lo), D360)
                     /\ DyLe(DyAbs(lo), DyFromInt(1024)) /\ DyLe(DyAbs(hi), DyFromInt(1024))

(* TOLERANCE CoordBits: components of RootedComps come back through sqrt(low^2 + r (high^2 - low^2)): a few ulps
   relative to the coordinate.  2^-(Prec-6). *)
CoordBits(t) == Prec(t) - 6

(* TOLERANCE BoundBits: a documented decimal bound B (0.95047, 127, ...) exists in the component type as the
   nearest float, and the standard sampler multiplies a variate below 1 by it: within one ulp of B.
   2^-(Prec-4) |B| = 8 ulps. *)
BoundBits(t) == Prec(t) - 4

-----------------------------------------------------------------------------
(* the volume relations.  Everything that does not depend on the variate is computed once per event, as a
   "frame"; x: the sample's image, lo, hi: the images of the two ends (Bottom, Top for the whole solid) *)

Lerp(a, b, r) == FxAdd(a, FxMulZ(r, FxSub(b, a)))

(* height:      g = Cdf(x.v)                  ~  fl + r (fh - fl)        fl, fh: the ends' CDF values, ordered
   saturation:  s^2 = n / d for the sample, n1 / d1 and n2 / d2 for the ends; multiplied out:
                n d1 d2                       ~  d (sl + r (sh - sl))    sl, sh: n1 d2 and n2 d1, ordered      *)
Frame(node, t, x, lo, hi) ==
  LET shp == ShapeOf(node)
      a == HeightCdf(shp, lo.v)  b == HeightCdf(shp, hi.v)
      n == FxSqrZ(x.cn)   d == FxSqrZ(x.cd)
      n1 == FxSqrZ(lo.cn) d1 == FxSqrZ(lo.cd)
      n2 == FxSqrZ(hi.cn) d2 == FxSqrZ(hi.cd)
      A == FxMulZ(n1, d2)  B == FxMulZ(n2, d1)  dd == FxMulZ(d1, d2)
  IN [ g |-> HeightCdf(shp, x.v), fl |-> FxMin(a, b), fh |-> FxMax(a, b), habs |-> HwbHeightAbs(node, t),
       lhs |-> FxMulZ(n, dd), d |-> d, sl |-> FxMin(A, B), sh |-> FxMax(A, B),
       sabs |-> FxMulZ(HwbSatAbs(node, t), FxMulZ(x.cd, dd)) ]

HeightRel(t, f, r) == LET want == Lerp(f.fl, f.fh, r) IN FxNearAbs(f.g, want, Tol(f.g, want, t, f.habs))
SatRel(t, f, r) == LET rhs == FxMulZ(f.d, Lerp(f.sl, f.sh, r)) IN FxNearAbs(f.lhs, rhs, Tol(f.lhs, rhs, t, f.sabs))

(* between the ends, in CDF space (the maps are monotone): the same frame without a variate.
   Saturation: not below both ends', not above both ends' *)
HeightBetween(t, f) == FxBetween(f.g, f.fl, f.fh, Tol(f.fl, f.fh, t, f.habs))
SatBetween(t, f) == LET lo == FxMulZ(f.d, f.sl)  hi == FxMulZ(f.d, f.sh)
                    IN FxBetween(f.lhs, lo, hi, Tol(lo, hi, t, f.sabs))

(* hue: h, lo, hi, r exact dyadics; h on the circle *)
HueRel(t, h, lo, hi, r) ==
  DyLe(HU!CircDist(DySub(h, DyAdd(lo, DyMul(r, DySub(hi, lo))))), HueTol(t))

(* some assignment of distinct variates to (height, saturation[, hue]); V: the variates as Dy *)
VolumeNoHue(t, f, V) ==
  \E a \in DOMAIN V : /\ HeightRel(t, f, FxOfDy(V[a]))
                      /\ \E b \in DOMAIN V \ {a} : SatRel(t, f, FxOfDy(V[b]))
VolumeAll(t, f, h, hlo, hhi, V) ==
  \E a \in DOMAIN V : /\ HeightRel(t, f, FxOfDy(V[a]))
                      /\ \E b \in DOMAIN V \ {a} : /\ SatRel(t, f, FxOfDy(V[b]))
                                                   /\ \E c \in DOMAIN V \ {a, b} : HueRel(t, h, hlo, hhi, V[c])

-----------------------------------------------------------------------------
(* containment *)

(* standard samples: documented bounds.  b = <<lo, hi>>, each <<num, den>> or <<>> *)
DocSlack(q, t) == FxShr(IAbs(FxRat(q[1], q[2])), BoundBits(t))
InDoc(x, b, t) == /\ (b[1] = <<>> \/ FxLe(FxSub(FxRat(b[1][1], b[1][2]), DocSlack(b[1], t)), x))
                  /\ (b[2] = <<>> \/ FxLe(x, FxAdd(FxRat(b[2][1], b[2][2]), DocSlack(b[2], t))))
(* upper bounds the documentation gives as guidance only are not part of the contract (C03) *)
EffB(node, i) == LET b == DocB(node)[i] IN IF <<node, i>> \in TY!AdvisoryUpper THEN <<b[1], <<>>>> ELSE b

(* c: the sample as Dy numbers (alpha last if al = 1) *)
StandardWithin(node, t, al, c) ==
  /\ Len(c) = NComp(node) + al
  /\ \A i \in 1..NComp(node) : i = HueIdx(node) \/ InDoc(FxOfDy(c[i]), EffB(node, i), t)
  /\ (node \in HwbNodes => DyLe(DyAdd(c[2], c[3]), DyAdd(DyFromInt(1), BD!SumSlack(t))))   \* w + b <= 1
  /\ (al = 1 => DyLe(DyZero, c[Len(c)]) /\ DyLe(c[Len(c)], DyFromInt(1)))

(* uniform samples, a component stored as drawn (boxes, cylinder height, alpha): rand's float sampler returns
   low + r * scale with scale chosen so that the largest variate stays below `high` (`new`) or at most
   `high` (`new_inclusive`) IN FLOATING POINT, so no rounding slack is needed: closed interval, exactly.
   (The half-open upper end of `new` is rand's promise, not palette's; the closed interval is accepted for
   both constructors.) *)
DirectBetween(x, lo, hi) == DyLe(DyMin(lo, hi), x) /\ DyLe(x, DyMax(lo, hi))
RootedBetween(t, x, lo, hi) ==
  LET sl == DyMulPow2(DyMax(DyAbs(lo), DyAbs(hi)), -CoordBits(t))
  IN DyLe(DySub(DyMin(lo, hi), sl), x) /\ DyLe(x, DyAdd(DyMax(lo, hi), sl))

FxSeq(c) == [i \in DOMAIN c |-> FxOfDy(c[i])]

(* every non-hue component between the ends; c, lo, hi: Dy sequences of equal length; f: the frame (FramedNodes
   only) *)
UniformBetween(node, t, al, c, lo, hi, f) ==
  /\ Len(c) = NComp(node) + al /\ Len(lo) = Len(c) /\ Len(hi) = Len(c)
  /\ (al = 1 => DirectBetween(c[Len(c)], lo[Len(c)], hi[Len(c)]))
  /\ IF node \in FramedNodes
     THEN HeightBetween(t, f) /\ SatBetween(t, f)
     ELSE \A i \in 1..NComp(node) :
            \/ i = HueIdx(node)
            \/ IF <<node, i>> \in RootedComps THEN RootedBetween(t, c[i], lo[i], hi[i])
               ELSE DirectBetween(c[i], lo[i], hi[i])

(* the hue on the arc from low to high: (h - low) mod 360 <= high - low, with the rounding slack on both
   sides of the arc.  Equal ends: the end itself (an arc of length 0). *)
OnArc(t, h, lo, hi) ==
  LET e == HueTol(t)
  IN DyLe(HU!Mod360(DyAdd(DySub(h, lo), e)), DyAdd(DySub(hi, lo), DyMulInt(e, 2)))

-----------------------------------------------------------------------------
(* the verdict on one event, as the first clause that fails ("ok" if none).  Clauses about the hue come last,
   so that a hue defect does not hide what the other coordinates do. *)

DySeq(js) == [i \in DOMAIN js |-> Dy(js[i])]

(* dist: "standard" | "uniform"; al: 0/1; lo, hi, out: Dy sequences (lo = hi = <<>> for standard);
   VS: the candidate variate lists (sequences of Dy) *)
Verdict(dist, node, t, al, lo, hi, VS, out) ==
  LET hi_ == HueIdx(node)
      vol == node \in VolumeNodes
      x == Img(node, FxSeq(out))
      a == IF dist = "standard" THEN Bottom ELSE Img(node, FxSeq(lo))
      b == IF dist = "standard" THEN Top ELSE Img(node, FxSeq(hi))
      hlo == IF dist = "standard" THEN DyZero ELSE lo[hi_]
      hhi == IF dist = "standard" THEN D360 ELSE hi[hi_]
      huedom == hi_ # 0 /\ (dist = "standard" \/ HueDomain(hlo, hhi))
      f == Frame(node, t, x, a, b)
      (* the volume clause with the hue (without it for ends outside the hue domain), and the arc *)
      volumeOk == ~vol \/ (IF huedom THEN \E V \in VS : VolumeAll(t, f, out[hi_], hlo, hhi, V)
                                     ELSE \E V \in VS : VolumeNoHue(t, f, V))
      arcOk == ~(dist = "uniform" /\ huedom) \/ OnArc(t, out[hi_], hlo, hhi)
  IN IF dist = "standard" /\ ~StandardWithin(node, t, al, out) THEN "standard-out-of-bounds"
     ELSE IF dist = "uniform" /\ ~UniformBetween(node, t, al, out, lo, hi, f) THEN "uniform-component-outside-ends"
     ELSE IF volumeOk /\ arcOk THEN "ok"
     (* which clause failed: the ones about the hue are named last *)
     ELSE IF vol /\ ~(\E V \in VS : VolumeNoHue(t, f, V)) THEN "not-volume-uniform"
     ELSE IF ~arcOk THEN "uniform-hue-off-arc"
     ELSE "hue-not-uniform-on-arc"

-----------------------------------------------------------------------------
(* The machine.  A sampler has no state of its own (the generator is the caller's); `last` records the last
   event the model accepted.  One action per public operation, enabled iff the relations hold. *)
VARIABLE last
vars == <<last>>

Init == last = <<"none", "none">>

SampleStandard(node, t, al, VS, out) ==
  /\ node \in Nodes /\ t \in FloatTypes
  /\ Verdict("standard", node, t, al, <<>>, <<>>, VS, out) = "ok"
  /\ last' = <<"standard", node>>

(* incl = 0: Uniform::new (documented [low, high)), incl = 1: Uniform::new_inclusive ([low, high]) *)
SampleUniform(node, t, al, incl, lo, hi, VS, out) ==
  /\ node \in Nodes /\ t \in FloatTypes /\ incl \in {0, 1}
  /\ Verdict("uniform", node, t, al, lo, hi, VS, out) = "ok"
  /\ last' = <<"uniform", node>>

TypeOK == last[1] \in {"none", "standard", "uniform"} /\ last[2] \in Nodes \cup {"none"}
=============================================================================
