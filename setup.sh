#!/bin/sh
# Builds the harness once (offline) so that the per-check builds are incremental.
set -e
cd /verif/harness
[ -f Cargo.lock ] || cp /repo/Cargo.lock Cargo.lock
CARGO_NET_OFFLINE=true cargo build --release --offline 2>&1 | tail -3
