----------------------------- MODULE TraceGamut -----------------------------
(* Trace validation for C15: gamut-bounded cylindrical spaces stay inside the   *)
(* RGB gamut.                                                                  *)
(*   forward  S -> srgb : InBounds(S, c) => every sRGB component in [-tol, 1+tol] *)
(*   reverse  srgb -> S -> srgb : in-gamut rgb => S value within its bounds up to  *)
(*            the slack, and the round trip returns the same rgb                 *)
(* "tol" is the small tolerance of the statement: rounding only for the exact      *)
(* hexcone spaces; for the Ok* spaces and HSLuv it is the approximation error of    *)
(* the published constructions, fixed at about twice what the pinned tree shows    *)
(* (calibration in DESIGN.md C15: forward Okhsl 1.9e-3, Okhsv/Okhwb 6.4e-3, HSLuv    *)
(* 2.0e-3 of the encoded range; reverse Okhsl 4.3e-3, Okhsv 1.1e-2, Okhwb 9.7e-3,    *)
(* HSLuv 5.9e-4).                                                                 *)
EXTENDS ColourEq, Json, IOUtils, TLC

Rec == ndJsonDeserialize(IOEnv.TRACE)
VARIABLE l

Hexcone(S) == S \in {"hsl", "hsv", "hwb"}
RoundBits(t) == IF t = "f32" THEN 18 ELSE 40
FwdTol(S, t) == CASE Hexcone(S) -> FxEps(RoundBits(t))
                  [] S = "okhsl" -> FxRat(4, 1000)
                  [] S \in {"okhsv", "okhwb"} -> FxRat(13, 1000)
                  [] S = "hsluv" -> FxRat(4, 1000)
(* slack on the bounds of S, as a fraction of the component's range *)
RevSlack(S, t) == CASE Hexcone(S) -> FxEps(RoundBits(t))
                    [] S = "okhsl" -> FxRat(1, 100)
                    [] S \in {"okhsv", "okhwb"} -> FxRat(25, 1000)
                    [] S = "hsluv" -> FxRat(2, 1000)
RtBits(t) == IF t = "f32" THEN 13 ELSE 16

(* c strictly satisfies the documented bounds of S (the antecedent of the forward clause) *)
InBounds(S, vals) ==
  /\ \A i \in 1..NComp(S) :
       LET b == DocBounds[S][i] IN b[1] = NoB \/ (FxLe(DocFx(b[1]), FxOf(vals[i])) /\ FxLe(FxOf(vals[i]), DocFx(b[2])))
  /\ (S \in {"hwb", "okhwb"} => FxLe(FxAdd(FxOf(vals[2]), FxOf(vals[3])), FxOne))

(* HSL saturation is d / (1 - |2l - 1|): near black and white the divisor is small and the rounding of d is
   amplified by its reciprocal (f32: (1, 0.999066, 1) has saturation 1.000064), so its slack is divided by that span *)
HslSpan(vals) == FxMax(FxSub(FxOne, FxAbs(FxSub(FxMulInt(FxOf(vals[3]), 2), FxOne))), FxEps(16))
InBoundsSlack(S, t, vals) ==
  /\ \A i \in 1..NComp(S) :
       LET b == DocBounds[S][i]
           sl0 == FxMul(RevSlack(S, t), RangeOf(S, i))
           sl == IF S = "hsl" /\ i = 2 THEN FxDiv(sl0, HslSpan(vals)) ELSE sl0
       IN b[1] = NoB \/ FxBetween(FxOf(vals[i]), DocFx(b[1]), DocFx(b[2]), sl)
  /\ (S \in {"hwb", "okhwb"} => FxLe(FxAdd(FxOf(vals[2]), FxOf(vals[3])), FxAdd(FxOne, RevSlack(S, t))))

InGamut(rgb, tol) == \A i \in 1..3 : FxBetween(FxOf(rgb[i]), FxZero, FxOne, tol)

Why(e) ==
  IF e.ev # "walk" THEN "ok"
  ELSE IF e.panic = 1 THEN "panic"
  ELSE IF e.missing = 1 THEN "ok"
  ELSE IF \E i \in DOMAIN e.vals : ~AllFin(e.vals[i]) THEN "non-finite"
  ELSE IF e.tag = "fwd" THEN
         LET S == e.nodes[1]
         IN IF InBounds(S, e.vals[1]) /\ ~InGamut(e.vals[2], FwdTol(S, e.t)) THEN "leaves-rgb-gamut" ELSE "ok"
  ELSE (* "rev": srgb -> S -> srgb *)
       LET S == e.nodes[2]
       IN IF ~InGamut(e.vals[1], FxZero) THEN "ok"
          ELSE IF ~InBoundsSlack(S, e.t, e.vals[2]) THEN "in-gamut-rgb-maps-outside-bounds"
          ELSE IF \E i \in 1..3 : ~FxNear(FxOf(e.vals[1][i]), FxOf(e.vals[3][i]), RtBits(e.t), 100) THEN "round-trip-differs"
          ELSE "ok"

TInit == l = 1
TNext == /\ l <= Len(Rec)
         /\ LET w == Why(Rec[l]) IN IF w = "ok" THEN TRUE ELSE PrintT(<<"REJECT", l, w>>)
         /\ l' = l + 1
TSpec == TInit /\ [][TNext]_l
Consumed == TLCGet("stats").diameter = Len(Rec) + 1 \/ PrintT(<<"UNCONSUMED", TLCGet("stats").diameter>>)
=============================================================================
